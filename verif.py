#!/usr/bin/env python3
"""Driver of the /verif property-based-testing / fuzzing machinery for BioPP/bpp-core.

  python3 verif.py setup                      build library + every harness for the current tree
  python3 verif.py check <ID> --tier quick|thorough
  python3 verif.py check <ID> --replay <file>
  python3 verif.py mutant <patch> <ID> [...]  run the quick tier against a scratch copy with <patch> applied
  python3 verif.py baseline                   repository's own tests, guard off

Exit status of `check`: 0 held, 1 violation(s), 2 cannot build, 3 machinery inconsistent.
See DESIGN.md section 2.
"""
import argparse, concurrent.futures as cf, fcntl, glob, hashlib, json, os, re, shutil, subprocess, sys, tempfile, time

VERIF = os.path.dirname(os.path.abspath(__file__))
OUT = os.environ.get("VERIF_OUT", VERIF)   # where evidence and new replay files go (scratch dir for mutant runs)
REPO = os.environ.get("VERIF_REPO", "/repo")
CACHE = os.path.join(VERIF, ".cache")
NCPU = int(os.environ.get("VERIF_JOBS", 0)) or len(os.sched_getaffinity(0)) or 4   # honours taskset
CXX = "clang++"
GUARD = "BPP_CORE_VERIF"
SAN = ["-fsanitize=address,undefined", "-fno-sanitize-recover=undefined", "-fno-omit-frame-pointer"]
LIBFLAGS = ["-std=c++14", "-g", "-O1", "-D" + GUARD, "-fsanitize=fuzzer-no-link"] + SAN
HARFLAGS = ["-std=c++17", "-g", "-O1", "-D" + GUARD, "-Wno-deprecated-declarations"] + SAN
FUZFLAGS = ["-std=c++17", "-g", "-O1", "-D" + GUARD, "-fsanitize=fuzzer"] + SAN
ASAN_ENV = ("handle_segv=1:handle_abort=1:handle_sigfpe=1:detect_leaks=0:allocator_may_return_null=1:"
            "abort_on_error=0:print_summary=1:symbolize=1:detect_stack_use_after_return=0:max_allocation_size_mb=2048:malloc_context_size=5")
UBSAN_ENV = "print_stacktrace=1:halt_on_error=1"

PROPS = ["C%02d" % i for i in range(1, 21)]


def log(*a):
    print(*a, file=sys.stderr, flush=True)


# ----------------------------------------------------------------------------- hashing
_fh = {}


def fhash(path):
    h = _fh.get(path)
    if h is None:
        try:
            with open(path, "rb") as f:
                h = hashlib.sha1(f.read()).hexdigest()
        except OSError:
            h = "missing"
        _fh[path] = h
    return h


def builddir():
    tag = hashlib.sha1(os.path.abspath(REPO).encode()).hexdigest()[:10]
    d = os.path.join(CACHE, "b-" + tag)
    os.makedirs(os.path.join(d, "obj"), exist_ok=True)
    os.makedirs(os.path.join(d, "bin"), exist_ok=True)
    return d


class Lock:
    def __init__(self, path):
        self.path = path

    def __enter__(self):
        self.f = open(self.path, "w")
        fcntl.flock(self.f, fcntl.LOCK_EX)

    def __exit__(self, *a):
        fcntl.flock(self.f, fcntl.LOCK_UN)
        self.f.close()


def parse_deps(dfile):
    try:
        txt = open(dfile).read()
    except OSError:
        return None
    txt = txt.replace("\\\n", " ")
    parts = txt.split(":", 1)
    if len(parts) < 2:
        return None
    deps = [p for p in parts[1].split() if p]
    keep = []
    rp = os.path.abspath(REPO) + "/"
    for p in deps:
        ap = os.path.abspath(p)
        if ap.startswith(rp) or ap.startswith(VERIF + "/"):
            keep.append(ap)
    return keep


def signature(flags, deps):
    h = hashlib.sha1()
    h.update(" ".join(flags).encode())
    for d in sorted(set(deps)):
        h.update(os.path.relpath(d, "/").encode())
        h.update(fhash(d).encode())
    return h.hexdigest()


def compile_one(src, obj, flags, extra_inc=()):
    """Compile src -> obj unless an up-to-date object (by content signature of all deps) exists.
    returns (ok, rebuilt, stderr)."""
    dfile, sfile = obj + ".d", obj + ".sig"
    deps = parse_deps(dfile)
    if deps is not None and os.path.exists(obj) and os.path.exists(sfile):
        if src not in deps:
            deps.append(src)
        if open(sfile).read().strip() == signature(flags, deps):
            return True, False, ""
    cmd = [CXX] + flags + ["-I", os.path.join(REPO, "src")] + [x for i in extra_inc for x in ("-I", i)] + ["-MD", "-MF", dfile, "-c", src, "-o", obj]
    p = subprocess.run(cmd, capture_output=True, text=True)
    if p.returncode != 0:
        for f in (obj, sfile):
            if os.path.exists(f):
                os.remove(f)
        return False, True, p.stderr
    deps = parse_deps(dfile) or [src]
    if src not in deps:
        deps.append(src)
    with open(sfile, "w") as f:
        f.write(signature(flags, deps))
    return True, True, ""


def lib_sources():
    out = []
    for root, _, files in os.walk(os.path.join(REPO, "src", "Bpp")):
        if "/Graphics" in root:
            continue
        for fn in files:
            if fn.endswith(".cpp"):
                out.append(os.path.join(root, fn))
    return sorted(out)


def build_lib():
    """Sanitized static library from REPO's current working tree (incremental by content)."""
    bd = builddir()
    with Lock(os.path.join(bd, "lock.lib")):
        srcs = lib_sources()
        t0 = time.time()
        objs, jobs = [], []
        for s in srcs:
            rel = os.path.relpath(s, os.path.join(REPO, "src")).replace("/", "_")
            o = os.path.join(bd, "obj", rel[:-4] + ".o")
            objs.append(o)
            jobs.append((os.path.abspath(s), o))
        rebuilt = 0
        with cf.ThreadPoolExecutor(NCPU) as ex:
            res = list(ex.map(lambda j: compile_one(j[0], j[1], LIBFLAGS), jobs))
        for (s, o), (ok, rb, err) in zip(jobs, res):
            if not ok:
                log("BUILD-ERROR library file", s)
                log(err[-4000:])
                return None
            rebuilt += rb
        lib = os.path.join(bd, "libbpp_verif.a")
        # drop stale objects
        keep = set(objs)
        for f in glob.glob(os.path.join(bd, "obj", "*.o")):
            if f not in keep:
                for x in (f, f + ".d", f + ".sig"):
                    if os.path.exists(x):
                        os.remove(x)
                rebuilt += 1
        libsig = hashlib.sha1("".join(open(o + ".sig").read() for o in objs).encode()).hexdigest()
        sigf = lib + ".sig"
        if rebuilt or not os.path.exists(lib) or not os.path.exists(sigf) or open(sigf).read() != libsig:
            if os.path.exists(lib):
                os.remove(lib)
            p = subprocess.run(["ar", "rcs", lib] + objs, capture_output=True, text=True)
            if p.returncode != 0:
                log(p.stderr)
                return None
            open(sigf, "w").write(libsig)
            log("[build] library: %d/%d objects rebuilt in %.1fs" % (rebuilt, len(objs), time.time() - t0))
        return lib, libsig


def harness_source(pid):
    g = glob.glob(os.path.join(VERIF, "harness", pid.lower() + "_*.cpp"))
    return g[0] if g else None


def build_binary(src, name, flags, lib, libsig, libs=("-lrapidcheck",)):
    bd = builddir()
    with Lock(os.path.join(bd, "lock." + name)):
        obj = os.path.join(bd, "bin", name + ".o")
        t0 = time.time()
        ok, rb, err = compile_one(src, obj, flags, extra_inc=[os.path.join(VERIF, "harness")])
        if not ok:
            log("BUILD-ERROR harness", src)
            log(err[-6000:])
            return None
        exe = os.path.join(bd, "bin", name)
        sig = open(obj + ".sig").read() + libsig
        sigf = exe + ".sig"
        if rb or not os.path.exists(exe) or not os.path.exists(sigf) or open(sigf).read() != sig:
            link = [f for f in flags if f.startswith("-fsanitize") or f == "-g"]
            p = subprocess.run([CXX] + link + [obj, lib] + list(libs) + ["-o", exe], capture_output=True, text=True)
            if p.returncode != 0:
                log("LINK-ERROR", name)
                log(p.stderr[-4000:])
                return None
            open(sigf, "w").write(sig)
            log("[build] %s in %.1fs" % (name, time.time() - t0))
        return exe


def build_harness(pid):
    r = build_lib()
    if r is None:
        return None
    lib, libsig = r
    src = harness_source(pid)
    if not src:
        log("no harness source for", pid)
        return None
    return build_binary(src, pid.lower(), HARFLAGS, lib, libsig)


def build_harness_fz(pid):
    """Same harness, libFuzzer front end (coverage-guided choice streams)."""
    r = build_lib()
    if r is None:
        return None
    lib, libsig = r
    src = harness_source(pid)
    return build_binary(src, pid.lower() + "-fz", FUZFLAGS + ["-DVF_FUZZ", "-Wno-deprecated-declarations"], lib, libsig)


def bytes_to_case(law, data, dst):
    words = [int.from_bytes(data[i:i + 8].ljust(8, b"\0"), "little") for i in range(0, len(data), 8)]
    while words and words[-1] == 0:
        words.pop()
    with open(dst, "w") as f:
        f.write("law %s\nchoices %s\n# fail: found by the coverage-guided front end (libFuzzer artifact)\n" % (law, " ".join("%x" % w for w in words)))


def fz_job(job):
    exe, law, runs, seed, k, outdir, known_ids, maxlen = job
    d = os.path.join(outdir, "fz-%s-%d" % (law, k))
    os.makedirs(os.path.join(d, "corpus"))
    os.makedirs(os.path.join(d, "art"))
    e = env_for()
    e["ASAN_OPTIONS"] = ASAN_ENV.replace("handle_abort=1", "handle_abort=0")
    e.update(VF_LAW=law, VF_KNOWN=",".join(known_ids), VF_STATS=os.path.join(d, "stats.json"), VF_FAILFILE=os.path.join(d, "fail.case"))
    cmd = [exe, os.path.join(d, "corpus"), "-artifact_prefix=" + d + "/art/", "-max_len=%d" % maxlen, "-len_control=0", "-runs=%d" % runs, "-seed=%d" % (seed % (2 ** 31 - 2) + 1),
           "-timeout=120", "-rss_limit_mb=4096", "-use_value_profile=1", "-print_final_stats=1", "-close_fd_mask=1"]
    with open(os.path.join(d, "log.txt"), "w") as lf:
        try:
            rc = subprocess.run(cmd, stdout=lf, stderr=subprocess.STDOUT, env=e, timeout=4 * 3600).returncode
        except subprocess.TimeoutExpired:
            rc = -999
    st = None
    try:
        st = json.load(open(os.path.join(d, "stats.json")))
    except Exception:
        pass
    arts = [a for a in glob.glob(os.path.join(d, "art", "*")) if os.path.basename(a).startswith(("crash-", "timeout-"))]
    return dict(law=law, rc=rc, stats=st, fail=os.path.join(d, "fail.case"), arts=arts, log=os.path.join(d, "log.txt"))


# ----------------------------------------------------------------------------- known findings
def load_known():
    out = []
    for p in [os.path.join(VERIF, "known_findings.json")] + sorted(glob.glob(os.path.join(VERIF, "known_findings.d", "*.json"))):
        if os.path.exists(p):
            out += json.load(open(p)).get("findings", [])
    return out


def splitmix(x):
    x = (x + 0x9E3779B97F4A7C15) & 0xFFFFFFFFFFFFFFFF
    x = ((x ^ (x >> 30)) * 0xBF58476D1CE4E5B9) & 0xFFFFFFFFFFFFFFFF
    x = ((x ^ (x >> 27)) * 0x94D049BB133111EB) & 0xFFFFFFFFFFFFFFFF
    return x ^ (x >> 31)


def env_for(seed=None, n=None):
    e = dict(os.environ)
    e["ASAN_OPTIONS"] = ASAN_ENV
    e["UBSAN_OPTIONS"] = UBSAN_ENV
    e["ASAN_SYMBOLIZER_PATH"] = shutil.which("llvm-symbolizer") or shutil.which("llvm-symbolizer-14") or ""
    if seed is not None:
        e["RC_PARAMS"] = "seed=%d max_success=%d max_size=100 max_discard_ratio=100" % (seed, n)
    else:
        e.pop("RC_PARAMS", None)
    return e


def run_replay(exe, path, known_ids=(), timeout=120):
    """returns ('pass'|'fail'|'died'|'skipped', output)"""
    cmd = [exe, "--replay", path]
    if known_ids:
        cmd += ["--known", ",".join(known_ids)]
    try:
        p = subprocess.run(cmd, capture_output=True, text=True, env=env_for(), timeout=timeout, errors="replace")
    except subprocess.TimeoutExpired:
        return "died", "timeout after %ds" % timeout
    out = p.stdout + p.stderr
    if p.returncode == 0:
        return ("skipped" if "verdict: SKIPPED" in p.stdout else "pass"), out
    if p.returncode == 1 and "verdict: FAIL" in p.stdout:
        return "fail", out
    return "died", out


def run_job(job):
    exe, law, n, seed, shard, nshards, outdir, known_ids, timeout = job
    out = os.path.join(outdir, "%s-%d.json" % (law, shard))
    cmd = [exe, "--run", law, "--n", str(n), "--out", out, "--dir", outdir, "--shard", "%d/%d" % (shard, nshards)]
    if known_ids:
        cmd += ["--known", ",".join(known_ids)]
    t0 = time.time()
    logf = os.path.join(outdir, "%s-%d.log" % (law, shard))
    with open(logf, "w") as lf:
        try:
            p = subprocess.run(cmd, stdout=lf, stderr=subprocess.STDOUT, env=env_for(seed, n), timeout=timeout)
            rc = p.returncode
        except subprocess.TimeoutExpired:
            rc = -999
    return dict(law=law, shard=shard, rc=rc, out=out, log=logf, wall=time.time() - t0,
                crash=os.path.join(outdir, "%s-%d.crash.case" % (law, shard)),
                hang=os.path.join(outdir, "%s-%d.hang.case" % (law, shard)),
                fail=os.path.join(outdir, "%s-%d.fail.case" % (law, shard)))


def tail(path, n=40):
    try:
        return "".join(open(path, errors="replace").readlines()[-n:])
    except OSError:
        return ""


def save_replay(pid, srcfile, prefix):
    d = os.path.join(OUT, "replays", pid, "new")
    os.makedirs(d, exist_ok=True)
    data = open(srcfile).read()
    name = "%s-%s.case" % (prefix, hashlib.sha1(data.encode()).hexdigest()[:10])
    dst = os.path.join(d, name)
    open(dst, "w").write(data)
    return dst


def write_evidence(pid, tier, seed, cov, wall, violations, extra=None):
    os.makedirs(os.path.join(OUT, "evidence"), exist_ok=True)
    ev = dict(property_id=pid, tier=tier, seed=seed, level="exploration", coverage=cov,
              assumptions=(extra or {}).get("assumptions", []), wall_s=round(wall, 2), violations=violations)
    for k, v in (extra or {}).items():
        if k != "assumptions":
            ev[k] = v
    tmp = os.path.join(OUT, "evidence", pid + ".json.tmp")
    with open(tmp, "w") as f:
        json.dump(ev, f, indent=1)
    os.replace(tmp, os.path.join(OUT, "evidence", pid + ".json"))


ASSUME = {
    "_all": ["the sanitized static library built by verif.py from /repo's working tree (clang++ -O1, ASan+UBSan, -DBPP_CORE_VERIF) behaves like the shipped build",
             "reference implementations in harness/ are correct (self-written from the mathematical definitions; Boost.Math long double for special functions)",
             "held = no violation among the generated / enumerated cases; absence beyond the explored bounds is not established"],
}


def check(pid, tier, seed, replay=None, only_law=None, scale=1.0):
    t_start = time.time()
    if pid == "C16":
        import fuzzdrv
        return fuzzdrv.check(sys.modules[__name__], tier, seed, replay)
    exe = build_harness(pid)
    if exe is None:
        print("BUILD-FAILED property=%s (tree or harness does not compile)" % pid)
        return 2
    known = [k for k in load_known() if k.get("property") == pid]
    active = [k["id"] for k in known if k.get("status") == "known"]

    if replay:
        txt = open(replay).read()
        m = re.search(r"^shardrun seed=(\d+) n=(\d+) shard=(\d+)/(\d+)", txt, flags=re.M)
        if m:
            law = re.search(r"^law (\S+)", txt, flags=re.M).group(1)
            tmpd = tempfile.mkdtemp(prefix="replay-%s-" % pid, dir=CACHE)
            r = run_job((exe, law, int(m.group(2)), int(m.group(1)), int(m.group(3)), int(m.group(4)), tmpd, active, 7200))
            failed = r["rc"] != 0
            print(tail(r["log"], 30))
            shutil.rmtree(tmpd, ignore_errors=True)
            if failed:
                print("VIOLATION property=%s replay=%s" % (pid, replay))
                return 1
            return 0
        verdict, out = run_replay(exe, replay, active)
        print(out)
        if verdict in ("fail", "died"):
            print("VIOLATION property=%s replay=%s" % (pid, replay))
            return 1
        return 0

    desc = json.loads(subprocess.run([exe, "--list"], capture_output=True, text=True, env=env_for()).stdout)
    laws = [l for l in desc["laws"] if not only_law or l["name"] in only_law]
    violations = []   # (law, replay path, message)
    known_lines = []
    machinery_errors = []

    # ---- 1. known findings: replay the reproducers with exclusions OFF
    for k in known:
        if k.get("status") != "known":
            continue
        rp = os.path.join(VERIF, k["reproducer"])
        verdict, out = run_replay(exe, rp, ())
        if verdict in ("fail", "died"):
            known_lines.append("KNOWN-FINDING: property=%s %s [%s]" % (pid, k["what"], k["id"]))
        else:
            known_lines.append("NOTE: known finding %s of %s no longer reproduces (%s)" % (k["id"], pid, verdict))

    # ---- 2. regression tier: committed replay files (each must pass, or be skipped as known)
    replayed = 0
    rps = [rp for rp in sorted(glob.glob(os.path.join(VERIF, "replays", pid, "*.case")))
           if not any(os.path.join(VERIF, k.get("reproducer", "")) == rp for k in known if k.get("status") == "known")]
    with cf.ThreadPoolExecutor(NCPU) as ex:      # in parallel: on a tree where many of them hang each one costs its law's watchdog
        for rp, (verdict, out) in zip(rps, ex.map(lambda r: run_replay(exe, r, active), rps)):
            replayed += 1
            if verdict in ("fail", "died"):
                violations.append(("replay", rp, out.strip().splitlines()[-1] if out.strip() else verdict))

    # ---- 3. generation
    tmp = tempfile.mkdtemp(prefix="run-%s-" % pid, dir=os.path.join(CACHE))
    nshard_rc = 8 if tier == "quick" else 16
    jobs = []
    for l in laws:
        if l["kind"] == "enum":
            # for enum laws the quick/thorough fields are shard counts (the law must call shardPoint() to be sharded)
            ns = max(1, l["quick"] if tier == "quick" else l["thorough"])
            for k in range(ns):
                jobs.append((exe, l["name"], 0, 1, k, ns, tmp, active, 14400))
        else:
            total = int((l["quick"] if tier == "quick" else l["thorough"]) * scale)
            ns = min(nshard_rc, max(1, total // 200))
            per = max(1, total // ns)
            for k in range(ns):
                s = splitmix(seed ^ int(hashlib.sha1((pid + l["name"]).encode()).hexdigest()[:12], 16) ^ (k * 0x9E37)) % (2 ** 63)
                jobs.append((exe, l["name"], per, s, k, ns, tmp, active, 7200))
    # heavy laws first
    results = []
    jobmap = {(j[1], j[4]): j for j in jobs}
    with cf.ThreadPoolExecutor(NCPU) as ex:
        for r in ex.map(run_job, jobs):
            results.append(r)

    per_law = {}
    crashed_laws = set()
    for r in results:
        pl = per_law.setdefault(r["law"], dict(exhausted=0, evaluations=0, nontrivial=0, skipped_known=0, hashes=set(), labels={}, known_hits={}, worst={}, samples=[], capped=False, exhaustive=True, kind="rc", wall=0.0, nt_rule=""))
        st = None
        if os.path.exists(r["out"]):
            try:
                st = json.load(open(r["out"]))
            except Exception:
                st = None
        if st:
            pl["evaluations"] += st["evaluations"]
            pl["nontrivial"] += st["nontrivial"]
            pl["exhausted"] += st.get("exhausted", 0)
            pl["skipped_known"] += st["skipped_known"]
            pl["hashes"].update(st["nt_hashes"])
            pl["capped"] |= st["nt_capped"]
            pl["exhaustive"] &= st["exhaustive"]
            pl["kind"] = st["kind"]
            pl["nt_rule"] = st["nt_rule"]
            pl["wall"] = max(pl["wall"], st["wall_s"])
            for k2, v in st["labels"].items():
                pl["labels"][k2] = pl["labels"].get(k2, 0) + v
            for k2, v in st["known_hits"].items():
                pl["known_hits"][k2] = pl["known_hits"].get(k2, 0) + v
            for k2, v in st["worst"].items():
                pl["worst"][k2] = max(pl["worst"].get(k2, v), v)
            if len(pl["samples"]) < 6:
                pl["samples"] += st["samples"][:2] + st["samples"][-2:]
        else:
            pl["exhaustive"] = False
        lawinfo = next(l for l in laws if l["name"] == r["law"])
        if r["rc"] == 0:
            continue
        # something went wrong in this shard
        if os.path.exists(r["fail"]):
            rp = save_replay(pid, r["fail"], r["law"])
            oks = [run_replay(exe, rp, active)[0] for _ in range(3)]
            if all(o in ("fail", "died") for o in oks):
                msg = [ln[8:] for ln in open(rp).read().splitlines() if ln.startswith("# fail: ")]
                violations.append((r["law"], rp, " ".join(msg)[:600]))
            else:
                # the minimal case passes in a fresh process: the failure may depend on state left by earlier cases of the same
                # worker (static / global state in the library). Re-run the very same worker twice: if it fails again both times
                # the failure is a deterministic function of (law, seed, count, shard) and that run is the reproducible unit.
                j = jobmap[(r["law"], r["shard"])]
                sub = os.path.join(tmp, "rerun-%s-%d" % (r["law"], r["shard"]))
                again = []
                for t in range(2):
                    d2 = "%s-%d" % (sub, t)
                    os.makedirs(d2, exist_ok=True)
                    again.append(run_job(j[:6] + (d2,) + j[7:]))
                if all(a["rc"] == 1 and os.path.exists(a["fail"]) for a in again):
                    srp = os.path.join(OUT, "replays", pid, "new", "%s-shardrun-%d-%d.case" % (r["law"], j[3] % 100000, r["shard"]))
                    with open(srp, "w") as f:
                        f.write("law %s\nshardrun seed=%d n=%d shard=%d/%d\n# fail: fails only after the earlier cases of the same worker (state carried across cases); the minimal case alone passes\n" % (r["law"], j[3], j[2], j[4], j[5]))
                        f.write("".join("# " + ln + "\n" for ln in open(rp).read().splitlines() if ln.startswith("# ")))
                    violations.append((r["law"], srp, "history-dependent failure (reproduced by re-running the worker): " + " ".join(ln[8:] for ln in open(rp).read().splitlines() if ln.startswith("# fail: "))[:400]))
                else:
                    machinery_errors.append("FLAKY replay %s: %s" % (rp, oks))
        elif os.path.exists(r["crash"]) or os.path.exists(r["hang"]) or r["rc"] == -999:
            is_hang = not os.path.exists(r["crash"])
            src = r["crash"] if os.path.exists(r["crash"]) else r["hang"]
            if not os.path.exists(src):
                machinery_errors.append("shard %s/%d timed out without a dump" % (r["law"], r["shard"]))
                continue
            # minimise in fork mode, then confirm 3x
            small = src + ".min"
            if r["law"] in crashed_laws:
                continue        # one minimised crash per law is enough (fork-mode minimisation is expensive)
            crashed_laws.add(r["law"])
            hang_laws = [v for v in violations if v[2].startswith("hang")]   # after a first confirmed hang the others are minimised only briefly
            senv = env_for()
            senv["ASAN_OPTIONS"] = ASAN_ENV.replace("symbolize=1", "symbolize=0")
            senv["VF_SHRINK_HANG"] = "4"
            try:
                subprocess.run([exe, "--shrink", src, "--out", small] + (["--known", ",".join(active)] if active else []), env=senv, capture_output=True, timeout=(60 if hang_laws else 150) if is_hang else 900)
            except subprocess.TimeoutExpired:
                pass
            use = small if os.path.exists(small) and os.path.getsize(small) > 0 else src
            rp = save_replay(pid, use, r["law"] + ("-hang" if is_hang else "-crash"))
            with cf.ThreadPoolExecutor(3) as ex3:
                oks = [v[0] for v in ex3.map(lambda _: run_replay(exe, rp, active, timeout=lawinfo["hang_s"] * 3 + 90), range(3))]
            if all(o in ("fail", "died") for o in oks):
                if is_hang and not lawinfo["hang_is_violation"]:
                    machinery_errors.append("INCONCLUSIVE hang in law %s (termination is not part of this law): %s" % (r["law"], rp))
                else:
                    summ = [ln.strip() for ln in tail(r["log"], 200).splitlines() if "SUMMARY:" in ln or "runtime error:" in ln or "ERROR: AddressSanitizer" in ln]
                    violations.append((r["law"], rp, ("hang" if is_hang else "crash / sanitizer report") + ": " + " | ".join(summ[:3])[:500]))
            else:
                # retry with the unminimised dump
                rp2 = save_replay(pid, src, r["law"] + "-crashraw")
                with cf.ThreadPoolExecutor(3) as ex3:
                    oks2 = [v[0] for v in ex3.map(lambda _: run_replay(exe, rp2, active, timeout=lawinfo["hang_s"] * 3 + 90), range(3))]
                if all(o in ("fail", "died") for o in oks2):
                    violations.append((r["law"], rp2, "crash / sanitizer report (unminimised)"))
                else:
                    machinery_errors.append("FLAKY crash %s: %s %s" % (rp, oks, oks2))
        else:
            machinery_errors.append("shard %s/%d exited %s without a case file; log tail: %s" % (r["law"], r["shard"], r["rc"], tail(r["log"], 15)))

    # ---- 3b. coverage-guided front end (thorough tier, or VERIF_FZ=1): libFuzzer mutates the choice stream of every RC law
    fz_cov = {}
    if tier == "thorough" or os.environ.get("VERIF_FZ"):
        exe_fz = build_harness_fz(pid)
        if exe_fz is None:
            machinery_errors.append("coverage-guided front end does not build")
        else:
            fjobs = []
            for l in laws:
                if l["kind"] != "rc":
                    continue
                cnt = (l["thorough"] if tier == "thorough" else l["quick"]) * scale
                runs = int(min(2000000, max(min(20000, 10 * cnt), cnt / 4)))   # laws with few, expensive cases (statistical tests) get a proportionate campaign
                for k in range(2 if tier == "thorough" else 1):
                    sd = splitmix(seed ^ int(hashlib.sha1((pid + l["name"] + "fz").encode()).hexdigest()[:12], 16) ^ k)
                    fjobs.append((exe_fz, l["name"], runs, sd, k, tmp, active, max(64, l["len"] * 8)))
            with cf.ThreadPoolExecutor(NCPU) as ex:
                fres = list(ex.map(fz_job, fjobs))
            for r in fres:
                fc = fz_cov.setdefault(r["law"], dict(evaluations=0, nontrivial=0, hashes=set(), excluded_known=0))
                if r["stats"]:
                    fc["evaluations"] += r["stats"]["evaluations"]
                    fc["nontrivial"] += r["stats"]["nontrivial"]
                    fc["hashes"].update(r["stats"]["nt_hashes"])
                    fc["excluded_known"] += r["stats"]["skipped_known"]
                cand = None
                if os.path.exists(r["fail"]):
                    cand = save_replay(pid, r["fail"], r["law"] + "-fz")
                elif r["arts"]:
                    tmpc = r["arts"][0] + ".case"
                    bytes_to_case(r["law"], open(r["arts"][0], "rb").read(), tmpc)
                    cand = save_replay(pid, tmpc, r["law"] + "-fzcrash")
                elif r["rc"] != 0:
                    machinery_errors.append("coverage-guided job for %s exited %s: %s" % (r["law"], r["rc"], tail(r["log"], 6).replace("\n", " | ")[-300:]))
                if cand:
                    lawinfo = next(l for l in laws if l["name"] == r["law"])
                    oks = [run_replay(exe, cand, active, timeout=lawinfo["hang_s"] * 3 + 90)[0] for _ in range(3)]
                    if all(o in ("fail", "died") for o in oks):
                        msg = [ln[8:] for ln in open(cand).read().splitlines() if ln.startswith("# fail: ")]
                        violations.append((r["law"], cand, "(coverage-guided) " + " ".join(msg)[:500]))
                    elif not (os.path.basename(cand).startswith(r["law"] + "-fzcrash") and "timeout-" in r["arts"][0]):
                        machinery_errors.append("FLAKY coverage-guided case %s: %s" % (cand, oks))

    # ---- 4. evidence
    seen = set()
    uniq = []
    for v in violations:
        if (v[0], v[1]) not in seen:
            seen.add((v[0], v[1]))
            uniq.append(v)
    perlaw = {}
    violations = [v for v in uniq if perlaw.setdefault(v[0], []).append(1) or len(perlaw[v[0]]) <= 2]
    for name, fc in fz_cov.items():
        if name in per_law:
            per_law[name]["evaluations"] += fc["evaluations"]
            per_law[name]["nontrivial"] += fc["nontrivial"]
            per_law[name]["hashes"].update(fc["hashes"])
            per_law[name]["skipped_known"] += fc["excluded_known"]
            per_law[name]["fz_evaluations"] = fc["evaluations"]
    evals = sum(p["evaluations"] for p in per_law.values())
    dn = sum(len(p["hashes"]) for p in per_law.values())
    samples = []
    for name, p in per_law.items():
        for s in p["samples"][:3]:
            samples.append({"law": name, "case": s})
    lawcov = {}
    for name, p in per_law.items():
        lawcov[name] = dict(kind=p["kind"], evaluations=p["evaluations"], nontrivial=p["nontrivial"], distinct_nontrivial=len(p["hashes"]),
                            distinct_capped=p["capped"], excluded_known=p["skipped_known"], excluded_by_finding=p["known_hits"],
                            exhaustive=bool(p["kind"] == "enum" and p["exhaustive"]), coverage_guided_evaluations=p.get("fz_evaluations", 0), choice_stream_exhausted=p["exhausted"], classes=p["labels"], worst_observed=p["worst"], nontrivial_rule=p["nt_rule"])
    rule = ("cases are decoded from rapidcheck-generated 64-bit choice vectors (kind rc, shrinkable) or from the complete draw tree (kind enum); "
            "a case is non-trivial by the per-law rule listed under laws.<law>.nontrivial_rule; distinct = distinct FNV-1a hash of the full textual case description, "
            "counted exactly per law up to 250000 per worker (beyond that not counted: lower bound)")
    cov = dict(evaluations=evals, distinct_nontrivial=dn, rule=rule, samples=samples[:40] or ["(no case)"], laws=lawcov,
               exhaustive=False, replayed_regression_cases=replayed,
               excluded_known=sum(p["skipped_known"] for p in per_law.values()))
    extra = dict(assumptions=ASSUME["_all"], engine="rapidcheck + bounded-exhaustive enumerator (harness/%s)" % os.path.basename(harness_source(pid)),
                 known_findings=[k["id"] for k in known if k.get("status") == "known"], machinery_errors=machinery_errors,
                 violation_list=[dict(law=v[0], replay=os.path.relpath(v[1], OUT), message=v[2]) for v in violations])
    write_evidence(pid, tier, seed, cov, time.time() - t_start, len(violations), extra)
    shutil.rmtree(tmp, ignore_errors=True)

    for ln in known_lines:
        print(ln)
    for law, rp, msg in violations:
        print("VIOLATION property=%s replay=%s law=%s :: %s" % (pid, os.path.relpath(rp, OUT) if OUT == VERIF else rp, law, msg[:400]))
    for m in machinery_errors:
        print("MACHINERY: " + m)
    for name, p in per_law.items():
        if p["kind"] == "rc" and p["evaluations"] and p["exhausted"] > 0.02 * p["evaluations"]:
            print("NOTE: law %s asked for more choices than generated in %d of %d cases (raise its choicesPerCase)" % (name, p["exhausted"], p["evaluations"]))
    print("%s %s: %d cases, %d distinct non-trivial, %d laws, %d excluded as known, %.1fs" % (pid, tier, evals, dn, len(per_law), cov["excluded_known"], time.time() - t_start))
    if violations:
        return 1
    if any(not m.startswith("INCONCLUSIVE") for m in machinery_errors):
        return 3
    return 0


# ----------------------------------------------------------------------------- baseline / setup / mutants
def baseline(repo=None):
    repo = repo or REPO
    bdir = os.path.join(CACHE, "baseline-" + hashlib.sha1(os.path.abspath(repo).encode()).hexdigest()[:8])
    os.makedirs(CACHE, exist_ok=True)
    cmds = [["cmake", "-G", "Ninja", "-S", repo, "-B", bdir, "-DCMAKE_BUILD_TYPE=Release"],
            ["cmake", "--build", bdir, "-j", str(NCPU)],
            ["ctest", "--test-dir", bdir, "-j8", "--timeout", "900"]]
    for c in cmds:
        p = subprocess.run(c, capture_output=True, text=True)
        if p.returncode != 0:
            print(p.stdout[-3000:], p.stderr[-3000:])
            print("BASELINE-FAILED at", " ".join(c))
            return 1
    print(p.stdout[-600:])
    return 0


def setup():
    os.makedirs(CACHE, exist_ok=True)
    r = build_lib()
    if r is None:
        return 2
    bad = 0
    pids = [p for p in PROPS if harness_source(p)]
    with cf.ThreadPoolExecutor(NCPU) as ex:
        for pid, exe in zip(pids, ex.map(build_harness, pids)):
            if exe is None:
                bad += 1
    if os.path.exists(os.path.join(VERIF, "fuzzdrv.py")):
        import fuzzdrv
        bad += fuzzdrv.setup(sys.modules[__name__])
    return 2 if bad else 0


def mutant(patch, pids, tier="quick", seed=1, with_tests=False):
    """Apply <patch> to a scratch copy of REPO, run the given checks against it, remove the copy."""
    global REPO
    scratch = tempfile.mkdtemp(prefix="bppverif-")
    try:
        subprocess.run(["rsync", "-a", "--exclude", "_build", "--exclude", ".git", REPO + "/", scratch + "/"], check=True)
        p = subprocess.run(["patch", "-p1", "-d", scratch, "-i", os.path.abspath(patch)], capture_output=True, text=True)
        if p.returncode != 0:
            print("PATCH-FAILED", p.stdout, p.stderr)
            return 4
        rcs = {}
        if with_tests:
            rcs["tests"] = baseline(scratch)
        for pid in pids:
            cmd = [sys.executable, os.path.join(VERIF, "verif.py"), "check", pid, "--tier", tier]
            e = dict(os.environ, VERIF_REPO=scratch, VERIF_SEED=str(seed), VERIF_OUT=os.path.join(scratch, "verif-out"))
            q = subprocess.run(cmd, capture_output=True, text=True, env=e)
            rcs[pid] = q.returncode
            print("---- %s on mutant %s: exit %d" % (pid, os.path.basename(patch), q.returncode))
            print("\n".join(l for l in q.stdout.splitlines() if l.startswith(("VIOLATION", "KNOWN", "MACHINERY", "BUILD", pid))))
        return rcs
    finally:
        shutil.rmtree(scratch, ignore_errors=True)
        bd = os.path.join(CACHE, "b-" + hashlib.sha1(os.path.abspath(scratch).encode()).hexdigest()[:10])
        shutil.rmtree(bd, ignore_errors=True)
        shutil.rmtree(os.path.join(CACHE, "baseline-" + hashlib.sha1(os.path.abspath(scratch).encode()).hexdigest()[:8]), ignore_errors=True)


def main():
    ap = argparse.ArgumentParser()
    sub = ap.add_subparsers(dest="cmd")
    sub.add_parser("setup")
    sub.add_parser("baseline")
    c = sub.add_parser("check")
    c.add_argument("pid")
    c.add_argument("--tier", default=os.environ.get("VERIF_TIER", "quick"))
    c.add_argument("--replay")
    c.add_argument("--law", action="append")
    c.add_argument("--scale", type=float, default=1.0)
    m = sub.add_parser("mutant")
    m.add_argument("patch")
    m.add_argument("pids", nargs="+")
    m.add_argument("--tests", action="store_true")
    a = ap.parse_args()
    seed = int(os.environ.get("VERIF_SEED", "1") or 1)
    os.makedirs(CACHE, exist_ok=True)
    if a.cmd == "setup":
        sys.exit(setup())
    if a.cmd == "baseline":
        sys.exit(baseline())
    if a.cmd == "check":
        tier = a.tier if a.tier in ("quick", "thorough") else "quick"
        sys.exit(check(a.pid, tier, seed, a.replay, a.law, a.scale))
    if a.cmd == "mutant":
        r = mutant(a.patch, a.pids, seed=seed, with_tests=a.tests)
        print(json.dumps(r))
        sys.exit(0)
    ap.print_help()
    sys.exit(4)


if __name__ == "__main__":
    main()
