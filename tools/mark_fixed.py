#!/usr/bin/env python3
"""mark_fixed.py CNN id=commit-subject-substring ...   moves entries from known_findings.d/CNN.json to known_findings.json as fixed."""
import json, os, subprocess, sys
V = os.path.dirname(os.path.dirname(os.path.abspath(__file__)))
pid = sys.argv[1]
log = subprocess.run(['git', '-C', '/repo', 'log', '--format=%h %s'], capture_output=True, text=True).stdout.splitlines()
m = dict(a.split('=', 1) for a in sys.argv[2:])
path = os.path.join(V, 'known_findings.d', pid + '.json')
d = json.load(open(path)); kf = json.load(open(os.path.join(V, 'known_findings.json'))); rest = []
for f in d['findings']:
    if f['id'] in m:
        l = [x for x in log if m[f['id']] in x]
        assert l, (f['id'], m[f['id']])
        c = l[0].split()[0]
        e = {'status': 'fixed', 'property': pid, 'id': f['id'], 'commit': c, 'what': f['what'], 'law': f.get('law', '')}
        e['line'] = 'fixed: property=%s %s %s' % (pid, c, f['what'])
        kf['findings'].append(e)
        src = os.path.join(V, f['reproducer']); dst = src.replace('known-', 'fixed-')
        if os.path.exists(src): os.rename(src, dst)
        print('fixed', f['id'], c)
    else:
        rest.append(f)
json.dump(kf, open(os.path.join(V, 'known_findings.json'), 'w'), indent=1)
if rest: json.dump({'findings': rest}, open(path, 'w'), indent=1)
else: os.remove(path)
print('remaining known:', [f['id'] for f in rest])
