#!/usr/bin/env python3
"""Writes seeded/SUMMARY.md from seeded/*/meta.json."""
import glob, json, os
V = os.path.dirname(os.path.dirname(os.path.abspath(__file__)))
rows = []
for m in sorted(glob.glob(os.path.join(V, "seeded", "*", "meta.json"))):
    d = json.load(open(m))
    sid = os.path.basename(os.path.dirname(m))
    caught = '"%s": 1' % d["property"] in d.get("check_result", "")
    laws = ""
    cl = os.path.join(os.path.dirname(m), "check.log")
    if os.path.exists(cl):
        import re
        laws = ", ".join(sorted(set(re.findall(r"law=(\w+)", open(cl, errors="replace").read())) | set(re.findall(r"target=(\w+)", open(cl, errors="replace").read()))))
    first = d.get("what_it_needs", "").strip().splitlines()
    rows.append((sid, "yes" if d.get("claim_confirmed") else "NO", d.get("final_status") or ("caught" if caught else "MISSED"), laws[:70], d.get("summary", (first[0] if first else ""))[:140].replace("|", "/")))
with open(os.path.join(V, "seeded", "SUMMARY.md"), "w") as f:
    f.write("# Independently seeded breaking changes (written by sub-agents that saw only the property text)\n\n")
    f.write("claim confirmed = with the change the repository's 20 tests pass and the author's demo fails, without it the demo passes (re-run by tools/eval_seed.sh).\n")
    f.write("result = outcome of `python3 verif.py mutant seeded/<id>/patch.diff <property>` (quick tier). Entries marked `caught after strengthening` were missed first; DESIGN.md 0.4 says what was changed.\n\n")
    f.write("| seed | claim confirmed | result | violated laws | what it needs |\n|---|---|---|---|---|\n")
    for r in rows:
        f.write("| %s | %s | %s | %s | %s |\n" % r)
    f.write("\n%d seeds, %d caught.\n" % (len(rows), sum(1 for r in rows if r[2].startswith("caught"))))
print(open(os.path.join(V, "seeded", "SUMMARY.md")).read())
