#!/bin/bash
# usage: eval_seed.sh CNN k     (uses the seeding worktree /tmp/seed-CNN with its _build and /tmp/seed-CNN-out/{change,demo,meta}k.*)
# 1. confirms the claim: with the change the project's tests pass and the demo FAILs; without it the demo PASSes
# 2. runs the /verif quick check of CNN against a scratch copy with the change (verif.py mutant)
# 3. stores everything as /verif/seeded/CNN-k/
P=$1; K=$2; W=/tmp/seed-$P; O=/tmp/seed-$P-out; D=/verif/seeded/$P-$K
set -u
mkdir -p $D
cd $W || exit 2
git checkout -q -- . ; git apply $O/change$K.diff || { echo "APPLY-FAILED"; exit 2; }
cmake --build $W/_build -j8 > $D/build_with.log 2>&1 || { echo "BUILD-FAILED with change"; git checkout -q -- .; exit 2; }
ctest --test-dir $W/_build -j8 > $D/ctest_with.log 2>&1; TESTS_WITH=$?
LIB=$(ls $W/_build/src/libbpp-core*.so | head -1)
g++ -std=c++14 -I$W/src $O/demo$K.cpp -L$W/_build/src -lbpp-core3 -Wl,-rpath,$W/_build/src -o $D/demo_with > $D/demo_build.log 2>&1
$D/demo_with > $D/demo_with.out 2>&1; DEMO_WITH=$?
git checkout -q -- .
cmake --build $W/_build -j8 > $D/build_without.log 2>&1
g++ -std=c++14 -I$W/src $O/demo$K.cpp -L$W/_build/src -lbpp-core3 -Wl,-rpath,$W/_build/src -o $D/demo_without >> $D/demo_build.log 2>&1
$D/demo_without > $D/demo_without.out 2>&1; DEMO_WITHOUT=$?
rm -f $D/demo_with $D/demo_without
cp $O/change$K.diff $D/patch.diff; cp $O/demo$K.cpp $D/demo.cpp; cp $O/meta$K.txt $D/meta_from_author.txt
cd /verif
python3 verif.py mutant $D/patch.diff $P > $D/check.log 2>&1
CHK=$(grep -a "^{" $D/check.log | tail -1)
NV=$(grep -ac "^VIOLATION" $D/check.log)
python3 - <<EOF
import json
json.dump({"property":"$P","seed":"$P-$K","tests_pass_with_change":$TESTS_WITH==0,"demo_exit_with_change":$DEMO_WITH,"demo_exit_without_change":$DEMO_WITHOUT,
 "claim_confirmed": ($TESTS_WITH==0 and $DEMO_WITH!=0 and $DEMO_WITHOUT==0),
 "check_result":'''$CHK''',"violation_lines":$NV,
 "what_it_needs":open("$O/meta$K.txt").read()[:3000],
 "ran":["git apply change$K.diff in scratch worktree; cmake --build; ctest (all 20 tests)","demo built against changed and unchanged library","python3 verif.py mutant patch.diff $P (quick tier on a scratch copy with the change)"]},
 open("$D/meta.json","w"),indent=1)
EOF
echo "$P-$K tests_with=$TESTS_WITH demo_with=$DEMO_WITH demo_without=$DEMO_WITHOUT check=$CHK violations=$NV"
grep -a "^VIOLATION" $D/check.log | head -2 | cut -c1-260
