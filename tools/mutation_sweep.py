#!/usr/bin/env python3
"""Systematic sensitivity sweep: random single-site mutants of the files a property is anchored in.

For every sampled mutant (one token-level edit: relational / arithmetic / logical operator flip, off-by-one constant,
negated condition, deleted statement, true<->false) on a persistent scratch copy of /repo ("lane"):
  1. the library's own tests are rebuilt incrementally and run (cmake/ninja + ctest): a mutant that does not compile is
     'stillborn', one that fails the 20 tests is 'tests' (the suite already sees it) - neither says anything about /verif;
  2. otherwise the property's quick check runs against the lane (VERIF_REPO): exit 1 with a VIOLATION line = 'killed',
     exit 0 = 'SURVIVED' (equivalent mutant, a change outside the property, or a gap: to be triaged by hand).
Results are appended to mutants/sweep/<PID>.jsonl (one line per mutant, with the diff) and summarised in mutants/SWEEP.md.

usage: mutation_sweep.py [--n 12] [--lanes 4] [--seed 1] CNN [CNN ...]
Lanes live under /tmp/msweep (removed with --clean). Nothing here is used by the registered checks.
"""
import argparse, concurrent.futures as cf, difflib, glob, hashlib, json, os, random, re, shutil, subprocess, sys, threading, time

V = os.path.dirname(os.path.dirname(os.path.abspath(__file__)))
REPO = os.environ.get("VERIF_REPO", "/repo")
ROOT = "/tmp/msweep"

REL = [(r" <= ", " < "), (r" < ", " <= "), (r" >= ", " > "), (r" > ", " >= "), (r" == ", " != "), (r" != ", " == ")]
ARI = [(r" \+ ", " - "), (r" - ", " + "), (r" \* ", " / ")]
LOG = [(r" && ", " || "), (r" \|\| ", " && ")]
CST = [(r" \+ 1\b", ""), (r" - 1\b", ""), (r"\btrue\b", "false"), (r"\bfalse\b", "true"), (r"\+\+", "--"), (r" \+= ", " -= "), (r" -= ", " += ")]


def props():
    out = {}
    for l in open(os.path.join(V, "properties.jsonl")):
        d = json.loads(l)
        out[d["id"]] = d
    return out


def windows(p):
    """file -> list of (lo, hi) line windows from the anchors' 'where' strings (widened: the pinned line numbers have moved)"""
    w = {}
    for m in p["anchors"].get("mechanism", []) + p["anchors"].get("state", []):
        for part in m.get("where", "").split(";"):
            mm = re.match(r"\s*(src/\S+?):(.*)", part)
            if not mm:
                continue
            f = mm.group(1)
            for a, b in re.findall(r"(?<![A-Za-z\d])(\d+)(?:-(\d+))?(?![A-Za-z\d])", mm.group(2)):
                lo, hi = int(a), int(b or a)
                if hi < lo or lo < 5:
                    continue
                w.setdefault(f, []).append((lo, hi))
    # the anchors give line numbers of the pinned tree: map them to the current tree through a line diff
    base = subprocess.run(["git", "-C", REPO, "rev-parse", "20a4e1e~1"], capture_output=True, text=True).stdout.strip()
    out = {}
    for f, ws in w.items():
        o = subprocess.run(["git", "-C", REPO, "show", "%s:%s" % (base, f)], capture_output=True, text=True)
        try:
            cur = open(os.path.join(REPO, f)).read().split("\n")
        except OSError:
            continue
        if o.returncode != 0:
            out[f] = [(lo - 30, hi + 120) for lo, hi in ws]
            continue
        oldl = o.stdout.split("\n")
        mp = {}
        for tag, i1, i2, j1, j2 in difflib.SequenceMatcher(None, oldl, cur, autojunk=False).get_opcodes():
            for k in range(i1, i2):
                mp[k] = j1 + (k - i1 if tag == "equal" else min(k - i1, max(0, j2 - j1 - 1)))
            if tag in ("replace", "delete"):
                for k in range(i1, i2):
                    mp[k] = (j1 + min(k - i1, max(0, j2 - j1 - 1)), j2)[0]
        res = []
        for lo, hi in ws:
            a = mp.get(max(0, lo - 1), lo - 1)
            b = mp.get(min(len(oldl) - 1, hi - 1), hi - 1)
            # a replaced region may have grown: extend to the end of the hunk that contains the last line
            res.append((a + 1 - 3, b + 1 + 25))
        out[f] = res
    return out


def code_line(l):
    s = l.strip()
    if not s or s.startswith(("//", "*", "/*", "#", "@")):
        return False
    if "Exception" in s or "throw" in s or "assert" in s or '"' in s or "template" in s or "static_cast" in s:
        return False
    if not l.startswith("  "):
        return False
    return True


def sites(path, wins):
    """all (lineno, kind, new line) candidates of one file"""
    try:
        lines = open(path).read().split("\n")
    except OSError:
        return []
    out = []
    for i, l in enumerate(lines):
        if wins and not any(lo <= i + 1 <= hi for lo, hi in wins):
            continue
        if not code_line(l):
            continue
        code = l.split("//")[0]
        if "/*" in code:
            continue
        for kind, table in (("rel", REL), ("ari", ARI), ("log", LOG), ("cst", CST)):
            for pat, rep in table:
                for m in re.finditer(pat, code):
                    out.append((i, kind, code[:m.start()] + rep + code[m.end():]))
        m = re.match(r"^(\s*)(else )?if \((.*)\)\s*$", code)
        if m and m.group(3).count("(") == m.group(3).count(")"):
            out.append((i, "neg", "%s%sif (!(%s))" % (m.group(1), m.group(2) or "", m.group(3))))
        s = code.strip()
        if s.endswith(";") and not re.match(r"^(return|break|continue|delete|using|typedef|case|default|else|do|goto)\b", s) and \
           not re.match(r"^(const |unsigned |static |std::|vector|double |int |size_t |bool |string |auto |long |short |float |char |unique_ptr|shared_ptr|typename |[A-Z]\w*(<[^;=]*>)?[ \*&]+\w+\s*(=|;|\())", s) and \
           ("(" in s or "=" in s) and not s.startswith(("}", "{")) and code.count("(") == code.count(")"):
            out.append((i, "del", code[:len(code) - len(code.lstrip())] + ";"))
    return out


class Lane:
    def __init__(self, k, jobs):
        self.k, self.jobs = k, jobs
        self.dir = os.path.join(ROOT, "lane-%d" % k)
        self.repo = os.path.join(self.dir, "repo")
        self.tests = os.path.join(self.dir, "_tests")
        self.out = os.path.join(self.dir, "out")

    def prepare(self):
        os.makedirs(self.dir, exist_ok=True)
        subprocess.run(["rsync", "-a", "--delete", "--exclude", "_build", "--exclude", ".git", REPO + "/", self.repo + "/"], check=True)
        if not os.path.exists(os.path.join(self.tests, "build.ninja")):
            subprocess.run(["cmake", "-G", "Ninja", "-S", self.repo, "-B", self.tests, "-DCMAKE_BUILD_TYPE=Release"], capture_output=True)
        p = subprocess.run(["cmake", "--build", self.tests, "-j", str(self.jobs)], capture_output=True, text=True)
        if p.returncode != 0:
            raise RuntimeError("lane %d: clean build failed\n%s" % (self.k, p.stdout[-2000:]))

    def env(self):
        return dict(os.environ, VERIF_REPO=self.repo, VERIF_OUT=self.out, VERIF_JOBS=str(self.jobs), VERIF_SEED="1")

    def run(self, pid, rel, lineno, new):
        path = os.path.join(self.repo, rel)
        orig = open(path).read()
        lines = orig.split("\n")
        old = lines[lineno]
        lines[lineno] = new
        res = {"file": rel, "line": lineno + 1, "old": old.strip(), "new": new.strip()}
        t0 = time.time()
        try:
            open(path, "w").write("\n".join(lines))
            b = subprocess.run(["cmake", "--build", self.tests, "-j", str(self.jobs)], capture_output=True, text=True)
            if b.returncode != 0:
                res["result"] = "stillborn"
                return res
            try:
                t = subprocess.run(["ctest", "--test-dir", self.tests, "-j", str(self.jobs), "--timeout", "120"], capture_output=True, text=True, timeout=900)
                failed = t.returncode != 0
            except subprocess.TimeoutExpired:
                failed = True
            if failed:
                res["result"] = "tests"
                return res
            shutil.rmtree(self.out, ignore_errors=True)
            try:
                q = subprocess.run([sys.executable, os.path.join(V, "verif.py"), "check", pid], capture_output=True, text=True, env=self.env(), timeout=2400)
            except subprocess.TimeoutExpired:
                res["result"] = "check-timeout"
                return res
            laws = sorted(set(re.findall(r"law=(\w+)", q.stdout)) | set(re.findall(r"target=(\w+)", q.stdout)))
            res["laws"] = laws[:8]
            res["result"] = {0: "SURVIVED", 1: "killed"}.get(q.returncode, "machinery-%d" % q.returncode)
            if q.returncode not in (0, 1):
                res["tail"] = q.stdout[-600:]
            return res
        finally:
            open(path, "w").write(orig)
            res["seconds"] = round(time.time() - t0)


def main():
    ap = argparse.ArgumentParser()
    ap.add_argument("pids", nargs="*")
    ap.add_argument("--n", type=int, default=12)
    ap.add_argument("--lanes", type=int, default=4)
    ap.add_argument("--seed", type=int, default=1)
    ap.add_argument("--clean", action="store_true")
    ap.add_argument("--summary", action="store_true")
    ap.add_argument("--rerun-survivors", action="store_true", help="run the SURVIVED rows of the given properties again (after a harness change) and update them")
    a = ap.parse_args()
    if a.clean:
        for d in glob.glob(os.path.join(ROOT, "lane-*")):
            h = hashlib.sha1(os.path.abspath(os.path.join(d, "repo")).encode()).hexdigest()[:10]
            shutil.rmtree(os.path.join(V, ".cache", "b-" + h), ignore_errors=True)
        shutil.rmtree(ROOT, ignore_errors=True)
        return 0
    sw = os.path.join(V, "mutants", "sweep")
    os.makedirs(sw, exist_ok=True)
    if not a.summary:
        P = props()
        jobs = max(2, len(os.sched_getaffinity(0)) // a.lanes)
        lanes = [Lane(k, jobs) for k in range(a.lanes)]
        with cf.ThreadPoolExecutor(a.lanes) as ex:
            list(ex.map(lambda l: l.prepare(), lanes))
        work = []
        if a.rerun_survivors:
            for pid in a.pids:
                lp = os.path.join(sw, pid + ".jsonl")
                rows = [json.loads(l) for l in open(lp)]
                keep = [r for r in rows if r["result"] != "SURVIVED"]
                with open(lp, "w") as fh:
                    for r in keep:
                        fh.write(json.dumps(r) + "\n")
                for r in rows:
                    if r["result"] == "SURVIVED":
                        cur = open(os.path.join(REPO, r["file"])).read().split("\n")
                        cand = [i for i, l in enumerate(cur) if l.strip() == r["old"]]
                        if not cand:
                            print("site gone:", pid, r["file"], r["old"][:60]); continue
                        i = min(cand, key=lambda k: abs(k - (r["line"] - 1)))
                        indent = cur[i][:len(cur[i]) - len(cur[i].lstrip())]
                        work.append((pid, r["file"], i, r["kind"], indent + r["new"]))
            a.pids = []
        for pid in a.pids:
            rng = random.Random(a.seed * 1000 + int(pid[1:]))
            w = windows(P[pid])
            cand = []
            for f in P[pid]["anchors"]["files"]:
                if not f.endswith((".h", ".cpp")):
                    continue
                for (i, kind, new) in sites(os.path.join(REPO, f), w.get(f)):
                    cand.append((f, i, kind, new))
            rng.shuffle(cand)
            done = set()
            lp = os.path.join(sw, pid + ".jsonl")
            if os.path.exists(lp):
                for l in open(lp):
                    d = json.loads(l)
                    done.add((d["file"], d["old"], d["new"]))
            picked, per_kind = [], {}
            for f, i, kind, new in cand:
                if len(picked) >= a.n:
                    break
                if per_kind.get(kind, 0) >= max(2, a.n // 3):
                    continue
                old = open(os.path.join(REPO, f)).read().split("\n")[i]
                if (f, old.strip(), new.strip()) in done:
                    continue
                per_kind[kind] = per_kind.get(kind, 0) + 1
                picked.append((pid, f, i, kind, new))
            print("%s: %d candidate sites, %d picked" % (pid, len(cand), len(picked)), flush=True)
            work += picked
        q = list(work)
        lock = threading.Lock()

        def worker(lane):
            while True:
                with lock:
                    if not q:
                        return
                    pid, f, i, kind, new = q.pop(0)
                r = lane.run(pid, f, i, new)
                r.update(property=pid, kind=kind)
                with lock:
                    with open(os.path.join(sw, pid + ".jsonl"), "a") as fh:
                        fh.write(json.dumps(r) + "\n")
                    print("%s %-9s %s:%d  %s  ->  %s  [%s] %ss" % (pid, r["result"], f.split("/")[-1], r["line"], r["old"][:60], r["new"][:60], ",".join(r.get("laws", []))[:60], r["seconds"]), flush=True)
        with cf.ThreadPoolExecutor(a.lanes) as ex:
            list(ex.map(worker, lanes))
    # summary
    rows = []
    for lp in sorted(glob.glob(os.path.join(sw, "C*.jsonl"))):
        pid = os.path.basename(lp)[:-6]
        c = {}
        surv = []
        for l in open(lp):
            d = json.loads(l)
            c[d["result"]] = c.get(d["result"], 0) + 1
            if d["result"] == "SURVIVED":
                surv.append(d)
        rows.append((pid, c, surv))
    with open(os.path.join(V, "mutants", "SWEEP.md"), "w") as f:
        f.write("# Random single-site mutants (tools/mutation_sweep.py)\n\n")
        f.write("stillborn = does not compile; tests = the repository's 20 tests already fail; killed = the property's quick check exits 1 with a VIOLATION;\n")
        f.write("SURVIVED = quick check exits 0 (triage in the last column: equivalent / outside the property / gap closed by ...).\n\n")
        f.write("| property | killed | SURVIVED | tests | stillborn | other |\n|---|---|---|---|---|---|\n")
        for pid, c, surv in rows:
            other = sum(v for k, v in c.items() if k not in ("killed", "SURVIVED", "tests", "stillborn"))
            f.write("| %s | %d | %d | %d | %d | %d |\n" % (pid, c.get("killed", 0), c.get("SURVIVED", 0), c.get("tests", 0), c.get("stillborn", 0), other))
        f.write("\n## Survivors\n\n| property | site | change | triage |\n|---|---|---|---|\n")
        tri = {}
        tp = os.path.join(V, "mutants", "sweep", "TRIAGE.json")
        if os.path.exists(tp):
            tri = json.load(open(tp))
        for pid, c, surv in rows:
            for d in surv:
                key = "%s|%s:%d|%s" % (pid, d["file"].split("/")[-1], d["line"], d["new"])
                f.write("| %s | %s:%d | `%s` -> `%s` | %s |\n" % (pid, d["file"].split("/")[-1], d["line"], d["old"].replace("|", "\\|")[:90], d["new"].replace("|", "\\|")[:90], tri.get(key, "")))
    return 0


if __name__ == "__main__":
    sys.exit(main())
