#!/usr/bin/env python3
"""Runs every mutants/CNN-k.patch (or those given) against its property's quick tier on a scratch copy and writes mutants/LOG.md.
usage: run_mutants.py [CNN ...]   (default: all)"""
import glob, json, os, re, subprocess, sys, time
V = os.path.dirname(os.path.dirname(os.path.abspath(__file__)))
want = set(sys.argv[1:])
rows = []
old = {}
logp = os.path.join(V, "mutants", "LOG.md")
if os.path.exists(logp):
    for l in open(logp):
        m = re.match(r"\| (C\d+-\d+) \| (\w+) \| ([^|]*) \| ([^|]*) \|", l)
        if m:
            old[m.group(1)] = (m.group(2), m.group(3).strip(), m.group(4).strip())
for patch in sorted(glob.glob(os.path.join(V, "mutants", "C*-*.patch")), key=lambda p: (p.split("/")[-1].split("-")[0], int(re.findall(r"-(\d+)\.patch", p)[0]))):
    name = os.path.basename(patch)[:-6]
    pid = name.split("-")[0]
    if want and pid not in want:
        if name in old:
            rows.append((name,) + old[name])
        continue
    t0 = time.time()
    p = subprocess.run([sys.executable, os.path.join(V, "verif.py"), "mutant", patch, pid], capture_output=True, text=True, errors="replace")
    out = p.stdout
    res = "?"
    m = re.search(r'\{"%s": (\d+)\}' % pid, out)
    if m:
        res = {"1": "killed", "0": "SURVIVED", "2": "build-error", "3": "machinery"}.get(m.group(1), m.group(1))
    laws = sorted(set(re.findall(r"law=(\w+)", out)) | set(re.findall(r"target=(\w+)", out)))
    what = ""
    for l in open(patch):
        if l.startswith("+") and not l.startswith("+++"):
            what = l[1:].strip()[:90]
            break
    rows.append((name, res, ", ".join(laws)[:80], what.replace("|", "\\|")))
    print(name, res, "%.0fs" % (time.time() - t0), flush=True)
with open(logp, "w") as f:
    f.write("# Hand-written mutants: quick tier of the property's check on a scratch copy with the patch applied\n\n")
    f.write("(regenerate with `python3 tools/run_mutants.py [CNN ...]`; killed = exit 1 with a VIOLATION line)\n\n")
    f.write("| mutant | result | violated laws | first changed line |\n|---|---|---|---|\n")
    for r in rows:
        f.write("| %s | %s | %s | %s |\n" % r)
    k = sum(1 for r in rows if r[1] == "killed")
    f.write("\n%d of %d killed.\n" % (k, len(rows)))
