#!/usr/bin/env python3
"""mkmutant.py <repo-relative file> <old text> <new text> <CNN-k> [occurrence=1] [after-marker] : writes mutants/CNN-k.patch (unified diff against /repo)."""
import difflib, sys
f, old, new, name = sys.argv[1:5]
occ = int(sys.argv[5]) if len(sys.argv) > 5 else 1
s = open("/repo/" + f).read()
start = s.index(sys.argv[6]) if len(sys.argv) > 6 else 0
i = start - 1
for _ in range(occ):
    i = s.index(old, i + 1)
t = s[:i] + new + s[i + len(old):]
d = difflib.unified_diff(s.splitlines(True), t.splitlines(True), "a/" + f, "b/" + f)
open("/verif/mutants/%s.patch" % name, "w").write("".join(d))
print("wrote mutants/%s.patch" % name)
