#!/bin/bash
# usage: seeds_on_repo.sh [seed-id ...]  (default: all)
# Final pass of the seeded changes on /repo itself: apply, run the property's quick check, undo. Writes seeded/ON_REPO.md.
cd /verif
OUT=seeded/ON_REPO.md
echo "# Seeded changes applied to /repo itself (git -C /repo apply; quick check; git -C /repo checkout -- .)" > $OUT
echo >> $OUT; echo "| seed | check exit | VIOLATION lines |" >> $OUT; echo "|---|---|---|" >> $OUT
LIST=${@:-$(ls -d seeded/C*-*/)}
for d in $LIST; do
  d=${d%/}/; [ -d "$d" ] || d=seeded/$d/
  s=$(basename $d); p=${s%%-*}
  [ -f $d/patch.diff ] || { echo "| $s | obsolete (see meta.json) | |" >> $OUT; continue; }
  [ -n "$(git -C /repo status --porcelain --untracked-files=no)" ] && { echo "repo dirty, abort"; exit 1; }
  git -C /repo apply /verif/${d}patch.diff || { echo "| $s | patch does not apply | |" >> $OUT; continue; }
  VERIF_OUT=/verif/.cache/onrepo-out VERIF_JOBS=${VERIF_JOBS:-16} python3 verif.py check $p > /verif/.cache/onrepo.log 2>&1; rc=$?
  git -C /repo checkout -- .
  echo "| $s | $rc | $(grep -ac '^VIOLATION' /verif/.cache/onrepo.log) |" >> $OUT
  echo "$s $rc"
done
rm -rf /verif/.cache/onrepo-out /verif/.cache/onrepo.log
