#!/usr/bin/env python3
"""apply_findings.py CNN id1 id2 ...  : applies proposed_fix diffs of known_findings.d/CNN.json to /repo one commit each (message from stdin JSON map id->message)."""
import json, os, subprocess, sys
pid = sys.argv[1]; ids = sys.argv[2:]
msgs = json.load(open('/tmp/fixmsgs.json'))
d = json.load(open('/verif/known_findings.d/%s.json' % pid))
for fid in ids:
    f = [x for x in d['findings'] if x['id'] == fid][0]
    t = f['proposed_fix']; i = t.find('--- a/')
    if i < 0: print('NO DIFF', fid); continue
    open('/tmp/fx.diff', 'w').write(t[i:] + '\n')
    p = subprocess.run(['patch', '-p1', '--fuzz=3', '-d', '/repo', '-i', '/tmp/fx.diff', '--no-backup-if-mismatch'], capture_output=True, text=True)
    if p.returncode != 0:
        print('PATCH FAILED', fid, p.stdout[-600:]); subprocess.run(['git', '-C', '/repo', 'checkout', '--', '.']); 
        for r in subprocess.run(['git','-C','/repo','status','--short'],capture_output=True,text=True).stdout.split('\n'):
            if r.endswith('.rej') or r.endswith('.orig'): os.remove('/repo/'+r.split()[-1])
        continue
    subprocess.run(['git', '-C', '/repo', 'commit', '-qam', msgs[fid]])
    print(fid, subprocess.run(['git', '-C', '/repo', 'log', '--oneline', '-1'], capture_output=True, text=True).stdout.strip())
