#!/usr/bin/env python3
"""Writes fuzz/seeds/<target>/NN and fuzz/dict/all.dict (grammar-aware starting points; strings first, option bytes last)."""
import os
V = os.path.dirname(os.path.dirname(os.path.abspath(__file__)))
SEP = "\x01"
# number of option bytes each target takes from the END of the input (FuzzedDataProvider): exactly that many NUL bytes are
# appended, so that the text part of a seed reaches the parser unpolluted (a longer tail of NULs made every seed a malformed input)
NOPT = {"text_chars": 1, "text_numbers": 2, "text_blocks": 6, "tokenizers": 7, "keyval": 2, "attributes": 5, "apptools": 3, "paramlist_match": 0,
        "filetools": 1, "datatable": 10, "distformat": 1, "interval_desc": 0, "numcalc": 2, "formula": 0}
S = {
 "text_chars": ["hello world\x01o\x01X", "  \t padded \n\x01 \x01", "aaa\x01aa\x01a", ""],
 "text_numbers": ["-12.5e-3", "42", "+7", "1e5", "-", ".", "e5", "0x10", " 12 ", "1.2.3"],
 "text_blocks": ["a(bc)d[ef]g\x01(b\x01)", "((nested))x", "no blocks", "(unclosed", ""],
 "tokenizers": ["a,b;c,,d\x01,;\x01(\x01)", "f(a,b),g(c)\x01,\x01(\x01)", ",,a,,\x01,\x01[\x01]", "abc\x01\x01(\x01)", "a b  c\x01 \x01(\x01)"],
 "keyval": ["key=value", "Gamma(n=4,alpha=0.5)", "a=1,b=f(x=2,y=3),c=", "f(a=1)(b=2)", "=", "name(", "k=v\x01:\x01x=9"],
 "attributes": ["a=1\nb=$(a)2\n# comment\nc = 3 \\\n 4\n", "x=$(y)\ny=$(x)\n", "param=file\nk=v /* c */\n", "a=1\\", "noequal\n\n//c\n", "a=1\x01b=2\nparam=q\n"],
 "apptools": ["1.5\x012.5\x01other\x01na*", "1,2,3\x01(1,2),(3)\x01x\x01*", "yes\x01no\x01k\x01n*e", "seq(1,10,2)\x01\x01\x01"],
 "paramlist_match": ["a*b\x01ab\x01aab\x01abb\x01b", "*\x01x\x01y", "**a**\x01a\x01ba", "\x01a"],
 "filetools": ["/usr/local/lib/file.tar.gz", "noslash", "a/b/", "/", "", "dir\\sub\\f.txt", "line1\nline2\n\nline4"],
 "datatable": ["a\tb\tc\n1\t2\t3\n4\t5\t6\n", "r1,1,2\nr2,3,4\n", "h1 h2\nx y\n", "a;b\n1;2;3\n", "\n\n", "one\n"],
 "distformat": ["Gamma(n=4,alpha=0.5,beta=0.5)", "Invariant(dist=Gamma(n=3,alpha=1),p=0.1)", "Mixture(probas=(0.3,0.7),dist1=Gamma(n=2),dist2=Beta(n=3,alpha=2,beta=2))",
                "Simple(values=(1,2,3),probas=(0.2,0.3,0.5))", "Constant(value=1)", "Uniform(n=4,begin=0,end=2)", "Gaussian(n=3,mu=0,sigma=1)", "Exponential(n=4,lambda=2)",
                "TruncExponential(n=4,lambda=2,tp=3)", "Beta(n=4,alpha=0.5,beta=2)", "Gamma(", "Simple(values=(1,2),probas=(1))",
                # every list-valued / nested argument present but EMPTY or a single character (after valid earlier arguments), and a well-formed 'ranges'
                "Simple(values=(1,2),probas=)", "Simple(values=,probas=(1))", "Simple(values=(1),probas=(1),ranges=)", "Simple(values=(1),probas=1)", "Simple(values=1,probas=(1))",
                "Simple(values=(1),probas=(1),ranges=()", "Simple(values=(1,3),probas=(0.5,0.5),ranges=(V1[0;2],V2[2;4]))", "Simple(values=(1),probas=(1),ranges=(V1[0;))",
                "Mixture(probas=,dist1=Gamma(n=2),dist2=Gamma(n=2))", "Mixture(probas=(1),dist1=)", "Invariant(dist=,p=0.1)", "Invariant(dist=Gamma(n=2),p=)", "Constant(value=)"],
 "interval_desc": ["[0;1]", "]-inf;3.5[", "[1e-3;+inf[", "[;]", "]", "[1;0]", "[ 0; 1] "],
 "numcalc": ["1,2,5-8,10", "seq(from=0,to=1,step=0.1)", "seq(from=1,to=10,size=4)", "0.1,0.2", "5-1", "-", "1-",
             # boundary values in every numeric field: zero, negative, reversed
             "seq(from=0,to=1,size=-3)", "seq(from=1,to=0,step=-0.5)", "seq(from=2,to=2,size=0)", "seq(from=-1,to=-2,size=1)", "3-1,-2", "0-0",
             # arguments present but empty
             "seq(from=,to=1,step=0.5)", "seq(from=0,to=,size=)", "seq()", "1,,2"],
 "formula": ["1+2*3", "(f+1)/2-exp(0.5)", "-f*log(2)", "((1))", "1++2", "exp(", ")(", "2*-3", ""],
}
DICT = ["(", ")", "=", ",", ";", "[", "]", "$(", ")", "*", "\\\\", "#", "\\\"", "e", "inf", "-inf", "+inf", "seq(", "Gamma(", "Beta(", "Invariant(", "Mixture(", "Simple(", "Constant(",
        "dist=", "dist1=", "n=", "alpha=", "beta=", "probas=", "values=", "from=", "to=", "step=", "size=", "param=", "//", "/*", "*/", "\\x01", "\\x09", "\\x0a", "exp(", "log(", "f", "+", "-", "/",
        "1e", "e-", ".", "{", "}", ":=", "yes", "no", "true", "false", "=-", "=0", "=-1", "-0", "=1e-"]
for t, seeds in S.items():
    d = os.path.join(V, "fuzz", "seeds", t)
    os.makedirs(d, exist_ok=True)
    for i, s in enumerate(seeds):
        open(os.path.join(d, "%02d" % i), "wb").write(s.encode("latin-1") + b"\x00" * NOPT[t])
with open(os.path.join(V, "fuzz", "dict", "all.dict"), "w") as f:
    for w in DICT:
        f.write('"%s"\n' % w.replace('"', '\\"') if not w.startswith("\\") else '"%s"\n' % w)
print("seeds written")
