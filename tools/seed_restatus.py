#!/usr/bin/env python3
"""seed_restatus.py <seed-id> "<what was strengthened>"  : re-reads seeded/<id>/check.log after a re-run and records the final status."""
import json, re, sys
sid, txt = sys.argv[1], sys.argv[2]
m = '/verif/seeded/%s/meta.json' % sid; d = json.load(open(m))
log = open('/verif/seeded/%s/check.log' % sid, errors='replace').read()
if 'first_check_result' not in d: d['first_check_result'] = d['check_result']
d['check_result'] = re.findall(r'^\{.*\}$', log, flags=re.M)[-1]
d['violation_lines'] = len(re.findall(r'^VIOLATION', log, flags=re.M))
caught = '"%s": 1' % d['property'] in d['check_result']
d['final_status'] = 'caught after strengthening' if caught else 'MISSED (see DESIGN 0.4)'
d['strengthening'] = txt
json.dump(d, open(m, 'w'), indent=1); print(sid, d['check_result'], d['final_status'])
