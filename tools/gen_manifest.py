#!/usr/bin/env python3
"""Regenerates /verif/MANIFEST.json from the table below + the harness files present."""
import glob, json, os, subprocess
V = os.path.dirname(os.path.dirname(os.path.abspath(__file__)))

TEXT = {
 "C01": ("rapidcheck-generated histories vs a reference model + exhaustive order-type lattice of bounds",
         "Generated-input search: interval membership / intersection / emptiness decided on the complete order-type lattice of the bounds (exhaustive) and on random reals; construct/copy/assign/set/constraint histories (incl. raising calls, list- and owner-level routes) against a reference model after every step; auto-correcting parameter against the nearest-accepted-value oracle; plus a run-time monitor hooked into Parameter. Exploration, not proof: holds on everything generated."),
}
NOTE = "Trusted: the reference models/oracles in harness/, clang++ ASan/UBSan build of /repo's working tree with -DBPP_CORE_VERIF, rapidcheck. Bounds per law are in the evidence file."

def main():
    props = [json.loads(l) for l in open(os.path.join(V, "properties.jsonl"))]
    na = {}
    nap = os.path.join(V, "tools", "not_applicable.json")
    if os.path.exists(nap):
        na = json.load(open(nap))
    checks, notapp = [], []
    for p in props:
        pid = p["id"]
        has = glob.glob(os.path.join(V, "harness", pid.lower() + "_*.cpp")) or (pid == "C16" and os.path.exists(os.path.join(V, "fuzzdrv.py")))
        if has and pid in TEXT and pid not in na:
            tech, text = TEXT[pid]
            checks.append(dict(property_id=pid,
                               quick_cmd="python3 verif.py check %s --tier quick" % pid,
                               thorough_cmd="python3 verif.py check %s --tier thorough" % pid,
                               evidence_file="evidence/%s.json" % pid,
                               replay_cmd_template="python3 verif.py check %s --replay {path}" % pid,
                               engine="fz" if pid == "C16" else "rc+enum",
                               level_claimed=dict(category="exploration", text=text, design_ref="DESIGN.md section 5/" + pid),
                               level_note=NOTE, technique=tech))
        else:
            notapp.append(dict(property_id=pid, reason=na.get(pid, "check not built yet (work in progress; the technique applies, see DESIGN.md section 5/%s)" % pid)))
    commits = subprocess.run(["git", "-C", "/repo", "log", "--format=%h %s", "--grep=^verif hook"], capture_output=True, text=True).stdout.strip().splitlines()
    m = dict(version=1,
             setup_cmd="python3 verif.py setup",
             hooks=dict(guard="BPP_CORE_VERIF",
                        enable="verif.py compiles every src/Bpp/**.cpp (except Graphics/) and every harness with -DBPP_CORE_VERIF (clang++ -O1 -g -fsanitize=address,undefined)",
                        baseline_off_cmd="python3 verif.py baseline",
                        source_commits=[c.split()[0] for c in commits], add_only=True),
             engines=[dict(name="rc+enum", path="harness/ (common/pbt.hpp, cNN_*.cpp) driven by verif.py", serves_properties=[c["property_id"] for c in checks if c["engine"] == "rc+enum"],
                           kind_free_text="rapidcheck-generated choice vectors decoded into cases (shrinkable, replayable) + bounded-exhaustive enumeration of the draw tree; oracles = reference models / exact recomputation / metamorphic relations; ASan+UBSan"),
                      dict(name="fz", path="fuzz/ driven by fuzzdrv.py", serves_properties=[c["property_id"] for c in checks if c["engine"] == "fz"],
                           kind_free_text="libFuzzer targets with structure-aware decoding and in-target semantic oracles; ASan+UBSan")],
             checks=checks,
             notes="All checks are property-based testing / fuzzing (generated-input search against explicit oracles). Genuine defects are listed in known_findings.json (fixed ones with their 'fix:' commit). VERIF_SEED selects the run; replay files under replays/<id>/ are re-run first in both tiers.",
             not_applicable=notapp)
    json.dump(m, open(os.path.join(V, "MANIFEST.json"), "w"), indent=1)
    print("MANIFEST.json: %d checks, %d not claimed" % (len(checks), len(notapp)))

if __name__ == "__main__":
    main()
