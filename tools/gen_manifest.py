#!/usr/bin/env python3
"""Regenerates /verif/MANIFEST.json from the table below + the harness files present."""
import glob, json, os, subprocess
V = os.path.dirname(os.path.dirname(os.path.abspath(__file__)))

TEXT = {
 "C01": ("rapidcheck-generated histories vs a reference model + exhaustive order-type lattice of bounds",
         "Generated-input search: interval membership / intersection / emptiness decided on the complete order-type lattice of the bounds (exhaustive) and on random reals; construct/copy/assign/set/constraint histories (incl. raising calls, list- and owner-level routes) against a reference model after every step; auto-correcting parameter against the nearest-accepted-value oracle; plus a run-time monitor hooked into Parameter. Exploration, not proof: holds on everything generated."),
 "C02": ("stateful model-based testing (rapidcheck) of ParameterList histories",
         "Generated histories of ~30 operations over three lists and an object-identity model (sharing vs copies); after every operation the full observable state of every list is compared with the model; atomicity of the three bulk value setters is decided by comparing every value after a raising call; owner-level routes check the notification argument. Exploration."),
 "C03": ("stateful model-based testing (rapidcheck) of alias / unalias / bulk-alias / copy / assign / rename histories",
         "Generated histories over 1-3 objects with 2-6 parameters against a forest model (links, propagated values, intersected constraints, independent set); all views are compared after every operation; termination of bulk aliasing is decided by a CPU-time watchdog. Exploration."),
 "C04": ("differential testing against reference triple loops over generated shapes x storage classes; lap vs brute force over all permutations (exhaustive for ternary matrices up to 3x3)",
         "Every matrix operation of the statement is compared with a definition-level reference on generated shapes 0..7 (degenerate shapes forced), integer (exact) and real entries, all combinations of the three storage classes, unsized / wrongly sized outputs and non-conformable operands; the assignment solver against brute force with dual certificate, exhaustively for all ternary cost matrices up to 3x3. Exploration."),
 "C05": ("generated matrices (integer with exact Bareiss determinant, prescribed singular values, permuted triangular, near-singular) vs backward-error oracles; small integer matrices exhaustively",
         "P.A=L.U, residual, indicator, determinant and singularity-signal oracles with calibrated forward-error bounds on four generator families, n=1..10, every storage class; all small integer matrices (n<=2 entries -2..2, n=3 entries -1..1) exhaustively. Exploration."),
 "C06": ("generated matrix families (dense, symmetric, companion, rotation blocks, Jordan, graded) vs residual / structure / spectrum oracles; all {-1,0,1} matrices up to 3x3 exhaustively",
         "Residual A.V=V.D, block structure, trace/determinant/spectrum (Bauer-Fike radius), symmetric-path ordering and orthonormality, exp/pow vs exact or long-double references; exhaustive over all 19 767 ternary matrices up to 3x3 (which is where the hqr2 non-termination was found). Exploration."),
 "C07": ("rapidcheck-generated vectors vs exact (__int128 / long double) definitions, std::set models and metamorphic relations for log-space reductions",
         "About 70 functions grouped in 14 laws: exact references for integer inputs, forward-error bounds for reals, documented exceptions for empty/mismatched input, shift-equivariance / bounds / finiteness for the log-domain reductions, exhaustive lattice for pairwise logsum. Exploration."),
 "C08": ("dense grids + random points + seeded branch points vs Boost.Math long double reference, exact identities and a bracket oracle for quantiles",
         "Accuracy vs an independent high-precision reference (self-checked against glibc and a series), range/end values, monotonicity on adjacent points, exact identities, quantile inversion by bracketing, documented error signals in the invalid region. Exploration over ~1e6 points per quick run."),
 "C09": ("stateful generated histories on every distribution family vs invariants and an external (Boost long double) cdf; exhaustive family x class-count x scheme lattice",
         "After construction and after every operation of a generated history (parameter updates accepted and rejected, class-count change, median toggle, restriction, copy, assign) all partition invariants are checked: class count, probabilities, strictly increasing values inside their intervals, bounds, class mass vs the parent's cdf and vs an independent reference, mean-valued classes, parent cdf/quantile/expectation consistency, value lookup, cumulative queries, compound distributions. Exploration; the construction lattice (family x K=1..32 x scheme x median) is exhaustive."),
 "C10": ("generated objectives (convex quadratics with prescribed spectrum, smooth convex non-quadratics) x optimizers x policies x tolerances vs clause-wise oracles on the recorded evaluation trace",
         "One law per clause: termination (CPU watchdog), descent, returned value = function at reported parameters, evaluation budget, convergence within calibrated per-optimizer constants, feasibility of every evaluated point under the automatic policy, bracketing validity. The objective records every evaluation. Exploration."),
 "C11": ("rapidcheck-generated bound configurations / values / coordinates vs long-double formulas, finite differences and the chain rule; exhaustive configuration lattice",
         "Round trip, monotonicity, derivatives of the transforms; wrapped functions with analytic derivatives checked for value, feasibility of the back-transformed point, chain rule, parameters right after wrapping, placebo pass-through; exhaustive lattice of the ten configurations x bounds x start positions x wrapper kinds. Exploration."),
 "C12": ("stateful generated update histories on polynomial functions with analytic derivatives; exhaustive configuration lattice; step-halving metamorphic law",
         "Transparency (bitwise parameters, value) after every update through all six entry points; derivatives vs analytic ones within rounding/truncation bounds by stencil class; convergence order by halving the step; delegation for non-selected variables. Exploration."),
 "C13": ("generated HMMs (states 1..5, dense and sparse rows, emissions down to 1e-200, every break-point subset, every chunk size) vs path enumeration and a log-space long-double forward algorithm on dual numbers; stateful query/update histories vs fresh objects",
         "The three likelihood algorithms are compared with each other, with the sum over all hidden paths (L <= 12) and with an independent log-space forward/backward in long double (exact derivatives by second-order dual numbers); posteriors, per-site likelihoods, first and second derivatives; after every operation of a generated history every answer must equal that of a fresh object (bitwise); built-in transition models for row-stochasticity and stationarity in every query order (exhaustive order enumeration). Exploration."),
 "C14": ("stateful model-based testing against a reference multigraph + observer model; iterative-deepening enumeration of all operation sequences (<= 4 nodes) de-duplicated on the full model state",
         "Every call is classified by the model as well-formed (must return and is applied), ill-formed (must raise and change nothing) or free (views must agree); after every operation all graph views, the six iterator kinds, absent-id probes, id freshness and the association maps (mutual inverses, dead objects forgotten in every map, end points and linking edges, copy independence) are compared with the model. Random histories <= 40 ops over <= 8 nodes; exhaustive sequences of length <= 2/3 (all 29 op kinds) and <= 3/4 (graph ops) over <= 4 nodes from six start configurations. Exploration; exhaustive up to the stated depths."),
 "C15": ("bounded-exhaustive enumeration of all labelled rooted trees up to 6 (quick) / 7 (thorough) nodes and all small DAGs + stateful generated edit histories vs a by-definition reference",
         "Every rooted labelled tree (Pruefer sequence x root) with all roots, all node pairs and node sets is compared with a reference tree for validity, father/sons/branches/leaves-under/subtree/paths/MRCA, re-rooting (edge ids and attached objects kept) and un-rooting; all forward-edge DAGs on <= 5 nodes plus cyclic variants; edit histories with validity asked or not asked between edits. Exploration; exhaustive up to the stated node counts."),
 "C16": ("coverage-guided fuzzing (libFuzzer, ASan+UBSan) of 14 entry-point groups with structure-aware decoding, dictionary, seeds and in-target semantic oracles",
         "One libFuzzer target per group of parsing entry points; bytes are decoded into option flags / characters and subject strings; bpp::Exception is a clean rejection, any other exception type, sanitizer report, division trap, malloc/rss limit or confirmed timeout is a violation; cheap semantic oracles (token/cursor consistency, table shape, split re-concatenation) run inside the targets. Exploration: ~1e5 executions per target in the quick tier, ~5e7 in the thorough tier."),
 "C17": ("round-trip and grammar laws: exhaustive string enumeration for the number grammar (length <= 6/7) and wildcard matching (length <= 6/8), generated strings / maps / tables / distributions otherwise",
         "Number formatting/parsing round trips on all bit-pattern classes; the strict decimal grammar decided on every string over a 9-letter alphabet up to length 6 (quick) / 7 (thorough) against a reference recogniser and strtod; tokenise/re-join, nested tokenising, procedures, changeKeyvals, variable resolution, wildcard matching against a glob DP (exhaustive up to length 6/8), table and distribution write/read. Exploration; exhaustive up to the stated lengths."),
 "C18": ("seeded statistical property tests (Kolmogorov-Smirnov / chi-square at 1e-9 against the library's own cdfs) + structural laws + exhaustive small margins",
         "Every case carries its own library seed (reproducibility law included); continuous samplers and each distribution's draws are tested against the cumulative function of the same parameters (n = 20 000, KS threshold 3.6/sqrt(n)); picks, samples and multinomials against their weights and structural constraints; random contingency tables against exact margins for all margin pairs with total <= 8 (exhaustive) and random margins up to 5x5/200; <= 2000 statistical tests per run at 1e-9 each. Exploration with stated power, not certainty."),
 "C19": ("rapidcheck-generated parameter / probability vectors vs long-double definitions of the three codings; exhaustive dyadic lattice for n<=7",
         "Forward law (non-negative, sums to one, product formula), inverse law with a conditioning-aware bound, left-inverse / separation for injectivity, copy independence, ordered variant; exhaustive over dyadic parameter lattices for dimensions 1..7. Exploration."),
 "C20": ("stateful model-based testing against a bitset + component-list model; bounded-exhaustive enumeration of all operation sequences (length 2 quick / 3 thorough over a 0..6 universe) for four coordinate types",
         "Histories of add/restrict/filter/clear/copy/assign on MultiRange and RangeSet compared with an independent point-set model after every operation, for int, unsigned, size_t and double; Range predicates exhaustively over all pairs in 0..6; deep-copy independence via address and live-instance checks. Exploration; exhaustive up to the stated sequence length."),
}
NOTE = "Trusted: the reference models/oracles in harness/, clang++ ASan/UBSan build of /repo's working tree with -DBPP_CORE_VERIF, rapidcheck. Bounds per law are in the evidence file."

def main():
    props = [json.loads(l) for l in open(os.path.join(V, "properties.jsonl"))]
    na = {}
    nap = os.path.join(V, "tools", "not_applicable.json")
    if os.path.exists(nap):
        na = json.load(open(nap))
    checks, notapp = [], []
    for p in props:
        pid = p["id"]
        has = glob.glob(os.path.join(V, "harness", pid.lower() + "_*.cpp")) or (pid == "C16" and os.path.exists(os.path.join(V, "fuzzdrv.py")))
        if has and pid in TEXT and pid not in na:
            tech, text = TEXT[pid]
            checks.append(dict(property_id=pid,
                               quick_cmd="python3 verif.py check %s --tier quick" % pid,
                               thorough_cmd="python3 verif.py check %s --tier thorough" % pid,
                               evidence_file="evidence/%s.json" % pid,
                               replay_cmd_template="python3 verif.py check %s --replay {path}" % pid,
                               engine="fz" if pid == "C16" else "rc+enum",
                               level_claimed=dict(category="exploration", text=text, design_ref="DESIGN.md section 5/" + pid),
                               level_note=NOTE, technique=tech))
        else:
            notapp.append(dict(property_id=pid, reason=na.get(pid, "check not built yet (work in progress; the technique applies, see DESIGN.md section 5/%s)" % pid)))
    commits = subprocess.run(["git", "-C", "/repo", "log", "--format=%h %s", "--grep=^verif hook"], capture_output=True, text=True).stdout.strip().splitlines()
    m = dict(version=1,
             setup_cmd="python3 verif.py setup",
             hooks=dict(guard="BPP_CORE_VERIF",
                        enable="verif.py compiles every src/Bpp/**.cpp (except Graphics/) and every harness with -DBPP_CORE_VERIF (clang++ -O1 -g -fsanitize=address,undefined)",
                        baseline_off_cmd="python3 verif.py baseline",
                        source_commits=[c.split()[0] for c in commits], add_only=True),
             engines=[dict(name="rc+enum", path="harness/ (common/pbt.hpp, cNN_*.cpp) driven by verif.py", serves_properties=[c["property_id"] for c in checks if c["engine"] == "rc+enum"],
                           kind_free_text="rapidcheck-generated choice vectors decoded into cases (shrinkable, replayable) + bounded-exhaustive enumeration of the draw tree; oracles = reference models / exact recomputation / metamorphic relations; ASan+UBSan"),
                      dict(name="fz", path="fuzz/ driven by fuzzdrv.py", serves_properties=[c["property_id"] for c in checks if c["engine"] == "fz"],
                           kind_free_text="libFuzzer targets with structure-aware decoding and in-target semantic oracles; ASan+UBSan")],
             checks=checks,
             notes="All checks are property-based testing / fuzzing (generated-input search against explicit oracles). Genuine defects are listed in known_findings.json (fixed ones with their 'fix:' commit). VERIF_SEED selects the run; replay files under replays/<id>/ are re-run first in both tiers.",
             not_applicable=notapp)
    json.dump(m, open(os.path.join(V, "MANIFEST.json"), "w"), indent=1)
    print("MANIFEST.json: %d checks, %d not claimed" % (len(checks), len(notapp)))

if __name__ == "__main__":
    main()
