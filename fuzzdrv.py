"""C16 driver: libFuzzer campaigns over the targets of fuzz/targets.cpp (see DESIGN.md section 5/C16)."""
import concurrent.futures as cf, glob, hashlib, json, os, re, resource, shutil, subprocess, tempfile, time

TARGETS = ["text_chars", "text_numbers", "text_blocks", "tokenizers", "keyval", "attributes", "apptools", "paramlist_match",
           "filetools", "datatable", "distformat", "interval_desc", "numcalc", "formula"]
PID = "C16"
NT_RULE = {
    "text_chars": "the search pattern occurs in the subject", "text_numbers": "the string is recognised as a number", "text_blocks": "split produced >= 2 pieces or a block was removed",
    "tokenizers": ">= 2 tokens", "keyval": "a key=value pair or procedure arguments were parsed", "attributes": ">= 2 attributes parsed", "apptools": "a vector-valued parameter was parsed",
    "paramlist_match": "the pattern matched >= 1 name", "filetools": "the path contains the separator", "datatable": "the table was read (then edited by the decoded script)",
    "distformat": "a distribution object was built", "interval_desc": "the description parsed to an interval", "numcalc": "a sequence with >= 2 elements", "formula": "a computation tree was built"}


def fenv(v, target, stats, known, tmpdir):
    e = dict(os.environ)
    e["ASAN_OPTIONS"] = "detect_leaks=0:handle_abort=1:allocator_may_return_null=1:symbolize=1:print_summary=1:detect_stack_use_after_return=0:malloc_context_size=5"
    e["UBSAN_OPTIONS"] = "print_stacktrace=1:halt_on_error=1"
    e["ASAN_SYMBOLIZER_PATH"] = shutil.which("llvm-symbolizer") or shutil.which("llvm-symbolizer-14") or ""
    e["FZ_TARGET"] = target
    e["FZ_STATS"] = stats
    e["FZ_KNOWN"] = ",".join(known)
    e["FZ_TMPDIR"] = tmpdir
    return e


def build(v):
    r = v.build_lib()
    if r is None:
        return None
    lib, libsig = r
    return v.build_binary(os.path.join(v.VERIF, "fuzz", "targets.cpp"), "c16fuzz", v.FUZFLAGS, lib, libsig, libs=())


def setup(v):
    return 0 if build(v) else 1


def run_one(v, exe, target, path, known, tmpdir, cpu_limit=60):
    """Run a single saved input; returns (status, output): status in pass|crash|hang."""
    def lim():
        resource.setrlimit(resource.RLIMIT_CPU, (cpu_limit, cpu_limit + 2))
    try:
        p = subprocess.run([exe, "-timeout=100000", "-rss_limit_mb=4096", "-malloc_limit_mb=1024", "-close_fd_mask=1", path], capture_output=True, text=True, errors="replace",
                           env=fenv(v, target, "", known, tmpdir), preexec_fn=lim, timeout=cpu_limit * 20 + 60)
    except subprocess.TimeoutExpired:
        return "hang", "wall timeout"
    out = p.stdout + p.stderr
    if p.returncode == 0:
        return "pass", out
    if p.returncode in (-24, -9) or "SIGXCPU" in out:
        return "hang", out
    return "crash", out


def summarize(out):
    keep = [l.strip() for l in out.splitlines() if "SUMMARY:" in l or "runtime error:" in l or "C16-ORACLE-FAILURE" in l or "ERROR: AddressSanitizer" in l or "ERROR: libFuzzer" in l or "uncaught" in l.lower()]
    return " | ".join(keep[:3])[:500]


def target_of(path):
    b = os.path.basename(path)
    return b.split("--", 1)[0] if "--" in b else None


def campaign(job):
    v, exe, target, k, seed, runs, known, rundir, maxtime = job
    d = os.path.join(rundir, "%s-%d" % (target, k))
    corpus, art = os.path.join(d, "corpus"), os.path.join(d, "art")
    os.makedirs(corpus)
    os.makedirs(art)
    if k % 2 == 0:  # even jobs start from the committed seeds / minimised corpus, odd jobs from an empty corpus
        for src in glob.glob(os.path.join(v.VERIF, "fuzz", "seeds", target, "*")) + glob.glob(os.path.join(v.VERIF, "fuzz", "corpus-min", target, "*")):
            shutil.copy(src, os.path.join(corpus, os.path.basename(src)))
    stats = os.path.join(d, "stats.json")
    cmd = [exe, corpus, "-artifact_prefix=" + art + "/", "-max_len=4096", "-timeout=20", "-rss_limit_mb=2048", "-malloc_limit_mb=256", "-runs=%d" % runs, "-max_total_time=%d" % maxtime,
           "-seed=%d" % (seed % (2 ** 31 - 2) + 1), "-dict=" + os.path.join(v.VERIF, "fuzz", "dict", "all.dict"), "-print_final_stats=1", "-close_fd_mask=1", "-use_value_profile=1", "-len_control=50"]
    t0 = time.time()
    log = os.path.join(d, "log.txt")
    with open(log, "w") as lf:
        try:
            p = subprocess.run(cmd, stdout=lf, stderr=subprocess.STDOUT, env=fenv(v, target, stats, known, d), timeout=6 * 3600)
            rc = p.returncode
        except subprocess.TimeoutExpired:
            rc = -999
    txt = open(log, errors="replace").read()
    execs = 0
    m = re.search(r"stat::number_of_executed_units:\s*(\d+)", txt)
    if m:
        execs = int(m.group(1))
    else:
        mm = re.findall(r"^#(\d+)\s", txt, flags=re.M)
        if mm:
            execs = int(mm[-1])
    cov = re.findall(r"cov: (\d+)", txt)
    st = None
    if os.path.exists(stats):
        try:
            st = json.load(open(stats))
        except Exception:
            st = None
    arts = [a for a in glob.glob(os.path.join(art, "*")) if os.path.basename(a).split("-")[0] in ("crash", "timeout", "oom", "leak")]
    return dict(target=target, k=k, rc=rc, execs=execs, cov=int(cov[-1]) if cov else 0, stats=st, arts=arts, wall=time.time() - t0, log=log, dir=d)


def check(v, tier, seed, replay=None):
    t_start = time.time()
    exe = build(v)
    if exe is None:
        print("BUILD-FAILED property=C16 (tree or fuzz targets do not compile)")
        return 2
    known = [k for k in v.load_known() if k.get("property") == PID]
    active = [k["id"] for k in known if k.get("status") == "known"]
    rundir = tempfile.mkdtemp(prefix="run-C16-", dir=v.CACHE)
    try:
        if replay:
            tgt = target_of(replay)
            if not tgt:
                print("replay file name must be <target>--<name>")
                return 4
            st, out = run_one(v, exe, tgt, replay, active, rundir)
            print(out[-3000:])
            if st != "pass":
                print("VIOLATION property=C16 replay=%s" % replay)
                return 1
            return 0

        violations, known_lines, machinery = [], [], []
        # 1. known findings: reproducers with exclusions off
        for k in known:
            if k.get("status") != "known":
                continue
            rp = os.path.join(v.VERIF, k["reproducer"])
            st, out = run_one(v, exe, target_of(rp), rp, [], rundir, cpu_limit=30)
            if st != "pass":
                known_lines.append("KNOWN-FINDING: property=C16 %s [%s]" % (k["what"], k["id"]))
            else:
                known_lines.append("NOTE: known finding %s of C16 no longer reproduces" % k["id"])
        known_files = set(os.path.join(v.VERIF, k.get("reproducer", "")) for k in known if k.get("status") == "known")
        # 2. regression tier
        replayed = 0
        for rp in sorted(glob.glob(os.path.join(v.VERIF, "replays", PID, "*--*"))):
            if rp in known_files:
                continue
            st, out = run_one(v, exe, target_of(rp), rp, active, rundir)
            replayed += 1
            if st != "pass":
                violations.append((target_of(rp), rp, st + ": " + summarize(out)))
        # 3. campaigns
        jobs = []
        per = 1 if tier == "quick" else 8
        runs = 80000 if tier == "quick" else 3000000
        for t in TARGETS:
            n = per + (1 if tier == "quick" and t in ("attributes", "datatable", "tokenizers", "keyval") else 0)
            for k in range(n):
                s = v.splitmix(seed ^ int(hashlib.sha1((t + str(k)).encode()).hexdigest()[:12], 16))
                jobs.append((v, exe, t, k, s, runs, active, rundir, 75 if tier == "quick" else 600))
        with cf.ThreadPoolExecutor(v.NCPU) as ex:
            results = list(ex.map(campaign, jobs))
        per_t = {}
        for r in results:
            pt = per_t.setdefault(r["target"], dict(execs=0, nt=0, hashes=set(), cov=0, rejected=0, excluded=0, samples=[], jobs=0))
            pt["execs"] += r["execs"]
            pt["cov"] = max(pt["cov"], r["cov"])
            pt["jobs"] += 1
            if r["stats"]:
                pt["nt"] += r["stats"]["nontrivial"]
                pt["hashes"].update(r["stats"]["nt_hashes"])
                pt["rejected"] += r["stats"]["rejected"]
                pt["excluded"] += r["stats"]["excluded_known"]
                if len(pt["samples"]) < 4:
                    pt["samples"] += r["stats"]["samples"][:3]
            for a in r["arts"]:
                kind = os.path.basename(a).split("-")[0]
                # confirm 3x in isolation (CPU-time limited: load must not look like a hang)
                sts = [run_one(v, exe, r["target"], a, active, rundir, cpu_limit=30) for _ in range(3)]
                if all(s[0] != "pass" for s in sts):
                    d = os.path.join(v.OUT, "replays", PID, "new")
                    os.makedirs(d, exist_ok=True)
                    data = open(a, "rb").read()
                    # try to minimise crashes (not hangs)
                    small = a + ".min"
                    if kind == "crash":
                        subprocess.run([exe, "-minimize_crash=1", "-runs=20000", "-max_total_time=25", "-exact_artifact_path=" + small, "-close_fd_mask=3", a], capture_output=True,
                                       env=fenv(v, r["target"], "", active, rundir), timeout=600)
                        if os.path.exists(small) and run_one(v, exe, r["target"], small, active, rundir, cpu_limit=30)[0] != "pass":
                            data = open(small, "rb").read()
                    dst = os.path.join(d, "%s--%s-%s" % (r["target"], kind, hashlib.sha1(data).hexdigest()[:10]))
                    open(dst, "wb").write(data)
                    violations.append((r["target"], dst, "%s: %s" % (sts[0][0] if kind == "crash" else kind, summarize(sts[0][1]))))
                elif kind == "crash":
                    machinery.append("FLAKY artifact %s (%s)" % (a, [s[0] for s in sts]))
                # timeouts / ooms that do not repeat in isolation are load noise: ignored
            if r["rc"] not in (0,) and not r["arts"]:
                machinery.append("fuzz job %s/%d exited %s without an artifact: %s" % (r["target"], r["k"], r["rc"], v.tail(r["log"], 5).replace("\n", " | ")[-300:]))
        seen, uniq = set(), []
        for x in violations:
            if x[0] not in seen:
                seen.add(x[0])
                uniq.append(x)
        violations = uniq
        evals = sum(p["execs"] for p in per_t.values())
        dn = sum(len(p["hashes"]) for p in per_t.values())
        samples = []
        for t, p in per_t.items():
            for s in p["samples"][:2]:
                samples.append({"target": t, "input": s})
        cov = dict(evaluations=evals, distinct_nontrivial=dn,
                   rule="coverage-guided mutation (libFuzzer, dictionary, seeds + empty corpus) of byte strings <= 4 KiB decoded per target into options + subject strings; non-trivial = the target's entry point got past its first syntax check (per-target rule under targets.<t>.nontrivial_rule); distinct = distinct FNV-1a hash of the raw input, counted exactly (cap 400000 per process)",
                   samples=samples or ["(none)"], exhaustive=False, replayed_regression_cases=replayed,
                   targets={t: dict(executions=p["execs"], nontrivial=p["nt"], distinct_nontrivial=len(p["hashes"]), coverage_edges=p["cov"], clean_rejections=p["rejected"],
                                    excluded_known=p["excluded"], processes=p["jobs"], nontrivial_rule=NT_RULE[t]) for t, p in per_t.items()},
                   excluded_known=sum(p["excluded"] for p in per_t.values()))
        extra = dict(assumptions=v.ASSUME["_all"] + ["libFuzzer -runs/-seed pin a campaign only approximately; the saved artifact is the reproducible unit",
                                                     "timeouts / out-of-memory artifacts count only if they repeat three times in isolation under a CPU-time limit"],
                     engine="libFuzzer (fuzz/targets.cpp), ASan+UBSan", known_findings=active, machinery_errors=machinery,
                     violation_list=[dict(target=x[0], replay=os.path.relpath(x[1], v.OUT), message=x[2]) for x in violations])
        v.write_evidence(PID, tier, seed, cov, time.time() - t_start, len(violations), extra)
        for ln in known_lines:
            print(ln)
        for t, rp, msg in violations:
            print("VIOLATION property=C16 replay=%s target=%s :: %s" % (os.path.relpath(rp, v.OUT) if v.OUT == v.VERIF else rp, t, msg[:400]))
        for m in machinery:
            print("MACHINERY: " + m)
        print("C16 %s: %d executions, %d distinct non-trivial inputs, %d targets, %d excluded as known, %.1fs" % (tier, evals, dn, len(per_t), cov["excluded_known"], time.time() - t_start))
        if violations:
            return 1
        if machinery:
            return 3
        return 0
    finally:
        shutil.rmtree(rundir, ignore_errors=True)
