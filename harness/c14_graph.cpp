// C14 — graph and object-association views stay consistent with a reference model.
// DESIGN.md section 5/C14.  Objects: GlobalGraph through PubGraph (protected primitives made callable) and
// AssociationGlobalGraphObserver<NObj,EObj> (one or two observers on the graph).  After EVERY operation all views are
// compared with an independently maintained reference multigraph and reference association maps (c14_model.hpp,
// c14_obs.hpp).  Contract per operation (the model decides the class before the call):
//   WF   well-formed: must return, the model applies it;
//   ILL  ill-formed (absent operand, duplicate id/object/index): must raise bpp::Exception, nothing changes;
//   FREE returning would give a state the reference cannot represent (second edge on a pair, ...): may raise (nothing
//        changes) or return; then only the agreement of all views is demanded (the model is re-read from the edge table).
// Observers of a second pair of object types (NObj2/EObj2) are reached through the CONVERTING copy constructor: "conv" is a
// converted copy of an observer that stays registered on the graph and is compared with its own reference maps after every
// later operation; "obs1=convert(conv)" converts it back so that the history goes on operating on a twice converted copy.
// Random histories follow one of two plans (H_history): a uniform mix of all operations, or a staged history (create/delete
// churn until node ids lie above the live count -> dense linking incl. self-loops -> direction changes to and fro).
// Weakest readings used: neighbour / edge lists are compared as sets; "number of neighbours / degree" may count distinct
// neighbours or incident relations (self-loop once or twice); getAllInnerNodes may be "has a son" (code) or "degree > 1"
// (doc); makeDirected may orient every edge either way; getNodes of an undirected edge may report either order;
// getLeavesFromNode is only required to be complete on tree-shaped components from a start node with >= 2 neighbours.
#include "common/pbt.hpp"
#include "common/bppcommon.hpp"
#include "common/c14_model.hpp"
#include "common/c14_obs.hpp"

#include <unordered_map>

using namespace bpp;
using namespace std;
using namespace c14;

namespace {

enum Cls { WF, ILL, FREE };
template <class T> T nth(const set<T>& s, size_t k) { auto it = s.begin(); advance(it, static_cast<long>(k)); return *it; }

struct World {
  vf::Ctx& c; const bool enumMode; size_t maxNodes;
  shared_ptr<PubGraph> g; GModel gm; vector<ObsWorld> obs; int nextTag = 1;
  unique_ptr<ObsWorld2> conv;  // converted copy (other object types) of an observer, registered on the same graph; looks on
  int nLinks = 0, illRaised = 0; bool ntDelete = false, ntDirection = false, ntSparse = false, ntConvert = false;
  // random histories only: plan of the history (0 = one weight table for the whole history; 1 = stages, see stepOp),
  // position in the history, and how often an operand is a live item (absent operands in 2 of liveBias*n+2 draws)
  int plan = 0, opNo = 0, nOps = 1; size_t liveBias = 3;
  string what;  // description of the current operation

  World(vf::Ctx& ctx, bool en, size_t mx, bool directed) : c(ctx), enumMode(en), maxNodes(mx), g(new PubGraph(directed)) {
    gm.directed = directed;
    ObsWorld W; W.o.reset(new Obs(shared_ptr<GlobalGraph>(g))); obs.push_back(std::move(W));
  }
  ~World() { conv.reset(); while (!obs.empty()) obs.pop_back(); }

  // The operation belongs to the input class of a known finding.  In a random history the operation is left out (the
  // history goes on behind it); in the exhaustive enumeration the sequence is dropped (shorter ones are enumerated anyway).
  bool known(const char* id) {
    if (!c.isKnown(id)) return false;
    if (enumMode) c.excludeIfKnown(id);
    c.label(id); c.desc << " [left out: " << id << "]"; return true;
  }
  // nothing to do in this state (e.g. node budget exhausted)
  void nop() { if (enumMode) throw vf::Skip(); c.desc << " (nop)"; }

  // ---- running a call
  template <class F> bool run(Cls cls, F f) {
    bool raised = false; string msg;
    try { f(); } catch (bpp::Exception& e) { raised = true; msg = e.what(); }
    if (cls == ILL) { CHECK(raised, what << " returned although the call is ill-formed; before: " << gm.str()); ++illRaised; c.desc << "!"; return false; }
    if (cls == WF) { CHECK(!raised, what << " raised '" << msg << "' although the call is well-formed; before: " << gm.str()); return true; }
    if (raised) c.desc << "!";
    return !raised;
  }
  void resync() {  // after a FREE call that returned: take nodes and edges from the primary tables
    gm.nodes = S(g->getAllNodes()); for (Id n : gm.nodes) gm.everNode.insert(n);
    gm.edges.clear(); for (Id e : g->getAllEdges()) gm.edges[e] = g->getNodes(e);
  }
  unsigned tick = 0; bool graphOnly = false;
  void checkAll() {
    // bpp::Exception walks and symbolises the call stack in its constructor, so a raising call costs ~0.1 ms: the read-only
    // probes that are expected to raise are made in rotation (by operation count / by the hash of the sequence)
    unsigned rot = enumMode ? 1 + static_cast<unsigned>(vf::hashStr(c.desc.str()) % 97) : ++tick;
    checkGraph(c, *g, gm, what, rot);
    for (size_t k = 0; k < obs.size(); ++k) checkObs(c, obs[k], gm, what + " obs" + to_string(k), rot);
    if (conv) checkObs(c, *conv, gm, what + " conv", rot);
  }

  // ---- model updates
  template <class F> void eachModel(F f) { for (auto& W : obs) f(W.m); if (conv) f(conv->m); }
  template <class F> bool anyModel(F f) const { for (const auto& W : obs) if (f(W.m)) return true; return conv && f(conv->m); }
  // the node ids are sparse: some live id is not smaller than the number of live nodes (only after deletions)
  bool sparseIds() const { return !gm.nodes.empty() && *gm.nodes.rbegin() >= gm.nodes.size(); }
  vector<Id> adoptNewNodes(size_t k) {
    vector<Id> fresh; for (Id n : g->getAllNodes()) if (!gm.nodes.count(n)) fresh.push_back(n);
    CHECK(fresh.size() == k, what << ": " << fresh.size() << " new node(s) appeared, expected " << k);
    for (Id n : fresh) { CHECK(!gm.everNode.count(n), what << ": new node got the id " << n << " that was used before"); gm.nodes.insert(n); gm.everNode.insert(n); }
    return fresh;
  }
  void adoptNewEdges(vector<pair<Id, Id>> want) {
    vector<Id> fresh; for (Id e : g->getAllEdges()) if (!gm.edges.count(e)) fresh.push_back(e);
    CHECK(fresh.size() == want.size(), what << ": " << fresh.size() << " new edge id(s) appeared in getAllEdges, expected " << want.size() << "; before: " << gm.str());
    for (Id e : fresh) {
      CHECK(!gm.autoEdge.count(e), what << ": new edge got the id " << e << " that the graph had allocated before");
      pair<Id, Id> p = g->getNodes(e); bool found = false;
      for (size_t i = 0; i < want.size() && !found; ++i)
        if (want[i] == p || (!gm.directed && want[i] == make_pair(p.second, p.first))) { gm.edges[e] = want[i]; want.erase(want.begin() + static_cast<long>(i)); found = true; }
      CHECK(found, what << ": new edge " << e << " joins (" << p.first << "," << p.second << "), not one of the expected pairs");
      gm.autoEdge.insert(e); gm.nextAuto = max(gm.nextAuto, e + 1); ++nLinks;
    }
  }
  void dropEdge(Id e) {
    gm.edges.erase(e);
    eachModel([&](OModel& m) { int t; if (m.tagOfEdge(e, t)) { m.eId.erase(t); m.eIdx.erase(t); } });
    if (nLinks >= 2) ntDelete = true;
  }
  void dropNode(Id n) {
    for (Id e : gm.incE(n)) dropEdge(e);
    gm.nodes.erase(n);
    eachModel([&](OModel& m) { int t; if (m.tagOfNode(n, t)) { m.nId.erase(t); m.nIdx.erase(t); } });
    if (nLinks >= 2) ntDelete = true;
  }

  // ---- predicates of known findings
  bool collide(Id k) const { for (Id i = 0; i < k; ++i) if (gm.edges.count(gm.nextAuto + i)) return true; return false; }
  bool edgeIdxHit(Id e) const { return anyModel([&](const OModel& m) { int t; return m.tagOfEdge(e, t) && m.eIdx.count(t) > 0; }); }
  bool nodeIdxHit(Id n) const { return anyModel([&](const OModel& m) { int t; return m.tagOfNode(n, t) && m.nIdx.count(t) > 0; }); }
  bool objectElsewhere(Id n, const ObsWorld* except) const { const OModel* ex = except ? &except->m : nullptr; return anyModel([&](const OModel& m) { int t; return &m != ex && m.tagOfNode(n, t); }); }
  // removing edge e from the graph runs into a known finding
  bool edgeRemovalKnown(Id e) {
    const auto& p = gm.edges.at(e);
    if (!gm.directed && p.first != p.second && known("C14-undirected-unlink")) return true;
    if (edgeIdxHit(e) && known("C14-obs-index-not-forgotten")) return true;
    return false;
  }
  bool nodeRemovalKnown(Id n, const ObsWorld* via) {
    for (Id e : gm.incE(n)) if (edgeRemovalKnown(e)) return true;
    if (objectElsewhere(n, via) && known("C14-deletenode-no-notify")) return true;
    if (nodeIdxHit(n) && known("C14-obs-index-not-forgotten")) return true;
    return false;
  }

  // ---- operand draws: the k-th live item, or a deliberately absent one
  Id pickNode(bool& live) {
    size_t n = gm.nodes.size();
    if (enumMode) { size_t k = static_cast<size_t>(c.below(n + 1)); live = k < n; return live ? nth(gm.nodes, k) : gm.absentFresh(); }
    const size_t f = liveBias;
    size_t k = static_cast<size_t>(c.below(f * n + 2));  // random histories: absent operands in about 2 of f*n+2 draws (f = 3, staged plan 8)
    live = k < f * n; if (live) return nth(gm.nodes, k % n);
    if (k > f * n) for (Id x : gm.everNode) if (!gm.nodes.count(x)) return x;  // a deleted id
    return gm.absentFresh();
  }
  Id pickEdge(bool& live) {
    size_t n = gm.edges.size(), k = static_cast<size_t>(c.below(n + 1));
    live = k < n; if (!live) return gm.absentEdge();
    auto it = gm.edges.begin(); advance(it, static_cast<long>(k)); return it->first;
  }
  void pickPair(Id& a, Id& b, bool& la, bool& lb) {  // for unlink / switchNodes: often the end points of a live edge
    if (!enumMode && !gm.edges.empty() && c.below(3) != 0) {
      bool l; Id e = pickEdge(l); if (!l) e = gm.edges.begin()->first;
      a = gm.edges.at(e).first; b = gm.edges.at(e).second; if (c.flag()) swap(a, b); la = lb = true; return;
    }
    a = pickNode(la); b = pickNode(lb);
  }
  // staged random histories: mostly link a pair of live nodes that is not linked yet in either direction (self-loops
  // included), so that the graph gets dense within the operation budget; with `om` only nodes that carry an object there
  bool freshPair(Id& a, Id& b, const OModel* om) {
    if (enumMode || plan == 0 || c.below(4) == 0) return false;
    vector<pair<Id, Id>> cand;
    for (Id x : gm.nodes) for (Id y : gm.nodes) {
      int t; if (om && !(om->tagOfNode(x, t) && om->tagOfNode(y, t))) continue;
      if (gm.from(x, y).empty() && gm.from(y, x).empty()) cand.push_back({x, y});
    }
    if (cand.empty()) return false;
    const auto& p = cand[static_cast<size_t>(c.below(cand.size()))]; a = p.first; b = p.second; return true;
  }
  ObsWorld& pickObs() { return obs[static_cast<size_t>(c.below(obs.size()))]; }
  // node object: k-th live one, or one that is not in the observer (a formerly deleted one if any, else a never associated one)
  NP pickN(ObsWorld& W, bool& live) {
    size_t n = W.m.nId.size(), f = enumMode ? 1 : 3, k = static_cast<size_t>(c.below(f * n + 1));
    live = k < f * n; if (live) { auto it = W.m.nId.begin(); advance(it, static_cast<long>(k % n)); return W.nObj.at(it->first); }
    for (const auto& kv : W.nObj) if (!W.m.nId.count(kv.first)) return kv.second;
    return newN(W);
  }
  EP pickE(ObsWorld& W, bool& live) {
    size_t n = W.m.eId.size(), f = enumMode ? 1 : 3, k = static_cast<size_t>(c.below(f * n + 1));
    live = k < f * n; if (live) { auto it = W.m.eId.begin(); advance(it, static_cast<long>(k % n)); return W.eObj.at(it->first); }
    for (const auto& kv : W.eObj) if (!W.m.eId.count(kv.first)) return kv.second;
    return newE(W);
  }
  NP newN(ObsWorld& W) { NP p(new NObj{nextTag, nextTag * 7}); W.nObj[nextTag++] = p; return p; }
  EP newE(ObsWorld& W) { EP q(new EObj{nextTag, nextTag * 7}); W.eObj[nextTag++] = q; return q; }
  // object to be added: 0 a new one, 1 one that is already in the observer (ill-formed), 2 a formerly deleted one
  NP addableN(ObsWorld& W, bool& live) {
    size_t kind = static_cast<size_t>(c.below(enumMode ? 2 : 3)); live = false;
    if (kind == 1 && !W.m.nId.empty()) { live = true; return W.nObj.at(W.m.nId.begin()->first); }
    if (kind == 2) for (const auto& kv : W.nObj) if (!W.m.nId.count(kv.first)) return kv.second;
    return newN(W);
  }
  // edge object to be added: 0 a new one, 1 none (null), 2 one already in the observer (ill-formed), 3 a formerly deleted one
  EP addableE(ObsWorld& W, bool& live, bool allowNull) {
    size_t kind = static_cast<size_t>(c.below(enumMode ? 3 : 4)); live = false;
    if (kind == 1 && allowNull) return EP();
    if (kind == 2 && !W.m.eId.empty()) { live = true; return W.eObj.at(W.m.eId.begin()->first); }
    if (kind == 3) for (const auto& kv : W.eObj) if (!W.m.eId.count(kv.first)) return kv.second;
    return newE(W);
  }
  static string nm(const NP& p) { return p ? "n" + to_string(p->tag) : string("null"); }
  static string em(const EP& q) { return q ? "e" + to_string(q->tag) : string("null"); }
  size_t obsNo(const ObsWorld& W) const { return static_cast<size_t>(&W - &obs[0]); }
  void say(const string& s) { what = s; c.desc << " | " << s; }
  Id adoptOneEdge(Id a, Id b) {
    set<Id> old; for (const auto& kv : gm.edges) old.insert(kv.first);
    adoptNewEdges({{a, b}});
    for (const auto& kv : gm.edges) if (!old.count(kv.first)) return kv.first;
    vf::failNow(what + ": no new edge"); }

  void graphOp(int op);
  void obsOp(int op);
  void lifeOp(int op);
  void stepOp();
  void step() { stepOp(); checkAll(); }
  string stateKey() const;
};

// ------------------------------------------------------------------ operations on the graph itself
void World::graphOp(int op) {
  bool la, lb; Id a, b;
  ostringstream d;
  switch (op) {
    case 0: {  // createNode
      say("createNode()"); if (gm.nodes.size() >= maxNodes) return nop();
      Id r = 0; run(WF, [&] { r = g->createNode(); });
      vector<Id> nn = adoptNewNodes(1); CHECK(nn[0] == r, what << " returned " << r << " but node " << nn[0] << " appeared");
      break; }
    case 1: {  // link(a,b)
      if (freshPair(a, b, nullptr)) la = lb = true; else { a = pickNode(la); b = pickNode(lb); }
      d << "link(" << a << "," << b << ")"; say(d.str());
      if (!(la && lb)) { if (known("C14-link-absent-node")) return; run(ILL, [&] { g->link(a, b); }); break; }
      if (collide(1) && known("C14-edgeid-collision")) return;
      if (!gm.from(a, b).empty()) {
        if (known("C14-link-duplicate-pair")) return;
        if (run(FREE, [&] { g->link(a, b); })) resync();
        break;
      }
      Id r = 0; run(WF, [&] { r = g->link(a, b); });
      CHECK(!gm.edges.count(r), what << " returned the id " << r << " of an edge that is already in the graph: " << gm.str());
      adoptNewEdges({{a, b}}); CHECK(gm.edges.count(r), what << " returned " << r << " but another edge id appeared");
      break; }
    case 2: {  // unlink(a,b)
      pickPair(a, b, la, lb); d << "unlink(" << a << "," << b << ")"; say(d.str());
      if (!la) { if (known("C14-unlink-absent-node")) return; run(ILL, [&] { g->unlink(a, b); }); break; }
      set<Id> ex = gm.from(a, b);
      if (!lb || ex.empty()) { run(ILL, [&] { g->unlink(a, b); }); break; }
      for (Id e : ex) if (edgeRemovalKnown(e)) return;
      vector<Id> r; run(WF, [&] { r = g->unlink(a, b); });
      CHECK(S(r) == ex, what << " reports the deleted edges " << show(r) << ", expected " << show(ex));
      for (Id e : ex) dropEdge(e);
      break; }
    case 3: {  // deleteNode(n)
      a = pickNode(la); d << "deleteNode(" << a << ")"; say(d.str());
      if (!la) { run(ILL, [&] { g->deleteNode(a); }); break; }
      if (nodeRemovalKnown(a, nullptr)) return;
      run(WF, [&] { g->deleteNode(a); }); dropNode(a);
      break; }
    case 4: {  // createNodeFromNode(n)
      a = pickNode(la); d << "createNodeFromNode(" << a << ")"; say(d.str());
      if (!la) { if (known("C14-link-absent-node")) return; run(ILL, [&] { g->createNodeFromNode(a); }); break; }
      if (gm.nodes.size() >= maxNodes) return nop();
      if (collide(1) && known("C14-edgeid-collision")) return;
      Id r = 0; run(WF, [&] { r = g->createNodeFromNode(a); });
      vector<Id> nn = adoptNewNodes(1); CHECK(nn[0] == r, what << " returned " << r << " but node " << nn[0] << " appeared");
      adoptNewEdges({{a, r}});
      break; }
    case 5: {  // link(a,b,id): a fresh id, the id of a live edge (ill-formed), or the id of a deleted edge
      a = pickNode(la); b = pickNode(lb);
      size_t kind = static_cast<size_t>(c.below(enumMode ? 2 : 3)); Id id = gm.absentEdge() - 1 + (enumMode ? 0 : static_cast<Id>(c.below(2))); bool dup = false;
      if (kind == 1 && !gm.edges.empty()) { bool l; id = pickEdge(l); if (!l) id = gm.edges.begin()->first; dup = true; }
      if (kind == 2) for (Id e : gm.autoEdge) if (!gm.edges.count(e)) { id = e; break; }
      d << "link(" << a << "," << b << ",id " << id << ")"; say(d.str());
      if (dup) { run(ILL, [&] { g->link(a, b, id); }); break; }
      if (!(la && lb)) { if (known("C14-link-absent-node")) return; run(ILL, [&] { g->link(a, b, id); }); break; }
      if (!gm.from(a, b).empty()) {
        if (known("C14-link-duplicate-pair")) return;
        if (run(FREE, [&] { g->link(a, b, id); })) resync();
        break;
      }
      run(WF, [&] { g->link(a, b, id); });
      CHECK(S(g->getAllEdges()).count(id), what << " returned but edge " << id << " is not in getAllEdges()");
      gm.edges[id] = {a, b}; ++nLinks;
      break; }
    case 6: {  // switchNodes(a,b)
      pickPair(a, b, la, lb); d << "switchNodes(" << a << "," << b << ")"; say(d.str());
      if (!(la && lb)) { if (known("C14-switchnodes-absent-node")) return; run(ILL, [&] { g->switchNodes(a, b); }); break; }
      set<Id> fw, bw;  // directed edges a->b and b->a
      for (const auto& kv : gm.edges) { if (kv.second == make_pair(a, b)) fw.insert(kv.first); else if (kv.second == make_pair(b, a)) bw.insert(kv.first); }
      if (fw.empty() && bw.empty()) { run(ILL, [&] { g->switchNodes(a, b); }); break; }
      if (!gm.directed && a != b) {  // no direction to switch: raise, or keep every view of the undirected edge
        if (known("C14-switchnodes-undirected")) return;
        if (run(FREE, [&] { g->switchNodes(a, b); })) resync();
        break;
      }
      if (a != b && !fw.empty() && !bw.empty()) {  // both directions exist: the reversed edge would be a second b->a
        if (known("C14-switchnodes-reciprocal")) return;
        if (run(FREE, [&] { g->switchNodes(a, b); })) resync();
        break;
      }
      run(WF, [&] { g->switchNodes(a, b); });
      { Id e = fw.empty() ? *bw.begin() : *fw.begin(); auto& p = gm.edges[e]; swap(p.first, p.second); if (gm.edges.size() >= 1) ntDirection = true; }
      break; }
    case 7: {  // makeDirected
      say("makeDirected()");
      if (gm.directed) { run(WF, [&] { g->makeDirected(); }); break; }
      run(WF, [&] { g->makeDirected(); });
      // "the resulting directions are totally arbitrary": each edge keeps its end points, in the order getNodes reports
      for (auto& kv : gm.edges) { pair<Id, Id> p = g->getNodes(kv.first); CHECK(p == kv.second || p == make_pair(kv.second.second, kv.second.first), what << " changed the end points of edge " << kv.first); kv.second = p; }
      gm.directed = true; if (!gm.edges.empty()) ntDirection = true;
      if (sparseIds() && gm.edges.size() >= 2) ntSparse = true;
      break; }
    case 8: {  // makeUndirected
      say("makeUndirected()");
      if (gm.directed && gm.reciprocal()) { run(ILL, [&] { g->makeUndirected(); }); break; }
      run(WF, [&] { g->makeUndirected(); });
      if (gm.directed && !gm.edges.empty()) ntDirection = true;
      if (gm.directed && sparseIds() && gm.edges.size() >= 2) ntSparse = true;
      gm.directed = false;
      break; }
    case 9: case 10: {  // createNodeOnEdge(e) / createNodeFromEdge(e)
      Id e = pickEdge(la); d << (op == 9 ? "createNodeOnEdge(" : "createNodeFromEdge(") << e << ")"; say(d.str());
      if (!la) { run(ILL, [&] { if (op == 9) g->createNodeOnEdge(e); else g->createNodeFromEdge(e); }); break; }
      if (gm.nodes.size() + (op == 9 ? 1 : 2) > maxNodes) return nop();
      if (edgeRemovalKnown(e)) return;
      if (!gm.directed && gm.edges.at(e).first == gm.edges.at(e).second) {  // splitting an undirected loop a-a would link a-new twice
        if (known("C14-link-duplicate-pair")) return;
        if (run(FREE, [&] { if (op == 9) g->createNodeOnEdge(e); else g->createNodeFromEdge(e); })) { if (!S(g->getAllEdges()).count(e)) dropEdge(e); resync(); }
        break;
      }
      if (collide(op == 9 ? 2 : 3) && known("C14-edgeid-collision")) return;
      pair<Id, Id> ends = gm.edges.at(e);
      Id r = 0; run(WF, [&] { r = op == 9 ? g->createNodeOnEdge(e) : g->createNodeFromEdge(e); });
      dropEdge(e);
      vector<Id> nn = adoptNewNodes(op == 9 ? 1 : 2);
      CHECK(S(nn).count(r), what << " returned " << r << " which is not a new node");
      if (op == 9) adoptNewEdges({{ends.first, r}, {r, ends.second}});
      else { Id anchor = nn[0] == r ? nn[1] : nn[0]; adoptNewEdges({{ends.first, anchor}, {anchor, ends.second}, {anchor, r}}); }
      break; }
    default: {  // setRoot(n)
      a = pickNode(la); d << "setRoot(" << a << ")"; say(d.str());
      if (!la) { run(ILL, [&] { g->setRoot(a); }); break; }
      run(WF, [&] { g->setRoot(a); }); gm.rootSet = true; gm.root = a;
      break; }
  }
}

// ------------------------------------------------------------------ operations through an observer
void World::obsOp(int op) {
  ObsWorld& W = pickObs(); Obs& o = *W.o; OModel& m = W.m;
  const string on = "obs" + to_string(obsNo(W)) + ".";
  bool la, lb, le; ostringstream d;
  switch (op) {
    case 12: {  // createNode(obj)
      NP p = addableN(W, la); say(on + "createNode(" + nm(p) + ")");
      if (la) { run(ILL, [&] { o.createNode(p); }); break; }
      if (gm.nodes.size() >= maxNodes) return nop();
      run(WF, [&] { o.createNode(p); });
      vector<Id> nn = adoptNewNodes(1); m.nId[p->tag] = nn[0]; m.nTable = max(m.nTable, nn[0] + 1);
      break; }
    case 13: {  // createNode(origin, obj, edgeObj | null)
      NP from = pickN(W, la); NP p = addableN(W, lb); EP q = addableE(W, le, true);
      say(on + "createNode(" + nm(from) + "," + nm(p) + "," + em(q) + ")");
      if (from == p) return nop();
      bool ill = !la || lb || le;
      if (ill) { if (!lb && known("C14-obs-createnode-partial")) return; run(ILL, [&] { o.createNode(from, p, q); }); break; }
      if (gm.nodes.size() >= maxNodes) return nop();
      if (!q && known("C14-obs-null-edge-key")) return;
      if (collide(1) && known("C14-edgeid-collision")) return;
      Id a = m.nId.at(from->tag);
      run(WF, [&] { o.createNode(from, p, q); });
      vector<Id> nn = adoptNewNodes(1); m.nId[p->tag] = nn[0]; m.nTable = max(m.nTable, nn[0] + 1);
      Id e = adoptOneEdge(a, nn[0]); if (q) m.eId[q->tag] = e; m.eTable = max(m.eTable, e + 1);
      break; }
    case 14: {  // link(A, B, edgeObj | null)
      NP pa, pb; Id fa = 0, fb = 0; int ta = 0, tb = 0;
      if (freshPair(fa, fb, &m) && m.tagOfNode(fa, ta) && m.tagOfNode(fb, tb)) { pa = W.nObj.at(ta); pb = W.nObj.at(tb); la = lb = true; }
      else { pa = pickN(W, la); pb = pickN(W, lb); }
      EP q = addableE(W, le, true);
      say(on + "link(" + nm(pa) + "," + nm(pb) + "," + em(q) + ")");
      if (!la || !lb || le) { run(ILL, [&] { o.link(pa, pb, q); }); break; }
      Id a = m.nId.at(pa->tag), b = m.nId.at(pb->tag);
      if (!q && known("C14-obs-null-edge-key")) return;
      if (collide(1) && known("C14-edgeid-collision")) return;
      if (!gm.from(a, b).empty()) {
        if (known("C14-link-duplicate-pair")) return;
        if (run(FREE, [&] { o.link(pa, pb, q); })) { resync(); if (q && o.hasEdge(q)) { m.eId[q->tag] = o.getEdgeGraphid(q); m.eTable = max(m.eTable, m.eId[q->tag] + 1); } }
        break;
      }
      run(WF, [&] { o.link(pa, pb, q); });
      Id e = adoptOneEdge(a, b); if (q) m.eId[q->tag] = e; m.eTable = max(m.eTable, e + 1);
      break; }
    case 15: {  // unlink(A, B)
      NP pa = pickN(W, la), pb = pickN(W, lb);
      if (!enumMode && !m.eId.empty() && c.below(3) != 0) {  // often the end points of a live edge object
        bool l; EP q = pickE(W, l); if (l) { const auto& p = gm.edges.at(m.eId.at(q->tag)); int ta, tb; if (m.tagOfNode(p.first, ta) && m.tagOfNode(p.second, tb)) { pa = W.nObj.at(ta); pb = W.nObj.at(tb); la = lb = true; } }
      }
      say(on + "unlink(" + nm(pa) + "," + nm(pb) + ")");
      if (!la || !lb) { run(ILL, [&] { o.unlink(pa, pb); }); break; }
      set<Id> ex = gm.from(m.nId.at(pa->tag), m.nId.at(pb->tag));
      if (ex.empty()) { run(ILL, [&] { o.unlink(pa, pb); }); break; }
      for (Id e : ex) if (edgeRemovalKnown(e)) return;
      run(WF, [&] { o.unlink(pa, pb); });
      for (Id e : ex) dropEdge(e);
      break; }
    case 16: {  // deleteNode(A)
      NP p = pickN(W, la); say(on + "deleteNode(" + nm(p) + ")");
      if (!la) { run(ILL, [&] { o.deleteNode(p); }); break; }
      Id n = m.nId.at(p->tag);
      if (nodeRemovalKnown(n, &W)) return;
      run(WF, [&] { o.deleteNode(p); }); dropNode(n);
      break; }
    case 17: {  // associateNode(obj, graph id): a node without object, a node that has one, or an absent id
      NP p = addableN(W, la); bool ln; Id n = pickNode(ln);
      d << on << "associateNode(" << nm(p) << "," << n << ")"; say(d.str());
      int t; bool occupied = ln && m.tagOfNode(n, t);
      if (la) { run(ILL, [&] { o.associateNode(p, n); }); break; }
      if (!ln || occupied) { if (known("C14-obs-associate-unvalidated")) return; run(ILL, [&] { o.associateNode(p, n); }); break; }
      run(WF, [&] { o.associateNode(p, n); }); m.nId[p->tag] = n; m.nTable = max(m.nTable, n + 1);
      break; }
    case 18: {  // dissociateNode(obj) (objects carrying an index are left alone: what happens to the index is not documented)
      NP p = pickN(W, la); say(on + "dissociateNode(" + nm(p) + ")");
      if (!la) { if (known("C14-obs-dissociate-absent")) return; run(ILL, [&] { o.dissociateNode(p); }); break; }
      if (m.nIdx.count(p->tag)) return nop();
      run(WF, [&] { o.dissociateNode(p); }); m.nId.erase(p->tag);
      break; }
    case 19: {  // associateEdge(obj, graph id)
      EP q = addableE(W, le, false); bool ln; Id e = pickEdge(ln);
      d << on << "associateEdge(" << em(q) << "," << e << ")"; say(d.str());
      int t; bool occupied = ln && m.tagOfEdge(e, t);
      if (le) { run(ILL, [&] { o.associateEdge(q, e); }); break; }
      if (!ln || occupied) { if (known("C14-obs-associate-unvalidated")) return; run(ILL, [&] { o.associateEdge(q, e); }); break; }
      run(WF, [&] { o.associateEdge(q, e); }); m.eId[q->tag] = e; m.eTable = max(m.eTable, e + 1);
      break; }
    case 20: {  // dissociateEdge(obj)
      EP q = pickE(W, le); say(on + "dissociateEdge(" + em(q) + ")");
      if (!le) { if (known("C14-obs-dissociate-absent")) return; run(ILL, [&] { o.dissociateEdge(q); }); break; }
      if (m.eIdx.count(q->tag)) return nop();
      run(WF, [&] { o.dissociateEdge(q); }); m.eId.erase(q->tag);
      break; }
    case 21: {  // setEdgeLinking(A, B, edgeObj)
      NP pa = pickN(W, la), pb = pickN(W, lb); EP q = addableE(W, le, false);
      say(on + "setEdgeLinking(" + nm(pa) + "," + nm(pb) + "," + em(q) + ")");
      set<Id> ex; if (la && lb) ex = gm.from(m.nId.at(pa->tag), m.nId.at(pb->tag));
      if (!la || !lb || ex.empty() || le) { run(ILL, [&] { o.setEdgeLinking(pa, pb, q); }); break; }
      Id e = *ex.begin(); int t;
      if (m.tagOfEdge(e, t)) { if (known("C14-obs-associate-unvalidated")) return; run(ILL, [&] { o.setEdgeLinking(pa, pb, q); }); break; }
      run(WF, [&] { o.setEdgeLinking(pa, pb, q); }); m.eId[q->tag] = e; m.eTable = max(m.eTable, e + 1);
      break; }
    case 22: case 23: {  // setNodeIndex(obj, index) / addNodeIndex(obj) on a live node object
      if (m.nId.empty()) { say(on + "set/addNodeIndex: no node object"); return nop(); }
      NP p = pickN(W, la); if (!la) p = W.nObj.at(m.nId.begin()->first);
      bool has = m.nIdx.count(p->tag) > 0;
      if (op == 22) {
        Id ix = static_cast<Id>(c.below(enumMode ? 2 : 5));  // small range: collisions with used indexes are frequent
        d << on << "setNodeIndex(" << nm(p) << "," << ix << ")"; say(d.str());
        if (has || m.nodeIdxUsed(ix)) { run(ILL, [&] { o.setNodeIndex(p, ix); }); break; }
        Obs::NodeIndex r = 0; run(WF, [&] { r = o.setNodeIndex(p, ix); }); CHECK(r == ix, what << " returned " << r); m.nIdx[p->tag] = ix;
      } else {
        say(on + "addNodeIndex(" + nm(p) + ")");
        if (has) { run(ILL, [&] { o.addNodeIndex(p); }); break; }
        Obs::NodeIndex r = 0; run(WF, [&] { r = o.addNodeIndex(p); });
        CHECK(!m.nodeIdxUsed(r), what << " allocated index " << r << " which another node object holds: " << m.str()); m.nIdx[p->tag] = r;
      }
      break; }
    default: {  // 24 setEdgeIndex(obj, index) / 25 addEdgeIndex(obj) on a live edge object
      if (m.eId.empty()) { say(on + "set/addEdgeIndex: no edge object"); return nop(); }
      EP q = pickE(W, le); if (!le) q = W.eObj.at(m.eId.begin()->first);
      bool has = m.eIdx.count(q->tag) > 0;
      if (op == 24) {
        Id ix = static_cast<Id>(c.below(enumMode ? 2 : 5));
        d << on << "setEdgeIndex(" << em(q) << "," << ix << ")"; say(d.str());
        if (has || m.edgeIdxUsed(ix)) { run(ILL, [&] { o.setEdgeIndex(q, ix); }); break; }
        Obs::EdgeIndex r = 0; run(WF, [&] { r = o.setEdgeIndex(q, ix); }); CHECK(r == ix, what << " returned " << r); m.eIdx[q->tag] = ix;
      } else {
        say(on + "addEdgeIndex(" + em(q) + ")");
        if (has) { run(ILL, [&] { o.addEdgeIndex(q); }); break; }
        Obs::EdgeIndex r = 0; run(WF, [&] { r = o.addEdgeIndex(q); });
        CHECK(!m.edgeIdxUsed(r), what << " allocated index " << r << " which another edge object holds: " << m.str()); m.eIdx[q->tag] = r;
      }
      break; }
  }
}

// ------------------------------------------------------------------ copy / assign / drop of the second observer
void World::lifeOp(int op) {
  switch (op) {
    case 26: {  // obs1 = copy-construct(obs0): a second observer on the same graph
      say("obs1=copy(obs0)");
      if (obs.size() > 1) obs.pop_back();
      unique_ptr<Obs> cp; run(WF, [&] { cp.reset(new Obs(*obs[0].o)); });
      obs.push_back(adoptCopy<ObsWorld>(c, std::move(cp), obs[0], gm, what));
      break; }
    case 27: {  // fresh = obs0 through operator= (a new observer of its own empty graph is assigned to), or obs1 = obs0 when obs1 exists
      if (obs.size() > 1) {
        say("obs1=obs0 (operator=)");
        if (known("C14-obs-assign-not-reset")) return;
        // the target keeps no relation of its own: same as a fresh copy. It already observes the same graph.
        if (run(FREE, [&] { *obs[1].o = *obs[0].o; })) { unique_ptr<Obs> keep = std::move(obs[1].o); obs.pop_back(); obs.push_back(adoptCopy<ObsWorld>(c, std::move(keep), obs[0], gm, what)); }
        break;  // when it raised, obs1 must be what it was
      }
      say("obs1=new observer; obs1=obs0 (operator=)");
      unique_ptr<Obs> t(new Obs(shared_ptr<GlobalGraph>(new PubGraph(gm.directed))));
      run(WF, [&] { *t = *obs[0].o; });
      CHECK(t->getGraph().get() == g.get(), what << ": the assigned observer does not observe the source's graph");
      obs.push_back(adoptCopy<ObsWorld>(c, std::move(t), obs[0], gm, what));
      break; }
    case 28: {  // drop the second observer
      say("drop obs1"); if (obs.size() < 2) return nop();
      obs.pop_back();
      break; }
    case 29: {  // conv = converting copy of an observer: other node and edge object types, same graph
      ObsWorld& W = pickObs(); say("conv=convert(obs" + to_string(obsNo(W)) + ")");
      conv.reset();
      unique_ptr<Obs2> cp; run(WF, [&] { cp.reset(new Obs2(*W.o)); });
      CHECK(cp->getGraph().get() == g.get(), what << ": the converted copy does not observe the source's graph");
      conv.reset(new ObsWorld2(adoptCopy<ObsWorld2>(c, std::move(cp), W, gm, what)));
      if (!W.m.nIdx.empty() || !W.m.eIdx.empty()) ntConvert = true;
      break; }
    case 30: {  // obs1 = converting copy of conv (back to the first object types): the histories go on operating on it
      say("obs1=convert(conv)"); if (!conv) return nop();
      if (obs.size() > 1) obs.pop_back();
      unique_ptr<Obs> cp; run(WF, [&] { cp.reset(new Obs(*conv->o)); });
      CHECK(cp->getGraph().get() == g.get(), what << ": the converted copy does not observe the source's graph");
      obs.push_back(adoptCopy<ObsWorld>(c, std::move(cp), *conv, gm, what));
      if (!conv->m.nIdx.empty() || !conv->m.eIdx.empty()) ntConvert = true;
      break; }
    default: {  // drop the converted observer
      say("drop conv"); if (!conv) return nop();
      conv.reset();
      break; }
  }
}

// full model state, object tags replaced by their rank (the harness' names do not matter)
string World::stateKey() const {
  ostringstream o; o << gm.str() << "|r" << gm.rootSet << gm.root << "|a" << gm.nextAuto << show(gm.everNode) << show(gm.autoEdge);
  auto one = [&o](const auto& W) {
    o << "|N"; size_t dead = 0;
    for (const auto& kv : W.nObj) { auto it = W.m.nId.find(kv.first); if (it == W.m.nId.end()) { ++dead; continue; } o << it->second; auto ix = W.m.nIdx.find(kv.first); if (ix != W.m.nIdx.end()) o << "#" << ix->second; o << ","; }
    o << "d" << (dead ? 1 : 0) << "E"; dead = 0;
    for (const auto& kv : W.eObj) { auto it = W.m.eId.find(kv.first); if (it == W.m.eId.end()) { ++dead; continue; } o << it->second; auto ix = W.m.eIdx.find(kv.first); if (ix != W.m.eIdx.end()) o << "#" << ix->second; o << ","; }
    o << "d" << (dead ? 1 : 0) << "t" << W.m.nTable << "," << W.m.eTable;
  };
  for (const auto& W : obs) one(W);
  if (conv) { o << "|conv"; one(*conv); }
  return o.str();
}

void World::stepOp() {
  int op;
  if (enumMode) op = static_cast<int>(c.below(graphOnly ? 12 : 32));
  else {
    // operation weights, in the order of the opcodes 0..31:
    //  createNode link unlink deleteNode createNodeFromNode link(id) switchNodes makeDirected makeUndirected createNodeOnEdge createNodeFromEdge setRoot |
    //  obs: createNode createNode(from) link unlink deleteNode associateNode dissociateNode associateEdge dissociateEdge setEdgeLinking
    //       setNodeIndex addNodeIndex setEdgeIndex addEdgeIndex | obs1=copy obs1=assign drop-obs1 conv=convert obs1=convert(conv) drop-conv
    if (plan == 0) op = static_cast<int>(c.weighted({6, 8, 5, 3, 3, 2, 3, 1, 1, 2, 1, 1,  5, 5, 6, 4, 3, 2, 1, 2, 1, 1, 2, 2, 2, 2,  1, 1, 1, 1, 1, 1}));
    else {
      // staged history (the states a uniform mix of operations hardly ever reaches within 40 operations): first nodes
      // are created AND deleted until the live ids lie above the live count, then the survivors are linked densely
      // (self-loops included), then the direction is changed to and fro with further links, unlinks and deletions between
      switch (opNo * 5 / nOps) {
        case 0: case 1: op = static_cast<int>(c.weighted({8, 2, 0, 6, 1, 0, 0, 0, 1, 0, 0, 1,  5, 1, 1, 0, 4, 1, 0, 0, 0, 0, 1, 1, 0, 0,  1, 0, 0, 1, 0, 0})); break;
        case 2: case 3: op = static_cast<int>(c.weighted({1, 14, 0, 1, 0, 2, 0, 0, 3, 0, 0, 0,  1, 0, 6, 0, 0, 0, 0, 1, 0, 0, 0, 0, 1, 1,  1, 0, 0, 1, 0, 0})); break;
        default:        op = static_cast<int>(c.weighted({1, 5, 1, 1, 0, 0, 2, 6, 4, 1, 0, 0,  0, 0, 2, 1, 1, 0, 0, 0, 0, 0, 0, 0, 0, 0,  0, 1, 0, 0, 1, 0})); break;
      }
    }
    if (gm.nodes.size() < 3 && c.below(2) == 0) op = c.flag() ? 12 : 0;  // small graphs grow first
  }
  ++opNo;
  if (op <= 11) graphOp(op); else if (op <= 25) obsOp(op); else lifeOp(op);
}

const char* NT = "history with a delete/unlink after >=2 links, or a direction change with >=1 edge, or an ill-formed call that raised, or a converting copy of an observer with an index";

}  // namespace

// ------------------------------------------------------------------ random histories: <= 40 operations over <= 8 nodes
// (a call that does not come back within 10 CPU-seconds is a violation: every call must return or raise)
// Two plans (first draw after the direction): 0 = every operation drawn from one weight table, 1..40 operations, <= 8 live
// nodes; 1 = staged history (create/delete churn, dense linking, direction changes; see stepOp), 12..40 operations,
// <= 5..8 live nodes, fewer absent operands.  Both lie inside the quantifier; the stages only shift the weights.
LAW(H_history, RC, 5000, 250000, 330, NT, 10, true) {
  bool directed = !c.flag();
  int plan = static_cast<int>(c.weighted({3, 2}));
  World w(c, false, plan == 0 ? 8 : 8 - static_cast<size_t>(c.below(4)), directed);
  int nops = plan == 0 ? c.irange(1, 40) : c.irange(12, 40);
  w.plan = plan; w.nOps = nops; if (plan) w.liveBias = 8;
  c.desc << (directed ? "directed" : "undirected") << (plan ? " staged" : "") << ": ";
  w.what = "initial state"; w.checkAll();
  for (int i = 0; i < nops; ++i) w.step();
  c.nt(w.ntDelete || w.ntDirection || w.illRaised > 0 || w.ntConvert);
  if (w.ntSparse) c.label("direction change with >=2 edges and node ids above the live count");
  if (w.ntConvert) c.label("converting copy of an observer with an index");
  if (w.illRaised) c.label("ill-formed call raised");
  if (w.ntDelete) c.label("delete/unlink after >=2 links");
  if (w.ntDirection) c.label("direction change with an edge");
}

// ------------------------------------------------------------------ all operation sequences up to length L over <= 4 nodes
// Start configurations: directed / undirected x {empty graph, n1 -e-> n2 built through the observer, path 0->1->2 built on
// the graph with node objects on 0 and 1 and no edge object}.  The first draw is the length, so the enumerator works in
// rounds of increasing length (iterative deepening).  De-duplication on the full model state (including the hidden
// counters and table sizes the findings' predicates use): a sequence is continued only along the first path that reached
// its current state, so every (state, operation) transition from a state reachable in < L operations is evaluated once;
// the views are compared with the model after the last operation of every sequence (every prefix is a sequence of an
// earlier round).  Replays do not prune and check after every operation.
// The quick / thorough fields of the two laws are shard counts; the length bound is the quick one with fewer than ENUM_T
// shards, else the thorough one (full alphabet: 2 / 3, graph operations only: 3 / 4; the design asked for 4 / 6, which the
// alphabet of ~250 operations per state does not allow: round 3 of the full alphabet already has ~2.10^6 transitions).
const int ENUM_T = 64;  // with at least this many shards (thorough tier) the longer length is used
static void sequences(vf::Ctx& c, bool graphOnly, int lenQuick, int lenThorough, std::unordered_map<uint64_t, uint64_t>& seen) {
  const bool enumerating = c.s.enumerating();
  int maxLen = enumerating ? (c.shardN >= ENUM_T ? lenThorough : lenQuick) : 6;
  int len = 1 + static_cast<int>(c.below(static_cast<uint64_t>(maxLen)));
  bool directed = !c.flag(); int shape = static_cast<int>(c.below(3));
  World w(c, true, 4, directed); w.graphOnly = graphOnly;
  c.desc << (directed ? "directed" : "undirected") << " start " << shape << ": ";
  ObsWorld& W = w.obs[0];
  if (shape == 1) {
    NP a = w.newN(W), b = w.newN(W); EP q = w.newE(W);
    W.o->createNode(a); W.m.nId[a->tag] = w.adoptNewNodes(1)[0]; W.o->createNode(b); W.m.nId[b->tag] = w.adoptNewNodes(1)[0];
    W.o->link(a, b, q); w.adoptNewEdges({{W.m.nId[a->tag], W.m.nId[b->tag]}}); W.m.eId[q->tag] = w.gm.edges.begin()->first;
    W.m.nTable = 2; W.m.eTable = 1;
  } else if (shape == 2) {
    for (int k = 0; k < 3; ++k) { w.g->createNode(); w.adoptNewNodes(1); }
    w.g->link(0, 1); w.adoptNewEdges({{0, 1}}); w.g->link(1, 2); w.adoptNewEdges({{1, 2}});
    NP a = w.newN(W), b = w.newN(W); W.o->associateNode(a, 0); W.o->associateNode(b, 1); W.m.nId[a->tag] = 0; W.m.nId[b->tag] = 1; W.m.nTable = 2;
  }
  w.nLinks = 0; w.what = "start configuration";
  // Sharding: only the last round (len == maxLen) is divided, by the hash of its (len-1)-operation prefix; the shorter
  // rounds are run by every shard because they fill the table of first paths, but checked and counted by shard 0 only.
  const bool lastRound = len == maxLen, mine = !enumerating || lastRound || c.shardK == 0;
  if (!enumerating || (len == 1 && mine)) w.checkAll();
  for (int i = 0; i < len; ++i) {
    w.stepOp();
    if (!enumerating) { w.checkAll(); continue; }
    uint64_t key = vf::hashStr(w.stateKey()), ph = vf::hashStr(c.desc.str());
    auto it = seen.find(key);
    if (i + 1 < len) { if (it == seen.end() || it->second != ph) throw vf::Skip(); }  // not the first path to this state: explored elsewhere
    else if (it == seen.end()) seen.emplace(key, ph);
    if (lastRound && i == len - 2) c.shardPoint();  // the description so far is the prefix
  }
  if (enumerating && !mine) throw vf::Skip();
  if (enumerating) w.checkAll();
  c.desc << " [" << len << " op(s)]";
  c.nt(w.ntDelete || w.ntDirection || w.illRaised > 0 || w.ntConvert);
}
// every operation (graph, observer, copy/assign/drop): length <= 2 quick, <= 3 thorough
LAW(E_sequences, ENUM, 16, ENUM_T, 0, NT, 10, true) { static std::unordered_map<uint64_t, uint64_t> seen; sequences(c, false, 2, 3, seen); }
// operations on the graph only (the observer of the start configuration looks on): length <= 3 quick, <= 4 thorough
LAW(E_graph_sequences, ENUM, 16, ENUM_T, 0, NT, 10, true) { static std::unordered_map<uint64_t, uint64_t> seen; sequences(c, true, 3, 4, seen); }

static struct Init { Init() { vf::G().resetHook = [] { vf::quietBpp(); vf::installAudit(); }; } } init_;
VF_MAIN("C14")
