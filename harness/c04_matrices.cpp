// C04 — matrix operations match their definitions for every shape and storage layout.
// Laws of DESIGN.md section 5/C04: one reference loop per MatrixTools routine, operands and outputs in each of
// RowMatrix / ColMatrix / LinearMatrix, every call run a second time with other storage classes (bitwise equal result
// demanded), outputs unsized / sized / wrongly pre-sized, non-conformable calls -> DimensionException, and the
// linear-assignment solver against brute force over all permutations with the dual certificate.
//
// Shapes: a RowMatrix with 0 rows reports 0 columns (ColMatrix symmetric); the shape an operand *reports* is the
// truth, and the expected shape of an output is the defined shape as its storage class reports it (normShape).
// Integer inputs: reference in long double (exact for |values| < 2^63; every reference entry is asserted < 2^53),
// equality demanded. Real inputs: |error| <= 4*len*eps*sum|terms| of the defining sum.
#include "common/pbt.hpp"
#include "common/bppcommon.hpp"
#include "common/c04_ref.hpp"

using namespace bpp;
using namespace std;
using namespace c04;

#define NTRULE "a 0/1 dimension or non-square operand, mixed storage classes, output not pre-sized as the result, or a non-conformable call"

namespace {
bool mixed(initializer_list<int> ks) { int f = *ks.begin(); for (int k : ks) if (k != f) return true; return false; }
long double P(double a, double b) { return static_cast<long double>(a) * static_cast<long double>(b); }
long double P(double a, double b, double d) { return static_cast<long double>(a) * static_cast<long double>(b) * static_cast<long double>(d); }
}  // namespace

// ================================================================== copy / transpose / toVVdouble / storage conversion / row(), col()
LAW(L_copy_transpose, RC, 8000, 250000, 140, NTRULE) {
  bool integer = genInteger(c);
  int fn = static_cast<int>(c.below(4));  // 0 copy, 1 transpose, 2 toVVdouble + row()/col(), 3 converting constructor / assignment
  bool abstractCall = c.flag();           // instantiate the template for the abstract interface instead of the concrete classes
  Op A = genOp(c, genDim(c), genDim(c), integer);
  OutSpec os = genOut(c);
  static const char* FN[] = {"copy ", "transpose ", "toVVdouble/row/col ", "convert "};
  c.desc << FN[fn] << (abstractCall ? "(abstract) " : "") << show(A) << " " << show(os);
  c.nt(A.m.degenerate() || os.mode != 1 || mixed({A.k[0], os.k[0]}));
  Ref ref = fn == 1 ? Ref(A.m.c, A.m.r) : refOf(A.m);
  if (fn == 1) for (size_t i = 0; i < A.m.r; ++i) for (size_t j = 0; j < A.m.c; ++j) ref.set(j, i, A.m(i, j));
  RM res[2];
  for (int w = 0; w < 2; ++w) {
    auto a = build(A.k[w], A.m);
    if (fn == 2) {
      vector<vector<double>> vv(os.wr, vector<double>(os.wc, SENT));
      MatrixTools::toVVdouble(*a, vv);
      CHECK(vv.size() == A.m.r, "toVVdouble: " << vv.size() << " rows for " << A.m.r);
      for (size_t i = 0; i < A.m.r; ++i) {
        CHECK(vv[i].size() == A.m.c, "toVVdouble: row " << i << " has " << vv[i].size() << " entries for " << A.m.c << " columns");
        for (size_t j = 0; j < A.m.c; ++j) CHECK(sameD(vv[i][j], A.m(i, j)), "toVVdouble: entry (" << i << "," << j << ")");
        vector<double> rw = a->row(i);
        CHECK(rw.size() == A.m.c, "row(" << i << ") has " << rw.size() << " entries for " << A.m.c << " columns");
        for (size_t j = 0; j < A.m.c; ++j) CHECK(sameD(rw[j], A.m(i, j)), "row(" << i << ")[" << j << "]");
      }
      for (size_t j = 0; j < A.m.c; ++j) {
        vector<double> cl = a->col(j);
        CHECK(cl.size() == A.m.r, "col(" << j << ") has " << cl.size() << " entries for " << A.m.r << " rows");
        for (size_t i = 0; i < A.m.r; ++i) CHECK(sameD(cl[i], A.m(i, j)), "col(" << j << ")[" << i << "]");
      }
    } else if (fn == 3) {
      // converting constructor and assignment from the abstract interface, into storage os.k[w]
      unique_ptr<MX> O1, O2 = makeOut(os, w, ref.r, ref.c);
      switch (os.k[w]) {
        case 0: O1.reset(new RowM(*a)); static_cast<RowM&>(*O2) = *a; break;
        case 1: O1.reset(new ColM(*a)); static_cast<ColM&>(*O2) = *a; break;
        default: O1.reset(new LinM(*a)); static_cast<LinM&>(*O2) = *a; break;
      }
      cmpRef(c, "converting constructor", *O1, os.k[w], ref, true);
      cmpRef(c, "converting assignment", *O2, os.k[w], ref, true);
      unique_ptr<MX> O3(dynamic_cast<MX*>(a->clone()));
      CHECK(O3 != nullptr, "clone() is not a matrix");
      cmpRef(c, "clone", *O3, A.k[w], ref, true);
      res[w] = snap(*O1);
    } else {
      auto O = makeOut(os, w, ref.r, ref.c);
      if (abstractCall) { if (fn == 0) MatrixTools::copy(*a, *O); else MatrixTools::transpose(*a, *O); }
      else with2(*a, A.k[w], *O, os.k[w], [&](auto& X, auto& Y) { if (fn == 0) MatrixTools::copy(X, Y); else MatrixTools::transpose(X, Y); });
      cmpRef(c, fn == 0 ? "copy" : "transpose", *O, os.k[w], ref, true);
      res[w] = snap(*O);
    }
    CHECK(sameRM(snap(*a), A.m), "input modified");
  }
  sameRuns(res[0], res[1], "copy/transpose");
}

// ================================================================== getId / diag (3 forms)
LAW(L_getId_diag, RC, 8000, 250000, 140, "n in {0,1}, output not pre-sized as the result, or diag() of a non-square matrix") {
  bool integer = genInteger(c);
  int fn = static_cast<int>(c.below(4));  // 0 getId, 1 diag(vector), 2 diag(x,n), 3 diag(matrix -> vector)
  OutSpec os = genOut(c);
  size_t n = genDim(c);
  bool abstractCall = c.flag();
  if (fn <= 2) {
    vector<double> D = genVec(c, n, integer); double x = genEntry(c, integer);
    c.desc << (fn == 0 ? (abstractCall ? "getId (abstract) n=" : "getId n=") : fn == 1 ? "diag(vector) n=" : "diag(x,n) n=") << n << " D=" << show(D) << " x=" << num(x) << " " << show(os);
    c.nt(n <= 1 || os.mode != 1);
    Ref ref(n, n);
    for (size_t i = 0; i < n; ++i) ref.set(i, i, fn == 0 ? 1.0 : fn == 1 ? D[i] : x);
    RM res[2];
    for (int w = 0; w < 2; ++w) {
      auto O = makeOut(os, w, n, n);
      if (fn == 0) { if (abstractCall) MatrixTools::getId(n, *O); else withM(*O, os.k[w], [&](auto& Y) { MatrixTools::getId(n, Y); }); }
      else if (fn == 1) MatrixTools::diag(D, *O);
      else MatrixTools::diag(x, n, *O);
      cmpRef(c, "getId/diag", *O, os.k[w], ref, true);
      res[w] = snap(*O);
    }
    sameRuns(res[0], res[1], "getId/diag");
  } else {
    size_t m = c.below(4) == 3 ? otherDim(c, n) : n;
    Op A = genOp(c, n, m, integer);
    size_t pre = c.below(9);
    c.desc << "diag(matrix) " << show(A) << " output vector pre-sized " << pre;
    bool square = A.m.r == A.m.c;
    c.nt(A.m.degenerate() || pre != A.m.r);
    for (int w = 0; w < 2; ++w) {
      auto a = build(A.k[w], A.m);
      vector<double> O(pre, SENT);
      bool threw = throwsDim([&] { MatrixTools::diag(*a, O); });
      CHECK(threw == !square, "diag(matrix): " << (threw ? "raised for a square matrix" : "no DimensionException for a non-square matrix"));
      if (square) {
        CHECK(O.size() == A.m.r, "diag(matrix): output has " << O.size() << " entries for n=" << A.m.r);
        for (size_t i = 0; i < A.m.r; ++i) CHECK(sameD(O[i], A.m(i, i)), "diag(matrix): entry " << i);
      }
      CHECK(sameRM(snap(*a), A.m), "input modified");
    }
  }
}

// ================================================================== fill / fillDiag / scale (in place)
LAW(L_fill_scale, RC, 8000, 250000, 140, "a 0/1 dimension or non-square matrix") {
  bool integer = genInteger(c);
  int fn = static_cast<int>(c.below(4));  // 0 fill, 1 fillDiag, 2 scale(a,b), 3 scale(a)
  Op A = genOp(c, genDim(c), genDim(c), integer);
  double x = genEntry(c, integer), y = genEntry(c, integer);
  if (fn >= 2 && c.below(6) == 5) { x = 1; if (c.flag()) y = 0; }  // the documented shortcut a=1, b=0
  bool exact = integer;
  if (fn >= 2 && c.oneIn(6)) {  // scalars next to, but not on, the identity pair (1, 0): the shortcut must be exact
    int which = static_cast<int>(c.below(3));
    x = 1; y = 0;
    if (which != 1) x = 1 + (c.flag() ? 1 : -1) * std::ldexp(1.0, -static_cast<int>(c.irange(36, 53)));
    if (which != 0) y = (c.flag() ? 1 : -1) * c.pick({5e-13, 1e-13, 1e-15, 1e-20, 1e-300, 4.9406564584124654e-324});
    exact = false;
  }
  bool abstractCall = c.flag();
  c.desc << (fn == 0 ? "fill " : fn == 1 ? "fillDiag " : fn == 2 ? "scale(a,b) " : "scale(a) ") << (abstractCall ? "(abstract) " : "") << show(A) << " x=" << num(x) << " y=" << num(y);
  c.nt(A.m.degenerate());
  if (fn == 1 && A.m.r > A.m.c) c.excludeIfKnown("C04-fillDiag-tall");
  Ref ref(A.m.r, A.m.c, 2);
  for (size_t i = 0; i < A.m.r; ++i) for (size_t j = 0; j < A.m.c; ++j) {
    if (fn == 0) ref.set(i, j, x);
    else if (fn == 1) ref.set(i, j, i == j ? x : A.m(i, j));
    else if (fn == 2) { ref.add(i, j, P(x, A.m(i, j))); ref.add(i, j, y); }
    else ref.set(i, j, P(x, A.m(i, j)));
  }
  RM res[2];
  for (int w = 0; w < 2; ++w) {
    auto a = build(A.k[w], A.m);
    auto call = [&](auto& X) {
      if (fn == 0) MatrixTools::fill(X, x); else if (fn == 1) MatrixTools::fillDiag(X, x);
      else if (fn == 2) MatrixTools::scale(X, x, y); else MatrixTools::scale(X, x);
    };
    if (abstractCall) call(*a); else withM(*a, A.k[w], call);
    cmpRef(c, fn <= 1 ? "fill" : "scale", *a, A.k[w], ref, exact || fn <= 1);
    res[w] = snap(*a);
  }
  sameRuns(res[0], res[1], "fill/scale");
}

// ================================================================== mult(A,B)
LAW(L_mult, RC, 8000, 250000, 260, NTRULE) {
  bool integer = genInteger(c);
  size_t r = genDim(c), k = genDim(c), cc = genDim(c);
  Op A = genOp(c, r, k, integer);
  size_t kb = c.below(5) == 4 ? otherDim(c, A.m.c) : A.m.c;
  Op B = genOp(c, kb, cc, integer);
  OutSpec os = genOut(c);
  bool conf = A.m.c == B.m.r;
  c.desc << "mult " << show(A) << " * " << show(B) << " " << show(os);
  c.nt(A.m.degenerate() || B.m.degenerate() || os.mode != 1 || !conf || mixed({A.k[0], B.k[0], os.k[0]}));
  if (!conf) c.label("nonconformable");
  Ref ref(A.m.r, B.m.c, static_cast<double>(A.m.c) + 1);
  if (conf) for (size_t i = 0; i < A.m.r; ++i) for (size_t j = 0; j < B.m.c; ++j) for (size_t l = 0; l < A.m.c; ++l) ref.add(i, j, P(A.m(i, l), B.m(l, j)));
  RM res[2];
  for (int w = 0; w < 2; ++w) {
    auto a = build(A.k[w], A.m); auto b = build(B.k[w], B.m); auto O = makeOut(os, w, ref.r, ref.c);
    bool threw = throwsDim([&] { MatrixTools::mult(*a, *b, *O); });
    CHECK(threw == !conf, "mult: " << (threw ? "DimensionException for conformable operands" : "no DimensionException for non-conformable operands"));
    CHECK(sameRM(snap(*a), A.m) && sameRM(snap(*b), B.m), "input modified");
    if (conf) { cmpRef(c, "mult", *O, os.k[w], ref, integer); res[w] = snap(*O); }
  }
  sameRuns(res[0], res[1], "mult");
}

// ================================================================== complex mult on (re,im) pairs
LAW(L_mult_complex, RC, 8000, 250000, 460, NTRULE) {
  bool integer = genInteger(c);
  size_t r = genDim(c), k = genDim(c), cc = genDim(c);
  Op A = genOp(c, r, k, integer);
  size_t kb = c.below(6) == 5 ? otherDim(c, A.m.c) : A.m.c;
  Op B = genOp(c, kb, cc, integer);
  // imaginary parts: same shape as the real part, or (rarely) another shape
  size_t ir = A.m.r, ic = A.m.c, jr = B.m.r, jc = B.m.c;
  switch (c.weighted({36, 1, 1, 1, 1})) { case 1: ir = otherDim(c, ir); break; case 2: ic = otherDim(c, ic); break; case 3: jr = otherDim(c, jr); break; case 4: jc = otherDim(c, jc); break; default: break; }
  Op iA = genOp(c, ir, ic, integer), iB = genOp(c, jr, jc, integer);
  OutSpec os = genOut(c), ios = genOut(c);
  bool confRe = A.m.c == B.m.r;
  bool confIm = iA.m.r == A.m.r && iA.m.c == A.m.c && iB.m.r == B.m.r && iB.m.c == B.m.c;
  c.desc << "complex mult (" << show(A) << " + i " << show(iA) << ") * (" << show(B) << " + i " << show(iB) << ") re " << show(os) << " im " << show(ios);
  bool conf = confRe && confIm;
  c.nt(A.m.degenerate() || B.m.degenerate() || os.mode != 1 || ios.mode != 1 || !conf || mixed({A.k[0], iA.k[0], B.k[0], iB.k[0], os.k[0], ios.k[0]}));
  if (!conf) c.label("nonconformable");
  if (confRe && !confIm) c.excludeIfKnown("C04-complex-imag-unchecked");
  Ref re(A.m.r, B.m.c, 2.0 * static_cast<double>(A.m.c) + 2), im(A.m.r, B.m.c, 2.0 * static_cast<double>(A.m.c) + 2);
  if (conf) for (size_t i = 0; i < A.m.r; ++i) for (size_t j = 0; j < B.m.c; ++j) for (size_t l = 0; l < A.m.c; ++l) {
    re.add(i, j, P(A.m(i, l), B.m(l, j))); re.add(i, j, -P(iA.m(i, l), iB.m(l, j)));
    im.add(i, j, P(A.m(i, l), iB.m(l, j))); im.add(i, j, P(iA.m(i, l), B.m(l, j)));
  }
  RM res[2], ires[2];
  for (int w = 0; w < 2; ++w) {
    auto a = build(A.k[w], A.m); auto b = build(B.k[w], B.m); auto ia = build(iA.k[w], iA.m); auto ib = build(iB.k[w], iB.m);
    auto O = makeOut(os, w, re.r, re.c); auto iO = makeOut(ios, w, re.r, re.c);
    bool threw = throwsDim([&] { MatrixTools::mult(*a, *ia, *b, *ib, *O, *iO); });
    CHECK(threw == !conf, "complex mult: " << (threw ? "DimensionException for conformable operands" : "no DimensionException for non-conformable operands"));
    CHECK(sameRM(snap(*a), A.m) && sameRM(snap(*b), B.m) && sameRM(snap(*ia), iA.m) && sameRM(snap(*ib), iB.m), "input modified");
    if (conf) { cmpRef(c, "cmult.re", *O, os.k[w], re, integer); cmpRef(c, "cmult.im", *iO, ios.k[w], im, integer); res[w] = snap(*O); ires[w] = snap(*iO); }
  }
  sameRuns(res[0], res[1], "complex mult (re)"); sameRuns(ires[0], ires[1], "complex mult (im)");
}

// ================================================================== mult(A,D,B) with a diagonal middle factor
LAW(L_mult_diag, RC, 8000, 250000, 280, NTRULE) {
  bool integer = genInteger(c);
  size_t r = genDim(c), k = genDim(c), cc = genDim(c);
  Op A = genOp(c, r, k, integer);
  size_t kb = A.m.c, kd = A.m.c;
  switch (c.weighted({8, 1, 1})) { case 1: kb = otherDim(c, kb); break; case 2: kd = otherDim(c, kd); break; default: break; }
  Op B = genOp(c, kb, cc, integer);
  vector<double> D = genVec(c, kd, integer);
  OutSpec os = genOut(c);
  bool conf = A.m.c == B.m.r && D.size() == A.m.c;
  c.desc << "mult " << show(A) << " * diag" << show(D) << " * " << show(B) << " " << show(os);
  c.nt(A.m.degenerate() || B.m.degenerate() || os.mode != 1 || !conf || mixed({A.k[0], B.k[0], os.k[0]}));
  if (!conf) c.label("nonconformable");
  Ref ref(A.m.r, B.m.c, 2.0 * static_cast<double>(A.m.c) + 2);
  if (conf) for (size_t i = 0; i < A.m.r; ++i) for (size_t j = 0; j < B.m.c; ++j) for (size_t l = 0; l < A.m.c; ++l) ref.add(i, j, P(A.m(i, l), D[l], B.m(l, j)));
  RM res[2];
  for (int w = 0; w < 2; ++w) {
    auto a = build(A.k[w], A.m); auto b = build(B.k[w], B.m); auto O = makeOut(os, w, ref.r, ref.c);
    vector<double> D0 = D;
    bool threw = throwsDim([&] { MatrixTools::mult(*a, D, *b, *O); });
    CHECK(threw == !conf, "mult(A,D,B): " << (threw ? "DimensionException for conformable operands" : "no DimensionException for non-conformable operands"));
    CHECK(sameRM(snap(*a), A.m) && sameRM(snap(*b), B.m) && D0 == D, "input modified");
    if (conf) { cmpRef(c, "mult(A,D,B)", *O, os.k[w], ref, integer); res[w] = snap(*O); }
  }
  sameRuns(res[0], res[1], "mult(A,D,B)");
}

// ================================================================== complex diagonal mult
LAW(L_mult_cdiag, RC, 8000, 250000, 500, NTRULE) {
  bool integer = genInteger(c);
  size_t r = genDim(c), k = genDim(c), cc = genDim(c);
  Op A = genOp(c, r, k, integer, 5);
  size_t kb = A.m.c, kd = A.m.c;
  switch (c.weighted({10, 1, 1})) { case 1: kb = otherDim(c, kb); break; case 2: kd = otherDim(c, kd); break; default: break; }
  Op B = genOp(c, kb, cc, integer, 5);
  size_t ir = A.m.r, ic = A.m.c, jr = B.m.r, jc = B.m.c, kid = kd;
  switch (c.weighted({45, 1, 1, 1, 1, 1})) { case 1: ir = otherDim(c, ir); break; case 2: ic = otherDim(c, ic); break; case 3: jr = otherDim(c, jr); break; case 4: jc = otherDim(c, jc); break; case 5: kid = otherDim(c, kid); break; default: break; }
  Op iA = genOp(c, ir, ic, integer, 5), iB = genOp(c, jr, jc, integer, 5);
  vector<double> D = genVec(c, kd, integer), iD = genVec(c, kid, integer);
  OutSpec os = genOut(c), ios = genOut(c);
  bool confRe = A.m.c == B.m.r && D.size() == A.m.c;
  bool confIm = iA.m.r == A.m.r && iA.m.c == A.m.c && iB.m.r == B.m.r && iB.m.c == B.m.c && iD.size() == D.size();
  bool conf = confRe && confIm;
  c.desc << "complex diag mult (" << show(A) << " + i " << show(iA) << ") * diag(" << show(D) << " + i " << show(iD) << ") * (" << show(B) << " + i " << show(iB) << ") re " << show(os) << " im " << show(ios);
  c.nt(A.m.degenerate() || B.m.degenerate() || os.mode != 1 || ios.mode != 1 || !conf || mixed({A.k[0], iA.k[0], B.k[0], iB.k[0], os.k[0], ios.k[0]}));
  if (!conf) c.label("nonconformable");
  if (confRe && !confIm) c.excludeIfKnown("C04-complex-imag-unchecked");
  Ref re(A.m.r, B.m.c, 8.0 * static_cast<double>(A.m.c) + 2), im(A.m.r, B.m.c, 8.0 * static_cast<double>(A.m.c) + 2);
  if (conf) for (size_t i = 0; i < A.m.r; ++i) for (size_t j = 0; j < B.m.c; ++j) for (size_t l = 0; l < A.m.c; ++l) {
    // (a + i a')(d + i d')(b + i b'), all eight products
    double a = A.m(i, l), a2 = iA.m(i, l), b = B.m(l, j), b2 = iB.m(l, j), d = D[l], d2 = iD[l];
    re.add(i, j, P(a, b, d)); re.add(i, j, -P(a2, b2, d)); re.add(i, j, -P(a, b2, d2)); re.add(i, j, -P(a2, b, d2));
    im.add(i, j, P(a, b, d2)); im.add(i, j, -P(a2, b2, d2)); im.add(i, j, P(a, b2, d)); im.add(i, j, P(a2, b, d));
  }
  RM res[2], ires[2];
  for (int w = 0; w < 2; ++w) {
    auto a = build(A.k[w], A.m); auto b = build(B.k[w], B.m); auto ia = build(iA.k[w], iA.m); auto ib = build(iB.k[w], iB.m);
    auto O = makeOut(os, w, re.r, re.c); auto iO = makeOut(ios, w, re.r, re.c);
    if (conf) {
      size_t er = re.r, ec = re.c; normShape(ios.k[w], er, ec);
      if (iO->getNumberOfRows() != er || iO->getNumberOfColumns() != ec) c.excludeIfKnown("C04-cdiag-iO-not-resized");
    }
    bool threw = throwsDim([&] { MatrixTools::mult(*a, *ia, D, iD, *b, *ib, *O, *iO); });
    CHECK(threw == !conf, "complex diag mult: " << (threw ? "DimensionException for conformable operands" : "no DimensionException for non-conformable operands"));
    CHECK(sameRM(snap(*a), A.m) && sameRM(snap(*b), B.m) && sameRM(snap(*ia), iA.m) && sameRM(snap(*ib), iB.m), "input modified");
    if (conf) { cmpRef(c, "cdiag.re", *O, os.k[w], re, integer); cmpRef(c, "cdiag.im", *iO, ios.k[w], im, integer); res[w] = snap(*O); ires[w] = snap(*iO); }
  }
  sameRuns(res[0], res[1], "complex diag mult (re)"); sameRuns(ires[0], ires[1], "complex diag mult (im)");
}

// ================================================================== tridiagonal mult(A,D,U,L,B)
LAW(L_mult_tridiag, RC, 8000, 250000, 300, NTRULE " (inner dimension 1 and 2 forced often)") {
  bool integer = genInteger(c);
  size_t r = genDim(c), cc = genDim(c);
  size_t k; switch (c.weighted({3, 3, 1, 5})) { case 0: k = 1; break; case 1: k = 2; break; case 2: k = 0; break; default: k = static_cast<size_t>(c.irange(3, 7)); }
  Op A = genOp(c, r, k, integer);
  k = A.m.c;
  size_t kb = k, kd = k, ku = k ? k - 1 : 0, kl = k ? k - 1 : 0;
  switch (c.weighted({8, 1, 1, 1, 1})) { case 1: kb = otherDim(c, kb); break; case 2: kd = otherDim(c, kd); break; case 3: ku = otherDim(c, ku); break; case 4: kl = otherDim(c, kl); break; default: break; }
  Op B = genOp(c, kb, cc, integer);
  vector<double> D = genVec(c, kd, integer), U = genVec(c, ku, integer), L = genVec(c, kl, integer);
  OutSpec os = genOut(c);
  // T = tridiag: T(l,l)=D[l], T(l,l+1)=U[l], T(l+1,l)=L[l]
  bool conf = k >= 1 && B.m.r == k && D.size() == k && U.size() + 1 == k && L.size() + 1 == k;
  // k = 0 with all vectors empty: there is no vector of length k-1; both a DimensionException and the (empty-sum) zero
  // matrix are accepted (weakest reading)
  bool either = k == 0 && B.m.r == 0 && D.empty() && U.empty() && L.empty();
  c.desc << "tridiag mult " << show(A) << " * (D" << show(D) << " U" << show(U) << " L" << show(L) << ") * " << show(B) << " " << show(os);
  c.nt(A.m.degenerate() || B.m.degenerate() || os.mode != 1 || !conf || mixed({A.k[0], B.k[0], os.k[0]}));
  if (!conf) c.label("nonconformable");
  if (conf && k == 1) c.label("inner_dim_1");
  if (conf && k == 1 && A.m.r > 0 && B.m.c > 0) c.excludeIfKnown("C04-tridiag-1x1");
  Ref ref(A.m.r, B.m.c, 3.0 * static_cast<double>(k) + 2);
  if (conf) for (size_t i = 0; i < A.m.r; ++i) for (size_t j = 0; j < B.m.c; ++j) for (size_t l = 0; l < k; ++l) {
    ref.add(i, j, P(A.m(i, l), D[l], B.m(l, j)));
    if (l + 1 < k) { ref.add(i, j, P(A.m(i, l), U[l], B.m(l + 1, j))); ref.add(i, j, P(A.m(i, l + 1), L[l], B.m(l, j))); }
  }
  RM res[2];
  for (int w = 0; w < 2; ++w) {
    auto a = build(A.k[w], A.m); auto b = build(B.k[w], B.m); auto O = makeOut(os, w, ref.r, ref.c);
    bool threw = throwsDim([&] { MatrixTools::mult(*a, D, U, L, *b, *O); });
    if (!either) CHECK(threw == !conf, "tridiag mult: " << (threw ? "DimensionException for conformable operands" : "no DimensionException for non-conformable operands"));
    CHECK(sameRM(snap(*a), A.m) && sameRM(snap(*b), B.m), "input modified");
    if (conf || (either && !threw)) { cmpRef(c, "tridiag mult", *O, os.k[w], ref, integer); res[w] = snap(*O); }
  }
  sameRuns(res[0], res[1], "tridiag mult");
}

// ================================================================== add(A,B), add(A,x,B)
LAW(L_add, RC, 8000, 250000, 260, NTRULE) {
  bool integer = genInteger(c);
  bool scaled = c.flag();
  Op A = genOp(c, genDim(c), genDim(c), integer);
  size_t br = A.m.r, bc = A.m.c;
  switch (c.weighted({6, 1, 1, 1})) { case 1: br = otherDim(c, br); break; case 2: bc = otherDim(c, bc); break; case 3: br = otherDim(c, br); bc = otherDim(c, bc); break; default: break; }
  Op B = genOp(c, br, bc, integer);
  double x = genEntry(c, integer);
  bool abstractCall = c.flag();
  bool conf = A.m.r == B.m.r && A.m.c == B.m.c;
  c.desc << (scaled ? "add(A,x,B) " : "add(A,B) ") << (abstractCall ? "(abstract) " : "") << show(A) << " += " << (scaled ? num(x) + " * " : string()) << show(B);
  c.nt(A.m.degenerate() || !conf || mixed({A.k[0], B.k[0]}));
  if (!conf) c.label("nonconformable");
  // documented: "@throw DimensionException If A and B have not the same size"
  if (!scaled && !conf && A.m.r <= B.m.r && A.m.c <= B.m.c) c.excludeIfKnown("C04-add-smaller-left");
  Ref ref(A.m.r, A.m.c, 3);
  if (conf) for (size_t i = 0; i < A.m.r; ++i) for (size_t j = 0; j < A.m.c; ++j) { ref.add(i, j, A.m(i, j)); ref.add(i, j, scaled ? P(x, B.m(i, j)) : static_cast<long double>(B.m(i, j))); }
  RM res[2];
  for (int w = 0; w < 2; ++w) {
    auto a = build(A.k[w], A.m); auto b = build(B.k[w], B.m);
    double xx = x;
    bool threw = throwsDim([&] {
      if (abstractCall) { if (scaled) MatrixTools::add(*a, xx, *b); else MatrixTools::add(*a, *b); }
      else with2(*a, A.k[w], *b, B.k[w], [&](auto& X, auto& Y) { if (scaled) MatrixTools::add(X, xx, Y); else MatrixTools::add(X, Y); });
    });
    CHECK(threw == !conf, "add: " << (threw ? "DimensionException for operands of the same size" : "no DimensionException for operands of different sizes"));
    CHECK(sameRM(snap(*b), B.m) && xx == x, "input modified");
    if (conf) { cmpRef(c, "add", *a, A.k[w], ref, integer); res[w] = snap(*a); }
    else CHECK(sameRM(snap(*a), A.m), "A modified although the call raised");
  }
  sameRuns(res[0], res[1], "add");
}

// ================================================================== pow(A,p) vs repeated product
LAW(L_pow, RC, 8000, 250000, 140, "n in {0,1}, p in {0,1}, non-square operand, or output not pre-sized as the result") {
  bool integer = genInteger(c);
  size_t n = genDim(c), m = c.below(6) == 5 ? otherDim(c, n) : n;
  int p = c.irange(0, 9);
  Op A = genOp(c, n, m, integer);
  OutSpec os = genOut(c); os.k[0] = A.k[0]; os.k[1] = A.k[1];  // pow() needs the same class for A and O
  bool square = A.m.r == A.m.c; n = A.m.r;
  c.desc << "pow " << show(A) << " ^" << p << " " << show(os);
  c.nt(A.m.degenerate() || p <= 1 || os.mode != 1);
  if (!square) c.label("nonconformable");
  // reference: p-fold repeated product (value) and the same with |A| (magnitude)
  Ref ref(n, n, static_cast<double>(n + 1) * max(p, 1));
  if (square) {
    vector<long double> cur(n * n, 0.0L), curm(n * n, 0.0L);
    for (size_t i = 0; i < n; ++i) cur[i * n + i] = curm[i * n + i] = 1.0L;
    for (int q = 0; q < p; ++q) {
      vector<long double> nx(n * n, 0.0L), nm(n * n, 0.0L);
      for (size_t i = 0; i < n; ++i) for (size_t j = 0; j < n; ++j) for (size_t l = 0; l < n; ++l) {
        nx[i * n + j] += cur[i * n + l] * A.m(l, j); nm[i * n + j] += curm[i * n + l] * fabs(A.m(l, j));
      }
      cur = nx; curm = nm;
    }
    ref.v = cur; ref.mag = curm;
  }
  RM res[2];
  for (int w = 0; w < 2; ++w) {
    auto a = build(A.k[w], A.m); auto O = makeOut(os, w, n, n);
    bool threw = throwsDim([&] { withM(*a, A.k[w], [&](auto& X) { typedef typename std::decay<decltype(X)>::type T; MatrixTools::pow(X, static_cast<size_t>(p), static_cast<T&>(*O)); }); });
    CHECK(threw == !square, "pow: " << (threw ? "DimensionException for a square matrix" : "no DimensionException for a non-square matrix"));
    CHECK(sameRM(snap(*a), A.m), "input modified");
    if (square) { cmpRef(c, "pow", *O, os.k[w], ref, integer); res[w] = snap(*O); }
  }
  sameRuns(res[0], res[1], "pow");
}

// ================================================================== Taylor(A,p): the powers 0..p
LAW(L_taylor, RC, 8000, 250000, 140, "n in {0,1}, p in {0,1}, non-square operand, or a pre-filled output vector") {
  bool integer = genInteger(c);
  size_t n = genDim(c), m = c.below(6) == 5 ? otherDim(c, n) : n;
  int p = c.irange(0, 5);
  Op A = genOp(c, n, m, integer);
  size_t pre = c.flag() ? 0 : c.below(8);  // matrices already in the output vector
  bool concrete = c.flag();                // RowMatrix operand passed by its concrete class (the only one the template compiles for)
  bool square = A.m.r == A.m.c; n = A.m.r;
  c.desc << "Taylor " << show(A) << " p=" << p << " output vector pre-filled with " << pre << (concrete ? " (concrete if Row)" : "");
  c.nt(A.m.degenerate() || p <= 1 || pre > 0);
  if (!square) c.label("nonconformable");
  if (square && p == 0) c.excludeIfKnown("C04-taylor-p0");
  vector<Ref> refs;
  if (square) {
    vector<long double> cur(n * n, 0.0L), curm(n * n, 0.0L);
    for (size_t i = 0; i < n; ++i) cur[i * n + i] = curm[i * n + i] = 1.0L;
    for (int q = 0; q <= p; ++q) {
      Ref f(n, n, static_cast<double>(n + 1) * max(q, 1)); f.v = cur; f.mag = curm; refs.push_back(f);
      vector<long double> nx(n * n, 0.0L), nm(n * n, 0.0L);
      for (size_t i = 0; i < n; ++i) for (size_t j = 0; j < n; ++j) for (size_t l = 0; l < n; ++l) {
        nx[i * n + j] += cur[i * n + l] * A.m(l, j); nm[i * n + j] += curm[i * n + l] * fabs(A.m(l, j));
      }
      cur = nx; curm = nm;
    }
  }
  vector<RM> res[2];
  for (int w = 0; w < 2; ++w) {
    auto a = build(A.k[w], A.m);
    vector<RowMatrix<double>> vO;
    for (size_t q = 0; q < pre; ++q) { vO.push_back(RowMatrix<double>(q % 3 + 1, 2)); MatrixTools::fill(vO.back(), SENT); }
    bool threw = throwsDim([&] {
      if (concrete && A.k[w] == 0) MatrixTools::Taylor(static_cast<RowM&>(*a), static_cast<size_t>(p), vO);
      else MatrixTools::Taylor(*a, static_cast<size_t>(p), vO);
    });
    CHECK(threw == !square, "Taylor: " << (threw ? "DimensionException for a square matrix" : "no DimensionException for a non-square matrix"));
    CHECK(sameRM(snap(*a), A.m), "input modified");
    if (square) {
      CHECK(vO.size() == static_cast<size_t>(p) + 1, "Taylor: " << vO.size() << " matrices returned for p=" << p << " (powers 0..p)");
      for (int q = 0; q <= p; ++q) { cmpRef(c, "Taylor", vO[static_cast<size_t>(q)], 0, refs[static_cast<size_t>(q)], integer); res[w].push_back(snap(vO[static_cast<size_t>(q)])); }
    }
  }
  for (size_t q = 0; q < res[0].size() && q < res[1].size(); ++q) sameRuns(res[0][q], res[1][q], "Taylor");
}

// ================================================================== covar
LAW(L_covar, RC, 8000, 250000, 140, "r in {0,1} or n = 1 or mixed storage or output not pre-sized as the result") {
  bool integer = genInteger(c);
  size_t r = genDim(c), n = max<size_t>(1, genDim(c));
  Op A; A.k[0] = genKind(c);
  if (A.k[0] == 0 && r == 0) r = 1;  // a RowMatrix with 0 rows reports 0 columns, and a sample of size 0 has no covariance
  A.m = RM(r, n); for (auto& x : A.m.v) x = genEntry(c, integer);
  { int k = genKind(c); A.k[1] = repr(k, r, n) ? k : A.k[0]; }
  OutSpec os = genOut(c);
  c.desc << "covar " << show(A) << " " << show(os);
  c.nt(A.m.r <= 1 || n == 1 || os.mode != 1 || mixed({A.k[0], os.k[0]}));
  // V(i,j) = (1/n) sum_k a_ik a_jk - mean_i mean_j
  Ref ref(A.m.r, A.m.r, static_cast<double>(n) + 4);
  for (size_t i = 0; i < A.m.r; ++i) for (size_t j = 0; j < A.m.r; ++j) {
    long double s = 0, sm = 0, mi = 0, mj = 0, ai = 0, aj = 0;
    for (size_t l = 0; l < n; ++l) { s += P(A.m(i, l), A.m(j, l)); sm += fabsl(P(A.m(i, l), A.m(j, l))); mi += A.m(i, l); mj += A.m(j, l); ai += fabs(A.m(i, l)); aj += fabs(A.m(j, l)); }
    long double nn = static_cast<long double>(n);
    ref.v[i * ref.c + j] = s / nn - (mi / nn) * (mj / nn);
    ref.mag[i * ref.c + j] = sm / nn + (ai / nn) * (aj / nn);
  }
  RM res[2];
  for (int w = 0; w < 2; ++w) {
    auto a = build(A.k[w], A.m); auto O = makeOut(os, w, ref.r, ref.c);
    MatrixTools::covar(*a, *O);
    CHECK(sameRM(snap(*a), A.m), "input modified");
    cmpRef(c, "covar", *O, os.k[w], ref, false);
    res[w] = snap(*O);
  }
  sameRuns(res[0], res[1], "covar");
}

// ================================================================== kroneckerMult (3 forms)
LAW(L_kron, RC, 4000, 120000, 280, NTRULE) {
  bool integer = genInteger(c);
  int fn = static_cast<int>(c.below(3));  // 0 A (x) B, 1 A (x) v.I_dim, 2 A,B with replaced diagonals
  Op A = genOp(c, genDim(c), genDim(c), integer);
  Op B = genOp(c, genDim(c), genDim(c), integer);
  size_t dim = genDim(c); double v = genEntry(c, integer), dA = genEntry(c, integer), dB = genEntry(c, integer);
  OutSpec os = genOut(c);
  bool nocheck = os.mode == 1 && c.flag();  // check=false: the caller has sized the output
  if (fn == 1) { B.m = RM(dim, dim); for (size_t i = 0; i < dim; ++i) B.m(i, i) = v; }
  c.desc << (fn == 0 ? "kron " : fn == 1 ? "kron(A,dim,v) " : "kron(A,B,dA,dB) ") << show(A);
  if (fn == 1) c.desc << " dim=" << dim << " v=" << num(v); else c.desc << " (x) " << show(B);
  if (fn == 2) c.desc << " dA=" << num(dA) << " dB=" << num(dB);
  c.desc << " " << show(os) << (nocheck ? " check=false" : "");
  c.nt(A.m.degenerate() || B.m.degenerate() || os.mode != 1 || mixed({A.k[0], B.k[0], os.k[0]}));
  Ref ref(A.m.r * B.m.r, A.m.c * B.m.c, 1);
  for (size_t ia = 0; ia < A.m.r; ++ia) for (size_t ja = 0; ja < A.m.c; ++ja) for (size_t ib = 0; ib < B.m.r; ++ib) for (size_t jb = 0; jb < B.m.c; ++jb) {
    double x = (fn == 2 && ia == ja) ? dA : A.m(ia, ja), y = (fn == 2 && ib == jb) ? dB : B.m(ib, jb);
    ref.set(ia * B.m.r + ib, ja * B.m.c + jb, P(x, y));
  }
  RM res[2];
  for (int w = 0; w < 2; ++w) {
    auto a = build(A.k[w], A.m); auto O = makeOut(os, w, ref.r, ref.c);
    unique_ptr<MX> b; if (fn != 1) b = build(B.k[w], B.m);
    if (fn == 0) MatrixTools::kroneckerMult(*a, *b, *O, !nocheck);
    else if (fn == 1) MatrixTools::kroneckerMult(*a, dim, v, *O, !nocheck);
    else MatrixTools::kroneckerMult(*a, *b, dA, dB, *O, !nocheck);
    CHECK(sameRM(snap(*a), A.m) && (fn == 1 || sameRM(snap(*b), B.m)), "input modified");
    cmpRef(c, "kron", *O, os.k[w], ref, integer);
    res[w] = snap(*O);
  }
  sameRuns(res[0], res[1], "kron");
}

// ================================================================== hadamardMult (matrix, row/column weights)
LAW(L_hadamard, RC, 8000, 250000, 260, NTRULE) {
  bool integer = genInteger(c);
  int fn = static_cast<int>(c.below(3));  // 0 A o B, 1 row weights, 2 column weights
  Op A = genOp(c, genDim(c), genDim(c), integer);
  OutSpec os = genOut(c);
  Op B; vector<double> W; bool conf;
  if (fn == 0) {
    size_t br = A.m.r, bc = A.m.c;
    switch (c.weighted({6, 1, 1})) { case 1: br = otherDim(c, br); break; case 2: bc = otherDim(c, bc); break; default: break; }
    B = genOp(c, br, bc, integer); conf = B.m.r == A.m.r && B.m.c == A.m.c;
    c.desc << "hadamard " << show(A) << " o " << show(B) << " " << show(os);
  } else {
    size_t want = fn == 1 ? A.m.r : A.m.c, n = c.below(6) == 5 ? otherDim(c, want) : want;
    W = genVec(c, n, integer); conf = n == want;
    c.desc << "hadamard " << show(A) << (fn == 1 ? " row weights " : " column weights ") << show(W) << " " << show(os);
  }
  c.nt(A.m.degenerate() || os.mode != 1 || !conf || mixed({A.k[0], fn == 0 ? B.k[0] : A.k[0], os.k[0]}));
  if (!conf) c.label("nonconformable");
  Ref ref(A.m.r, A.m.c, 1);
  if (conf) for (size_t i = 0; i < A.m.r; ++i) for (size_t j = 0; j < A.m.c; ++j) ref.set(i, j, P(A.m(i, j), fn == 0 ? B.m(i, j) : fn == 1 ? W[i] : W[j]));
  RM res[2];
  for (int w = 0; w < 2; ++w) {
    auto a = build(A.k[w], A.m); auto O = makeOut(os, w, ref.r, ref.c);
    unique_ptr<MX> b; if (fn == 0) b = build(B.k[w], B.m);
    bool threw = throwsDim([&] { if (fn == 0) MatrixTools::hadamardMult(*a, *b, *O); else MatrixTools::hadamardMult(*a, W, *O, fn == 1); });
    CHECK(threw == !conf, "hadamardMult: " << (threw ? "DimensionException for conformable operands" : "no DimensionException for non-conformable operands"));
    CHECK(sameRM(snap(*a), A.m) && (fn != 0 || sameRM(snap(*b), B.m)), "input modified");
    if (conf) { cmpRef(c, "hadamard", *O, os.k[w], ref, integer); res[w] = snap(*O); }
  }
  sameRuns(res[0], res[1], "hadamard");
}

// ================================================================== complex hadamardMult
LAW(L_hadamard_complex, RC, 4000, 120000, 460, NTRULE) {
  bool integer = genInteger(c);
  Op A = genOp(c, genDim(c), genDim(c), integer);
  size_t br = A.m.r, bc = A.m.c;
  switch (c.weighted({8, 1, 1})) { case 1: br = otherDim(c, br); break; case 2: bc = otherDim(c, bc); break; default: break; }
  Op B = genOp(c, br, bc, integer);
  size_t ir = A.m.r, ic = A.m.c, jr = B.m.r, jc = B.m.c;
  switch (c.weighted({36, 1, 1, 1, 1})) { case 1: ir = otherDim(c, ir); break; case 2: ic = otherDim(c, ic); break; case 3: jr = otherDim(c, jr); break; case 4: jc = otherDim(c, jc); break; default: break; }
  Op iA = genOp(c, ir, ic, integer), iB = genOp(c, jr, jc, integer);
  OutSpec os = genOut(c), ios = genOut(c);
  bool confRe = A.m.r == B.m.r && A.m.c == B.m.c;
  bool confIm = iA.m.r == A.m.r && iA.m.c == A.m.c && iB.m.r == B.m.r && iB.m.c == B.m.c;
  bool conf = confRe && confIm;
  c.desc << "complex hadamard (" << show(A) << " + i " << show(iA) << ") o (" << show(B) << " + i " << show(iB) << ") re " << show(os) << " im " << show(ios);
  c.nt(A.m.degenerate() || os.mode != 1 || ios.mode != 1 || !conf || mixed({A.k[0], iA.k[0], B.k[0], iB.k[0], os.k[0], ios.k[0]}));
  if (!conf) c.label("nonconformable");
  if (confRe && !confIm) c.excludeIfKnown("C04-complex-imag-unchecked");
  Ref re(A.m.r, A.m.c, 3), im(A.m.r, A.m.c, 3);
  if (conf) for (size_t i = 0; i < A.m.r; ++i) for (size_t j = 0; j < A.m.c; ++j) {
    re.add(i, j, P(A.m(i, j), B.m(i, j))); re.add(i, j, -P(iA.m(i, j), iB.m(i, j)));
    im.add(i, j, P(iA.m(i, j), B.m(i, j))); im.add(i, j, P(A.m(i, j), iB.m(i, j)));
  }
  RM res[2], ires[2];
  for (int w = 0; w < 2; ++w) {
    auto a = build(A.k[w], A.m); auto b = build(B.k[w], B.m); auto ia = build(iA.k[w], iA.m); auto ib = build(iB.k[w], iB.m);
    auto O = makeOut(os, w, re.r, re.c); auto iO = makeOut(ios, w, re.r, re.c);
    bool threw = throwsDim([&] { MatrixTools::hadamardMult(*a, *ia, *b, *ib, *O, *iO); });
    CHECK(threw == !conf, "complex hadamardMult: " << (threw ? "DimensionException for conformable operands" : "no DimensionException for non-conformable operands"));
    CHECK(sameRM(snap(*a), A.m) && sameRM(snap(*b), B.m) && sameRM(snap(*ia), iA.m) && sameRM(snap(*ib), iB.m), "input modified");
    if (conf) { cmpRef(c, "chadamard.re", *O, os.k[w], re, integer); cmpRef(c, "chadamard.im", *iO, ios.k[w], im, integer); res[w] = snap(*O); ires[w] = snap(*iO); }
  }
  sameRuns(res[0], res[1], "complex hadamard (re)"); sameRuns(ires[0], ires[1], "complex hadamard (im)");
}

// ================================================================== directSum(A,B)
LAW(L_directsum, RC, 8000, 250000, 260, NTRULE) {
  bool integer = genInteger(c);
  Op A = genOp(c, genDim(c), genDim(c), integer);
  size_t br = genDim(c), bc = c.below(2) == 0 ? br : genDim(c);  // square B half of the time
  Op B = genOp(c, br, bc, integer);
  OutSpec os = genOut(c);
  c.desc << "directSum " << show(A) << " (+) " << show(B) << " " << show(os);
  c.nt(A.m.degenerate() || B.m.degenerate() || os.mode != 1 || mixed({A.k[0], B.k[0], os.k[0]}));
  if (B.m.r != B.m.c) c.label("nonsquare_B");
  if (B.m.r != B.m.c) c.excludeIfKnown("C04-directSum-nonsquare-B");
  Ref ref(A.m.r + B.m.r, A.m.c + B.m.c);
  for (size_t i = 0; i < A.m.r; ++i) for (size_t j = 0; j < A.m.c; ++j) ref.set(i, j, A.m(i, j));
  for (size_t i = 0; i < B.m.r; ++i) for (size_t j = 0; j < B.m.c; ++j) ref.set(A.m.r + i, A.m.c + j, B.m(i, j));
  RM res[2];
  for (int w = 0; w < 2; ++w) {
    auto a = build(A.k[w], A.m); auto b = build(B.k[w], B.m); auto O = makeOut(os, w, ref.r, ref.c);
    MatrixTools::directSum(*a, *b, *O);
    CHECK(sameRM(snap(*a), A.m) && sameRM(snap(*b), B.m), "input modified");
    cmpRef(c, "directSum", *O, os.k[w], ref, true);
    res[w] = snap(*O);
  }
  sameRuns(res[0], res[1], "directSum");
}

// ================================================================== directSum(vector of blocks)
LAW(L_directsum_n, RC, 8000, 250000, 260, "some block with a 0/1 dimension or non-square, 0 or 1 blocks, mixed storage, or output not pre-sized as the result") {
  bool integer = genInteger(c);
  size_t nb = c.below(5);
  vector<Op> blocks; bool deg = nb <= 1, mix = false;
  for (size_t k = 0; k < nb; ++k) { blocks.push_back(genOp(c, min<size_t>(genDim(c), 4), min<size_t>(genDim(c), 4), integer)); deg |= blocks.back().m.degenerate(); mix |= blocks.back().k[0] != blocks[0].k[0]; }
  OutSpec os = genOut(c);
  c.desc << "directSum of " << nb << " blocks";
  for (auto& b : blocks) c.desc << " " << show(b);
  c.desc << " " << show(os);
  c.nt(deg || mix || os.mode != 1);
  size_t R = 0, C = 0; for (auto& b : blocks) { R += b.m.r; C += b.m.c; }
  Ref ref(R, C);
  { size_t rk = 0, ck = 0; for (auto& b : blocks) { for (size_t i = 0; i < b.m.r; ++i) for (size_t j = 0; j < b.m.c; ++j) ref.set(rk + i, ck + j, b.m(i, j)); rk += b.m.r; ck += b.m.c; } }
  RM res[2];
  for (int w = 0; w < 2; ++w) {
    vector<unique_ptr<MX>> own; vector<MX*> vA;
    for (auto& b : blocks) { own.push_back(build(b.k[w], b.m)); vA.push_back(own.back().get()); }
    auto O = makeOut(os, w, R, C);
    MatrixTools::directSum(vA, *O);
    for (size_t k = 0; k < nb; ++k) CHECK(sameRM(snap(*own[k]), blocks[k].m), "input modified");
    cmpRef(c, "directSum(n)", *O, os.k[w], ref, true);
    res[w] = snap(*O);
  }
  sameRuns(res[0], res[1], "directSum(n)");
}

// ================================================================== extrema, element sum
// Weakest reading: any position holding the extreme value is accepted; for an empty matrix (no extremum exists) only
// a normal return is demanded.
LAW(L_extrema_sum, RC, 8000, 250000, 140, "a 0/1 dimension or non-square matrix, or a tied extremum") {
  bool integer = genInteger(c);
  int emax = c.flag() ? 9 : 1;
  Op A = genOp(c, genDim(c), genDim(c), integer, emax);
  // extreme magnitudes: every entry far below / above any finite sentinel an implementation might start its search from
  if (!integer && c.oneIn(5)) { double sh = c.pick({-1e25, 1e25, -1e300, 1e300, -1.7e308}), sc = c.pick({1e20, 1e280, 1.0}); if (std::abs(sh) > 1e307) sc = 1e290; for (double& x : A.m.v) x = sh + sc * x; }
  bool abstractCall = c.flag();
  c.desc << "extrema/sum " << (abstractCall ? "(abstract) " : "") << show(A);
  bool empty = A.m.v.empty();
  double mx = 0, mn = 0; long double s = 0, sm = 0; int nmax = 0, nmin = 0;
  if (!empty) { mx = mn = A.m.v[0]; for (double x : A.m.v) { mx = max(mx, x); mn = min(mn, x); } }
  for (double x : A.m.v) { s += x; sm += fabs(x); nmax += x == mx; nmin += x == mn; }
  c.nt(A.m.degenerate() || nmax > 1 || nmin > 1);
  for (int w = 0; w < 2; ++w) {
    auto a = build(A.k[w], A.m);
    vector<size_t> pmax, pmin;
    auto call = [&](auto& X) { pmax = MatrixTools::whichMax(X); pmin = MatrixTools::whichMin(X); };
    if (abstractCall) call(*a); else withM(*a, A.k[w], call);
    double vmax = MatrixTools::max(*a), vmin = MatrixTools::min(*a), sum = MatrixTools::sumElements(*a);
    CHECK(pmax.size() == 2 && pmin.size() == 2, "whichMax/whichMin must return (row, column)");
    if (!empty) {
      CHECK(pmax[0] < A.m.r && pmax[1] < A.m.c && A.m(pmax[0], pmax[1]) == mx, "whichMax returned (" << pmax[0] << "," << pmax[1] << ") which does not hold the maximum " << num(mx));
      CHECK(pmin[0] < A.m.r && pmin[1] < A.m.c && A.m(pmin[0], pmin[1]) == mn, "whichMin returned (" << pmin[0] << "," << pmin[1] << ") which does not hold the minimum " << num(mn));
      CHECK(vmax == mx, "max() = " << num(vmax) << ", the maximum is " << num(mx));
      CHECK(vmin == mn, "min() = " << num(vmin) << ", the minimum is " << num(mn));
    }
    if (integer) CHECK(sum == static_cast<double>(s), "sumElements = " << num(sum) << ", the definition gives " << num(static_cast<double>(s)));
    else if (sm < 1e307L) { long double tol = 4.0L * static_cast<long double>(A.m.v.size() + 1) * DBL_EPSILON * sm; CHECK(fabsl(sum - s) <= tol, "sumElements = " << vf::dec(sum) << ", the definition gives " << vf::dec(static_cast<double>(s))); if (tol > 0) c.observe("err/tol sumElements", static_cast<double>(fabsl(sum - s) / tol)); }
    CHECK(sameRM(snap(*a), A.m), "input modified");
  }
}

// ================================================================== isSquare / isSymmetric / operator== / equals
LAW(L_predicates, RC, 8000, 250000, 260, "a 0/1 dimension or non-square matrix, or operands differing in exactly one entry or one dimension") {
  Op A = genOp(c, genDim(c), genDim(c), true, 3);
  bool makeSym = c.flag();
  if (makeSym && A.m.r == A.m.c) for (size_t i = 0; i < A.m.r; ++i) for (size_t j = 0; j < i; ++j) A.m(i, j) = A.m(j, i);
  // B: a copy of A, possibly with one entry moved by delta, possibly with another shape
  static const double DEL[] = {0, 0.25, 0.5, 1, -0.5};
  int how = static_cast<int>(c.weighted({3, 4, 1, 1}));
  double delta = c.pick(DEL), thr = c.pick(DEL); if (thr < 0) thr = 0.5;
  bool defaultThr = c.flag();
  size_t br = A.m.r, bc = A.m.c;
  if (how == 2) br = otherDim(c, br);
  if (how == 3) bc = otherDim(c, bc);
  Op B; B.k[0] = genKind(c); normShape(B.k[0], br, bc); B.m = RM(br, bc); { int k = genKind(c); B.k[1] = repr(k, br, bc) ? k : B.k[0]; }
  for (size_t i = 0; i < br; ++i) for (size_t j = 0; j < bc; ++j) B.m(i, j) = (i < A.m.r && j < A.m.c) ? A.m(i, j) : 0.0;
  size_t pi = c.below(8), pj = c.below(8);
  bool moved = how == 1 && !B.m.v.empty();
  if (moved) { pi %= br; pj %= bc; B.m(pi, pj) += delta; }
  bool abstractCall = c.flag();
  c.desc << "predicates " << (abstractCall ? "(abstract) " : "") << show(A) << " vs " << show(B) << " threshold " << (defaultThr ? string("default") : num(thr));
  bool sameShape = A.m.r == B.m.r && A.m.c == B.m.c;
  c.nt(A.m.degenerate() || moved || !sameShape);
  bool sym = A.m.r == A.m.c; if (sym) for (size_t i = 0; i < A.m.r; ++i) for (size_t j = 0; j < A.m.c; ++j) sym &= A.m(i, j) == A.m(j, i);
  bool eq = sameShape, within = sameShape; double t = defaultThr ? 1e-12 : thr;
  if (sameShape) for (size_t k = 0; k < A.m.v.size(); ++k) { eq &= A.m.v[k] == B.m.v[k]; within &= !(fabs(A.m.v[k] - B.m.v[k]) > t); }
  for (int w = 0; w < 2; ++w) {
    auto a = build(A.k[w], A.m); auto b = build(B.k[w], B.m);
    bool sq = false, sy = false;
    auto call = [&](auto& X) { sq = MatrixTools::isSquare(X); sy = MatrixTools::isSymmetric(X); };
    if (abstractCall) call(*a); else withM(*a, A.k[w], call);
    CHECK(sq == (A.m.r == A.m.c), "isSquare = " << sq);
    CHECK(sy == sym, "isSymmetric = " << sy << ", by definition " << sym);
    CHECK((*a == *b) == eq, "operator== gives " << (*a == *b) << ", by definition " << eq);
    bool e = defaultThr ? a->equals(*b) : a->equals(*b, thr);
    CHECK(e == within, "equals gives " << e << ", by definition " << within);
    CHECK(sameRM(snap(*a), A.m) && sameRM(snap(*b), B.m), "input modified");
  }
}

// ================================================================== lap: linear assignment
namespace {
struct LapCase { int kind = 0; size_t n = 0, m = 0; RM cost; bool integer = true; };

// Column reduction of the solver: every column goes to the first row holding its minimum. Independent re-statement
// of the two input classes that decide which later step of the solver runs:
//  * some row is the (first) minimum of exactly one column -> the "reduction transfer" step runs for that row;
//  * some row is the (first) minimum of no column (a free row) -> the "augmenting row reduction" step runs.
// For n >= 2 every instance is in at least one of the two classes (the counts sum to n).
vector<int> columnMinimaPerRow(const RM& cst) {
  size_t n = cst.r; vector<int> cnt(n, 0);
  for (size_t j = 0; j < n; ++j) { size_t im = 0; for (size_t i = 1; i < n; ++i) if (cst(i, j) < cst(im, j)) im = i; ++cnt[im]; }
  return cnt;
}
bool someRowIsMinOfExactlyOneColumn(const RM& cst) { for (int k : columnMinimaPerRow(cst)) if (k == 1) return true; return false; }
bool someRowIsMinOfNoColumn(const RM& cst) { for (int k : columnMinimaPerRow(cst)) if (k == 0) return true; return false; }

void checkLap(vf::Ctx& c, const LapCase& L) {
  const RM& cst = L.cost; size_t n = L.n;
  auto a = build(L.kind, cst);
  vector<int> rowSol(n, -7), colSol(n, -7); vector<double> u(n, SENT), v(n, SENT);
  if (L.n != L.m) {
    bool threw = false;
    try { MatrixTools::lap(*a, rowSol, colSol, u, v); } catch (bpp::Exception&) { threw = true; }
    CHECK(threw, "lap: no exception for a non-square cost matrix");
    return;
  }
  if (n >= 2 && someRowIsMinOfExactlyOneColumn(cst)) c.excludeIfKnown("C04-lap-reduction-transfer");
  if (n >= 2 && someRowIsMinOfNoColumn(cst)) c.excludeIfKnown("C04-lap-unsigned-temporaries");
  if (n == 1) c.excludeIfKnown("C04-lap-dim1-infinite-duals");
  double ret = MatrixTools::lap(*a, rowSol, colSol, u, v);
  // permutation + inverse
  vector<int> seen(n, 0);
  for (size_t i = 0; i < n; ++i) {
    CHECK(rowSol[i] >= 0 && static_cast<size_t>(rowSol[i]) < n, "lap: rowSol[" << i << "] = " << rowSol[i] << " is not a column");
    CHECK(!seen[static_cast<size_t>(rowSol[i])]++, "lap: column " << rowSol[i] << " assigned to two rows");
  }
  for (size_t i = 0; i < n; ++i) CHECK(colSol[static_cast<size_t>(rowSol[i])] == static_cast<int>(i), "lap: colSol is not the inverse of rowSol at row " << i);
  // cost of the returned assignment and the minimum over all n! permutations (costs of the *input* matrix)
  double amax = 0; for (double x : cst.v) amax = max(amax, fabs(x));
  double tol = L.integer ? 0.0 : 16.0 * static_cast<double>(n * n + 1) * DBL_EPSILON * amax;
  long double tot = 0; for (size_t i = 0; i < n; ++i) tot += cst(i, static_cast<size_t>(rowSol[i]));
  vector<size_t> perm(n); for (size_t i = 0; i < n; ++i) perm[i] = i;
  long double best = 0; bool first = true; long ties = 0;
  do {
    long double s = 0; for (size_t i = 0; i < n; ++i) s += cst(i, perm[i]);
    if (first || s < best) { best = s; ties = 1; first = false; } else if (s == best) ++ties;
  } while (next_permutation(perm.begin(), perm.end()));
  c.nt(ties > 1);
  if (ties > 1) c.label("tied_optimum");
  CHECK(fabsl(ret - tot) <= tol, "lap: returned cost " << vf::dec(ret) << " is not the cost " << vf::dec(static_cast<double>(tot)) << " of the returned assignment");
  CHECK(tot - best <= tol, "lap: returned assignment costs " << vf::dec(static_cast<double>(tot)) << ", the minimum over all permutations is " << vf::dec(static_cast<double>(best)));
  // dual certificate
  for (size_t i = 0; i < n; ++i) for (size_t j = 0; j < n; ++j) {
    double red = cst(i, j) - u[i] - v[j];
    if (tol > 0) c.observe("lap dual slack/tol", (static_cast<size_t>(rowSol[i]) == j ? fabs(red) : max(0.0, -red)) / tol);
    CHECK(red >= -tol, "lap: duals infeasible: u[" << i << "]+v[" << j << "] = " << vf::dec(u[i] + v[j]) << " > c = " << num(cst(i, j)));
    if (static_cast<size_t>(rowSol[i]) == j) CHECK(fabs(red) <= tol, "lap: duals not tight on the assigned pair (" << i << "," << j << "): u+v = " << vf::dec(u[i] + v[j]) << ", c = " << num(cst(i, j)));
  }
}
}  // namespace

LAW(L_lap, RC, 10000, 1000000, 120, "two or more optimal assignments (tie)", 20, true) {
  LapCase L; L.kind = genKind(c);
  switch (c.weighted({2, 3, 3, 3, 2, 2, 1, 1})) { case 0: L.n = 1; break; case 1: L.n = 2; break; case 2: L.n = 3; break; case 3: L.n = 4; break; case 4: L.n = 5; break; case 5: L.n = 6; break; case 6: L.n = 7; break; default: L.n = 0; }
  L.m = c.below(12) == 11 ? otherDim(c, L.n) : L.n;
  int style = static_cast<int>(c.weighted({3, 3, 3, 2, 3}));  // cost range: {0,1}, [-3,3], [-20,20], real, decimal grid k/10-5
  L.integer = style < 3;
  size_t r = L.n, cc = L.m; normShape(L.kind, r, cc); L.n = r; L.m = cc;
  L.cost = RM(r, cc);
  for (auto& x : L.cost.v) x = style == 0 ? static_cast<double>(c.below(2)) : style == 1 ? c.ival(3) : style == 2 ? c.ival(20) : style == 3 ? c.real(-10, 10) : static_cast<double>(c.below(101)) / 10.0 - 5;  // (non-dyadic decimals: many ties up to rounding)
  c.desc << "lap " << KN[L.kind] << ":" << show(L.cost);
  checkLap(c, L);
}

// all cost matrices over {0,1,2} up to 3x3
LAW(L_lap_enum, ENUM, 4, 4, 0, "two or more optimal assignments (tie)", 20, true) {
  LapCase L; L.n = L.m = c.below(4); L.kind = 2;
  L.cost = RM(L.n, L.n);
  if (L.n) L.cost.v[0] = static_cast<double>(c.below(3));
  c.desc << "lap n=" << L.n << " c00=" << (L.n ? L.cost.v[0] : 0);
  c.shardPoint();
  for (size_t k = 1; k < L.cost.v.size(); ++k) L.cost.v[k] = static_cast<double>(c.below(3));
  c.desc.str(""); c.desc << "lap L:" << show(L.cost);
  checkLap(c, L);
}

static struct Init { Init() { vf::G().resetHook = [] { vf::quietBpp(); vf::installAudit(); }; } } init_;
VF_MAIN("C04")
