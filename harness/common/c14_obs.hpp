// C14 helpers, part 2: reference model of one association observer and its oracle.
#pragma once
#include "c14_model.hpp"

namespace c14 {

struct OModel {
  std::map<int, Id> nId, nIdx, eId, eIdx;  // tag -> graph id / index, live associations only
  Id nTable = 0, eTable = 0;               // 1 + largest graph id ever given to the observer (only used by the predicates of the table-bound findings)
  bool tagOfNode(Id id, int& tag) const { for (const auto& kv : nId) if (kv.second == id) { tag = kv.first; return true; } return false; }
  bool tagOfEdge(Id id, int& tag) const { for (const auto& kv : eId) if (kv.second == id) { tag = kv.first; return true; } return false; }
  bool nodeIdxUsed(Id i) const { for (const auto& kv : nIdx) if (kv.second == i) return true; return false; }
  bool edgeIdxUsed(Id i) const { for (const auto& kv : eIdx) if (kv.second == i) return true; return false; }
  std::string str() const {
    std::ostringstream o; o << "N{";
    for (const auto& kv : nId) { o << "n" << kv.first << "@" << kv.second; auto it = nIdx.find(kv.first); if (it != nIdx.end()) o << "#" << it->second; o << " "; }
    o << "} E{";
    for (const auto& kv : eId) { o << "e" << kv.first << "@" << kv.second; auto it = eIdx.find(kv.first); if (it != eIdx.end()) o << "#" << it->second; o << " "; }
    o << "}"; return o.str();
  }
};

// one observer of object types <N,E> with its reference maps
template <class N, class E> struct ObsWorldT {
  typedef bpp::AssociationGlobalGraphObserver<N, E> ObsT;
  typedef std::shared_ptr<N> NPtr;
  typedef std::shared_ptr<E> EPtr;
  std::unique_ptr<ObsT> o;
  OModel m;
  std::map<int, NPtr> nObj;  // every node object this observer has ever been given (live and dead)
  std::map<int, EPtr> eObj;
};
typedef ObsWorldT<NObj, EObj> ObsWorld;     // the observers the histories operate on
typedef ObsWorldT<NObj2, EObj2> ObsWorld2;  // observer of other object types: target / source of the CONVERTING copy constructor

template <class It, class P> std::vector<P> drainObj(std::unique_ptr<It> it, P*) {
  std::vector<P> a, b;
  for (; !it->end(); it->next()) a.push_back(**it);
  it->start();
  for (; !it->end(); it->next()) b.push_back(**it);
  if (a != b) ::vf::failNow("observer iterator: second pass after start() differs from the first pass");
  return a;
}

template <class P> std::string tagsN(const std::vector<P>& v) { std::ostringstream o; o << "["; for (const auto& p : v) o << (p ? "n" + std::to_string(p->tag) : std::string("null")) << " "; o << "]"; return o.str(); }
template <class P> std::string tagsE(const std::vector<P>& v) { std::ostringstream o; o << "["; for (const auto& p : v) o << (p ? "e" + std::to_string(p->tag) : std::string("null")) << " "; o << "]"; return o.str(); }

template <class OW> void checkObs(vf::Ctx& c, OW& W, const GModel& gm, const std::string& w0, unsigned rot = 0) {
  typedef typename OW::ObsT Obs; typedef typename OW::NPtr NP; typedef typename OW::EPtr EP;
  Obs& o = *W.o; const Obs& co = o; const OModel& m = W.m;
  const std::string w = w0 + " [observer " + m.str() + " on " + gm.str() + "]";
  NP* const nk = nullptr; EP* const ek = nullptr;
  auto nodesOf = [&](const std::set<Id>& ids) { std::multiset<NP> r; for (Id i : ids) { int t; if (m.tagOfNode(i, t)) r.insert(W.nObj.at(t)); } return r; };
  auto edgesOf = [&](const std::set<Id>& ids) { std::multiset<EP> r; for (Id i : ids) { int t; if (m.tagOfEdge(i, t)) r.insert(W.eObj.at(t)); } return r; };
  // a translated id list mentions an id equal to the size of the id->object table (the off-by-one of getNodesFromGraphid /
  // getEdgesFromGraphid, repaired in /repo by 46e1305: the exclusion id is not listed any more, so nothing is left out)
  auto hitsN = [&](const std::set<Id>& ids) { return ids.count(m.nTable) > 0; };
  auto hitsE = [&](const std::set<Id>& ids) { return ids.count(m.eTable) > 0; };
  const bool offKnown = c.isKnown("C14-obs-fromgraphid-offbyone");

  // ---- node objects: identifier and index maps are mutual inverses on live items, absent on the others in every map
  for (const auto& kv : W.nObj) {
    int tag = kv.first; const NP& p = kv.second; bool live = m.nId.count(tag) > 0;
    CHECK(o.hasNode(p) == live, w << ": hasNode(n" << tag << ")=" << o.hasNode(p));
    if (live) {
      Id id = m.nId.at(tag);
      CHECK(gm.nodes.count(id), w << ": model: object on a dead node");
      CHECK(o.getNodeGraphid(p) == id, w << ": getNodeGraphid(n" << tag << ")=" << o.getNodeGraphid(p));
      CHECK(o.getNodeFromGraphid(id) == p && co.getNodeFromGraphid(id) == p, w << ": getNodeFromGraphid(" << id << ") is not n" << tag);
    } else if (!thin(rot, static_cast<unsigned>(tag), 1, 3)) {
      CHECK(raises([&] { o.getNodeGraphid(p); }), w << ": getNodeGraphid of absent object n" << tag << " did not raise");
    }
    bool hi = m.nIdx.count(tag) > 0;
    CHECK(o.hasNodeIndex(p) == hi, w << ": hasNodeIndex(n" << tag << ")=" << o.hasNodeIndex(p) << (live ? "" : " for an object that is not in the graph any more"));
    if (hi) {
      Id ix = m.nIdx.at(tag);
      CHECK(o.getNodeIndex(p) == ix, w << ": getNodeIndex(n" << tag << ")=" << o.getNodeIndex(p));
      CHECK(o.hasNode(static_cast<typename Obs::NodeIndex>(ix)) && o.getNode(ix) == p, w << ": index " << ix << " does not lead back to n" << tag);
    } else if (!thin(rot, static_cast<unsigned>(tag), 2, 3)) {
      CHECK(raises([&] { o.getNodeIndex(p); }), w << ": getNodeIndex of un-indexed object n" << tag << " did not raise");
    }
  }
  for (const auto& kv : W.eObj) {
    int tag = kv.first; const EP& q = kv.second; bool live = m.eId.count(tag) > 0;
    CHECK(o.hasEdge(q) == live, w << ": hasEdge(e" << tag << ")=" << o.hasEdge(q));
    if (live) {
      Id id = m.eId.at(tag);
      CHECK(gm.edges.count(id), w << ": model: object on a dead edge");
      CHECK(o.getEdgeGraphid(q) == id, w << ": getEdgeGraphid(e" << tag << ")=" << o.getEdgeGraphid(q));
      CHECK(o.getEdgeFromGraphid(id) == q && co.getEdgeFromGraphid(id) == q, w << ": getEdgeFromGraphid(" << id << ") is not e" << tag);
      // end points of the association
      std::pair<NP, NP> ends = o.getNodes(q);
      auto objAt = [&](Id n) -> NP { int t; return m.tagOfNode(n, t) ? W.nObj.at(t) : NP(); };
      std::pair<NP, NP> want(objAt(gm.edges.at(id).first), objAt(gm.edges.at(id).second));
      CHECK(ends == want || (!gm.directed && ends == std::make_pair(want.second, want.first)), w << ": getNodes(e" << tag << ") reports the wrong end points");
    } else if (!thin(rot, static_cast<unsigned>(tag), 3, 3)) {
      CHECK(raises([&] { o.getEdgeGraphid(q); }), w << ": getEdgeGraphid of absent object e" << tag << " did not raise");
    }
    bool hi = m.eIdx.count(tag) > 0;
    CHECK(o.hasEdgeIndex(q) == hi, w << ": hasEdgeIndex(e" << tag << ")=" << o.hasEdgeIndex(q) << (live ? "" : " for an object that is not in the graph any more"));
    if (hi) {
      Id ix = m.eIdx.at(tag);
      CHECK(o.getEdgeIndex(q) == ix, w << ": getEdgeIndex(e" << tag << ")=" << o.getEdgeIndex(q));
      CHECK(o.hasEdge(static_cast<typename Obs::EdgeIndex>(ix)) && o.getEdge(ix) == q, w << ": index " << ix << " does not lead back to e" << tag);
    } else if (!thin(rot, static_cast<unsigned>(tag), 4, 3)) {
      CHECK(raises([&] { o.getEdgeIndex(q); }), w << ": getEdgeIndex of un-indexed object e" << tag << " did not raise");
    }
  }
  // ids without an object, indexes without an object
  for (Id n : gm.nodes) { int t; if (!m.tagOfNode(n, t)) CHECK(o.getNodeFromGraphid(n) == nullptr, w << ": getNodeFromGraphid(" << n << ") is not null for a node without object"); }
  for (const auto& kv : gm.edges) { int t; if (!m.tagOfEdge(kv.first, t)) CHECK(o.getEdgeFromGraphid(kv.first) == nullptr, w << ": getEdgeFromGraphid(" << kv.first << ") is not null for an edge without object"); }
  CHECK(o.getNodeFromGraphid(gm.absentFresh()) == nullptr && o.getEdgeFromGraphid(gm.absentEdge()) == nullptr, w << ": object reported for an absent graph id");
  for (Id x : gm.everNode) if (!gm.nodes.count(x)) CHECK(o.getNodeFromGraphid(x) == nullptr, w << ": getNodeFromGraphid(" << x << ") is not null for a deleted node");
  Id maxI = 0; for (const auto& kv : m.nIdx) maxI = std::max(maxI, kv.second); for (const auto& kv : m.eIdx) maxI = std::max(maxI, kv.second);
  for (Id i = 0; i <= maxI + 2; ++i) {
    CHECK(o.hasNode(static_cast<typename Obs::NodeIndex>(i)) == m.nodeIdxUsed(i), w << ": hasNode(index " << i << ")=" << o.hasNode(static_cast<typename Obs::NodeIndex>(i)));
    CHECK(o.hasEdge(static_cast<typename Obs::EdgeIndex>(i)) == m.edgeIdxUsed(i), w << ": hasEdge(index " << i << ")=" << o.hasEdge(static_cast<typename Obs::EdgeIndex>(i)));
  }

  // ---- whole-graph lists and counts
  std::multiset<NP> liveN; std::multiset<EP> liveE; std::set<Id> idsN, idsE;
  for (const auto& kv : m.nId) { liveN.insert(W.nObj.at(kv.first)); idsN.insert(kv.second); }
  for (const auto& kv : m.eId) { liveE.insert(W.eObj.at(kv.first)); idsE.insert(kv.second); }
  std::vector<NP> an = o.getAllNodes(); std::vector<EP> ae = o.getAllEdges();
  CHECK(MS(an) == liveN, w << ": getAllNodes()=" << tagsN(an));
  CHECK(MS(ae) == liveE, w << ": getAllEdges()=" << tagsE(ae));
  CHECK(o.getNumberOfNodes() == liveN.size(), w << ": getNumberOfNodes()=" << o.getNumberOfNodes() << " but getAllNodes() lists " << an.size());
  CHECK(o.getNumberOfEdges() == liveE.size(), w << ": getNumberOfEdges()=" << o.getNumberOfEdges() << " but getAllEdges() lists " << ae.size());
  CHECK(MS(drainObj(o.allNodesIterator(), nk)) == liveN && MS(drainObj(co.allNodesIterator(), nk)) == liveN, w << ": allNodesIterator differs from getAllNodes");
  CHECK(MS(drainObj(o.allEdgesIterator(), ek)) == liveE && MS(drainObj(co.allEdgesIterator(), ek)) == liveE, w << ": allEdgesIterator differs from getAllEdges");
  if (m.nIdx.size() == m.nId.size()) { std::multiset<Id> wi; for (const auto& kv : m.nIdx) wi.insert(kv.second); std::vector<typename Obs::NodeIndex> gi = o.getAllNodesIndexes(); CHECK(std::multiset<Id>(gi.begin(), gi.end()) == wi, w << ": getAllNodesIndexes()=" << show(gi)); }
  if (m.eIdx.size() == m.eId.size()) { std::multiset<Id> wi; for (const auto& kv : m.eIdx) wi.insert(kv.second); std::vector<typename Obs::EdgeIndex> gi = o.getAllEdgesIndexes(); CHECK(std::multiset<Id>(gi.begin(), gi.end()) == wi, w << ": getAllEdgesIndexes()=" << show(gi)); }
  {
    std::set<Id> lv, innerOut, innerDeg;
    for (Id n : gm.nodes) { if (gm.leaf(n)) lv.insert(n); if (!gm.outN(n).empty()) innerOut.insert(n); if (gm.nbr(n).size() > 1) innerDeg.insert(n); }
    // getAllLeaves / getAllInnerNodes translate every graph id through the table without a bound check (C14-obs-leaves-unchecked-at)
    bool beyondL = false, beyondI = false;
    for (Id n : lv) if (n >= m.nTable) beyondL = true;
    for (Id n : innerOut) if (n >= m.nTable) beyondI = true;
    const bool atKnown = c.isKnown("C14-obs-leaves-unchecked-at");
    if (!(beyondL && atKnown)) {
      std::vector<NP> gl = o.getAllLeaves();
      CHECK(MS(gl) == nodesOf(lv), w << ": getAllLeaves()=" << tagsN(gl) << " expected the objects of nodes " << show(lv));
      bool allIdx = true; std::multiset<Id> wi;
      for (Id n : lv) { int t; if (m.tagOfNode(n, t)) { if (m.nIdx.count(t)) wi.insert(m.nIdx.at(t)); else allIdx = false; } }
      if (allIdx) { std::vector<typename Obs::NodeIndex> gi = o.getAllLeavesIndexes(); CHECK(std::multiset<Id>(gi.begin(), gi.end()) == wi, w << ": getAllLeavesIndexes()=" << show(gi)); }
    }
    CHECK(o.getNumberOfLeaves() == nodesOf(lv).size(), w << ": getNumberOfLeaves()=" << o.getNumberOfLeaves() << " expected " << nodesOf(lv).size());
    if (!(beyondI && atKnown)) {
      std::multiset<NP> gi = MS(o.getAllInnerNodes());
      CHECK(gi == nodesOf(innerOut) || gi == nodesOf(innerDeg), w << ": getAllInnerNodes() matches neither the objects of nodes with a son " << show(innerOut) << " nor of degree>1 " << show(innerDeg));
    }
  }

  // ---- per node object: neighbour / edge / degree / leaf queries, iterators, by-index variants
  for (const auto& kv : m.nId) {
    int tag = kv.first; Id n = kv.second; const NP& p = W.nObj.at(tag);
    std::set<Id> on = gm.outN(n), in = gm.inN(n), oe = gm.outE(n), ie = gm.inE(n);
    const std::string wn = w + ": n" + std::to_string(tag) + "@" + std::to_string(n);
    if (!(offKnown && hitsN(on))) {
      std::vector<NP> v = o.getOutgoingNeighbors(p); std::multiset<NP> ex = nodesOf(on);
      CHECK(S(v) == std::set<NP>(ex.begin(), ex.end()), wn << " getOutgoingNeighbors=" << tagsN(v) << " expected objects of " << show(on));
      CHECK(MS(drainObj(o.outgoingNeighborNodesIterator(p), nk)) == MS(v) && MS(drainObj(co.outgoingNeighborNodesIterator(p), nk)) == MS(v), wn << " outgoingNeighborNodesIterator differs from getOutgoingNeighbors");
    }
    if (!(offKnown && hitsN(in))) {
      std::vector<NP> v = o.getIncomingNeighbors(p); std::multiset<NP> ex = nodesOf(in);
      CHECK(S(v) == std::set<NP>(ex.begin(), ex.end()), wn << " getIncomingNeighbors=" << tagsN(v) << " expected objects of " << show(in));
      CHECK(MS(drainObj(o.incomingNeighborNodesIterator(p), nk)) == MS(v) && MS(drainObj(co.incomingNeighborNodesIterator(p), nk)) == MS(v), wn << " incomingNeighborNodesIterator differs from getIncomingNeighbors");
    }
    if (!(offKnown && (hitsN(on) || hitsN(in)))) {
      std::vector<NP> v = o.getNeighbors(p); std::multiset<NP> ex = nodesOf(uni(on, in));
      CHECK(S(v) == std::set<NP>(ex.begin(), ex.end()), wn << " getNeighbors=" << tagsN(v) << " expected objects of " << show(uni(on, in)));
    }
    if (!(offKnown && hitsE(oe))) {
      std::vector<EP> v = o.getOutgoingEdges(p); std::multiset<EP> ex = edgesOf(oe);
      CHECK(S(v) == std::set<EP>(ex.begin(), ex.end()), wn << " getOutgoingEdges=" << tagsE(v) << " expected objects of " << show(oe));
      CHECK(MS(drainObj(o.outgoingEdgesIterator(p), ek)) == MS(v) && MS(drainObj(co.outgoingEdgesIterator(p), ek)) == MS(v), wn << " outgoingEdgesIterator differs from getOutgoingEdges");
    }
    if (!(offKnown && hitsE(ie))) {
      std::vector<EP> v = o.getIncomingEdges(p); std::multiset<EP> ex = edgesOf(ie);
      CHECK(S(v) == std::set<EP>(ex.begin(), ex.end()), wn << " getIncomingEdges=" << tagsE(v) << " expected objects of " << show(ie));
      CHECK(MS(drainObj(o.incomingEdgesIterator(p), ek)) == MS(v) && MS(drainObj(co.incomingEdgesIterator(p), ek)) == MS(v), wn << " incomingEdgesIterator differs from getIncomingEdges");
    }
    if (!(offKnown && (hitsE(oe) || hitsE(ie)))) {
      std::vector<EP> v = o.getEdges(p); std::multiset<EP> ex = edgesOf(uni(oe, ie));
      CHECK(S(v) == std::set<EP>(ex.begin(), ex.end()), wn << " getEdges=" << tagsE(v) << " expected objects of " << show(uni(oe, ie)));
    }
    CHECK(gm.degrees(n).count(o.getDegree(p)), wn << " getDegree=" << o.getDegree(p) << " allowed " << show(gm.degrees(n)));
    CHECK(o.isLeaf(p) == gm.leaf(n), wn << " isLeaf=" << o.isLeaf(p));
    // by index, when the node and all the objects concerned carry an index
    if (m.nIdx.count(tag)) {
      typename Obs::NodeIndex ix = m.nIdx.at(tag);
      CHECK(o.isLeaf(ix) == gm.leaf(n), wn << " isLeaf(index)=" << o.isLeaf(ix));
      auto idxN = [&](const std::set<Id>& ids, std::set<Id>& out) { for (Id i : ids) { int t; if (m.tagOfNode(i, t)) { if (!m.nIdx.count(t)) return false; out.insert(m.nIdx.at(t)); } } return true; };
      auto idxE = [&](const std::set<Id>& ids, std::set<Id>& out) { for (Id i : ids) { int t; if (m.tagOfEdge(i, t)) { if (!m.eIdx.count(t)) return false; out.insert(m.eIdx.at(t)); } } return true; };
      std::set<Id> x;
      if (!(offKnown && hitsN(on)) && idxN(on, x)) { std::vector<typename Obs::NodeIndex> v = o.getOutgoingNeighbors(ix); CHECK(std::set<Id>(v.begin(), v.end()) == x, wn << " getOutgoingNeighbors(index)=" << show(v) << " expected " << show(x)); }
      x.clear();
      if (!(offKnown && hitsN(in)) && idxN(in, x)) { std::vector<typename Obs::NodeIndex> v = o.getIncomingNeighbors(ix); CHECK(std::set<Id>(v.begin(), v.end()) == x, wn << " getIncomingNeighbors(index)=" << show(v) << " expected " << show(x)); }
      x.clear();
      if (!(offKnown && (hitsN(on) || hitsN(in))) && idxN(uni(on, in), x)) { std::vector<typename Obs::NodeIndex> v = o.getNeighbors(ix); CHECK(std::set<Id>(v.begin(), v.end()) == x, wn << " getNeighbors(index)=" << show(v) << " expected " << show(x)); }
      x.clear();
      if (!(offKnown && hitsE(oe)) && idxE(oe, x)) { std::vector<typename Obs::EdgeIndex> v = o.getOutgoingEdges(ix); CHECK(std::set<Id>(v.begin(), v.end()) == x, wn << " getOutgoingEdges(index)=" << show(v) << " expected " << show(x)); }
      x.clear();
      if (!(offKnown && hitsE(ie)) && idxE(ie, x)) { std::vector<typename Obs::EdgeIndex> v = o.getIncomingEdges(ix); CHECK(std::set<Id>(v.begin(), v.end()) == x, wn << " getIncomingEdges(index)=" << show(v) << " expected " << show(x)); }
      x.clear();
      if (!(offKnown && (hitsE(oe) || hitsE(ie))) && idxE(uni(oe, ie), x)) { std::vector<typename Obs::EdgeIndex> v = o.getEdges(ix); CHECK(std::set<Id>(v.begin(), v.end()) == x, wn << " getEdges(index)=" << show(v) << " expected " << show(x)); }
    }
    // linking edge of every ordered pair of node objects
    for (const auto& kv2 : m.nId) {
      Id n2 = kv2.second; const NP& p2 = W.nObj.at(kv2.first);
      std::set<Id> ex = gm.from(n, n2); if (ex.empty() && thin(rot, n, n2, 6)) continue;
      EP got; bool r = raises([&] { got = o.getEdgeLinking(p, p2); });
      if (ex.empty()) CHECK(r, wn << " getEdgeLinking(.,n" << kv2.first << ") did not raise although the nodes are not linked");
      else {
        CHECK(!r, wn << " getEdgeLinking(.,n" << kv2.first << ") raised although edge " << show(ex) << " links them");
        bool ok = false; for (Id e : ex) { int t; EP want = m.tagOfEdge(e, t) ? W.eObj.at(t) : EP(); if (got == want) ok = true; }
        CHECK(ok, wn << " getEdgeLinking(.,n" << kv2.first << ") returned " << (got ? "e" + std::to_string(got->tag) : std::string("null")) << " instead of the object of edge " << show(ex));
      }
    }
  }
}

// a copy owns distinct objects with the same relations; returns the world of the copy (registered on the same graph).
// Source and copy may be observers of different object types (converting copy constructor): the copy's objects are
// then the conversions of the source's objects (same tag and payload).
template <class OWd, class OWs>
OWd adoptCopy(vf::Ctx& c, std::unique_ptr<typename OWd::ObsT> cp, const OWs& src, const GModel& gm, const std::string& w) {
  (void)c; (void)gm;
  OWd W; W.o = std::move(cp); W.m = src.m;
  for (const auto& kv : src.m.nId) {
    typename OWd::NPtr p = W.o->getNodeFromGraphid(kv.second);
    CHECK(p != nullptr, w << ": the copy has no object on node " << kv.second);
    CHECK(static_cast<const void*>(p.get()) != static_cast<const void*>(src.nObj.at(kv.first).get()), w << ": the copy shares the node object n" << kv.first << " with the original");
    CHECK(p->tag == kv.first && p->payload == src.nObj.at(kv.first)->payload, w << ": the copy's object on node " << kv.second << " is not a copy of n" << kv.first);
    W.nObj[kv.first] = p;
  }
  for (const auto& kv : src.m.eId) {
    typename OWd::EPtr q = W.o->getEdgeFromGraphid(kv.second);
    CHECK(q != nullptr, w << ": the copy has no object on edge " << kv.second);
    CHECK(static_cast<const void*>(q.get()) != static_cast<const void*>(src.eObj.at(kv.first).get()), w << ": the copy shares the edge object e" << kv.first << " with the original");
    CHECK(q->tag == kv.first && q->payload == src.eObj.at(kv.first)->payload, w << ": the copy's object on edge " << kv.second << " is not a copy of e" << kv.first);
    W.eObj[kv.first] = q;
  }
  // independence: changing the copy's objects leaves the original's untouched
  for (auto& kv : W.nObj) { int before = src.nObj.at(kv.first)->payload; kv.second->payload += 1000; CHECK(src.nObj.at(kv.first)->payload == before, w << ": changing the copy's n" << kv.first << " changed the original"); }
  for (auto& kv : W.eObj) { int before = src.eObj.at(kv.first)->payload; kv.second->payload += 1000; CHECK(src.eObj.at(kv.first)->payload == before, w << ": changing the copy's e" << kv.first << " changed the original"); }
  return W;
}

}  // namespace c14
