// C14 helpers, part 1: exposed graph, tagged objects, the reference multigraph and the
// "all graph views agree with the reference" oracle.
#pragma once
#include "pbt.hpp"

#include <Bpp/Exceptions.h>
#include <Bpp/Graph/AssociationGraphImplObserver.h>
#include <Bpp/Graph/GlobalGraph.h>

#include <map>
#include <memory>
#include <set>
#include <sstream>
#include <string>
#include <vector>

namespace c14 {

typedef unsigned Id;

// exactly what TreeGraphImpl / DAGraphImpl do: make the protected primitives callable
struct PubGraph : public bpp::GlobalGraph {
  explicit PubGraph(bool directed) : bpp::GlobalGraph(directed) {}
  using bpp::GlobalGraph::link;
  using bpp::GlobalGraph::unlink;
  using bpp::GlobalGraph::switchNodes;
  using bpp::GlobalGraph::setRoot;
};

// Two pairs of object types, convertible into each other: observers of <NObj,EObj> are the ones the histories operate
// on; an observer of <NObj2,EObj2> is the target (and, converting back, the source) of the converting copy constructor
// AssociationGraphImplObserver(AssociationGraphImplObserver<N2,E2,GraphImpl> const&), which copies objects by B(const A&).
struct NObj2; struct EObj2;
struct NObj { int tag; int payload; NObj(int t, int p) : tag(t), payload(p) {} NObj(const NObj2& o); };
struct EObj { int tag; int payload; EObj(int t, int p) : tag(t), payload(p) {} EObj(const EObj2& o); };
struct NObj2 { int tag; int payload; char other; NObj2(const NObj& o) : tag(o.tag), payload(o.payload), other('N') {} };
struct EObj2 { int tag; int payload; char other; EObj2(const EObj& o) : tag(o.tag), payload(o.payload), other('E') {} };
inline NObj::NObj(const NObj2& o) : tag(o.tag), payload(o.payload) {}
inline EObj::EObj(const EObj2& o) : tag(o.tag), payload(o.payload) {}
typedef bpp::AssociationGlobalGraphObserver<NObj, EObj> Obs;
typedef bpp::AssociationGlobalGraphObserver<NObj2, EObj2> Obs2;
typedef std::shared_ptr<NObj> NP;
typedef std::shared_ptr<EObj> EP;

template <class T> std::set<T> S(const std::vector<T>& v) { return std::set<T>(v.begin(), v.end()); }
template <class T> std::multiset<T> MS(const std::vector<T>& v) { return std::multiset<T>(v.begin(), v.end()); }
template <class C> std::string show(const C& s) { std::ostringstream o; o << "{"; bool f = true; for (const auto& x : s) { o << (f ? "" : ",") << x; f = false; } o << "}"; return o.str(); }
template <class A, class B> std::set<A> uni(const std::set<A>& a, const B& b) { std::set<A> r(a); r.insert(b.begin(), b.end()); return r; }

// true when f() raises bpp::Exception; any other exception escapes (and is reported by the engine)
template <class F> bool raises(F f) { try { f(); return false; } catch (bpp::Exception&) { return true; } }

// ---------------------------------------------------------------- reference multigraph
struct GModel {
  bool directed = true;
  std::set<Id> nodes;
  std::map<Id, std::pair<Id, Id>> edges;  // id -> (top, bottom)
  std::set<Id> everNode, autoEdge;         // node ids ever allocated; edge ids ever allocated by the graph itself
  Id nextAuto = 0;                         // 1 + last edge id the graph allocated itself (only used by the predicate of C14-edgeid-collision)
  bool rootSet = false; Id root = 0;

  bool incident(Id e, Id n) const { const auto& p = edges.at(e); return p.first == n || p.second == n; }
  std::set<Id> outE(Id n) const { std::set<Id> r; for (const auto& kv : edges) if (directed ? kv.second.first == n : (kv.second.first == n || kv.second.second == n)) r.insert(kv.first); return r; }
  std::set<Id> inE(Id n) const { std::set<Id> r; for (const auto& kv : edges) if (directed ? kv.second.second == n : (kv.second.first == n || kv.second.second == n)) r.insert(kv.first); return r; }
  std::set<Id> incE(Id n) const { std::set<Id> r; for (const auto& kv : edges) if (kv.second.first == n || kv.second.second == n) r.insert(kv.first); return r; }
  Id other(Id e, Id n) const { const auto& p = edges.at(e); return p.first == n ? p.second : p.first; }
  std::set<Id> outN(Id n) const { std::set<Id> r; for (Id e : outE(n)) r.insert(directed ? edges.at(e).second : other(e, n)); return r; }
  std::set<Id> inN(Id n) const { std::set<Id> r; for (Id e : inE(n)) r.insert(directed ? edges.at(e).first : other(e, n)); return r; }
  std::set<Id> nbr(Id n) const { return uni(outN(n), inN(n)); }
  // edges that getEdge(a,b) may return
  std::set<Id> from(Id a, Id b) const {
    std::set<Id> r;
    for (const auto& kv : edges) if ((kv.second.first == a && kv.second.second == b) || (!directed && kv.second.first == b && kv.second.second == a)) r.insert(kv.first);
    return r;
  }
  bool leaf(Id n) const { return nbr(n).size() <= 1; }  // "has at most one neighbor"
  bool reciprocal() const { for (const auto& kv : edges) if (kv.second.first != kv.second.second && !from(kv.second.second, kv.second.first).empty()) return true; return false; }
  // number-of-neighbours style answers the documentation allows ("number of neighbors": distinct neighbours, or one
  // per incident relation; a self-loop may count once or twice)
  std::set<size_t> degrees(Id n) const {
    std::set<size_t> r; r.insert(nbr(n).size());
    size_t loops = 0; for (Id e : incE(n)) if (edges.at(e).first == edges.at(e).second) ++loops;
    r.insert(incE(n).size()); r.insert(incE(n).size() + loops);
    if (directed) r.insert(outN(n).size() + inN(n).size()); else r.insert(outN(n).size());
    return r;
  }
  Id absentFresh() const { Id m = 0; for (Id x : everNode) m = std::max(m, x + 1); return m + 1; }
  Id absentEdge() const { Id m = nextAuto; for (const auto& kv : edges) m = std::max(m, kv.first + 1); return m + 1; }
  // connected component of n (ignoring directions); tree = connected with |E| = |V|-1
  bool treeComponent(Id n, std::set<Id>& comp) const {
    comp.clear(); std::vector<Id> st{n}; comp.insert(n);
    while (!st.empty()) { Id x = st.back(); st.pop_back(); for (Id e : incE(x)) { Id y = other(e, x); if (comp.insert(y).second) st.push_back(y); } }
    size_t ne = 0; for (const auto& kv : edges) if (comp.count(kv.second.first)) ++ne;
    return ne + 1 == comp.size();
  }
  std::string str() const {
    std::ostringstream o; o << (directed ? "directed" : "undirected") << " nodes" << show(nodes) << " edges{";
    for (const auto& kv : edges) o << kv.first << ":" << kv.second.first << (directed ? ">" : "-") << kv.second.second << " ";
    o << "}"; return o.str();
  }
};

template <class It> std::vector<Id> drain(std::unique_ptr<It> it) {
  std::vector<Id> a, b;
  for (; !it->end(); it->next()) a.push_back(**it);
  it->start();  // start() must rewind
  for (; !it->end(); it->next()) b.push_back(**it);
  if (a != b) ::vf::failNow("iterator: second pass after start() differs from the first pass");
  return a;
}

// ---------------------------------------------------------------- all graph views agree with the model
// rot == 0: every probe that is expected to raise is made; rot > 0 (random histories): those probes are thinned out in
// rotation (raising is slow under the sanitizers); probes expected to return a value are always made.
inline bool thin(unsigned rot, unsigned a, unsigned b, unsigned mod) { return rot != 0 && (a * 7 + b * 3 + rot) % mod != 0; }
inline void checkGraph(vf::Ctx& c, PubGraph& g, const GModel& m, const std::string& w, unsigned rot = 0) {
  const bpp::GlobalGraph& cg = g;
  CHECK(g.isDirected() == m.directed, w << ": isDirected()=" << g.isDirected() << " model " << m.str());
  std::vector<Id> an = g.getAllNodes(), ae = g.getAllEdges();
  CHECK(MS(an) == std::multiset<Id>(m.nodes.begin(), m.nodes.end()), w << ": getAllNodes " << show(an) << " model " << m.str());
  std::set<Id> ek; for (const auto& kv : m.edges) ek.insert(kv.first);
  CHECK(MS(ae) == std::multiset<Id>(ek.begin(), ek.end()), w << ": getAllEdges " << show(ae) << " model " << m.str());
  CHECK(g.getNumberOfNodes() == m.nodes.size(), w << ": getNumberOfNodes()=" << g.getNumberOfNodes() << " model " << m.str());
  CHECK(g.getNumberOfEdges() == m.edges.size(), w << ": getNumberOfEdges()=" << g.getNumberOfEdges() << " model " << m.str());
  CHECK(MS(drain(g.allNodesIterator())) == MS(an), w << ": allNodesIterator differs from getAllNodes");
  CHECK(MS(drain(cg.allNodesIterator())) == MS(an), w << ": const allNodesIterator differs from getAllNodes");
  CHECK(MS(drain(g.allEdgesIterator())) == MS(ae), w << ": allEdgesIterator differs from getAllEdges");
  CHECK(MS(drain(cg.allEdgesIterator())) == MS(ae), w << ": const allEdgesIterator differs from getAllEdges");
  if (m.rootSet) CHECK(g.getRoot() == m.root, w << ": getRoot()=" << g.getRoot() << " after setRoot(" << m.root << ")");

  for (const auto& kv : m.edges) {
    Id e = kv.first; std::pair<Id, Id> p = g.getNodes(e);
    CHECK(p == kv.second || (!m.directed && p == std::make_pair(kv.second.second, kv.second.first)),
          w << ": getNodes(" << e << ")=(" << p.first << "," << p.second << ") model " << m.str());
    CHECK(g.getTop(e) == p.first && g.getBottom(e) == p.second, w << ": getTop/getBottom(" << e << ") differ from getNodes");
    CHECK(m.nodes.count(p.first) && m.nodes.count(p.second), w << ": edge " << e << " has an end point that is not a node");
  }
  std::set<Id> leaves, innerOut, innerDeg;
  for (Id n : m.nodes) {
    std::set<Id> oe = m.outE(n), ie = m.inE(n), on = m.outN(n), in = m.inN(n);
    std::vector<Id> voe = g.getOutgoingEdges(n), vie = g.getIncomingEdges(n), von = g.getOutgoingNeighbors(n), vin = g.getIncomingNeighbors(n);
    CHECK(S(voe) == oe, w << ": getOutgoingEdges(" << n << ")=" << show(voe) << " expected " << show(oe) << " in " << m.str());
    CHECK(S(vie) == ie, w << ": getIncomingEdges(" << n << ")=" << show(vie) << " expected " << show(ie) << " in " << m.str());
    CHECK(S(von) == on, w << ": getOutgoingNeighbors(" << n << ")=" << show(von) << " expected " << show(on) << " in " << m.str());
    CHECK(S(vin) == in, w << ": getIncomingNeighbors(" << n << ")=" << show(vin) << " expected " << show(in) << " in " << m.str());
    std::vector<Id> ve = g.getEdges(n), vn = g.getNeighbors(n);
    CHECK(S(ve) == uni(oe, ie), w << ": getEdges(" << n << ")=" << show(ve) << " expected " << show(uni(oe, ie)) << " in " << m.str());
    CHECK(S(vn) == uni(on, in), w << ": getNeighbors(" << n << ")=" << show(vn) << " expected " << show(uni(on, in)) << " in " << m.str());
    CHECK(g.getNumberOfOutgoingNeighbors(n) == on.size(), w << ": getNumberOfOutgoingNeighbors(" << n << ")=" << g.getNumberOfOutgoingNeighbors(n) << " expected " << on.size() << " in " << m.str());
    CHECK(g.getNumberOfIncomingNeighbors(n) == in.size(), w << ": getNumberOfIncomingNeighbors(" << n << ")=" << g.getNumberOfIncomingNeighbors(n) << " expected " << in.size() << " in " << m.str());
    std::set<size_t> dg = m.degrees(n);
    CHECK(dg.count(g.getDegree(n)), w << ": getDegree(" << n << ")=" << g.getDegree(n) << " allowed " << show(dg) << " in " << m.str());
    CHECK(dg.count(g.getNumberOfNeighbors(n)), w << ": getNumberOfNeighbors(" << n << ")=" << g.getNumberOfNeighbors(n) << " allowed " << show(dg) << " in " << m.str());
    CHECK(g.isLeaf(n) == m.leaf(n), w << ": isLeaf(" << n << ")=" << g.isLeaf(n) << " but the node has " << m.nbr(n).size() << " neighbour(s) in " << m.str());
    if (m.leaf(n)) leaves.insert(n);
    if (!on.empty()) innerOut.insert(n);
    if (m.nbr(n).size() > 1) innerDeg.insert(n);
    // the six iterator kinds, const and non-const
    CHECK(MS(drain(g.outgoingNeighborNodesIterator(n))) == MS(von), w << ": outgoingNeighborNodesIterator(" << n << ") differs from getOutgoingNeighbors");
    CHECK(MS(drain(cg.outgoingNeighborNodesIterator(n))) == MS(von), w << ": const outgoingNeighborNodesIterator(" << n << ") differs from getOutgoingNeighbors");
    CHECK(MS(drain(g.incomingNeighborNodesIterator(n))) == MS(vin), w << ": incomingNeighborNodesIterator(" << n << ") differs from getIncomingNeighbors");
    CHECK(MS(drain(cg.incomingNeighborNodesIterator(n))) == MS(vin), w << ": const incomingNeighborNodesIterator(" << n << ") differs from getIncomingNeighbors");
    CHECK(MS(drain(g.outgoingEdgesIterator(n))) == MS(voe), w << ": outgoingEdgesIterator(" << n << ") differs from getOutgoingEdges");
    CHECK(MS(drain(cg.outgoingEdgesIterator(n))) == MS(voe), w << ": const outgoingEdgesIterator(" << n << ") differs from getOutgoingEdges");
    CHECK(MS(drain(g.incomingEdgesIterator(n))) == MS(vie), w << ": incomingEdgesIterator(" << n << ") differs from getIncomingEdges");
    CHECK(MS(drain(cg.incomingEdgesIterator(n))) == MS(vie), w << ": const incomingEdgesIterator(" << n << ") differs from getIncomingEdges");
    for (Id n2 : m.nodes) {
      std::set<Id> ex = m.from(n, n2), any = uni(ex, m.from(n2, n));
      if (any.empty() && thin(rot, n, n2, 6)) continue;
      Id got = 0;
      bool r = raises([&] { got = g.getEdge(n, n2); });
      CHECK(r ? ex.empty() : ex.count(got) > 0, w << ": getEdge(" << n << "," << n2 << ") " << (r ? std::string("raised") : "=" + std::to_string(got)) << " expected " << show(ex) << " in " << m.str());
      r = raises([&] { got = g.getAnyEdge(n, n2); });
      CHECK(r ? any.empty() : any.count(got) > 0, w << ": getAnyEdge(" << n << "," << n2 << ") " << (r ? std::string("raised") : "=" + std::to_string(got)) << " expected " << show(any) << " in " << m.str());
    }
  }
  std::vector<Id> vl = g.getAllLeaves();
  CHECK(S(vl) == leaves, w << ": getAllLeaves()=" << show(vl) << " expected " << show(leaves) << " in " << m.str());
  CHECK(g.getSetOfAllLeaves() == leaves, w << ": getSetOfAllLeaves()=" << show(g.getSetOfAllLeaves()) << " expected " << show(leaves) << " in " << m.str());
  // inner nodes: the header says "degree > 1", the interface "nodes with degree >= 2", the code "has an outgoing neighbour": any of them
  std::set<Id> vi = S(g.getAllInnerNodes());
  CHECK(vi == innerOut || vi == innerDeg, w << ": getAllInnerNodes()=" << show(vi) << " is neither the nodes with a son " << show(innerOut) << " nor those of degree>1 " << show(innerDeg) << " in " << m.str());
  if (m.directed) CHECK(g.containsReciprocalRelations() == m.reciprocal(), w << ": containsReciprocalRelations()=" << g.containsReciprocalRelations() << " in " << m.str());
  else (void)raises([&] { (void)g.containsReciprocalRelations(); });  // documented for directed graphs only: raising is accepted

  // leaves reachable from a node. Always: only live leaves are reported. Completeness only where the documentation is
  // unambiguous: the component of the start node is a tree, the start node has >= 2 neighbours, depth >= number of nodes.
  for (Id n : m.nodes) {
    std::set<Id> comp; bool tree = m.treeComponent(n, comp);
    unsigned depth = tree ? static_cast<unsigned>(m.nodes.size()) : 2u;
    std::vector<Id> lf = g.getLeavesFromNode(n, depth);
    for (Id x : lf) CHECK(m.nodes.count(x) && m.leaf(x) && comp.count(x), w << ": getLeavesFromNode(" << n << "," << depth << ") reports " << x << " which is not a leaf connected to it, in " << m.str());
    if (tree && m.nbr(n).size() >= 2) {
      std::set<Id> want; for (Id x : comp) if (m.leaf(x)) want.insert(x);
      if (!m.directed) { if (c.isKnown("C14-leavesfromnode-undirected")) continue; }
      CHECK(S(lf) == want, w << ": getLeavesFromNode(" << n << "," << depth << ")=" << show(lf) << " expected the leaves " << show(want) << " of its tree component in " << m.str());
    }
  }
  // absent operands of queries must raise
  Id an1 = m.absentFresh(), ae1 = m.absentEdge();
  std::vector<Id> absent{an1}; for (Id x : m.everNode) if (!m.nodes.count(x)) { absent.push_back(x); break; }
  if (thin(rot, 0, 0, 3)) return;
  for (Id a : absent) {
    CHECK(raises([&] { g.getOutgoingNeighbors(a); }) && raises([&] { g.getIncomingNeighbors(a); }) && raises([&] { g.getNeighbors(a); }), w << ": neighbour query on absent node " << a << " did not raise");
    CHECK(raises([&] { g.getOutgoingEdges(a); }) && raises([&] { g.getIncomingEdges(a); }) && raises([&] { g.getEdges(a); }), w << ": edge query on absent node " << a << " did not raise");
    CHECK(raises([&] { g.getDegree(a); }) && raises([&] { g.isLeaf(a); }) && raises([&] { g.getNumberOfNeighbors(a); }) && raises([&] { g.getNumberOfOutgoingNeighbors(a); }) && raises([&] { g.getNumberOfIncomingNeighbors(a); }),
          w << ": count query on absent node " << a << " did not raise");
    if (!m.nodes.empty()) { Id b = *m.nodes.begin(); CHECK(raises([&] { g.getEdge(a, b); }) && raises([&] { g.getEdge(b, a); }) && raises([&] { g.getAnyEdge(a, b); }), w << ": getEdge with absent node " << a << " did not raise"); }
  }
  CHECK(raises([&] { g.getNodes(ae1); }) && raises([&] { g.getTop(ae1); }) && raises([&] { g.getBottom(ae1); }), w << ": getNodes/getTop/getBottom of absent edge " << ae1 << " did not raise");
}

}  // namespace c14
