// Helpers of the C07 harness (vector reductions): generators, printing, long double references.
#pragma once
#include "pbt.hpp"

#include <cfloat>
#include <cmath>
#include <limits>
#include <map>
#include <set>
#include <string>
#include <vector>

namespace c07 {

typedef long double LD;
static const double EPS = DBL_EPSILON;
static const double INF = std::numeric_limits<double>::infinity();

inline std::string sh(int x) { return std::to_string(x); }
inline std::string sh(long x) { return std::to_string(x); }
inline std::string sh(size_t x) { return std::to_string(x); }
inline std::string sh(double x) { return vf::dec(x); }
template <class T> std::string shv(const std::vector<T>& v) {
  std::string s = "[";
  for (size_t i = 0; i < v.size(); ++i) { if (i) s += ","; s += sh(v[i]); }
  return s + "]";
}
template <class T> std::string shvv(const std::vector<std::vector<T>>& v) {
  std::string s = "{";
  for (size_t i = 0; i < v.size(); ++i) { if (i) s += ","; s += shv(v[i]); }
  return s + "}";
}

inline bool same(double a, double b) { return a == b || (std::isnan(a) && std::isnan(b)); }
inline bool same(int a, int b) { return a == b; }
template <class T> bool sameVec(const std::vector<T>& a, const std::vector<T>& b) {
  if (a.size() != b.size()) return false;
  for (size_t i = 0; i < a.size(); ++i) if (!same(a[i], b[i])) return false;
  return true;
}

// exact-capacity copy (so that an access past size() is past the allocation and seen by ASan)
template <class T> std::vector<T> tight(const std::vector<T>& v) { std::vector<T> r(v.begin(), v.end()); r.shrink_to_fit(); return r; }

// lengths 0..maxLen with 0,1,2 forced often; draw 0 = empty
inline size_t genLen(vf::Ctx& c, int maxLen = 64) {
  switch (c.weighted({3, 3, 3, 8, 3})) {
    case 0: return 0;
    case 1: return 1;
    case 2: return 2;
    case 3: return static_cast<size_t>(c.irange(3, 8));
    default: return static_cast<size_t>(c.irange(9, maxLen));
  }
}
// length of a second operand: mostly equal, sometimes independent
inline size_t genLen2(vf::Ctx& c, size_t n, int maxLen = 64) { return c.weighted({5, 2}) == 0 ? n : genLen(c, maxLen); }

inline std::vector<int> genInts(vf::Ctx& c, size_t n, int k) {
  std::vector<int> v(n); for (auto& x : v) x = static_cast<int>(c.zig(k)); return tight(v);
}
// dyadic reals j/8, |j| <= k
inline std::vector<double> genDyadic(vf::Ctx& c, size_t n, int k) {
  std::vector<double> v(n); for (auto& x : v) x = static_cast<double>(c.zig(k)) / 8.0; return tight(v);
}
inline std::vector<double> genReals(vf::Ctx& c, size_t n, double lo, double hi) {
  std::vector<double> v(n); for (auto& x : v) x = c.real(lo, hi); return tight(v);
}
// weights >= 0 incl. zeros: small integers, reals in [0.01,10], or eighths in [0,1]
inline std::vector<double> genWeights(vf::Ctx& c, size_t n) {
  std::vector<double> w(n); size_t kind = c.weighted({3, 1, 1});
  for (auto& x : w) {
    if (kind == 0) x = static_cast<double>(c.irange(0, 4));
    else if (kind == 1) x = c.oneIn(6) ? 0.0 : c.real(0.01, 10);
    else x = static_cast<double>(c.irange(0, 8)) / 8;
  }
  return tight(w);
}

template <class T> bool hasTies(const std::vector<T>& v) { std::set<T> s(v.begin(), v.end()); return s.size() < v.size(); }
template <class T> bool isSubsequence(const std::vector<T>& sub, const std::vector<T>& of) {
  size_t j = 0; for (size_t i = 0; i < of.size() && j < sub.size(); ++i) if (of[i] == sub[j]) ++j; return j == sub.size();
}
template <class T> bool nonDecreasing(const std::vector<T>& v) { for (size_t i = 1; i < v.size(); ++i) if (v[i] < v[i - 1]) return false; return true; }

// runs f; true iff it threw E (or a subclass). Every other exception escapes to the engine (= failure).
template <class E, class F> bool threw(F&& f) { try { f(); } catch (E&) { return true; } return false; }

// ---- log-domain references (long double, shifted by the maximum)
inline LD lseRef(const std::vector<double>& v) {  // v non-empty
  LD M = -std::numeric_limits<LD>::infinity();
  for (double x : v) if (static_cast<LD>(x) > M) M = x;
  if (std::isinf(M)) return M;
  LD s = 0; for (double x : v) s += expl(static_cast<LD>(x) - M);
  return M + logl(s);
}
// log(sum w_i exp(v_i)), w >= 0, no +inf entry; shift by the largest entry of positive weight
inline LD wlseRef(const std::vector<double>& v, const std::vector<double>& w, LD* effMax = nullptr) {
  LD M = -std::numeric_limits<LD>::infinity();
  for (size_t i = 0; i < v.size(); ++i) if (w[i] > 0 && static_cast<LD>(v[i]) > M) M = v[i];
  if (effMax) *effMax = M;
  if (std::isinf(M)) return M;
  LD s = 0; for (size_t i = 0; i < v.size(); ++i) if (w[i] > 0) s += static_cast<LD>(w[i]) * expl(static_cast<LD>(v[i]) - M);
  return M + logl(s);
}

}  // namespace c07
