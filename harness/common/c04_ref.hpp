// C04 helpers: reference matrices (plain row-major arrays), the three storage classes behind one factory,
// generators, output-argument preparation and the comparison against a reference given as
// (value, sum of |terms|, length of the sum) per entry.
#pragma once
#include "pbt.hpp"

#include <Bpp/Numeric/Matrix/Matrix.h>
#include <Bpp/Numeric/Matrix/MatrixTools.h>

#include <memory>
#include <string>
#include <vector>

namespace c04 {

typedef bpp::Matrix<double> MX;
typedef bpp::RowMatrix<double> RowM;
typedef bpp::ColMatrix<double> ColM;
typedef bpp::LinearMatrix<double> LinM;

static const char KN[] = {'R', 'C', 'L'};
static const double SENT = 777.0;  // sentinel content of pre-sized outputs

// reference matrix: the shape the library object reports, entries row-major
struct RM {
  size_t r = 0, c = 0;
  std::vector<double> v;
  RM() {}
  RM(size_t r_, size_t c_) : r(r_), c(c_), v(r_ * c_, 0.0) {}
  double& operator()(size_t i, size_t j) { return v[i * c + j]; }
  const double& operator()(size_t i, size_t j) const { return v[i * c + j]; }
  bool degenerate() const { return r <= 1 || c <= 1 || r != c; }
};

// A RowMatrix with 0 rows reports 0 columns, a ColMatrix with 0 columns reports 0 rows (known quirk):
// the shape a storage class reports for a requested shape.
inline void normShape(int kind, size_t& r, size_t& c) {
  if (kind == 0 && r == 0) c = 0;
  if (kind == 1 && c == 0) r = 0;
}
inline bool repr(int kind, size_t r, size_t c) { size_t a = r, b = c; normShape(kind, a, b); return a == r && b == c; }

inline std::unique_ptr<MX> mk(int kind, size_t r, size_t c) {
  switch (kind) {
    case 0: return std::unique_ptr<MX>(new RowM(r, c));
    case 1: return std::unique_ptr<MX>(new ColM(r, c));
    default: return std::unique_ptr<MX>(new LinM(r, c));
  }
}
inline std::unique_ptr<MX> build(int kind, const RM& m) {
  std::unique_ptr<MX> p = mk(kind, m.r, m.c);
  CHECK(p->getNumberOfRows() == m.r && p->getNumberOfColumns() == m.c,
        "internal: storage " << KN[kind] << " reports " << p->getNumberOfRows() << "x" << p->getNumberOfColumns() << " for " << m.r << "x" << m.c);
  for (size_t i = 0; i < m.r; ++i) for (size_t j = 0; j < m.c; ++j) (*p)(i, j) = m(i, j);
  return p;
}
inline RM snap(const MX& m) {
  RM o(m.getNumberOfRows(), m.getNumberOfColumns());
  for (size_t i = 0; i < o.r; ++i) for (size_t j = 0; j < o.c; ++j) o(i, j) = m(i, j);
  return o;
}
inline bool sameD(double a, double b) { return std::memcmp(&a, &b, sizeof a) == 0 || (a == 0 && b == 0); }
inline bool sameRM(const RM& a, const RM& b) {
  if (a.r != b.r || a.c != b.c) return false;
  for (size_t k = 0; k < a.v.size(); ++k) if (!sameD(a.v[k], b.v[k])) return false;
  return true;
}
inline std::string num(double x) {
  char b[40];
  if (x == std::floor(x) && std::fabs(x) < 1e15) snprintf(b, sizeof b, "%.0f", x); else snprintf(b, sizeof b, "%.17g", x);
  return b;
}
inline std::string show(const RM& m) {
  std::ostringstream os; os << m.r << "x" << m.c << "[";
  for (size_t i = 0; i < m.r; ++i) { if (i) os << ";"; for (size_t j = 0; j < m.c; ++j) os << (j ? "," : "") << num(m(i, j)); }
  os << "]"; return os.str();
}
inline std::string show(const std::vector<double>& v) {
  std::ostringstream os; os << "(";
  for (size_t j = 0; j < v.size(); ++j) os << (j ? "," : "") << num(v[j]);
  os << ")"; return os.str();
}

// static dispatch to the concrete class (for the functions templated on the matrix type)
template <class F> void withM(MX& m, int kind, F&& f) {
  switch (kind) {
    case 0: f(static_cast<RowM&>(m)); break;
    case 1: f(static_cast<ColM&>(m)); break;
    default: f(static_cast<LinM&>(m)); break;
  }
}
template <class F> void with2(MX& a, int ka, MX& o, int ko, F&& f) {
  withM(a, ka, [&](auto& A) { withM(o, ko, [&](auto& O) { f(A, O); }); });
}

// ------------------------------------------------------------------ generators (draw 0 = simplest)
inline size_t genDim(vf::Ctx& c) {
  switch (c.weighted({3, 2, 2, 5})) { case 0: return 1; case 1: return 0; case 2: return 2; default: return static_cast<size_t>(c.irange(3, 7)); }
}
inline size_t otherDim(vf::Ctx& c, size_t d) { return (d + 1 + c.below(7)) % 8; }  // in 0..7 and != d
inline int genKind(vf::Ctx& c) { return static_cast<int>(c.below(3)); }
inline bool genInteger(vf::Ctx& c) { return c.below(2) == 0; }
inline double genEntry(vf::Ctx& c, bool integer, int k = 9) {
  if (integer) return c.ival(k);
  if (c.below(4) == 0) return c.ival(3);
  return c.real(-8, 8);
}
inline std::vector<double> genVec(vf::Ctx& c, size_t n, bool integer) { std::vector<double> v(n); for (auto& x : v) x = genEntry(c, integer); return v; }

// an operand: entries + the storage class of the first run (k[0]) and of the second run (k[1]); the shape is the
// one storage k[0] reports, k[1] is only used if it reports the same shape
struct Op {
  int k[2] = {0, 0};
  RM m;
};
inline Op genOp(vf::Ctx& c, size_t r, size_t cc, bool integer, int emax = 9) {
  Op o; o.k[0] = genKind(c);
  normShape(o.k[0], r, cc);
  o.m = RM(r, cc);
  for (auto& x : o.m.v) x = genEntry(c, integer, emax);
  int k = genKind(c); o.k[1] = repr(k, r, cc) ? k : o.k[0];
  return o;
}
inline std::string show(const Op& o) { return std::string(1, KN[o.k[0]]) + "/" + KN[o.k[1]] + ":" + show(o.m); }

// an output argument: default-constructed (0x0), pre-sized as the result, or pre-sized differently; sentinel content
struct OutSpec { int k[2] = {0, 0}; int mode = 0; size_t wr = 0, wc = 0; };
inline OutSpec genOut(vf::Ctx& c) {
  OutSpec s; s.k[0] = genKind(c); s.k[1] = genKind(c); s.mode = static_cast<int>(c.below(3));
  s.wr = c.below(9); s.wc = c.below(9); return s;
}
inline std::string show(const OutSpec& s) {
  std::ostringstream os; os << "out " << KN[s.k[0]] << "/" << KN[s.k[1]] << (s.mode == 0 ? ":unsized" : s.mode == 1 ? ":sized" : ":presized");
  if (s.mode == 2) os << s.wr << "x" << s.wc;
  return os.str();
}
inline std::unique_ptr<MX> makeOut(const OutSpec& s, int w, size_t er, size_t ec) {
  std::unique_ptr<MX> p = s.mode == 0 ? mk(s.k[w], 0, 0) : s.mode == 1 ? mk(s.k[w], er, ec) : mk(s.k[w], s.wr, s.wc);
  for (size_t i = 0; i < p->getNumberOfRows(); ++i) for (size_t j = 0; j < p->getNumberOfColumns(); ++j) (*p)(i, j) = SENT;
  return p;
}

// ------------------------------------------------------------------ reference result
struct Ref {
  size_t r = 0, c = 0;
  std::vector<long double> v, mag;  // value and sum of |terms| of the defining finite sum
  double len = 1;                   // number of floating-point operations of that sum (for gamma)
  Ref() {}
  Ref(size_t r_, size_t c_, double len_ = 1) : r(r_), c(c_), v(r_ * c_, 0.0L), mag(r_ * c_, 0.0L), len(len_) {}
  void add(size_t i, size_t j, long double t) { v[i * c + j] += t; mag[i * c + j] += fabsl(t); }
  void set(size_t i, size_t j, long double t) { v[i * c + j] = t; mag[i * c + j] = fabsl(t); }
};
inline Ref refOf(const RM& m) { Ref f(m.r, m.c); for (size_t k = 0; k < m.v.size(); ++k) { f.v[k] = m.v[k]; f.mag[k] = std::fabs(m.v[k]); } return f; }

// Output `O` held by storage `kind` against the reference. exact: equality of every entry (integer inputs, copies);
// otherwise |got-want| <= 4*len*eps*sum|terms| (forward error bound of the same finite sum, DESIGN section 5/C04).
inline void cmpRef(vf::Ctx& c, const std::string& what, const MX& O, int kind, const Ref& ref, bool exact) {
  size_t er = ref.r, ec = ref.c; normShape(kind, er, ec);
  CHECK(O.getNumberOfRows() == er && O.getNumberOfColumns() == ec,
        what << ": output (" << KN[kind] << ") is " << O.getNumberOfRows() << "x" << O.getNumberOfColumns() << ", the definition gives " << ref.r << "x" << ref.c);
  if (er != ref.r || ec != ref.c) return;  // no entries
  for (size_t i = 0; i < er; ++i) for (size_t j = 0; j < ec; ++j) {
    double got = O(i, j); long double want = ref.v[i * ec + j];
    if (exact) {
      CHECK(fabsl(want) < 9007199254740992.0L, "internal: reference entry not exactly representable");
      CHECK(got == static_cast<double>(want), what << ": entry (" << i << "," << j << ") = " << vf::dec(got) << ", the definition gives " << vf::dec(static_cast<double>(want)));
    } else {
      long double tol = 4.0L * ref.len * DBL_EPSILON * ref.mag[i * ec + j];
      long double err = fabsl(static_cast<long double>(got) - want);
      CHECK(err <= tol, what << ": entry (" << i << "," << j << ") = " << vf::dec(got) << ", the definition gives " << vf::dec(static_cast<double>(want)) << " (error " << static_cast<double>(err) << " > tolerance " << static_cast<double>(tol) << ")");
      if (tol > 0) c.observe("err/tol " + what, static_cast<double>(err / tol));
    }
  }
}

template <class F> bool throwsDim(F&& f) {
  try { f(); } catch (bpp::DimensionException&) { return true; }
  return false;
}

// both runs gave the same bits whenever they report the same shape
inline void sameRuns(const RM& a, const RM& b, const char* what) {
  if (a.r == b.r && a.c == b.c) CHECK(sameRM(a, b), what << ": result depends on the storage classes: " << show(a) << " vs " << show(b));
}

}  // namespace c04
