// C09 helpers: the continuous families as a small model (parameters, external reference cdf / partial expectation in
// long double from Boost.Math 1.83, frozen tolerances) and construction of the library objects.
// The references are written from the mathematical definitions and never call the library under test.
#pragma once
#include <boost/math/special_functions/beta.hpp>
#include <boost/math/special_functions/erf.hpp>
#include <boost/math/special_functions/gamma.hpp>

#include "pbt.hpp"

#include <Bpp/Numeric/Prob/BetaDiscreteDistribution.h>
#include <Bpp/Numeric/Prob/ExponentialDiscreteDistribution.h>
#include <Bpp/Numeric/Prob/GammaDiscreteDistribution.h>
#include <Bpp/Numeric/Prob/GaussianDiscreteDistribution.h>
#include <Bpp/Numeric/Prob/TruncatedExponentialDiscreteDistribution.h>
#include <Bpp/Numeric/Prob/UniformDiscreteDistribution.h>

#include <memory>
#include <string>
#include <vector>

namespace c09 {
typedef long double LD;
namespace bm = boost::math;
typedef bpp::DiscreteDistributionInterface DDI;

const double EPS = 2.220446049250313e-16;
const LD SQRT2L = 1.41421356237309504880168872420969808L;
const LD SQRT2PIL = 2.50662827463100050241576528481104525L;

// order = simplicity (draw 0 = exponential)
enum Fam { F_EXPO = 0, F_UNIF, F_GAUSS, F_GAMMA, F_TEXP, F_BETA, NFAM };

// parameters: EXPO a=lambda | UNIF a=min b=max | GAUSS a=mu b=sigma | GAMMA a=alpha b=beta(rate) off, hasOff (offset is a parameter)
//             TEXP a=lambda b=tp | BETA a=alpha b=beta
struct CP {
  Fam f = F_EXPO; double a = 1, b = 1, off = 0; bool hasOff = false;
  bool rev = false;   // UNIF only: the two ends are handed to the constructor as (max, min); a <= b always holds in the model
};

inline const char* famName(Fam f) {
  static const char* n[] = {"Exponential", "Uniform", "Gaussian", "Gamma", "TruncExponential", "Beta"};
  return n[f];
}
inline std::string nsOf(Fam f) { return std::string(famName(f)) + "."; }
inline std::string show(const CP& q) {
  std::string s = famName(q.f); s += "(";
  switch (q.f) {
    case F_EXPO: s += "lambda=" + vf::dec(q.a); break;
    case F_UNIF: s += "min=" + vf::dec(q.a) + ",max=" + vf::dec(q.b) + (q.rev ? ",constructed as (max,min)" : ""); break;
    case F_GAUSS: s += "mu=" + vf::dec(q.a) + ",sigma=" + vf::dec(q.b); break;
    case F_GAMMA: s += "alpha=" + vf::dec(q.a) + ",beta=" + vf::dec(q.b) + ",offset=" + vf::dec(q.off) + (q.hasOff ? "(param)" : "(fixed)"); break;
    case F_TEXP: s += "lambda=" + vf::dec(q.a) + ",tp=" + vf::dec(q.b); break;
    case F_BETA: s += "alpha=" + vf::dec(q.a) + ",beta=" + vf::dec(q.b); break;
    default: break;
  }
  return s + ")";
}

// names of the parameters (without namespace) and accessors into CP
struct PRef { const char* name; int which; };  // which: 0 -> a, 1 -> b, 2 -> off
inline std::vector<PRef> paramsOf(const CP& q) {
  switch (q.f) {
    case F_EXPO: return {{"lambda", 0}};
    case F_UNIF: return {};
    case F_GAUSS: return {{"mu", 0}, {"sigma", 1}};
    case F_GAMMA: { std::vector<PRef> v = {{"alpha", 0}, {"beta", 1}}; if (q.hasOff) v.push_back({"offset", 2}); return v; }
    case F_TEXP: return {{"lambda", 0}, {"tp", 1}};
    case F_BETA: return {{"alpha", 0}, {"beta", 1}};
    default: return {};
  }
}
inline double& field(CP& q, int which) { return which == 0 ? q.a : which == 1 ? q.b : q.off; }
inline double field(const CP& q, int which) { return which == 0 ? q.a : which == 1 ? q.b : q.off; }

// ---------------------------------------------------------------- reference cdf  F(x) = P(X < x)
inline LD refP(const CP& q, LD x) {
  switch (q.f) {
    case F_EXPO: return x <= 0 ? 0 : -expm1l(-static_cast<LD>(q.a) * x);
    case F_UNIF: return x <= q.a ? 0 : x >= q.b ? 1 : (x - q.a) / (static_cast<LD>(q.b) - q.a);
    case F_GAUSS: return 0.5L * bm::erfc(-(x - q.a) / (static_cast<LD>(q.b) * SQRT2L));
    case F_GAMMA: { LD t = (x - q.off) * q.b; return t <= 0 ? 0 : bm::gamma_p(static_cast<LD>(q.a), t); }
    case F_TEXP: return x <= 0 ? 0 : x >= q.b ? 1 : expm1l(-static_cast<LD>(q.a) * x) / expm1l(-static_cast<LD>(q.a) * q.b);
    case F_BETA: return x <= 0 ? 0 : x >= 1 ? 1 : bm::ibeta(static_cast<LD>(q.a), static_cast<LD>(q.b), x);
    default: return 0;
  }
}
// ---------------------------------------------------------------- reference partial expectation  E(x) = int_{-inf}^{x} t dF(t)
inline LD expoE(LD lam, LD x) { return x <= 0 ? 0 : -expm1l(-lam * x) / lam - x * expl(-lam * x); }
inline LD refE(const CP& q, LD x) {
  switch (q.f) {
    case F_EXPO: return expoE(q.a, x);
    case F_UNIF: return x <= q.a ? 0 : x >= q.b ? (static_cast<LD>(q.a) + q.b) / 2 : (x - q.a) * (x + q.a) / (2 * (static_cast<LD>(q.b) - q.a));
    case F_GAUSS: { LD z = (x - q.a) / q.b; return q.a * 0.5L * bm::erfc(-z / SQRT2L) - q.b * expl(-z * z / 2) / SQRT2PIL; }
    case F_GAMMA: { LD t = (x - q.off) * q.b; if (t <= 0) return 0; return static_cast<LD>(q.a) / q.b * bm::gamma_p(static_cast<LD>(q.a) + 1, t) + q.off * bm::gamma_p(static_cast<LD>(q.a), t); }
    case F_TEXP: { LD xx = x >= q.b ? static_cast<LD>(q.b) : x; return expoE(q.a, xx) / (-expm1l(-static_cast<LD>(q.a) * q.b)); }
    case F_BETA: { LD m = static_cast<LD>(q.a) / (static_cast<LD>(q.a) + q.b); return x <= 0 ? 0 : x >= 1 ? m : m * bm::ibeta(static_cast<LD>(q.a) + 1, static_cast<LD>(q.b), x); }
    default: return 0;
  }
}
// typical magnitude of X (tolerances of expectations are relative to it)
inline double scaleOf(const CP& q) {
  switch (q.f) {
    case F_EXPO: return 1 / q.a;
    case F_UNIF: return std::max(std::abs(q.a), std::abs(q.b));
    case F_GAUSS: return std::abs(q.a) + q.b;
    case F_GAMMA: return q.a / q.b + std::abs(q.off);
    case F_TEXP: return std::min(1 / q.a, q.b);
    case F_BETA: return 1;
    default: return 1;
  }
}

// ---------------------------------------------------------------- frozen tolerances (DESIGN section 5/C09, C08 for the special functions)
struct Tol {
  double p;     // |pProb - F|                      (absolute)
  double q;     // |F(qProb(u)) - u|                (absolute; bracket form for Beta)
  double e;     // |Expectation - E| / scaleOf      (relative to the magnitude of X)
  double mass;  // |p_k*mass - mass of the class interval|  (absolute; the law divides by the mass of the domain)
  bool approxQuantile;  // the quantile has a documented working range for its probability argument
};
inline Tol tolOf(Fam f) {
  switch (f) {
    case F_GAMMA: return {5e-8, 1e-7, 1e-7, 1e-7, true};    // pGamma "accurate = 1e-8", AS91 quantile
    case F_GAUSS: return {1e-13, 1e-7, 1e-12, 1e-7, true};  // AS70 quantile: |z error| <= 1.5e-8
    case F_BETA: return {1e-11, 1e-10, 1e-10, 1e-9, true};    // quantile: C08 claims 1e-11 for shapes >= 0.3; worst seen 1.6e-12 over shapes >= 0.1
    case F_TEXP: return {1e-12, 1e-11, 1e-10, 1e-11, false};  // division by 1-exp(-lambda tp) >= 0.00995
    default: return {1e-13, 1e-12, 1e-12, 1e-12, false};      // closed forms
  }
}

// ---------------------------------------------------------------- construction of the library object
inline std::unique_ptr<DDI> make(const CP& q, size_t K, short scheme) {
  switch (q.f) {
    case F_EXPO: return std::make_unique<bpp::ExponentialDiscreteDistribution>(K, q.a);
    case F_UNIF:  // the constructor orders its two arguments itself: either order builds the distribution on [a, b]
      return q.rev ? std::make_unique<bpp::UniformDiscreteDistribution>(static_cast<unsigned>(K), q.b, q.a)
                   : std::make_unique<bpp::UniformDiscreteDistribution>(static_cast<unsigned>(K), q.a, q.b);
    case F_GAUSS: return std::make_unique<bpp::GaussianDiscreteDistribution>(K, q.a, q.b);
    case F_GAMMA: return std::make_unique<bpp::GammaDiscreteDistribution>(K, q.a, q.b, 0.05, 0.05, q.hasOff, q.off);
    case F_TEXP: return std::make_unique<bpp::TruncatedExponentialDiscreteDistribution>(K, q.a, q.b);
    case F_BETA: return std::make_unique<bpp::BetaDiscreteDistribution>(K, q.a, q.b, scheme);
    default: return nullptr;
  }
}
template <class T> void assignAs(DDI& to, const DDI& from) { dynamic_cast<T&>(to) = dynamic_cast<const T&>(from); }
inline void assignSame(Fam f, DDI& to, const DDI& from) {
  switch (f) {
    case F_EXPO: assignAs<bpp::ExponentialDiscreteDistribution>(to, from); break;
    case F_UNIF: assignAs<bpp::UniformDiscreteDistribution>(to, from); break;
    case F_GAUSS: assignAs<bpp::GaussianDiscreteDistribution>(to, from); break;
    case F_GAMMA: assignAs<bpp::GammaDiscreteDistribution>(to, from); break;
    case F_TEXP: assignAs<bpp::TruncatedExponentialDiscreteDistribution>(to, from); break;
    case F_BETA: assignAs<bpp::BetaDiscreteDistribution>(to, from); break;
    default: break;
  }
}

}  // namespace c09
