// Common machinery of the /verif property harnesses (see DESIGN.md section 2).
//
// A *law* is a function  void law(vf::Ctx&)  that draws every random choice from
// ctx (a stream of 64-bit "choices"), builds its case, describes it in
// ctx.desc, and checks an oracle with CHECK(...).  The same law code is driven
//   * by rapidcheck: the choice vector is generated and shrunk by rapidcheck
//     (chunk removal + per-element integral shrinking towards 0);
//   * by the bounded-exhaustive enumerator: every draw has a finite arity and
//     all paths of the draw tree are visited (laws of kind ENUM);
//   * by a replay file (the consumed choice prefix, as text) without any
//     randomness and without rapidcheck;
//   * by the fork-mode shrinker, for cases that die with a signal / sanitizer.
#pragma once
#include <rapidcheck.h>

#include <algorithm>
#include <cfloat>
#include <cinttypes>
#include <cmath>
#include <csignal>
#include <cstdint>
#include <cstdio>
#include <cstdlib>
#include <cstring>
#include <ctime>
#include <fstream>
#include <functional>
#include <iostream>
#include <map>
#include <set>
#include <sstream>
#include <string>
#include <unordered_set>
#include <vector>
#include <fcntl.h>
#include <sys/resource.h>
#include <sys/time.h>
#include <sys/wait.h>
#include <unistd.h>

extern "C" void __sanitizer_set_death_callback(void (*)(void));

namespace vf {

// ---------------------------------------------------------------- utilities
inline uint64_t fnv1a(const void* p, size_t n, uint64_t h = 1469598103934665603ULL) {
  const unsigned char* c = static_cast<const unsigned char*>(p);
  for (size_t i = 0; i < n; ++i) { h ^= c[i]; h *= 1099511628211ULL; }
  return h;
}
inline uint64_t hashStr(const std::string& s) { return fnv1a(s.data(), s.size()); }
inline uint64_t mix64(uint64_t x) {
  x += 0x9e3779b97f4a7c15ULL; x = (x ^ (x >> 30)) * 0xbf58476d1ce4e5b9ULL;
  x = (x ^ (x >> 27)) * 0x94d049bb133111ebULL; return x ^ (x >> 31);
}
inline std::string hexd(double x) { char b[64]; snprintf(b, sizeof b, "%a", x); return b; }
inline std::string dec(double x) { char b[64]; snprintf(b, sizeof b, "%.17g", x); return b; }
inline std::string jsonEscape(const std::string& s) {
  std::string o; o.reserve(s.size() + 8);
  for (unsigned char c : s) {
    switch (c) {
      case '"': o += "\\\""; break; case '\\': o += "\\\\"; break;
      case '\n': o += "\\n"; break; case '\t': o += "\\t"; break; case '\r': o += "\\r"; break;
      default:
        if (c < 0x20 || c >= 0x7f) { char b[8]; snprintf(b, sizeof b, "\\u%04x", c); o += b; }
        else o += static_cast<char>(c);
    }
  }
  return o;
}
inline double ulpStep(double x, int k) {
  for (int i = 0; i < std::abs(k); ++i) x = std::nextafter(x, k > 0 ? INFINITY : -INFINITY);
  return x;
}

// ---------------------------------------------------------------- outcomes
struct Fail { std::string msg; };
struct Skip {};          // case excluded (known finding / not this shard)
struct EnumOverflow {};  // raw() asked in enumeration mode

// ---------------------------------------------------------------- choice sources
class Src {
public:
  virtual ~Src() {}
  virtual uint64_t raw() = 0;               // 64 random bits (0 = simplest)
  virtual uint64_t below(uint64_t n) = 0;   // 0..n-1 (0 = simplest)
  virtual size_t used() const = 0;
  virtual bool enumerating() const { return false; }
};

class VecSrc : public Src {
  const std::vector<uint64_t>& v_; size_t pos_ = 0;
public:
  explicit VecSrc(const std::vector<uint64_t>& v) : v_(v) {}
  uint64_t raw() override { return pos_ < v_.size() ? v_[pos_++] : (pos_++, 0); }
  uint64_t below(uint64_t n) override { uint64_t r = raw(); return n <= 1 ? 0 : r % n; }
  size_t used() const override { return pos_; }
};

// Odometer over the tree of finite-arity draws.
class EnumSrc : public Src {
  std::vector<std::pair<uint64_t, uint64_t>> st_;  // (value, arity)
  size_t pos_ = 0;
public:
  uint64_t raw() override { throw EnumOverflow(); }
  uint64_t below(uint64_t n) override {
    if (n < 1) n = 1;
    if (pos_ < st_.size()) {
      if (st_[pos_].second != n) { fprintf(stderr, "EnumSrc: non-deterministic arity\n"); abort(); }
      return st_[pos_++].first;
    }
    st_.push_back({0, n}); ++pos_; return 0;
  }
  size_t used() const override { return pos_; }
  bool enumerating() const override { return true; }
  void restart() { pos_ = 0; }
  // advance to the next path; cut the path at the draws consumed so far when
  // `prune` (used to skip a whole subtree).
  bool next(bool prune) {
    if (prune) st_.resize(pos_);
    while (!st_.empty() && st_.back().first + 1 >= st_.back().second) st_.pop_back();
    if (st_.empty()) return false;
    ++st_.back().first; pos_ = 0; return true;
  }
  size_t rawPath(uint64_t* out, size_t cap) const { size_t n = 0; for (size_t i = 0; i < pos_ && i < st_.size() && n < cap; ++i) out[n++] = st_[i].first; return n; }
  std::vector<uint64_t> path() const { std::vector<uint64_t> p; for (size_t i = 0; i < pos_ && i < st_.size(); ++i) p.push_back(st_[i].first); return p; }
};

// ---------------------------------------------------------------- context
struct Ctx {
  Src& s;
  std::ostringstream desc;        // complete human-readable description of the case
  bool nontrivial = false;        // the law's stated non-trivial rule
  std::vector<const char*> labels;
  const std::set<std::string>* known = nullptr;  // active known-finding ids
  int shardK = 0, shardN = 1;
  std::string knownHit;
  // numeric observations: worst value seen per named tolerance
  std::map<std::string, double>* worst = nullptr;

  explicit Ctx(Src& src) : s(src) {}

  uint64_t raw() { return s.raw(); }
  uint64_t below(uint64_t n) { return s.below(n); }
  int64_t range(int64_t lo, int64_t hi) { return hi <= lo ? lo : lo + static_cast<int64_t>(s.below(static_cast<uint64_t>(hi - lo) + 1)); }
  int irange(int lo, int hi) { return static_cast<int>(range(lo, hi)); }
  bool flag() { return s.below(2) != 0; }
  // true with probability about 1/n (never in the simplest case)
  bool oneIn(unsigned n) { return s.below(n) == n - 1; }
  template <class T> const T& pick(const std::vector<T>& v) { return v[s.below(v.size())]; }
  template <class T, size_t N> const T& pick(const T (&a)[N]) { return a[s.below(N)]; }
  double unit() { return static_cast<double>(s.raw() >> 11) * (1.0 / 9007199254740992.0); }  // [0,1)
  double real(double lo, double hi) { return lo + (hi - lo) * unit(); }
  // log-uniform in [lo,hi], lo>0
  double logu(double lo, double hi) { return std::exp(std::log(lo) + (std::log(hi) - std::log(lo)) * unit()); }
  // small integer in [-k,k], 0 simplest (zig-zag)
  int64_t zig(int k) { uint64_t r = s.below(2 * static_cast<uint64_t>(k) + 1); return (r & 1) ? static_cast<int64_t>((r + 1) / 2) : -static_cast<int64_t>(r / 2); }
  double ival(int k) { return static_cast<double>(zig(k)); }
  // weighted index
  size_t weighted(std::initializer_list<unsigned> w) {
    if (s.enumerating()) return s.below(w.size());
    unsigned tot = 0; for (unsigned x : w) tot += x;
    uint64_t r = s.below(tot); size_t i = 0;
    for (unsigned x : w) { if (r < x) return i; r -= x; ++i; }
    return 0;
  }
  void nt(bool b = true) { if (b) nontrivial = true; }
  void label(const char* l) { labels.push_back(l); }
  void observe(const std::string& name, double v) {
    if (!worst || !(v == v)) return;
    auto it = worst->find(name);
    if (it == worst->end()) (*worst)[name] = v; else if (v > it->second) it->second = v;
  }
  // The case belongs to the input class of known finding `id`: skip it when
  // that finding is listed as known (status "known" in known_findings.json).
  bool isKnown(const char* id) const { return known && known->count(id); }
  void excludeIfKnown(const char* id) { if (isKnown(id)) { knownHit = id; throw Skip(); } }
  // enumeration sharding: call after the leading draws
  void shardPoint() {
    if (shardN <= 1) return;
    // hash of the description so far decides the shard
    if (hashStr(desc.str()) % static_cast<uint64_t>(shardN) != static_cast<uint64_t>(shardK)) { knownHit.clear(); throw Skip(); }
  }
};

[[noreturn]] inline void failNow(const std::string& m) { throw Fail{m}; }

#define VF_STR2(x) #x
#define VF_STR(x) VF_STR2(x)
#define CHECK(cond, ...)                                                          \
  do {                                                                            \
    if (!(cond)) {                                                                \
      std::ostringstream vf_os_;                                                  \
      vf_os_ << __FILE__ ":" VF_STR(__LINE__) ": CHECK(" #cond ") failed: " << __VA_ARGS__; \
      ::vf::failNow(vf_os_.str());                                                \
    }                                                                             \
  } while (0)

// ---------------------------------------------------------------- law registry
enum Kind { RC = 0, ENUM = 1 };
struct Law {
  std::string name;
  void (*fn)(Ctx&);
  Kind kind;
  long quick, thorough;   // number of cases (RC) ; ignored for ENUM (complete)
  int len;                // number of choices generated per case (RC)
  std::string ntRule;     // the non-trivial rule in words
  int hangSeconds;        // watchdog for one case
  bool hangIsViolation;
};
inline std::vector<Law>& laws() { static std::vector<Law> l; return l; }
struct LawReg {
  // a case that burns `hang` CPU-seconds (normal cases take micro- to milliseconds) never returned what the property says it
  // returns: a violation unless the law says that termination is decided elsewhere (hv = false, e.g. C10 Lb..Lf next to La_termination)
  LawReg(const char* n, void (*fn)(Ctx&), Kind k, long q, long t, int len, const char* nt, int hang = 30, bool hv = true) {
    laws().push_back(Law{n, fn, k, q, t, len, nt, hang, hv});
  }
};
#define LAW(name, kind, quick, thorough, len, ntrule, ...) \
  static void name(::vf::Ctx& c);                           \
  static ::vf::LawReg vf_reg_##name(#name, name, ::vf::kind, quick, thorough, len, ntrule, ##__VA_ARGS__); \
  static void name(::vf::Ctx& c)

// ---------------------------------------------------------------- case files
struct CaseFile { std::string law; std::vector<uint64_t> choices; };
inline bool readCase(const std::string& path, CaseFile& cf) {
  std::ifstream in(path); if (!in) return false;
  std::string line;
  while (std::getline(in, line)) {
    if (line.rfind("law ", 0) == 0) cf.law = line.substr(4);
    else if (line.rfind("choices", 0) == 0) {
      std::istringstream is(line.substr(7)); std::string tok;
      while (is >> tok) cf.choices.push_back(strtoull(tok.c_str(), nullptr, 16));
    }
  }
  return !cf.law.empty();
}
inline std::string caseText(const std::string& law, const std::vector<uint64_t>& ch, size_t used, const std::string& desc, const std::string& msg) {
  std::ostringstream os; os << "law " << law << "\nchoices";
  size_t n = std::min(used, ch.size());
  while (n > 0 && ch[n - 1] == 0) --n;  // trailing zeros are implied
  for (size_t i = 0; i < n; ++i) { char b[24]; snprintf(b, sizeof b, " %" PRIx64, ch[i]); os << b; }
  os << "\n";
  std::istringstream ds(desc); std::string l; while (std::getline(ds, l)) os << "# case: " << l << "\n";
  std::istringstream ms(msg); while (std::getline(ms, l)) os << "# fail: " << l << "\n";
  return os.str();
}

// ---------------------------------------------------------------- running one case
struct Verdict { bool ok = true, skipped = false; std::string msg, desc, knownHit; bool nontrivial = false; size_t used = 0, avail = 0; std::vector<const char*> labels; };

struct Global {
  const Law* law = nullptr;
  std::set<std::string> known;
  std::map<std::string, double> worst;
  std::string outDir = ".";
  // current case for crash dumps (fixed buffers: usable from signal context)
  static const size_t MAXC = 8192;
  uint64_t cur[MAXC]; size_t curN = 0; volatile uint64_t caseSeq = 0;
  char crashPath[512] = {0}; char hangPath[512] = {0};
  int shardK = 0, shardN = 1;
  const EnumSrc* enumSrc = nullptr;  // enumeration in progress: crash dumps take the path from it
  std::function<void()> resetHook;  // per-harness global-state reset
};
inline Global& G() { static Global g; return g; }

inline void setCurrent(const std::vector<uint64_t>& ch) {
  Global& g = G(); g.curN = std::min(ch.size(), Global::MAXC);
  if (g.curN) memcpy(g.cur, ch.data(), g.curN * sizeof(uint64_t));
  g.caseSeq = g.caseSeq + 1;
}
// async-signal-safe (called from the SIGPROF watchdog and from the sanitizer death callback): open/write only, no stdio, no allocation
// (an earlier fopen/fprintf version could deadlock on the allocator lock when the signal interrupted malloc: the worker then sat in
// futex_wait until the driver's shard timeout)
inline void dumpCurrent(const char* path, const char* why) {
  Global& g = G(); if (!g.law || !path[0]) return;
  int fd = open(path, O_WRONLY | O_CREAT | O_TRUNC, 0644); if (fd < 0) return;
  auto put = [&](const char* t) { size_t n = strlen(t); while (n) { ssize_t r = write(fd, t, n); if (r <= 0) break; t += r; n -= static_cast<size_t>(r); } };
  put("law "); put(g.law->name.c_str()); put("\nchoices");
  if (g.enumSrc) g.curN = g.enumSrc->rawPath(g.cur, Global::MAXC);
  size_t n = g.curN; while (n > 0 && g.cur[n - 1] == 0) --n;
  for (size_t i = 0; i < n; ++i) {
    char b[20]; int k = 0; uint64_t x = g.cur[i]; char tmp[17]; int t = 0;
    if (x == 0) tmp[t++] = '0'; while (x) { tmp[t++] = "0123456789abcdef"[x & 15]; x >>= 4; }
    b[k++] = ' '; while (t) b[k++] = tmp[--t]; b[k] = 0; put(b);
  }
  put("\n# fail: "); put(why); put("\n"); close(fd);
}
inline void deathCallback() { dumpCurrent(G().crashPath, "process died (signal / sanitizer report) while running this case"); fprintf(stderr, "\nVF-CRASH case dumped to %s\n", G().crashPath); }

inline Verdict runCase(const Law& law, Src& src) {
  Verdict v; Ctx c(src); c.known = &G().known; c.worst = &G().worst; c.shardK = G().shardK; c.shardN = G().shardN;
  if (G().resetHook) G().resetHook();
  try { law.fn(c); }
  catch (Fail& f) { v.ok = false; v.msg = f.msg; }
  catch (Skip&) { v.skipped = true; v.knownHit = c.knownHit; }
  catch (EnumOverflow&) { throw; }
  catch (rc::detail::CaseResult&) { throw; }
  catch (std::exception& e) { v.ok = false; v.msg = std::string("unexpected exception escaped the law: ") + typeid(e).name() + ": " + e.what(); }
  catch (...) { v.ok = false; v.msg = "unexpected non-std exception escaped the law"; }
  v.desc = c.desc.str(); v.nontrivial = c.nontrivial; v.used = src.used(); v.labels = c.labels;
  return v;
}

// ---------------------------------------------------------------- statistics of a run
struct Stats {
  long evaluations = 0, skippedKnown = 0, skippedShard = 0, nontrivial = 0, exhausted = 0;
  std::unordered_set<uint64_t> ntHashes; size_t ntCap = 250000; bool ntCapped = false;
  std::map<std::string, long> labels, knownHits;
  std::vector<std::string> firstSamples, ntSamples; uint64_t resv = 12345; long ntSeen = 0;
  void add(const Verdict& v) {
    if (v.skipped) { if (v.knownHit.empty()) ++skippedShard; else { ++skippedKnown; ++knownHits[v.knownHit]; } return; }
    ++evaluations;
    if (v.avail && v.used > v.avail) ++exhausted;   // the law asked for more choices than were generated (the rest decoded as 0)
    for (const char* l : v.labels) ++labels[l];
    if (firstSamples.size() < 2) firstSamples.push_back(v.desc);
    if (v.nontrivial) {
      ++nontrivial;
      if (ntHashes.size() < ntCap) ntHashes.insert(hashStr(v.desc)); else ntCapped = true;
      ++ntSeen;
      if (ntSamples.size() < 6) ntSamples.push_back(v.desc);
      else { resv = mix64(resv); uint64_t j = resv % static_cast<uint64_t>(ntSeen); if (j < 6) ntSamples[j] = v.desc; }
    }
  }
};

inline void writeStats(const std::string& path, const Law& law, const Stats& st, bool failed, const std::string& failFile, const std::string& failMsg, bool exhaustive, double wall) {
  std::ofstream o(path);
  o << "{\"law\":\"" << law.name << "\",\"kind\":\"" << (law.kind == ENUM ? "enum" : "rc") << "\",\"evaluations\":" << st.evaluations
    << ",\"nontrivial\":" << st.nontrivial << ",\"skipped_known\":" << st.skippedKnown << ",\"skipped_shard\":" << st.skippedShard
    << ",\"exhausted\":" << st.exhausted << ",\"nt_capped\":" << (st.ntCapped ? "true" : "false") << ",\"exhaustive\":" << (exhaustive ? "true" : "false")
    << ",\"failed\":" << (failed ? "true" : "false") << ",\"fail_file\":\"" << jsonEscape(failFile) << "\",\"fail_msg\":\"" << jsonEscape(failMsg)
    << "\",\"wall_s\":" << wall << ",\"nt_rule\":\"" << jsonEscape(law.ntRule) << "\",\"labels\":{";
  bool first = true;
  for (auto& kv : st.labels) { o << (first ? "" : ",") << "\"" << jsonEscape(kv.first) << "\":" << kv.second; first = false; }
  o << "},\"known_hits\":{"; first = true;
  for (auto& kv : st.knownHits) { o << (first ? "" : ",") << "\"" << jsonEscape(kv.first) << "\":" << kv.second; first = false; }
  o << "},\"worst\":{"; first = true;
  for (auto& kv : G().worst) { o << (first ? "" : ",") << "\"" << jsonEscape(kv.first) << "\":" << dec(kv.second); first = false; }
  o << "},\"samples\":["; first = true;
  for (auto& s : st.firstSamples) { o << (first ? "" : ",") << "\"" << jsonEscape(s.substr(0, 1500)) << "\""; first = false; }
  for (auto& s : st.ntSamples) { o << (first ? "" : ",") << "\"" << jsonEscape(s.substr(0, 1500)) << "\""; first = false; }
  o << "],\"nt_hashes\":[";
  first = true;
  for (uint64_t h : st.ntHashes) { o << (first ? "" : ",") << "\"" << std::hex << h << std::dec << "\""; first = false; }
  o << "]}\n";
}

// ---------------------------------------------------------------- watchdog
inline void onTick(int) {
  static volatile uint64_t lastSeq = 0; static volatile int same = 0;
  Global& g = G(); if (!g.law) return;
  if (g.caseSeq == lastSeq) { same = same + 1; } else { lastSeq = g.caseSeq; same = 0; }
  if (same >= g.law->hangSeconds) {
    dumpCurrent(g.hangPath, "watchdog: the case did not finish within the per-case limit");
    const char m[] = "\nVF-HANG case dumped\n"; ssize_t r = write(2, m, sizeof m - 1); (void)r;
    _exit(97);
  }
}
inline void stopWatchdog() {
  struct itimerval z; memset(&z, 0, sizeof z); setitimer(ITIMER_PROF, &z, nullptr); signal(SIGPROF, SIG_IGN); G().law = nullptr;
}
inline void startWatchdog() {
  // CPU time (ITIMER_PROF), not wall clock: a loaded machine must not look like a hang
  struct sigaction sa; memset(&sa, 0, sizeof sa); sa.sa_handler = onTick; sigaction(SIGPROF, &sa, nullptr);
  struct itimerval it; it.it_interval.tv_sec = 1; it.it_interval.tv_usec = 0; it.it_value = it.it_interval; setitimer(ITIMER_PROF, &it, nullptr);
}

// ---------------------------------------------------------------- rapidcheck driver
inline rc::Seq<std::vector<uint64_t>> shrinkChoices(const std::vector<uint64_t>& v) {
  return rc::seq::concat(
      rc::shrink::removeChunks(v),
      rc::shrink::eachElement(v, [](uint64_t x) { return rc::shrink::integral<uint64_t>(x); }));
}
inline rc::Gen<std::vector<uint64_t>> genChoices(int len) {
  return [len](const rc::Random& random, int /*size*/) {
    rc::Random r = random; std::vector<uint64_t> v(static_cast<size_t>(len));
    for (auto& x : v) x = r.next();
    return rc::shrinkable::shrinkRecur(std::move(v), &shrinkChoices);
  };
}

inline double cpuS() { return static_cast<double>(clock()) / CLOCKS_PER_SEC; }
inline double nowS() { struct timeval tv; gettimeofday(&tv, nullptr); return static_cast<double>(tv.tv_sec) + 1e-6 * static_cast<double>(tv.tv_usec); }

// Runs in a forked child; returns 0 pass, 1 law failure, 2 died.
inline int runForked(const Law& law, const std::vector<uint64_t>& ch, int limitS) {
  fflush(nullptr);
  pid_t p = fork();
  if (p == 0) {
    G().crashPath[0] = 0; G().hangPath[0] = 0;
    struct itimerval it; memset(&it, 0, sizeof it); setitimer(ITIMER_PROF, &it, nullptr); signal(SIGPROF, SIG_DFL);
    struct rlimit rl; rl.rlim_cur = static_cast<rlim_t>(limitS); rl.rlim_max = static_cast<rlim_t>(limitS) + 1; setrlimit(RLIMIT_CPU, &rl);  // CPU seconds
    int fd = open("/dev/null", 1); if (fd >= 0) { dup2(fd, 2); dup2(fd, 1); }
    VecSrc s(ch); Verdict v = runCase(law, s); _exit(v.ok ? 0 : 1);
  }
  int st = 0; waitpid(p, &st, 0);
  if (WIFEXITED(st) && WEXITSTATUS(st) == 0) return 0;
  if (WIFEXITED(st) && WEXITSTATUS(st) == 1) return 1;
  return 2;
}

// ddmin-style shrinker for cases that kill the process.
inline std::vector<uint64_t> shrinkForked(const Law& law, std::vector<uint64_t> ch, int limitS, int budget) {
  auto dies = [&](const std::vector<uint64_t>& c) { --budget; return runForked(law, c, limitS) == 2; };
  while (!ch.empty() && ch.back() == 0) ch.pop_back();
  bool progress = true;
  while (progress && budget > 0) {
    progress = false;
    for (size_t chunk = std::max<size_t>(ch.size() / 2, 1); chunk >= 1 && budget > 0; chunk /= 2) {
      for (size_t i = 0; i + chunk <= ch.size() && budget > 0;) {
        std::vector<uint64_t> c(ch.begin(), ch.begin() + static_cast<long>(i)); c.insert(c.end(), ch.begin() + static_cast<long>(i + chunk), ch.end());
        if (dies(c)) { ch = c; progress = true; } else i += chunk;
      }
      if (chunk == 1) break;
    }
    for (size_t i = 0; i < ch.size() && budget > 0; ++i) {
      if (ch[i] == 0) continue;
      std::vector<uint64_t> c = ch; c[i] = 0;
      if (dies(c)) { ch = c; progress = true; continue; }
      uint64_t lo = 0, hi = ch[i];  // smallest value (by bisection) that still dies
      for (int it = 0; it < 12 && lo + 1 < hi && budget > 0; ++it) {
        uint64_t mid = lo + (hi - lo) / 2; c[i] = mid;
        if (dies(c)) { hi = mid; } else lo = mid;
      }
      if (hi != ch[i]) { ch[i] = hi; progress = true; }
    }
    while (!ch.empty() && ch.back() == 0) ch.pop_back();
  }
  return ch;
}

// ---------------------------------------------------------------- main
inline int harnessMain(int argc, char** argv, const char* propertyId) {
  std::string mode, lawName, out, replay; long n = -1; int shardK = 0, shardN = 1; bool forkAll = false;
  for (int i = 1; i < argc; ++i) {
    std::string a = argv[i];
    auto val = [&]() -> std::string { return i + 1 < argc ? argv[++i] : ""; };
    if (a == "--list") mode = "list";
    else if (a == "--run") { mode = "run"; lawName = val(); }
    else if (a == "--replay") { mode = "replay"; replay = val(); }
    else if (a == "--shrink") { mode = "shrink"; replay = val(); }
    else if (a == "--n") n = atol(val().c_str());
    else if (a == "--out") out = val();
    else if (a == "--dir") G().outDir = val();
    else if (a == "--fork") forkAll = true;
    else if (a == "--shard") { std::string s = val(); sscanf(s.c_str(), "%d/%d", &shardK, &shardN); }
    else if (a == "--known") { std::istringstream is(val()); std::string t; while (std::getline(is, t, ',')) if (!t.empty()) G().known.insert(t); }
  }
  if (mode == "list") {
    printf("{\"property\":\"%s\",\"laws\":[", propertyId);
    bool first = true;
    for (auto& l : laws()) {
      printf("%s{\"name\":\"%s\",\"kind\":\"%s\",\"quick\":%ld,\"thorough\":%ld,\"len\":%d,\"hang_s\":%d,\"hang_is_violation\":%s,\"nt_rule\":\"%s\"}", first ? "" : ",", l.name.c_str(),
             l.kind == ENUM ? "enum" : "rc", l.quick, l.thorough, l.len, l.hangSeconds, l.hangIsViolation ? "true" : "false", jsonEscape(l.ntRule).c_str());
      first = false;
    }
    printf("]}\n"); return 0;
  }
  if (mode == "replay" || mode == "shrink") {
    CaseFile cf; if (!readCase(replay, cf)) { fprintf(stderr, "cannot read case file %s\n", replay.c_str()); return 4; }
    const Law* law = nullptr; for (auto& l : laws()) if (l.name == cf.law) law = &l;
    if (!law) { fprintf(stderr, "unknown law %s\n", cf.law.c_str()); return 4; }
    G().law = law;
    if (mode == "shrink") {
      // while minimising, a candidate counts as hanging after min(hangSeconds, VF_SHRINK_HANG) CPU-seconds (the driver confirms the
      // result with the full budget and falls back on the unminimised dump when the minimised case then passes)
      int shrinkHang = law->hangSeconds; if (const char* e = getenv("VF_SHRINK_HANG")) shrinkHang = std::max(1, std::min(shrinkHang, atoi(e)));
      std::vector<uint64_t> m = shrinkForked(*law, cf.choices, shrinkHang, 800);
      std::ofstream o(out); o << caseText(law->name, m, m.size(), "", "process died (signal / sanitizer report / hang) while running this case (minimised in fork mode)");
      return 0;
    }
    setCurrent(cf.choices); startWatchdog();
    VecSrc s(cf.choices); Verdict v = runCase(*law, s);
    std::string lawNameCopy = law->name; stopWatchdog();
    printf("law %s\ncase: %s\n", lawNameCopy.c_str(), v.desc.c_str());
    if (v.skipped) { printf("verdict: SKIPPED (%s)\n", v.knownHit.c_str()); return 0; }
    if (v.ok) { printf("verdict: PASS\n"); return 0; }
    printf("verdict: FAIL\n%s\n", v.msg.c_str()); return 1;
  }
  if (mode != "run") { fprintf(stderr, "usage: --list | --run LAW --n N --out FILE [--shard k/K] [--known ids] | --replay FILE | --shrink FILE --out FILE\n"); return 4; }

  const Law* law = nullptr; for (auto& l : laws()) if (l.name == lawName) law = &l;
  if (!law) { fprintf(stderr, "unknown law %s\n", lawName.c_str()); return 4; }
  G().law = law; G().shardK = shardK; G().shardN = shardN;
  std::string base = G().outDir + "/" + law->name + "-" + std::to_string(shardK);
  snprintf(G().crashPath, sizeof G().crashPath, "%s.crash.case", base.c_str());
  snprintf(G().hangPath, sizeof G().hangPath, "%s.hang.case", base.c_str());
  __sanitizer_set_death_callback(deathCallback);
  startWatchdog();
  double t0 = nowS(); Stats st; bool failed = false; std::string failFile, failMsg; bool exhaustive = false;

  if (law->kind == ENUM) {
    EnumSrc es; bool more = true; G().shardN = shardN; G().shardK = shardK; G().enumSrc = &es;
    while (more) {
      es.restart();
      // the path is only known after the run: dump uses the path reconstructed afterwards
      G().curN = 0; G().caseSeq = G().caseSeq + 1;
      Verdict v = runCase(*law, es);
      st.add(v);
      if (!v.ok && !v.skipped) {
        failed = true; failMsg = v.msg; failFile = base + ".fail.case";
        std::vector<uint64_t> p = es.path(); std::ofstream o(failFile); o << caseText(law->name, p, p.size(), v.desc, v.msg);
        break;
      }
      more = es.next(v.skipped && v.knownHit.empty());
      if (n > 0 && st.evaluations >= n) { break; }
    }
    exhaustive = !more && !failed; G().enumSrc = nullptr;
  } else {
    std::vector<uint64_t> lastFail; Verdict lastV;
    const Law& L = *law;
    long shrinkAttempts = 0; double shrinkT0 = 0;
    bool ok = rc::check(L.name, [&]() {
      std::vector<uint64_t> ch = *genChoices(L.len);
      if (failed) {  // shrinking phase: bounded effort (attempts and CPU time), then every further candidate "passes"
        if (++shrinkAttempts > 4000 || cpuS() - shrinkT0 > 60) return;
      }
      setCurrent(ch);
      Verdict v;
      if (forkAll) {
        int r = runForked(L, ch, L.hangSeconds);
        if (r == 0) { VecSrc s0(ch); (void)s0; v.ok = true; v.desc = "(fork mode)"; }
        else { v.ok = false; v.msg = r == 2 ? "died in forked child" : "law failed in forked child"; v.used = ch.size(); }
      } else {
        VecSrc s(ch); v = runCase(L, s); v.avail = ch.size();
      }
      if (!failed) st.add(v);   // statistics only for the generation phase, not for shrinking
      if (!v.ok && !v.skipped) { if (!failed) shrinkT0 = cpuS(); failed = true; lastFail = ch; lastV = v; RC_FAIL(v.msg); }
    });
    if (!ok && failed) {
      failMsg = lastV.msg; failFile = base + ".fail.case";
      std::ofstream o(failFile); o << caseText(L.name, lastFail, lastV.used ? lastV.used : lastFail.size(), lastV.desc, lastV.msg);
    } else if (!ok) { failed = true; failMsg = "rapidcheck reported failure without a failing case (gave up?)"; }
  }
  if (!out.empty()) writeStats(out, *law, st, failed, failFile, failMsg, exhaustive, nowS() - t0);
  stopWatchdog();
  return failed ? 1 : 0;
}

}  // namespace vf

// ---------------------------------------------------------------- coverage-guided front end (libFuzzer drives the choice stream)
// Built with -DVF_FUZZ -fsanitize=fuzzer: the law named by env VF_LAW is run on choice vectors decoded from the fuzzer's bytes
// (8 bytes per choice, little endian). A failing case is written as an ordinary .case file (env VF_FAILFILE) and the process
// aborts so that libFuzzer stops; statistics go to env VF_STATS at exit in the same JSON format as the rapidcheck front end.
namespace vf {
struct FuzzState { const Law* law = nullptr; Stats st; std::string statsPath, failFile; double t0 = 0; };
inline FuzzState& FS() { static FuzzState f; return f; }
inline void fuzzAtExit() { FuzzState& f = FS(); if (f.law && !f.statsPath.empty()) writeStats(f.statsPath, *f.law, f.st, false, "", "", false, nowS() - f.t0); }
inline int fuzzInit() {
  FuzzState& f = FS(); const char* ln = getenv("VF_LAW");
  for (auto& l : laws()) if (ln && l.name == ln) f.law = &l;
  if (!f.law) { fprintf(stderr, "VF_LAW must name a law\n"); exit(4); }
  G().law = f.law;
  if (const char* k = getenv("VF_KNOWN")) { std::istringstream is(k); std::string t; while (std::getline(is, t, ',')) if (!t.empty()) G().known.insert(t); }
  if (const char* p = getenv("VF_STATS")) f.statsPath = p;
  if (const char* p = getenv("VF_FAILFILE")) f.failFile = p;
  f.st.ntCap = 100000; f.t0 = nowS();
  atexit(fuzzAtExit);
  return 0;
}
inline int fuzzOne(const uint8_t* data, size_t size) {
  FuzzState& f = FS();
  std::vector<uint64_t> ch((size + 7) / 8, 0);
  if (size) memcpy(ch.data(), data, size);
  VecSrc s(ch); Verdict v = runCase(*f.law, s);
  f.st.add(v);
  if (!v.ok && !v.skipped) {
    if (!f.failFile.empty()) { std::ofstream o(f.failFile); o << caseText(f.law->name, ch, v.used ? v.used : ch.size(), v.desc, v.msg); }
    fprintf(stderr, "VF-FUZZ-LAW-FAILURE %s: %s\n", f.law->name.c_str(), v.msg.c_str());
    fuzzAtExit(); f.law = nullptr;
    abort();
  }
  return 0;
}
}  // namespace vf

#ifdef VF_FUZZ
#define VF_MAIN(propertyId) \
  extern "C" int LLVMFuzzerInitialize(int*, char***) { return ::vf::fuzzInit(); } \
  extern "C" int LLVMFuzzerTestOneInput(const uint8_t* d, size_t n) { return ::vf::fuzzOne(d, n); }
#else
#define VF_MAIN(propertyId) \
  int main(int argc, char** argv) { return ::vf::harnessMain(argc, argv, propertyId); }
#endif
