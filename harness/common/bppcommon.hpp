// Helpers shared by harnesses that touch bpp-core: quiet output, the C01 run-time monitor.
#pragma once
#include <Bpp/App/ApplicationTools.h>
#include <Bpp/Io/OutputStream.h>
#include <Bpp/Numeric/Constraints.h>
#include <Bpp/Numeric/Parameter.h>

#include <cstring>
#include <string>

namespace vf {

inline bool sameBits(double a, double b) { return std::memcmp(&a, &b, sizeof a) == 0 || (a == 0 && b == 0); }

inline void quietBpp() {
  static std::shared_ptr<bpp::OutputStream> null(new bpp::NullOutputStream());
  bpp::ApplicationTools::message = null;
  bpp::ApplicationTools::warning = null;
  bpp::ApplicationTools::error = null;
  bpp::ApplicationTools::warningLevel = 0;
  bpp::ApplicationTools::interactive = false;
}

// ---- C01 monitor (hook in Parameter.cpp, guard BPP_CORE_VERIF)
struct AuditState { long calls = 0, offences = 0; std::string first; };
inline AuditState& auditState() { static AuditState a; return a; }
inline void auditCallback(const bpp::Parameter* p, const char* where) {
  AuditState& a = auditState(); ++a.calls;
  if (!p->hasConstraint()) return;
  double v = p->getValue(); bool ok;
  auto ic = std::dynamic_pointer_cast<const bpp::IntervalConstraint>(p->getConstraint());
  if (ic) {  // reference predicate, not the library's isCorrect
    double lo = ic->getLowerBound(), hi = ic->getUpperBound();
    ok = (ic->strictLowerBound() ? v > lo : v >= lo) && (ic->strictUpperBound() ? v < hi : v <= hi);
  } else ok = p->getConstraint()->isCorrect(v);
  if (!ok) {
    if (a.offences++ == 0) {
      char b[64]; snprintf(b, sizeof b, "%.17g", v);
      a.first = std::string("parameter '") + p->getName() + "' holds " + b + " rejected by its constraint " + p->getConstraint()->getDescription() + " after " + where;
    }
  }
}
inline void installAudit() {
#ifdef BPP_CORE_VERIF
  bpp::Parameter::verifAudit_ = &auditCallback;
#endif
  auditState() = AuditState();
}
inline long auditOffences() { return auditState().offences; }
inline long auditCalls() { return auditState().calls; }
inline std::string auditFirst() { return auditState().first; }

}  // namespace vf
