// C17 — writing then reading (formatting then parsing) gives back the same data.
// Laws of DESIGN.md section 5/C17: numbers (N*), strict decimal grammar (G*), tokenise / re-join (T*),
// nested tokeniser (T3), key-value procedures (K*), wildcards (W*), variables (V1), tables (D1),
// distributions (P1).
//
// Weakest documented readings used by the oracles (DESIGN section 3 rule 2):
//  * unparseRemainingTokens(): delimiter runs at the two ends of the input that produce no token are not part of
//    any recorded separator (T1 accepts  input = L + unparsed + R  with L, R made of delimiters only).
//  * allowEmptyTokens=true ("empty tokens are allowed"): the empty pieces before the first / after the last
//    non-empty piece may or may not be reported (the non-solid mode skips leading delimiters, DataTable::read
//    relies on it for alignHeaders); everything in between must be reported (T1: separators are single delimiters).
//  * NestedStringTokenizer: the doc does not say whether empty pieces are reported: non-empty tokens are compared.
//  * keys / values of a procedure are compared as written when rendered without blanks; with blanks around them
//    the parser's trimming is what makes them equal.
//  * distributions: Simple is compared within 1e-5 (6-decimal rendering), every other family within 1e-9.
// Enum laws: the quick / thorough fields are shard counts; >= 16 shards selects the thorough bound (G1: length 7, W1: length 8).
#include "common/pbt.hpp"
#include "common/bppcommon.hpp"

#include <Bpp/App/ApplicationTools.h>
#include <Bpp/Exceptions.h>
#include <Bpp/Io/BppODiscreteDistributionFormat.h>
#include <Bpp/Io/BppOParametrizableFormat.h>
#include <Bpp/Io/OutputStream.h>
#include <Bpp/Numeric/DataTable.h>
#include <Bpp/Numeric/ParameterList.h>
#include <Bpp/Numeric/Prob/BetaDiscreteDistribution.h>
#include <Bpp/Numeric/Prob/ConstantDistribution.h>
#include <Bpp/Numeric/Prob/ExponentialDiscreteDistribution.h>
#include <Bpp/Numeric/Prob/GammaDiscreteDistribution.h>
#include <Bpp/Numeric/Prob/GaussianDiscreteDistribution.h>
#include <Bpp/Numeric/Prob/InvariantMixedDiscreteDistribution.h>
#include <Bpp/Numeric/Prob/MixtureOfDiscreteDistributions.h>
#include <Bpp/Numeric/Prob/SimpleDiscreteDistribution.h>
#include <Bpp/Numeric/Prob/TruncatedExponentialDiscreteDistribution.h>
#include <Bpp/Numeric/Prob/UniformDiscreteDistribution.h>
#include <Bpp/Text/KeyvalTools.h>
#include <Bpp/Text/NestedStringTokenizer.h>
#include <Bpp/Text/StringTokenizer.h>
#include <Bpp/Text/TextTools.h>
#include <Bpp/Utils/AttributesTools.h>

#include <climits>

using namespace bpp;
using namespace std;

namespace {

string q(const string& s) {  // printable, quoted
  string o = "\"";
  for (char ch : s) { if (ch == '\t') o += "\\t"; else if (ch == '\n') o += "\\n"; else if (ch == '\r') o += "\\r"; else if (ch == '\v') o += "\\v"; else if (ch == '\f') o += "\\f";
    else if (static_cast<unsigned char>(ch) < 0x20 || static_cast<unsigned char>(ch) >= 0x7f) { static const char* H = "0123456789abcdef"; o += "\\x"; o += H[static_cast<unsigned char>(ch) >> 4]; o += H[ch & 15]; }
    else o += ch; }
  return o + "\"";
}
string showList(const vector<string>& v) { string o = "["; for (size_t i = 0; i < v.size(); ++i) o += (i ? "," : "") + q(v[i]); return o + "]"; }
template <class M> string showMap(const M& m) { string o = "{"; bool f = true; for (auto& kv : m) { o += (f ? "" : ", ") + q(kv.first) + ":" + q(kv.second); f = false; } return o + "}"; }
string what1(const std::exception& e) { string w = e.what(); size_t p = w.find_first_of("\n\t"); return p == string::npos ? w : w.substr(0, p); }
bool bitEq(double a, double b) { return memcmp(&a, &b, sizeof a) == 0; }
bool isDig(char ch) { return ch >= '0' && ch <= '9'; }

// ====================================================================== numbers
double fromBits(uint64_t b) { double x; memcpy(&x, &b, sizeof x); return x; }

double genFinite(vf::Ctx& c, const char*& kind) {
  switch (c.weighted({3, 4, 2, 3, 3, 1})) {
    case 0: kind = "integer"; return static_cast<double>(c.zig(1000000));
    case 1: { kind = "bits"; uint64_t b = c.raw(); if (!std::isfinite(fromBits(b))) b &= ~(1ULL << 62); return fromBits(b); }
    case 2: { kind = "subnormal"; return fromBits(c.raw() & 0x800FFFFFFFFFFFFFULL); }
    case 3: {
      kind = "pow2+-ulp"; int e = c.irange(-1074, 1023); double x = std::ldexp(1.0, e); x = vf::ulpStep(x, static_cast<int>(c.zig(2)));
      if (c.flag()) x = -x;
      return x;
    }
    case 4: { kind = "decimal"; double k = static_cast<double>(c.zig(99999)); int sc = c.irange(0, 8); return k / std::pow(10.0, sc); }
    default: {
      kind = "extreme";
      static const double ex[] = {0.0, -0.0, DBL_MAX, -DBL_MAX, DBL_MIN, -DBL_MIN, 4.9406564584124654e-324, -4.9406564584124654e-324, 0.1, 1.0 / 3.0, 9007199254740993.0, 1e22, 1e23, 5e-324};
      return c.pick(ex);
    }
  }
}

}  // namespace

LAW(N1_double_roundtrip, RC, 30000, 1500000, 6, "the 17-digit rendering has an exponent or 17 significant digits") {
  const char* kind = ""; double x = genFinite(c, kind);
  string s = TextTools::toString(x, 17);
  c.desc << kind << " " << vf::hexd(x) << " -> " << q(s);
  size_t nd = 0; for (char ch : s) { if (ch == 'e') break; if (isDig(ch)) ++nd; }
  c.nt(s.find('e') != string::npos || nd >= 17);
  CHECK(TextTools::isDecimalNumber(s), "toString(x,17) = " << q(s) << " is not recognised by isDecimalNumber");
  double y = 0;
  try { y = TextTools::toDouble(s); } catch (bpp::Exception& e) { CHECK(false, "toDouble(" << q(s) << ") raised: " << what1(e)); }
  CHECK(bitEq(x, y), "toDouble(toString(x,17)) = " << vf::hexd(y) << " differs from x = " << vf::hexd(x) << " (text " << q(s) << ")");
}

LAW(N2_int_roundtrip, RC, 20000, 1000000, 4, "negative, or more than 6 digits") {
  int i;
  switch (c.weighted({3, 4, 1})) {
    case 0: i = static_cast<int>(c.zig(1000)); break;
    case 1: i = static_cast<int>(static_cast<uint32_t>(c.raw())); break;
    default: { static const int ex[] = {0, INT_MAX, INT_MIN, INT_MAX - 1, INT_MIN + 1, 1000000000, -1000000000}; i = c.pick(ex); }
  }
  string s = TextTools::toString(i);
  c.desc << "int " << i << " -> " << q(s);
  c.nt(i < 0 || s.size() > 6);
  CHECK(s == std::to_string(i), "toString(" << i << ") = " << q(s));
  CHECK(TextTools::isDecimalInteger(s), "toString(i) = " << q(s) << " is not recognised by isDecimalInteger");
  CHECK(TextTools::isDecimalNumber(s), "toString(i) = " << q(s) << " is not recognised by isDecimalNumber");
  int j = 0;
  try { j = TextTools::toInt(s); } catch (bpp::Exception& e) { CHECK(false, "toInt(" << q(s) << ") raised: " << what1(e)); }
  CHECK(i == j, "toInt(toString(" << i << ")) = " << j);
  double d = 0;
  try { d = TextTools::toDouble(s); } catch (bpp::Exception& e) { CHECK(false, "toDouble(" << q(s) << ") raised: " << what1(e)); }
  CHECK(d == static_cast<double>(i), "toDouble(toString(" << i << ")) = " << vf::dec(d));
}

// ====================================================================== strict decimal grammar
namespace {

// number  := '-'? D* ( dec D* )? ( sci [+-]? D+ )?     with at least one mantissa digit, nothing else (no blanks)
// integer := number without dec and without a '-' exponent sign
struct Gram {
  bool whole = false;   // the whole string has the shape above (ignoring the two digit-count conditions)
  bool mant = false;    // >= 1 mantissa digit
  bool expOk = true;    // no exponent, or exponent with >= 1 digit
  bool hasDec = false, hasExp = false, negExp = false, neg = false;
  string mantInt;       // mantissa digits before dec
  string expDigits;
  bool isNum() const { return whole && mant && expOk; }
  bool isInt() const { return isNum() && !hasDec && !negExp; }
};
Gram refGrammar(const string& s, char dec, char sci) {
  Gram g; size_t i = 0, n = s.size();
  if (i < n && s[i] == '-') { g.neg = true; ++i; }
  size_t d = 0;
  while (i < n && isDig(s[i])) { g.mantInt += s[i]; ++i; ++d; }
  if (i < n && s[i] == dec) { g.hasDec = true; ++i; while (i < n && isDig(s[i])) { ++i; ++d; } }
  g.mant = d >= 1;
  if (i < n && s[i] == sci) {
    g.hasExp = true; ++i;
    if (i < n && (s[i] == '+' || s[i] == '-')) { g.negExp = s[i] == '-'; ++i; }
    while (i < n && isDig(s[i])) { g.expDigits += s[i]; ++i; }
    g.expOk = !g.expDigits.empty();
  }
  g.whole = i == n;
  return g;
}
// value the grammar assigns to an integer string, if it fits an int
bool intValue(const Gram& g, long long& out) {
  __int128 m = 0; for (char ch : g.mantInt) { m = m * 10 + (ch - '0'); if (m > static_cast<__int128>(1) << 100) return false; }
  long e = 0; for (char ch : g.expDigits) { e = e * 10 + (ch - '0'); if (e > 1000) e = 1000; }
  if (m != 0) { if (e > 12) return false; for (long k = 0; k < e; ++k) { m *= 10; if (m > static_cast<__int128>(1) << 100) return false; } }
  if (g.neg) m = -m;
  if (m < INT_MIN || m > INT_MAX) return false;
  out = static_cast<long long>(m); return true;
}

void checkNumberString(vf::Ctx& c, const string& s, char dec, char sci) {
  const Gram g = refGrammar(s, dec, sci);
  const bool ln = TextTools::isDecimalNumber(s, dec, sci), li = TextTools::isDecimalInteger(s, sci);
  // root cause "no mantissa digit required": the string fits the grammar except that its mantissa has no digit
  const bool noDigitNum = g.whole && g.expOk && !g.mant;
  const bool noDigitInt = noDigitNum && !g.hasDec && !g.negExp;
  if ((noDigitNum && ln) || (noDigitInt && li)) c.excludeIfKnown("C17-number-no-digit");
  CHECK(ln == g.isNum(), "isDecimalNumber(" << q(s) << ", '" << dec << "', '" << sci << "') = " << ln << " but the strict grammar says " << g.isNum());
  CHECK(li == g.isInt(), "isDecimalInteger(" << q(s) << ", '" << sci << "') = " << li << " but the strict grammar says " << g.isInt());

  // ---- toDouble
  {
    bool raised = false; double v = 0;
    try { v = TextTools::toDouble(s, dec, sci); } catch (bpp::Exception&) { raised = true; }
    if (!g.isNum()) CHECK(raised, "toDouble(" << q(s) << ") returned " << vf::dec(v) << " for a string outside the grammar instead of raising bpp::Exception");
    else {
      CHECK(!raised, "toDouble(" << q(s) << ") raised although the string is a decimal number");
      string canon = s; for (char& ch : canon) { if (ch == dec) ch = '.'; else if (ch == sci) ch = 'e'; }
      char* end = nullptr; double ref = strtod(canon.c_str(), &end);
      CHECK(end && *end == 0, "internal: strtod did not consume " << q(canon));
      if (std::isfinite(ref)) {  // quantifier: finite doubles
        if ((dec != '.' && s.find(dec) != string::npos) || (sci != 'e' && sci != 'E' && s.find(sci) != string::npos)) c.excludeIfKnown("C17-todouble-alt-chars");
        CHECK(bitEq(v, ref) || (v == 0 && ref == 0), "toDouble(" << q(s) << ", '" << dec << "', '" << sci << "') = " << vf::dec(v) << " but the grammar assigns " << vf::dec(ref));
      }
    }
  }
  // ---- toInt
  {
    bool raised = false; int v = 0;
    try { v = TextTools::toInt(s, sci); } catch (bpp::Exception&) { raised = true; }
    if (!g.isInt()) CHECK(raised, "toInt(" << q(s) << ") returned " << v << " for a string outside the integer grammar instead of raising bpp::Exception");
    else {
      CHECK(!raised, "toInt(" << q(s) << ") raised although the string is a decimal integer");
      long long ref = 0;
      if (intValue(g, ref)) {  // quantifier: ints within range
        if (g.hasExp) {
          Gram g0 = g; g0.expDigits.clear(); long long m = 0;
          if (intValue(g0, m) && m != ref) c.excludeIfKnown("C17-toint-exponent");  // the exponent changes the value
        }
        CHECK(v == ref, "toInt(" << q(s) << ", '" << sci << "') = " << v << " but the grammar assigns " << ref);
      }
    }
  }
}

const char GA[] = {'0', '1', '9', '-', '+', '.', 'e', 'E', ' '};
const int G_THOROUGH_SHARDS = 16;

}  // namespace

// every string over {0,1,9,-,+,.,e,E,blank} up to length 6 (quick) / 7 (thorough).  All 9^8 strings of length 8 cost about
// 2 CPU-hours under the sanitizers (every refused string raises two exceptions that capture a stack trace); G2 covers
// longer strings at random.
LAW(G1_grammar_enum, ENUM, 12, G_THOROUGH_SHARDS, 0, "a string of the grammar with a decimal separator or an exponent") {
  const int maxLen = c.s.enumerating() ? (c.shardN >= G_THOROUGH_SHARDS ? 7 : 6) : 8;
  int n = c.irange(0, maxLen); string s;
  c.desc << "len " << n << " ";
  for (int i = 0; i < n; ++i) {
    s += GA[c.below(9)];
    if (i == 2) { c.desc << "prefix " << q(s) << " "; c.shardPoint(); }
  }
  if (n <= 2) { c.desc << "prefix " << q(s) << " "; c.shardPoint(); }
  c.desc << "string " << q(s);
  Gram g = refGrammar(s, '.', 'e');
  c.nt(g.isNum() && (g.hasDec || g.hasExp));
  checkNumberString(c, s, '.', 'e');
}

// grammar-shaped strings with mutations, full digit alphabet, alternative decimal / exponent characters, length <= 14
LAW(G2_grammar_random, RC, 60000, 3000000, 40, "a string of the grammar with a decimal separator or an exponent, or a string one edit away from the grammar") {
  char dec = c.weighted({3, 1}) == 0 ? '.' : ',';
  char sci = c.weighted({3, 1}) == 0 ? 'e' : 'E';
  string s;
  auto digits = [&](int lo, int hi) { int k = c.irange(lo, hi); for (int i = 0; i < k; ++i) s += static_cast<char>('0' + c.below(10)); };
  switch (c.weighted({6, 2, 1})) { case 1: s += "-"; break; case 2: s += "+"; break; default: break; }
  digits(0, 5);
  if (c.flag()) { s += dec; digits(0, 4); }
  if (c.oneIn(3)) { s += sci; switch (c.below(3)) { case 1: s += "+"; break; case 2: s += "-"; break; default: break; } digits(0, 3); }
  const string pool = string("0123456789-+ eE.,a") + dec + sci;
  int muts = c.weighted({4, 2, 1}) == 0 ? 0 : 1 + static_cast<int>(c.below(2));
  bool nearMiss = false;
  for (int m = 0; m < muts; ++m) {
    size_t pos = s.empty() ? 0 : c.below(s.size() + 1); char ch = pool[c.below(pool.size())];
    bool was = refGrammar(s, dec, sci).isNum();
    switch (c.below(3)) {
      case 0: s.insert(s.begin() + static_cast<long>(pos), ch); break;
      case 1: if (!s.empty()) s.erase(s.begin() + static_cast<long>(pos % s.size())); break;
      default: if (!s.empty()) s[pos % s.size()] = ch;
    }
    if (was && !refGrammar(s, dec, sci).isNum()) nearMiss = true;
  }
  if (s.size() > 14) s.resize(14);
  c.desc << "dec '" << dec << "' sci '" << sci << "' string " << q(s);
  Gram g = refGrammar(s, dec, sci);
  c.nt((g.isNum() && (g.hasDec || g.hasExp)) || nearMiss);
  if (g.isNum()) c.label("in_grammar");
  checkNumberString(c, s, dec, sci);
}

// ====================================================================== tokenise / re-join
namespace {

const char TA[] = {'a', 'b', ',', ';', ' ', '(', ')', '='};
const char DA[] = {',', ';', ' ', '='};

string genTokString(vf::Ctx& c, int maxLen) { int n = c.irange(0, maxLen); string s; for (int i = 0; i < n; ++i) s += TA[c.below(8)]; return s; }
string genDelims(vf::Ctx& c, bool solid) {
  string d(1, DA[c.below(4)]);
  if (c.flag()) { char e = DA[c.below(4)]; if (solid || e != d[0]) d += e; }
  return d;
}
bool isDelimAt(const string& s, size_t i, const string& delims, bool solid) {
  return solid ? s.compare(i, delims.size(), delims) == 0 : delims.find(s[i]) != string::npos;
}
// a (possibly empty) sequence of delimiters
bool isMaterial(const string& x, const string& delims, bool solid) {
  if (!solid) return x.find_first_not_of(delims) == string::npos;
  if (x.size() % delims.size()) return false;
  for (size_t i = 0; i < x.size(); i += delims.size()) if (x.compare(i, delims.size(), delims) != 0) return false;
  return true;
}
bool containsDelim(const string& t, const string& delims, bool solid) { return solid ? t.find(delims) != string::npos : t.find_first_of(delims) != string::npos; }
// reference splitter: all pieces between delimiters, left to right (empty ones included)
vector<string> refPieces(const string& s, const string& delims, bool solid) {
  vector<string> p; string cur; size_t i = 0;
  while (i < s.size()) {
    if (isDelimAt(s, i, delims, solid)) { p.push_back(cur); cur.clear(); i += solid ? delims.size() : 1; }
    else cur += s[i++];
  }
  p.push_back(cur);
  return p;
}
vector<string> nonEmpty(const vector<string>& v) { vector<string> o; for (auto& x : v) if (!x.empty()) o.push_back(x); return o; }
vector<string> toVec(const deque<string>& d) { return vector<string>(d.begin(), d.end()); }

}  // namespace

// Re-join (statement): s = L + unparse + R with L, R made of delimiters only, the unparsed text is
// token, separator, token, ... with the tokens the tokenizer reports, and after k nextToken() calls the
// unparsed text is the corresponding suffix.
LAW(T1_rejoin, RC, 40000, 2000000, 40, "string with >= 1 delimiter and >= 1 bracket") {
  bool solid = c.flag(), allowEmpty = c.flag();
  string delims = genDelims(c, solid);
  string s = genTokString(c, 24);
  c.desc << (solid ? "solid" : "set") << (allowEmpty ? ",allowEmpty" : ",noEmpty") << " delims " << q(delims) << " string " << q(s);
  c.nt(containsDelim(s, delims, solid) && s.find_first_of("()") != string::npos);
  StringTokenizer st(s, delims, solid, allowEmpty);
  vector<string> tok = toVec(st.getTokens());
  CHECK(st.numberOfRemainingTokens() == tok.size() && st.hasMoreToken() == !tok.empty(), "numberOfRemainingTokens / hasMoreToken disagree with getTokens() at the start");
  for (auto& t : tok) CHECK(!containsDelim(t, delims, solid), "token " << q(t) << " contains a delimiter; tokens " << showList(tok));
  const string u0 = st.unparseRemainingTokens();
  // (a) only delimiters are dropped at the ends
  bool found = false;
  for (size_t l = 0; l + u0.size() <= s.size() && !found; ++l)
    if (s.compare(l, u0.size(), u0) == 0 && isMaterial(s.substr(0, l), delims, solid) && isMaterial(s.substr(l + u0.size()), delims, solid)) found = true;
  CHECK(found, "unparseRemainingTokens() = " << q(u0) << " is not the input up to delimiters at its ends; tokens " << showList(tok));
  // (b) token, separator, token ... ; separator = exactly one delimiter (allowEmpty) or a maximal run of them
  vector<size_t> start(tok.size() + 1, 0); size_t pos = 0;
  for (size_t i = 0; i < tok.size(); ++i) {
    start[i] = pos;
    CHECK(u0.compare(pos, tok[i].size(), tok[i]) == 0, "unparsed text " << q(u0) << " does not continue with token " << i << " " << q(tok[i]) << " at offset " << pos << "; tokens " << showList(tok));
    pos += tok[i].size();
    if (i + 1 < tok.size()) {
      size_t p0 = pos;
      CHECK(pos < u0.size() && isDelimAt(u0, pos, delims, solid), "no recorded separator after token " << i << " in " << q(u0) << "; tokens " << showList(tok));
      pos += solid ? delims.size() : 1;
      if (!allowEmpty) while (pos < u0.size() && isDelimAt(u0, pos, delims, solid)) pos += solid ? delims.size() : 1;
      CHECK(pos > p0, "internal");
    }
  }
  start[tok.size()] = u0.size();
  CHECK(pos == u0.size(), "unparsed text " << q(u0) << " has extra characters after the last token; tokens " << showList(tok));
  // (c) the cursor
  for (size_t k = 0; k < tok.size(); ++k) {
    const string& t = st.nextToken();
    CHECK(t == tok[k], "nextToken() #" << k << " = " << q(t) << " differs from getTokens()[" << k << "]");
    CHECK(st.numberOfRemainingTokens() == tok.size() - k - 1, "numberOfRemainingTokens after " << k + 1 << " tokens");
    string uk = st.unparseRemainingTokens();
    string want = k + 1 < tok.size() ? u0.substr(start[k + 1]) : string();
    CHECK(uk == want, "after " << k + 1 << " nextToken() calls unparseRemainingTokens() = " << q(uk) << ", expected the suffix " << q(want) << " of " << q(u0));
  }
  bool raised = false; try { st.nextToken(); } catch (bpp::Exception&) { raised = true; }
  CHECK(raised, "nextToken() past the end did not raise bpp::Exception");
}

// Tokens against a reference splitter per mode; removeEmptyTokens.
LAW(T2_tokens, RC, 40000, 2000000, 40, "string with >= 1 delimiter and >= 1 bracket") {
  bool solid = c.flag(), allowEmpty = c.flag();
  string delims = genDelims(c, solid);
  string s = genTokString(c, 24);
  c.desc << (solid ? "solid" : "set") << (allowEmpty ? ",allowEmpty" : ",noEmpty") << " delims " << q(delims) << " string " << q(s);
  c.nt(containsDelim(s, delims, solid) && s.find_first_of("()") != string::npos);
  StringTokenizer st(s, delims, solid, allowEmpty);
  vector<string> tok = toVec(st.getTokens());
  vector<string> pieces = refPieces(s, delims, solid);
  if (!allowEmpty) {
    // documented: empty tokens are ignored
    // Weakest reading for the solid mode: an empty token at either END of the string is kept by the library (the wildcard matchers
    // rely on it to know that a pattern starts / ends with '*'); the property statement only fixes the re-join law (T1), so both
    // "end tokens kept" and "end tokens dropped" are accepted here; empty pieces in the middle must be dropped.
    if (solid && (pieces.front().empty() || pieces.back().empty())) {
      vector<string> kept = nonEmpty(pieces);
      if (pieces.size() > 1 || !kept.empty()) { if (pieces.front().empty()) kept.insert(kept.begin(), ""); if (pieces.back().empty() && pieces.size() > 1) kept.push_back(""); }
      else kept = pieces;   // the empty string: one empty token or none
      c.label("solid_empty_end_token");
      CHECK(tok == nonEmpty(pieces) || tok == kept, "tokens " << showList(tok) << " but the non-empty pieces are " << showList(nonEmpty(pieces)) << " (optionally with the empty end tokens " << showList(kept) << ")");
    } else
    CHECK(tok == nonEmpty(pieces), "tokens " << showList(tok) << " but the non-empty pieces are " << showList(nonEmpty(pieces)));
  } else {
    // documented: empty tokens are allowed.  Weakest reading: the empty pieces before the first and after
    // the last non-empty piece may or may not be reported; everything in between is reported.
    size_t lead = 0, trail = 0;
    while (lead < pieces.size() && pieces[lead].empty()) ++lead;
    while (trail < pieces.size() && pieces[pieces.size() - 1 - trail].empty()) ++trail;
    bool ok = false;
    for (size_t i = 0; i <= lead && !ok; ++i)
      for (size_t j = 0; j <= trail && i + j <= pieces.size() && !ok; ++j)
        ok = vector<string>(pieces.begin() + static_cast<long>(i), pieces.end() - static_cast<long>(j)) == tok;
    CHECK(ok, "tokens " << showList(tok) << " are not the pieces " << showList(pieces) << " (up to empty pieces at the two ends)");
  }
  // removeEmptyTokens after k tokens were consumed
  size_t k = tok.empty() ? 0 : c.below(tok.size() + 1);
  for (size_t i = 0; i < k; ++i) st.nextToken();
  st.removeEmptyTokens();
  vector<string> want(tok.begin(), tok.begin() + static_cast<long>(k));
  for (size_t i = k; i < tok.size(); ++i) if (!tok[i].empty()) want.push_back(tok[i]);
  CHECK(toVec(st.getTokens()) == want, "after " << k << " nextToken() calls removeEmptyTokens() left " << showList(toVec(st.getTokens())) << ", expected " << showList(want));
  CHECK(st.numberOfRemainingTokens() == want.size() - k, "numberOfRemainingTokens after removeEmptyTokens");
}

// ====================================================================== nested tokeniser
namespace {

// balanced bracket strings over the same alphabet, biased towards the delimiters in use
void genBalanced(vf::Ctx& c, string& s, int depth, size_t maxLen, const string& delims, bool solid) {
  int n = c.irange(0, depth == 0 ? 10 : 5);
  for (int i = 0; i < n && s.size() < maxLen; ++i) {
    size_t k = c.below(depth < 3 ? 8 : 6);
    switch (k) {
      case 0: s += 'a'; break;
      case 1: if (solid) s += delims; else s += delims[0]; break;
      case 2: s += 'b'; break;
      case 3: s += delims.back(); break;
      case 4: s += DA[c.below(4)]; break;
      case 5: s += '='; break;
      default: s += '('; genBalanced(c, s, depth + 1, maxLen, delims, solid); s += ')';
    }
  }
}
vector<string> refNested(const string& s, const string& delims, bool solid) {
  vector<string> p; string cur; size_t i = 0; int depth = 0;
  while (i < s.size()) {
    char ch = s[i];
    if (ch == '(') ++depth; else if (ch == ')') --depth;
    if (depth == 0 && ch != ')' && isDelimAt(s, i, delims, solid)) { p.push_back(cur); cur.clear(); i += solid ? delims.size() : 1; }
    else { cur += ch; ++i; }
  }
  p.push_back(cur);
  return p;
}

}  // namespace

LAW(T3_nested, RC, 40000, 2000000, 80, "a delimiter at bracket depth > 0 and a delimiter at depth 0") {
  bool solid = c.flag();
  string delims = genDelims(c, solid);
  string s; genBalanced(c, s, 0, 24, delims, solid);
  int damage = static_cast<int>(c.weighted({5, 1, 1}));  // 0 balanced, 1 remove one bracket, 2 insert one bracket
  if (damage == 1) { vector<size_t> br; for (size_t i = 0; i < s.size(); ++i) if (s[i] == '(' || s[i] == ')') br.push_back(i); if (br.empty()) damage = 0; else s.erase(br[c.below(br.size())], 1); }
  else if (damage == 2) { size_t p = c.below(s.size() + 1); s.insert(s.begin() + static_cast<long>(p), c.flag() ? ')' : '('); }
  c.desc << (solid ? "solid" : "set") << " delims " << q(delims) << " string " << q(s) << (damage ? " (unbalanced)" : "");
  bool inner = false, outer = false; { int d = 0; for (size_t i = 0; i < s.size(); ++i) { if (s[i] == '(') ++d; else if (s[i] == ')') --d; else if (isDelimAt(s, i, delims, solid)) (d > 0 ? inner : outer) = true; } }
  c.nt(damage == 0 && inner && outer);
  bool raised = false; vector<string> tok;
  try { NestedStringTokenizer nt(s, "(", ")", delims, solid); tok = toVec(nt.getTokens());
    for (size_t k = 0; k < tok.size(); ++k) CHECK(nt.nextToken() == tok[k], "nextToken() #" << k << " differs from getTokens()");
    CHECK(!nt.hasMoreToken(), "hasMoreToken() after the last token");
  } catch (bpp::Exception&) { raised = true; }
  if (damage) { CHECK(raised, "the brackets do not balance (" << q(s) << ") but the nested tokenizer returned " << showList(tok) << " instead of raising bpp::Exception"); return; }
  CHECK(!raised, "the nested tokenizer raised on the balanced input " << q(s));
  for (auto& t : tok) {
    int d = 0; for (char ch : t) { if (ch == '(') ++d; else if (ch == ')') --d; CHECK(d >= 0, "token " << q(t) << " starts inside a bracket pair; tokens " << showList(tok)); }
    CHECK(d == 0, "token " << q(t) << " ends inside a bracket pair: the input was split inside balanced brackets; tokens " << showList(tok));
  }
  // same non-empty pieces as a splitter that only looks at delimiters at depth 0 (the doc does not say whether empty pieces are reported)
  vector<string> ref = nonEmpty(refNested(s, delims, solid));
  CHECK(nonEmpty(tok) == ref, "tokens " << showList(tok) << " but splitting at the depth-0 delimiters gives " << showList(ref));
}

// ====================================================================== key-value procedures
namespace {

const string NAMECH = "abAZ09_.xyQ5";
const string PLAINCH = "a1b.Z_+-9x";
string genWord(vf::Ctx& c, const string& alphabet, int lo, int hi) { int n = c.irange(lo, hi); string s; for (int i = 0; i < n; ++i) s += alphabet[c.below(alphabet.size())]; return s; }
typedef map<string, string> SMap;
// an argument map: 0..maxN entries, values plain or (if nestedOk) a nested procedure f(k=v,...)
SMap genArgs(vf::Ctx& c, int maxN, bool nestedOk, bool& hasNested) {
  SMap m; int n = c.irange(0, maxN);
  for (int i = 0; i < n; ++i) {
    string k = genWord(c, NAMECH, 1, 4);
    string v;
    if (nestedOk && c.oneIn(3)) {
      hasNested = true; v = genWord(c, NAMECH, 1, 4) + "(";
      int kk = c.irange(0, 3); SMap inner; for (int j = 0; j < kk; ++j) inner[genWord(c, NAMECH, 1, 3)] = genWord(c, PLAINCH, 0, 3);
      bool f = true; for (auto& kv : inner) { v += (f ? "" : ",") + kv.first + "=" + kv.second; f = false; }
      v += ")";
    } else v = genWord(c, PLAINCH, c.oneIn(8) ? 0 : 1, 5);
    m[k] = v;
  }
  return m;
}
string renderArgs(vf::Ctx& c, const SMap& m, const string& split, bool blanks) {
  vector<pair<string, string>> v(m.begin(), m.end());
  if (v.size() > 1) { size_t r = c.below(v.size()); std::rotate(v.begin(), v.begin() + static_cast<long>(r), v.end()); if (c.flag()) std::reverse(v.begin(), v.end()); }
  string o; bool f = true;
  for (auto& kv : v) {
    if (!f) o += split;
    f = false;
    if (blanks) o += string(c.below(2), ' ') + kv.first + string(c.below(2), ' ') + "=" + string(c.below(2), ' ') + kv.second + string(c.below(2), ' ');
    else o += kv.first + "=" + kv.second;
  }
  return o;
}

// A second argument map for a parse into a map object that already holds the result of a first parse: some keys of `first`
// recur (mostly with another value), some keys are new.  `changed` counts the recurring keys whose value differs.
SMap genSecondArgs(vf::Ctx& c, const SMap& first, bool nestedOk, bool noEmptyValue, bool& hasNested, size_t& changed) {
  SMap m = genArgs(c, 3, nestedOk, hasNested);
  for (auto& kv : first)
    if (c.flag()) { bool dummy = false; SMap one = genArgs(c, 1, nestedOk, dummy); m[kv.first] = one.empty() ? kv.second : one.begin()->second; }
  if (noEmptyValue) for (auto& kv : m) if (kv.second.empty()) kv.second = "0";
  changed = 0; for (auto& kv : m) { auto it = first.find(kv.first); if (it != first.end() && it->second != kv.second) ++changed; }
  return m;
}
// The output map after a first parse (giving `first`) and a second parse of a description rendered from `second` into the SAME map
// object.  "Fills a map with all keys and values" / "[out] will contain the keys and their corresponding values": every key of the
// second description holds the value written there.  The doc does not say whether entries that were in the map before are kept:
// weakest reading, such an entry is either still there with its value or gone, and nothing else is in the map.
void checkSecondParse(vf::Ctx& c, const char* fn, const string& desc2, const SMap& first, const SMap& second, const SMap& got) {
  for (auto& kv : second) {
    auto it = got.find(kv.first);
    CHECK(it != got.end(), fn << " of " << q(desc2) << " into the map " << showMap(first) << " of an earlier parse: key " << q(kv.first) << " is missing; map " << showMap(got));
    CHECK(it->second == kv.second, fn << " of " << q(desc2) << " into the map " << showMap(first) << " of an earlier parse: " << q(kv.first) << " holds " << q(it->second)
          << " instead of the value " << q(kv.second) << " of the description just parsed; map " << showMap(got));
  }
  for (auto& kv : got) {
    if (second.count(kv.first)) continue;
    auto it = first.find(kv.first);
    CHECK(it != first.end() && it->second == kv.second, fn << " of " << q(desc2) << " into the map " << showMap(first) << " of an earlier parse: entry " << q(kv.first) << ":" << q(kv.second)
          << " comes from neither description; map " << showMap(got));
  }
}

}  // namespace

LAW(K1_procedure, RC, 30000, 1500000, 320, "procedure with a nested argument") {
  string name = genWord(c, NAMECH, 1, 6);
  bool hasNested = false; SMap args = genArgs(c, 6, true, hasNested);
  bool blanks = c.oneIn(3);
  string body = renderArgs(c, args, ",", blanks);
  string desc;
  if (args.empty() && c.flag()) desc = name;  // a procedure without arguments may be written without parentheses
  else desc = (blanks ? string(c.below(3), ' ') : string()) + name + "(" + body + ")" + (blanks ? string(c.below(3), ' ') : string());
  c.desc << "procedure " << q(desc) << " from name " << q(name) << " args " << showMap(args);
  c.nt(hasNested);
  string name2; SMap args2;
  try { KeyvalTools::parseProcedure(desc, name2, args2); }
  catch (bpp::Exception& e) { CHECK(false, "parseProcedure(" << q(desc) << ") raised: " << what1(e)); }
  CHECK(name2 == name, "parsed name " << q(name2) << " differs from " << q(name));
  CHECK(args2 == args, "parsed arguments " << showMap(args2) << " differ from " << showMap(args));
  // a second procedure parsed into the same name / map objects: recurring keys take the values of the description just parsed
  string nameB = genWord(c, NAMECH, 1, 6);
  bool nestedB = false; size_t changed = 0; SMap argsB = genSecondArgs(c, args, true, false, nestedB, changed);
  string descB = nameB + "(" + renderArgs(c, argsB, ",", false) + ")";
  if (changed) c.label("second_parse_changes_a_value");
  c.desc << "; then " << q(descB) << " into the same map";
  try { KeyvalTools::parseProcedure(descB, name2, args2); }
  catch (bpp::Exception& e) { CHECK(false, "parseProcedure(" << q(descB) << ") into the map of an earlier parse raised: " << what1(e)); }
  CHECK(name2 == nameB, "parsed name " << q(name2) << " differs from " << q(nameB) << " (second parse into the same objects)");
  checkSecondParse(c, "parseProcedure", descB, args, argsB, args2);
}

LAW(K2_changeKeyvals, RC, 30000, 1500000, 200, "a nested argument, >= 1 key replaced and >= 1 key of the new map absent from the procedure") {
  string name = genWord(c, NAMECH, 1, 6);
  bool hasNested = false; SMap args = genArgs(c, 6, true, hasNested);
  // new values: some keys of the procedure, some foreign keys
  SMap nw; size_t replaced = 0, foreign = 0;
  for (auto& kv : args) if (c.oneIn(2)) { bool dummy = false; SMap one = genArgs(c, 1, true, dummy); nw[kv.first] = one.empty() ? string("w") : one.begin()->second; ++replaced; }
  int extra = c.irange(0, 2);
  for (int i = 0; i < extra; ++i) { string k = genWord(c, NAMECH, 1, 4); if (!args.count(k)) { nw[k] = genWord(c, PLAINCH, 1, 3); ++foreign; } }
  string desc = name + "(" + renderArgs(c, args, ",", false) + ")";
  if (args.empty() && c.flag()) desc = name;
  c.desc << "procedure " << q(desc) << " new " << showMap(nw);
  c.nt(hasNested && replaced >= 1 && foreign >= 1);
  string out;
  try { out = KeyvalTools::changeKeyvals(desc, nw); }
  catch (bpp::Exception& e) { CHECK(false, "changeKeyvals(" << q(desc) << ") raised: " << what1(e)); }
  string name2; SMap args2;
  try { KeyvalTools::parseProcedure(out, name2, args2); }
  catch (bpp::Exception& e) { CHECK(false, "parseProcedure of the changeKeyvals result " << q(out) << " raised: " << what1(e)); }
  SMap want = args; for (auto& kv : nw) if (want.count(kv.first)) want[kv.first] = kv.second;
  CHECK(name2 == name, "changeKeyvals result " << q(out) << " has name " << q(name2));
  CHECK(args2 == want, "changeKeyvals result " << q(out) << " parses to " << showMap(args2) << ", expected " << showMap(want));
}

LAW(K3_multipleKeyvals, RC, 30000, 1500000, 240, "nested parsing with a nested argument, or '=' written as a token of its own") {
  bool nested = c.flag();
  string split = c.pick(vector<string>{",", " ", ";"});
  bool hasNested = false; SMap args = genArgs(c, 6, nested, hasNested);
  // with a blank as delimiter "key = value" is documented to be merged back; empty values cannot be written that way
  bool spaced = split == " " && c.oneIn(3);
  string desc;
  if (spaced) {
    bool f = true;
    for (auto& kv : args) { if (kv.second.empty()) throw vf::Skip(); desc += string(f ? "" : " ") + kv.first + " = " + kv.second; f = false; }
  } else desc = renderArgs(c, args, split, false);
  c.desc << "keyvals " << q(desc) << " split " << q(split) << (nested ? " nested" : " flat") << " from " << showMap(args);
  c.nt((nested && hasNested) || (spaced && !args.empty()));
  SMap got;
  try { KeyvalTools::multipleKeyvals(desc, got, split, nested); }
  catch (bpp::Exception& e) { CHECK(false, "multipleKeyvals(" << q(desc) << ") raised: " << what1(e)); }
  CHECK(got == args, "multipleKeyvals gave " << showMap(got) << ", expected " << showMap(args));
  // a second description parsed into the same map object: recurring keys take the values of the description just parsed
  bool nestedB = false; size_t changed = 0; SMap argsB = genSecondArgs(c, args, nested, spaced, nestedB, changed);
  string descB;
  if (spaced) { bool f = true; for (auto& kv : argsB) { descB += string(f ? "" : " ") + kv.first + " = " + kv.second; f = false; } }
  else descB = renderArgs(c, argsB, split, false);
  if (changed) c.label("second_parse_changes_a_value");
  c.desc << "; then " << q(descB) << " into the same map";
  try { KeyvalTools::multipleKeyvals(descB, got, split, nested); }
  catch (bpp::Exception& e) { CHECK(false, "multipleKeyvals(" << q(descB) << ") into the map of an earlier parse raised: " << what1(e)); }
  checkSecondParse(c, "multipleKeyvals", descB, args, argsB, got);
}

// ====================================================================== wildcards
namespace {

// textbook glob: '*' matches any (possibly empty) substring, every other character itself
bool glob(const string& p, const string& n) {
  vector<vector<char>> dp(p.size() + 1, vector<char>(n.size() + 1, 0));
  dp[0][0] = 1;
  for (size_t i = 1; i <= p.size(); ++i) {
    for (size_t j = 0; j <= n.size(); ++j) {
      if (p[i - 1] == '*') dp[i][j] = dp[i - 1][j] || (j > 0 && dp[i][j - 1]);
      else dp[i][j] = j > 0 && dp[i - 1][j - 1] && p[i - 1] == n[j - 1];
    }
  }
  return dp[p.size()][n.size()];
}
// the three matchers on a list of names (the order of the list is kept by the vector and ParameterList versions, the map is sorted)
void checkWildcard(vf::Ctx& c, const string& pattern, const vector<string>& names) {
  vector<string> want; for (auto& n : names) if (glob(pattern, n)) want.push_back(n);
  // root cause "pattern without '*'": such a pattern must match only the identical name
  if (pattern.find('*') == string::npos)
    for (auto& n : names) if (n != pattern && n.size() >= pattern.size() && n.compare(0, pattern.size(), pattern) == 0 && n.compare(n.size() - pattern.size(), pattern.size(), pattern) == 0) c.excludeIfKnown("C17-wildcard-no-star");
  vector<string> nv = names;
  vector<string> g1 = ApplicationTools::matchingParameters(pattern, nv);
  CHECK(g1 == want, "matchingParameters(" << q(pattern) << ", vector " << showList(names) << ") = " << showList(g1) << " but glob semantics give " << showList(want));
  map<string, string> m; for (auto& n : names) m[n] = "v";
  vector<string> wantSorted = want; sort(wantSorted.begin(), wantSorted.end());
  vector<string> g2 = ApplicationTools::matchingParameters(pattern, m);
  CHECK(g2 == wantSorted, "matchingParameters(" << q(pattern) << ", map " << showList(names) << ") = " << showList(g2) << " but glob semantics give " << showList(wantSorted));
  ParameterList pl; for (auto& n : names) pl.addParameter(Parameter(n, 1.0));
  vector<string> g3 = pl.getMatchingParameterNames(pattern);
  CHECK(g3 == want, "ParameterList" << showList(names) << ".getMatchingParameterNames(" << q(pattern) << ") = " << showList(g3) << " but glob semantics give " << showList(want));
}
const int W_THOROUGH_SHARDS = 16;

}  // namespace

// all patterns over {a,b,*} x all names over {a,b}, both up to length 6 (quick) / 8 (thorough)
LAW(W1_wildcard_enum, ENUM, 4, W_THOROUGH_SHARDS, 0, "pattern with >= 1 '*' and >= 1 letter, name of length >= 2") {
  const int maxLen = c.s.enumerating() ? (c.shardN >= W_THOROUGH_SHARDS ? 8 : 6) : 8;
  int np = c.irange(0, maxLen); string p; static const char PA[] = {'a', 'b', '*'};
  for (int i = 0; i < np; ++i) p += PA[c.below(3)];
  c.desc << "pattern " << q(p); c.shardPoint();
  int nn = c.irange(0, maxLen); string n;
  for (int i = 0; i < nn; ++i) n += PA[c.below(2)];
  c.desc << " name " << q(n);
  c.nt(p.find('*') != string::npos && p.find_first_of("ab") != string::npos && n.size() >= 2);
  if (glob(p, n)) c.label("match");
  checkWildcard(c, p, vector<string>{n});
}

// longer patterns, dotted names as in real parameter lists, several names at once
LAW(W2_wildcard_random, RC, 20000, 1000000, 80, "pattern with >= 1 '*' and >= 1 other character, >= 2 names, >= 1 match and >= 1 non-match") {
  static const string NA = "ab.1_";
  auto word = [&](int lo, int hi, bool stars) { int k = c.irange(lo, hi); string s; for (int i = 0; i < k; ++i) { if (stars && c.oneIn(4)) s += '*'; else s += NA[c.below(NA.size())]; } return s; };
  int nn = c.irange(1, 6); vector<string> names;
  for (int i = 0; i < nn; ++i) { string n = word(1, 10, false); if (find(names.begin(), names.end(), n) == names.end()) names.push_back(n); }
  string p;
  if (c.flag()) {  // derive the pattern from a name: replace substrings by '*'
    p = names[c.below(names.size())];
    int cuts = c.irange(0, 3);
    for (int k = 0; k < cuts && !p.empty(); ++k) { size_t a = c.below(p.size() + 1), len = c.below(4); p = p.substr(0, a) + "*" + (a + len < p.size() ? p.substr(a + len) : string()); }
  } else p = word(1, 10, true);
  c.desc << "pattern " << q(p) << " names " << showList(names);
  size_t hits = 0; for (auto& n : names) if (glob(p, n)) ++hits;
  c.nt(p.find('*') != string::npos && p.find_first_not_of('*') != string::npos && names.size() >= 2 && hits >= 1 && hits < names.size());
  checkWildcard(c, p, names);
}

// ====================================================================== variables
LAW(V1_variables, RC, 30000, 1500000, 120, "a chain of >= 2 references, or an undefined reference") {
  // keys k0..k(n-1) with random names; entry i may only reference entries of larger rank (acyclic); ranks are a random
  // permutation so that the map's iteration order is unrelated to the dependency order
  int n = c.irange(0, 6);
  vector<string> keys;
  for (int i = 0; i < n; ++i) { string k = genWord(c, "abcxyz01_.", 1, 4); if (find(keys.begin(), keys.end(), k) == keys.end()) keys.push_back(k); }
  n = static_cast<int>(keys.size());
  for (int i = n - 1; i > 0; --i) swap(keys[static_cast<size_t>(i)], keys[c.below(static_cast<uint64_t>(i) + 1)]);
  struct Part { bool ref; string text; };
  vector<vector<Part>> def(static_cast<size_t>(n));
  SMap am; bool undefinedRef = false;
  for (int i = 0; i < n; ++i) {
    int parts = c.irange(0, 4); string v;
    for (int k = 0; k < parts; ++k) {
      Part p;
      switch (c.weighted({3, 3, 1})) {
        case 0: p.ref = false; p.text = genWord(c, "ab/.-_(1)", 1, 4); break;
        case 1: if (i + 1 < n) { p.ref = true; p.text = keys[static_cast<size_t>(i + 1) + c.below(static_cast<uint64_t>(n - i - 1))]; } else { p.ref = false; p.text = "z"; } break;
        default: p.ref = true; p.text = "undef" + to_string(c.below(3)); if (find(keys.begin(), keys.end(), p.text) != keys.end()) { p.ref = false; } else undefinedRef = true;
      }
      def[static_cast<size_t>(i)].push_back(p);
      v += p.ref ? "$(" + p.text + ")" : p.text;
    }
    am[keys[static_cast<size_t>(i)]] = v;
  }
  // reference: substitution fixed point, from the last rank upwards
  SMap want; int maxChain = 0; vector<int> chain(static_cast<size_t>(n), 0);
  for (int i = n - 1; i >= 0; --i) {
    string v;
    for (auto& p : def[static_cast<size_t>(i)]) {
      if (!p.ref) v += p.text;
      else if (want.count(p.text)) { v += want[p.text]; size_t j = static_cast<size_t>(find(keys.begin(), keys.end(), p.text) - keys.begin()); chain[static_cast<size_t>(i)] = max(chain[static_cast<size_t>(i)], chain[j] + 1); }
      // undefined: the empty string
    }
    want[keys[static_cast<size_t>(i)]] = v; maxChain = max(maxChain, chain[static_cast<size_t>(i)]);
  }
  c.desc << "map " << showMap(am);
  c.nt(maxChain >= 2 || undefinedRef);
  SMap got = am;
  try { AttributesTools::resolveVariables(got); }
  catch (bpp::Exception& e) { CHECK(false, "resolveVariables raised: " << what1(e)); }
  CHECK(got.size() == am.size(), "resolveVariables changed the set of keys: " << showMap(got));
  for (auto& kv : got) {
    CHECK(want.count(kv.first), "resolveVariables created the key " << q(kv.first));
    CHECK(kv.second.find("$(") == string::npos, "a reference remains in " << q(kv.first) << " = " << q(kv.second));
    CHECK(kv.second == want[kv.first], "value of " << q(kv.first) << " is " << q(kv.second) << ", the substitution fixed point is " << q(want[kv.first]));
  }
  SMap again = got; AttributesTools::resolveVariables(again);
  CHECK(again == got, "resolving a second time changes the map (not a fixed point)");
}

// References that only exist after a substitution.  Values are sequences of pieces: plain words, a lone '$', a lone ')',
// a bracketed name "(word)", a reference "$(key)" / "$(undefined)".  A '$' followed by "(word)" is a reference too, wherever the
// two characters come from: written side by side, or the '$' ending one substituted value / literal and the '(' starting the next
// substituted value ("$$(sel)" with sel = "(opt)").
// By construction every '(' is closed by the ')' of its own piece (no syntax error possible), names contain no '$', '(' or ')',
// and every name that can follow a '(' in the value of an entry (directly or after substitutions) has a larger rank (no cycle):
// resolveVariables must not raise.  The rewriting  "$(name)" -> value of name ("" when undefined)  has no overlapping left sides
// and terminates, so its normal form is unique whatever the order of the substitutions: that normal form is THE fixed point in
// which no reference remains.  The reference below reduces the RIGHTMOST reference first (the library takes the leftmost).
LAW(V2_variables_formed, RC, 20000, 1000000, 160, "a reference that only exists after a substitution ('$' and '(' are brought together by substituting a value)") {
  int n = c.irange(0, 6);
  vector<string> keys;
  for (int i = 0; i < n; ++i) { string k = genWord(c, "abcxyz01_.", 1, 4); if (find(keys.begin(), keys.end(), k) == keys.end()) keys.push_back(k); }
  n = static_cast<int>(keys.size());
  for (int i = n - 1; i > 0; --i) swap(keys[static_cast<size_t>(i)], keys[c.below(static_cast<uint64_t>(i) + 1)]);
  auto later = [&](int i) { return keys[static_cast<size_t>(i + 1) + c.below(static_cast<uint64_t>(n - i - 1))]; };
  SMap am; vector<double> cost(static_cast<size_t>(n), 0);   // upper bound of the number of substitutions (the library gives up after 1000)
  auto costOf = [&](const string& k) { size_t j = static_cast<size_t>(find(keys.begin(), keys.end(), k) - keys.begin()); return j < cost.size() ? 1 + cost[j] : 1.0; };
  for (int i = n - 1; i >= 0; --i) {
    int parts = c.irange(0, 4); string v; bool afterDollar = false;
    for (int k = 0; k < parts; ++k) {
      // after a lone '$' a reference or a bracketed name is more likely
      size_t kind = afterDollar ? c.weighted({1, 1, 1, 3, 6, 1}) : c.weighted({3, 3, 1, 3, 4, 1});
      afterDollar = false;
      switch (kind) {
        case 0: v += genWord(c, "ab/.-_1", 1, 3); break;
        case 1: v += "$"; afterDollar = true; break;
        case 2: v += ")"; break;
        case 3: {
          string w;
          switch (c.weighted({3, 1, 1})) { case 0: w = i + 1 < n ? later(i) : string("w"); break; case 1: w = "undef" + to_string(c.below(3)); break; default: w = genWord(c, "ab.1_", 0, 3); if (find(keys.begin(), keys.end(), w) != keys.end()) w = "w"; }
          v += "(" + w + ")"; cost[static_cast<size_t>(i)] += costOf(w); break;
        }
        case 4: if (i + 1 < n) { string w = later(i); v += "$(" + w + ")"; cost[static_cast<size_t>(i)] += costOf(w); } else v += "z"; break;
        default: v += "$(undef" + to_string(c.below(3)) + ")"; cost[static_cast<size_t>(i)] += 1;
      }
    }
    am[keys[static_cast<size_t>(i)]] = v;
  }
  c.desc << "map " << showMap(am);
  for (double x : cost) if (x > 900) throw vf::Skip();
  // reference normal forms, from the last rank upwards; tags: 'r' = the '$' of a reference written as such, 's' = substituted text
  SMap want; bool formed = false, straddle = false;
  for (int i = n - 1; i >= 0; --i) {
    string v = am[keys[static_cast<size_t>(i)]], tag(v.size(), '.');
    for (size_t p = v.find("$("); p != string::npos; p = v.find("$(", p + 1)) tag[p] = 'r';
    for (int guard = 0;; ++guard) {
      CHECK(guard < 100000, "internal: the reference normal form does not terminate");
      size_t p = v.rfind("$(");
      if (p == string::npos) break;
      size_t e = v.find(')', p);
      CHECK(e != string::npos, "internal: unclosed reference generated in " << q(v));
      string name = v.substr(p + 2, e - p - 2), val;
      if (am.count(name)) { CHECK(want.count(name), "internal: reference to a smaller rank generated: " << q(name)); val = want[name]; }
      if (tag[p] != 'r') formed = true;
      if (tag[p] != 'r' && tag[p + 1] == 's') straddle = true;
      v = v.substr(0, p) + val + v.substr(e + 1);
      tag = tag.substr(0, p) + string(val.size(), 's') + tag.substr(e + 1);
    }
    want[keys[static_cast<size_t>(i)]] = v;
  }
  c.nt(formed);
  if (straddle) c.label("bracket_from_substituted_value");
  SMap got = am;
  try { AttributesTools::resolveVariables(got); }
  catch (bpp::Exception& e) { CHECK(false, "resolveVariables raised although every reference is closed and the definitions are not cyclic: " << what1(e)); }
  CHECK(got.size() == am.size(), "resolveVariables changed the set of keys: " << showMap(got));
  for (auto& kv : got) CHECK(am.count(kv.first), "resolveVariables created the key " << q(kv.first));
  // no resolvable reference remains: "$(name)" with name defined (definitions are acyclic by construction)
  for (auto& kv : got)
    for (size_t p = kv.second.find("$("); p != string::npos; p = kv.second.find("$(", p + 1)) {
      size_t e = kv.second.find(')', p);
      if (e == string::npos) continue;
      string name = kv.second.substr(p + 2, e - p - 2);
      CHECK(!am.count(name), "a resolvable reference remains: " << q(kv.first) << " = " << q(kv.second) << " although " << q(name) << " is defined (= " << q(got[name]) << "); result " << showMap(got));
    }
  // fixed point
  SMap again = got;
  try { AttributesTools::resolveVariables(again); }
  catch (bpp::Exception& e) { CHECK(false, "resolving the result " << showMap(got) << " a second time raised: " << what1(e)); }
  CHECK(again == got, "resolving a second time changes the map (not a fixed point): " << showMap(got) << " then " << showMap(again));
  for (auto& kv : got)
    CHECK(kv.second == want[kv.first], "value of " << q(kv.first) << " is " << q(kv.second) << ", the normal form of the substitutions is " << q(want[kv.first]));
}

// ====================================================================== tables
LAW(D1_table, RC, 20000, 1000000, 320, "table with row names") {
  const string sep(1, c.pick(vector<char>{'\t', ',', ';', ' '}));
  int nCol = c.irange(1, 6);
  bool colNames = !c.oneIn(3);
  bool rowNames = colNames && c.flag();                 // row names only together with column names
  int nRow = c.irange(colNames ? 1 : 2, 6);             // at least two text lines
  const string CELL = string("a1b.x-+9Z_") + (sep == "," ? ";" : ",") + (sep == " " ? "" : " ");
  auto cell = [&]() {
    for (;;) { string s = genWord(c, CELL, 1, 4); if (!TextTools::isEmpty(s)) return s; }
  };
  auto uniqueNames = [&](int k, const string& prefix) {
    vector<string> v;
    while (static_cast<int>(v.size()) < k) { string s = cell(); if (find(v.begin(), v.end(), s) != v.end()) s = prefix + to_string(v.size()) + s; if (find(v.begin(), v.end(), s) == v.end()) v.push_back(s); }
    return v;
  };
  vector<string> cn, rn;
  if (colNames) cn = uniqueNames(nCol, "c");
  if (rowNames) rn = uniqueNames(nRow, "r");
  vector<vector<string>> cells(static_cast<size_t>(nRow), vector<string>(static_cast<size_t>(nCol)));
  for (auto& r : cells) for (auto& x : r) x = cell();
  bool align = c.flag(), viaBpp = c.flag();
  // the `header` argument of read(): with column names only it must be true and without names false (otherwise the first line is,
  // as documented, read as something else); with column AND row names the first line is one field shorter than the second and is
  // documented to be taken as column names whatever `header` says: both values are used
  const bool header = rowNames ? !c.flag() : colNames;
  // Characters that are neither the separator nor the line end but that a "tolerant" reader might treat specially (carriage return,
  // vertical tab, form feed, a tab or blank with another separator, quote, comment sign, a non-ASCII byte), put at the start, the end
  // or inside some fields, preferably the LAST field of a text line (last column name, last cell of a row) whose end is the end of the
  // line, or the first one.  A field stays non-blank (characters are only added) and names stay unique (a colliding edit is dropped).
  // Drawn after all other draws of the law so that older replay files keep their meaning.
  bool oddEnd = false;
  {
    string ODD = string("\r\v\f\"#'\xe9") + (sep == "\t" ? "" : "\t") + (sep == " " ? "" : " ");
    int nEdit = c.weighted({2, 3, 2, 1});
    for (int e = 0; e < nEdit; ++e) {
      // which line: -1 = the column names (if any), else a row; which field: 0 = row name (if any), then the cells
      int line = c.irange(colNames ? -1 : 0, nRow - 1);
      int nField = nCol + (line >= 0 && rowNames ? 1 : 0);
      int field; switch (c.weighted({3, 1, 1})) { case 0: field = nField - 1; break; case 1: field = 0; break; default: field = c.irange(0, nField - 1); }
      string* target;
      if (line < 0) target = &cn[static_cast<size_t>(field)];
      else if (rowNames && field == 0) target = &rn[static_cast<size_t>(line)];
      else target = &cells[static_cast<size_t>(line)][static_cast<size_t>(field - (rowNames ? 1 : 0))];
      const char ch = ODD[c.below(ODD.size())];
      string edited = *target;
      switch (c.weighted({3, 1, 1})) { case 0: edited += ch; break; case 1: edited.insert(edited.begin(), ch); break; default: edited.insert(edited.begin() + static_cast<long>(c.below(edited.size() + 1)), ch); }
      if (line < 0 && find(cn.begin(), cn.end(), edited) != cn.end()) continue;
      if (line >= 0 && rowNames && field == 0 && find(rn.begin(), rn.end(), edited) != rn.end()) continue;
      *target = edited;
      if (field == nField - 1 && edited.back() == ch) oddEnd = true;
    }
  }
  if (oddEnd) c.label("line_ends_with_special_character");
  DataTable dt(static_cast<size_t>(nCol));
  if (colNames) dt.setColumnNames(cn);
  for (int i = 0; i < nRow; ++i) { if (rowNames) dt.addRow(rn[static_cast<size_t>(i)], cells[static_cast<size_t>(i)]); else dt.addRow(cells[static_cast<size_t>(i)]); }
  c.desc << nRow << "x" << nCol << " sep " << q(sep) << (header ? " header=true" : " header=false") << (align ? " alignHeaders" : "") << (viaBpp ? " bpp::OutputStream" : " std::ostream") << " colNames " << (colNames ? showList(cn) : string("none"))
         << " rowNames " << (rowNames ? showList(rn) : string("none")) << " cells";
  for (auto& r : cells) c.desc << " " << showList(r);
  c.nt(rowNames);
  ostringstream os;
  if (viaBpp) { StlOutputStreamWrapper w(&os); DataTable::write(dt, w, sep, align); } else DataTable::write(dt, os, sep, align);
  const string text = os.str();
  CHECK(static_cast<int>(std::count(text.begin(), text.end(), '\n')) == nRow + (colNames ? 1 : 0), "the written table has an unexpected number of lines: " << q(text));
  istringstream is(text);
  unique_ptr<DataTable> rd;
  if (rowNames && !header) c.label("names_read_with_header_false");
  try { rd = DataTable::read(is, sep, header, -1); }
  catch (bpp::Exception& e) { CHECK(false, "DataTable::read(header=" << header << ") raised on the written text " << q(text) << ": " << what1(e)); }
  CHECK(rd->getNumberOfRows() == static_cast<size_t>(nRow) && rd->getNumberOfColumns() == static_cast<size_t>(nCol),
        "read back " << rd->getNumberOfRows() << "x" << rd->getNumberOfColumns() << " from " << q(text));
  CHECK(rd->hasColumnNames() == colNames, "hasColumnNames() = " << rd->hasColumnNames() << " after reading " << q(text));
  CHECK(rd->hasRowNames() == rowNames, "hasRowNames() = " << rd->hasRowNames() << " after reading " << q(text));
  if (colNames) CHECK(rd->getColumnNames() == cn, "column names " << showList(rd->getColumnNames()) << " after reading " << q(text));
  if (rowNames) CHECK(rd->getRowNames() == rn, "row names " << showList(rd->getRowNames()) << " after reading " << q(text));
  for (int i = 0; i < nRow; ++i) for (int j = 0; j < nCol; ++j)
    CHECK((*rd)(static_cast<size_t>(i), static_cast<size_t>(j)) == cells[static_cast<size_t>(i)][static_cast<size_t>(j)],
          "cell (" << i << "," << j << ") = " << q((*rd)(static_cast<size_t>(i), static_cast<size_t>(j))) << " after reading " << q(text));
}

// ====================================================================== distributions
namespace {

typedef unique_ptr<DiscreteDistributionInterface> DD;
struct DFlags { bool fullPrec = false; bool ratProbas = false; int mixture3 = 0, uniformInMixture3 = 0; int libInvariant = -1; bool truncExp = false, betaSmall = false, simple = false, invariant = false, uniform = false, gammaOffset = false, simpleRanges = false, unsortedRanges = false; int compounds = 0; };
double dec3(vf::Ctx& c, int loMilli, int hiMilli) { return c.irange(loMilli, hiMilli) / 1000.0; }  // 3-digit decimal

// a distribution parameter: 3-digit decimal, or (fullPrec) any double of the range: the writer prints parameters with 12 decimals
double par(vf::Ctx& c, const DFlags& f, int loMilli, int hiMilli) { return f.fullPrec ? c.real(loMilli / 1000.0, hiMilli / 1000.0) : dec3(c, loMilli, hiMilli); }
// optionally replaces the probabilities by fractions w_i / sum(w) with w_i in 1..12, which have no short decimal expansion
// (2/3, 1/6, 1/6 ...).  The case is then written on a stream with >= 15 digits (the reader refuses probabilities whose sum is
// further than 1e-12 from 1: with fewer digits such a description is not a sufficient-precision rendering).
// Drawn AFTER all other draws of the enclosing Simple / Mixture so that older replay files keep their meaning.
void ratify(vf::Ctx& c, vector<double>& p, DFlags& f) {
  if (p.size() < 2 || c.weighted({2, 1}) == 0) return;
  vector<int> w; int sum = 0; for (size_t i = 0; i < p.size(); ++i) { w.push_back(c.irange(1, 12)); sum += w.back(); }
  for (size_t i = 0; i < p.size(); ++i) p[i] = static_cast<double>(w[i]) / sum;
  f.ratProbas = true;
}
// m probabilities, multiples of 1/1000, each >= 0.001, summing to 1
vector<double> genProbas(vf::Ctx& c, size_t m) {
  vector<double> p; int left = 1000;
  for (size_t i = 0; i + 1 < m; ++i) { int maxTake = left - static_cast<int>(m - 1 - i); int take = c.irange(1, max(1, min(maxTake, 2 * left / static_cast<int>(m - i)))); p.push_back(take / 1000.0); left -= take; }
  p.push_back(left / 1000.0);
  return p;
}
DD genLeaf(vf::Ctx& c, int maxN, ostringstream& ds, DFlags& f) {
  size_t n = static_cast<size_t>(c.irange(1, maxN));
  switch (c.below(8)) {
    case 0: {
      double a = par(c, f, 200, 20000), b = par(c, f, 200, 20000);
      if (c.oneIn(6)) { double off = par(c, f, 0, 3000); f.gammaOffset = f.gammaOffset || off != 0; ds << "Gamma(n=" << n << ",alpha=" << a << ",beta=" << b << ",offset parameter=" << off << ")"; return DD(new GammaDiscreteDistribution(n, a, b, 0.05, 0.05, true, off)); }
      ds << "Gamma(n=" << n << ",alpha=" << a << ",beta=" << b << ")"; return DD(new GammaDiscreteDistribution(n, a, b));
    }
    case 1: { double mu = par(c, f, -10000, 10000), sg = par(c, f, 100, 10000); ds << "Gaussian(n=" << n << ",mu=" << mu << ",sigma=" << sg << ")"; return DD(new GaussianDiscreteDistribution(n, mu, sg)); }
    case 2: { double a = par(c, f, 200, 20000), b = par(c, f, 200, 20000); if (a <= 1 || b <= 1) f.betaSmall = true; ds << "Beta(n=" << n << ",alpha=" << a << ",beta=" << b << ")"; return DD(new BetaDiscreteDistribution(n, a, b)); }
    case 3: { double l = par(c, f, 100, 10000); ds << "Exponential(n=" << n << ",lambda=" << l << ")"; return DD(new ExponentialDiscreteDistribution(n, l)); }
    case 4: { double l = par(c, f, 100, 10000), tp = par(c, f, 500, 20000); f.truncExp = true; ds << "TruncExponential(n=" << n << ",lambda=" << l << ",tp=" << tp << ")"; return DD(new TruncatedExponentialDiscreteDistribution(n, l, tp)); }
    case 5: { double a = dec3(c, -5000, 5000), w = dec3(c, 100, 10000); f.uniform = true; ds << "Uniform(n=" << n << ",begin=" << a << ",end=" << a + w << ")"; return DD(new UniformDiscreteDistribution(static_cast<unsigned int>(n), a, a + w)); }
    case 6: { double v = par(c, f, -5000, 5000); ds << "Constant(" << v << ")"; return DD(new ConstantDistribution(v)); }
    default: {
      f.simple = true;
      vector<double> values; int cur = c.irange(-5000, 5000);
      for (size_t i = 0; i < n; ++i) { values.push_back(cur / 1000.0); cur += c.irange(1, 2000); }
      bool sorted = !c.oneIn(4);
      if (!sorted) for (size_t i = values.size(); i > 1; --i) swap(values[i - 1], values[c.below(i)]);
      vector<double> probas = genProbas(c, n);
      map<size_t, vector<double>> ranges;
      if (c.oneIn(4))
        for (size_t i = 0; i < n; ++i) if (c.flag()) ranges[i + 1] = vector<double>{values[i] - dec3(c, 0, 2000), values[i] + dec3(c, 0, 2000)};
      ratify(c, probas, f);
      ds << "Simple(values=("; for (size_t i = 0; i < n; ++i) ds << (i ? "," : "") << values[i]; ds << "),probas=("; for (size_t i = 0; i < n; ++i) ds << (i ? "," : "") << probas[i]; ds << ")";
      {
        if (!ranges.empty()) {
          f.simpleRanges = true;
          // a range whose parameter V_k is not the k-th smallest value (the writer lists the values in increasing order but keeps the index k)
          for (auto& r : ranges) { size_t rank = 0; for (double v : values) if (v < values[r.first - 1]) ++rank; if (rank != r.first - 1) f.unsortedRanges = true; }
          ds << ",ranges=("; for (auto& r : ranges) ds << "V" << r.first << "[" << r.second[0] << ";" << r.second[1] << "]"; ds << "))";
          return DD(new SimpleDiscreteDistribution(values, ranges, probas));
        }
      }
      ds << ")"; return DD(new SimpleDiscreteDistribution(values, probas));
    }
  }
}
DD genDist(vf::Ctx& c, int depth, int maxN, ostringstream& ds, DFlags& f) {
  size_t k = depth >= 2 ? 0 : c.weighted({depth == 0 ? 3u : 6u, 2, 2});
  if (k == 1) {
    ++f.compounds; f.invariant = true; ds << "Invariant(dist=";
    DD in = genDist(c, depth + 1, max(1, maxN - 1), ds, f);
    double p = par(c, f, 1, 999);
    if (f.libInvariant < 0) f.libInvariant = c.flag() ? 1 : 0;   // one invariant value per case: 1e-6 (what the reader uses) or 0 (the class default)
    bool libInv = f.libInvariant == 1; ds << ",p=" << p << (libInv ? ",invariant=1e-6)" : ",invariant=0)");
    return DD(new InvariantMixedDiscreteDistribution(std::move(in), p, libInv ? 0.000001 : 0.0));
  }
  if (k == 2) {
    ++f.compounds; size_t m = static_cast<size_t>(c.irange(1, depth == 0 ? 4 : 3)); ds << "Mixture(";
    const bool uniformBefore = f.uniform; f.uniform = false;
    vector<DD> v; for (size_t i = 0; i < m; ++i) { ds << (i ? "," : "") << "dist" << i + 1 << "="; v.push_back(genDist(c, depth + 1, max(1, maxN / static_cast<int>(m)), ds, f)); }
    if (m >= 3) { ++f.mixture3; if (f.uniform) ++f.uniformInMixture3; }
    f.uniform = f.uniform || uniformBefore;
    vector<double> probas = genProbas(c, m); ratify(c, probas, f);
    ds << ",probas=("; for (size_t i = 0; i < m; ++i) ds << (i ? "," : "") << probas[i]; ds << "))";
    return DD(new MixtureOfDiscreteDistributions(v, probas));
  }
  return genLeaf(c, maxN, ds, f);
}

}  // namespace

LAW(P1_distribution, RC, 6000, 200000, 220, "compound distribution (Invariant / Mixture)") {
  ostringstream ds; DFlags f;
  f.fullPrec = c.oneIn(4); ds.precision(17);
  DD d = genDist(c, 0, 8, ds, f);
  // precision of the caller's stream: the default (6), or enough digits for arbitrary probabilities (15..17)
  const int prec = f.ratProbas ? c.pick(vector<int>{15, 16, 17}) : c.pick(vector<int>{6, 15, 6, 16, 17});
  c.desc << "stream precision " << prec << " " << ds.str();
  c.nt(f.compounds > 0);
  if (f.compounds > 1) c.label("nested_compound");
  if (prec >= 15 && f.uniformInMixture3) c.label("precision>=15_mixture_of_3+_with_uniform");
  const size_t ncat = d->getNumberOfCategories();
  if (ncat < 1 || ncat > 8) throw vf::Skip();   // quantifier: 1..8 classes
  vector<double> cats = d->getCategories(), probs = d->getProbabilities();
  for (double x : cats) if (!std::isfinite(x)) throw vf::Skip();
  // parameters are written with 12 decimals: 3-digit parameters come back exactly, any other parameter within 5e-13.
  // Simple: values / probabilities are written with 6 decimals and the reader re-reads its parameters with 6 significant digits.
  const double tol = f.simple ? 1e-5 : 1e-9;
  const char* tn = f.simple ? "1e-5 (Simple)" : f.fullPrec ? "1e-9 (full-precision parameters)" : "1e-9 (3-digit parameters)";
  // classes that the written precision cannot tell apart may merge when read back: not a regular input
  for (size_t i = 0; i + 1 < ncat; ++i) if (std::abs(cats[i + 1] - cats[i]) <= 10 * tol * max(1.0, std::abs(cats[i]))) throw vf::Skip();
  ostringstream os; map<string, string> aliases; vector<string> written;
  { StlOutputStreamWrapper out(&os); out.setPrecision(prec); BppODiscreteDistributionFormat w(false); w.writeDiscreteDistribution(*d, out, aliases, written); }
  const string text = os.str();
  c.desc << " written as " << q(text);
  if (f.uniform) c.excludeIfKnown("C17-uniform-not-written");
  if (f.gammaOffset) c.excludeIfKnown("C17-gamma-offset");
  if (f.betaSmall) c.excludeIfKnown("C17-beta-ctor-bounds");
  if (f.unsortedRanges) c.excludeIfKnown("C17-simple-ranges-index");
  if (f.invariant && f.libInvariant == 0) c.excludeIfKnown("C17-invariant-value-not-written");
  DD r;
  try { BppODiscreteDistributionFormat rd(false); r = rd.readDiscreteDistribution(text, true); }
  catch (bpp::Exception& e) { CHECK(false, "readDiscreteDistribution raised on the written description " << q(text) << ": " << what1(e)); }
  CHECK(r->getName() == d->getName(), "read back a " << r->getName() << " from " << q(text));
  CHECK(r->getNumberOfCategories() == ncat, "read back " << r->getNumberOfCategories() << " classes instead of " << ncat << " from " << q(text));
  vector<double> cats2 = r->getCategories(), probs2 = r->getProbabilities();
  for (size_t i = 0; i < ncat; ++i) {
    double ev = std::abs(cats[i] - cats2[i]) / max(1.0, std::abs(cats[i])), ep = std::abs(probs[i] - probs2[i]);
    c.observe(string("class value error / ") + tn, ev / tol);
    c.observe(string("probability error / ") + tn, ep / tol);
    CHECK(ev <= tol, "class " << i << " has value " << vf::dec(cats2[i]) << " after reading, " << vf::dec(cats[i]) << " before; text " << q(text));
    CHECK(ep <= tol, "class " << i << " has probability " << vf::dec(probs2[i]) << " after reading, " << vf::dec(probs[i]) << " before; text " << q(text));
  }
  // The same description with its argument list written by the plain Parametrizable overload of the parameter writer (the
  // distribution writer above goes through the ParameterAliasable overload): same reading as above - parameters are written with
  // 12 decimals whatever the precision of the caller's stream, which is handed back unchanged. Leaf families whose description
  // is "Name(n=K,<parameters>)" only (no offset parameter: the reader needs a 'ParamOffset' marker for it).
  const string nm = d->getName();
  if (f.compounds == 0 && !f.simple && !f.uniform && (nm == "Gamma" || nm == "Gaussian" || nm == "Beta" || nm == "Exponential" || nm == "TruncExponential") && !d->hasParameter("offset")) {
    ostringstream os2; vector<string> wn;
    {
      StlOutputStreamWrapper out(&os2); out.setPrecision(prec); out << nm << "(n=" << ncat;
      BppOParametrizableFormat().write(static_cast<const Parametrizable&>(*d), out, wn, true);
      CHECK(out.getPrecision() == prec, "BppOParametrizableFormat::write(Parametrizable) left the stream precision at " << out.getPrecision() << " instead of " << prec);
      out << ")";
    }
    const string text2 = os2.str();
    c.desc << " and (Parametrizable writer) as " << q(text2);
    c.label("parametrizable_writer");
    DD r2;
    try { BppODiscreteDistributionFormat rd(false); r2 = rd.readDiscreteDistribution(text2, true); }
    catch (bpp::Exception& e) { CHECK(false, "readDiscreteDistribution raised on the description " << q(text2) << " written through the Parametrizable overload: " << what1(e)); }
    CHECK(r2->getName() == nm && r2->getNumberOfCategories() == ncat, "read back a " << r2->getName() << " with " << r2->getNumberOfCategories() << " classes from " << q(text2));
    vector<double> cats3 = r2->getCategories(), probs3 = r2->getProbabilities();
    for (size_t i = 0; i < ncat; ++i) {
      CHECK(std::abs(cats[i] - cats3[i]) / max(1.0, std::abs(cats[i])) <= tol, "class " << i << " has value " << vf::dec(cats3[i]) << " after reading, " << vf::dec(cats[i]) << " before; text " << q(text2));
      CHECK(std::abs(probs[i] - probs3[i]) <= tol, "class " << i << " has probability " << vf::dec(probs3[i]) << " after reading, " << vf::dec(probs[i]) << " before; text " << q(text2));
    }
  }
}

static struct Init { Init() { vf::G().resetHook = [] { vf::quietBpp(); vf::installAudit(); }; } } init_;
VF_MAIN("C17")
