// C20 — range collections behave as sets of points (DESIGN.md section 5/C20).
//
// Model (independent of the library): per collection a bitset over the unit cells [i,i+1[ of the
// integer universe, plus the model's own list of components under the documented merge rule of
// MultiRange ("a set of non-overlapping intervals"; addRange merges the stored ranges that *overlap*
// the new one — half-open ranges that merely touch stay separate), maintained by a sorted sweep.
// RangeSet: the list of every non-empty added range, each sliced / filtered individually
// (compared as a multiset: the order of a RangeSet is not documented).
//
// Readings chosen where the documentation leaves a choice (weakest documented reading):
//  * predicates with an EMPTY operand: overlap() must be false (a range with a == b is documented as
//    empty, an empty range shares no position with anything); contains(empty) is only constrained
//    where the set reading (the empty set is included in everything) and the bound reading
//    (begin/end lie within) agree; isContiguous is only constrained for two non-empty ranges.
//  * expandWith: hull when the two ranges overlap or touch (their union is an interval: interval
//    arithmetic of the statement), unchanged when they are apart (doc comment). With an empty
//    receiver both "unchanged" and "becomes the operand" are accepted.
//  * sliceWith: exact intersection when it is non-empty, otherwise any empty range.
#include "common/pbt.hpp"
#include "common/bppcommon.hpp"

#include <Bpp/Numeric/Range.h>

#include <limits>
#include <memory>

using namespace bpp;
using namespace std;

namespace {

typedef pair<int, int> Iv;  // [first, second[ with first <= second, integer end points in 0..24

uint32_t maskOf(int lo, int hi) { uint32_t m = 0; for (int i = lo; i < hi; ++i) m |= (1u << i); return m; }
uint32_t maskOf(const Iv& r) { return maskOf(r.first, r.second); }
int popc(uint32_t x) { int n = 0; while (x) { n += static_cast<int>(x & 1u); x >>= 1; } return n; }
string showIv(const Iv& r) { return "[" + to_string(r.first) + "," + to_string(r.second) + "["; }
string showList(const vector<Iv>& v) { string s = "{ "; for (auto& r : v) s += showIv(r) + " "; return s + "}"; }
string showBits(uint32_t b) { string s = "cells{"; bool first = true; for (int i = 0; i < 25; ++i) if (b & (1u << i)) { s += (first ? "" : ",") + to_string(i); first = false; } return s + "}"; }

// ---- the model
struct MModel { uint32_t bits = 0; vector<Iv> comps; };
struct SModel { vector<Iv> items; };

// returns (number of stored components strictly overlapped, touches one without overlapping it)
void modelAdd(MModel& m, SModel& s, Iv r, int& nOver, bool& touch) {
  nOver = 0; touch = false;
  if (r.first == r.second) return;  // an empty range adds no point
  for (auto& k : m.comps) {
    if (k.first < r.second && r.first < k.second) ++nOver;
    else if (k.second == r.first || k.first == r.second) touch = true;
  }
  s.items.push_back(r);
  m.bits |= maskOf(r);
  // sorted sweep, merging strictly overlapping neighbours only
  vector<Iv> all = m.comps; all.push_back(r);
  sort(all.begin(), all.end());
  vector<Iv> out;
  for (auto& k : all) {
    if (!out.empty() && k.first < out.back().second) out.back().second = max(out.back().second, k.second);
    else out.push_back(k);
  }
  m.comps = out;
}
Iv cut(const Iv& k, const Iv& r) { Iv x(max(k.first, r.first), min(k.second, r.second)); if (x.first >= x.second) x = Iv(0, 0); return x; }
void modelRestrict(MModel& m, SModel& s, Iv r) {
  m.bits &= maskOf(r);
  vector<Iv> out;
  for (auto& k : m.comps) { Iv x = cut(k, r); if (x.first < x.second) out.push_back(x); }
  m.comps = out;
  vector<Iv> so;
  for (auto& k : s.items) { Iv x = cut(k, r); if (x.first < x.second) so.push_back(x); }
  s.items = so;
}
void modelFilter(MModel& m, SModel& s, Iv r) {
  vector<Iv> out; uint32_t keep = 0;
  for (auto& k : m.comps) if (r.first <= k.first && k.second <= r.second) { out.push_back(k); keep |= maskOf(k); }
  m.comps = out; m.bits &= keep;
  vector<Iv> so;
  for (auto& k : s.items) if (r.first <= k.first && k.second <= r.second) so.push_back(k);
  s.items = so;
}

// ---- a Range that counts its live instances: everything a collection stores is produced by clone(),
// so the number of live instances must always equal the number of stored ranges (no leak; a double
// free is reported by ASan).
template <class T> struct CRange : public Range<T> {
  static long live;
  CRange(T a, T b) : Range<T>(a, b) { ++live; }
  CRange(const CRange& o) : Range<T>(o) { ++live; }
  ~CRange() override { --live; }
  CRange* clone() const override { return new CRange(*this); }
};
template <class T> long CRange<T>::live = 0;

template <class T> bool toInt(T x, int& out) {
  if (!(x >= static_cast<T>(0) && x <= static_cast<T>(24))) return false;
  out = static_cast<int>(x);
  return static_cast<T>(out) == x;
}
template <class T> string num(T x) { ostringstream os; os << x; return os.str(); }

template <class C, class T> vector<Iv> readStored(const C& col, const string& who) {
  vector<Iv> got;
  for (size_t i = 0; i < col.size(); ++i) {
    const Range<T>& r = col.getRange(i);
    int b = 0, e = 0;
    CHECK(toInt<T>(r.begin(), b) && toInt<T>(r.end(), e), who << ": stored range #" << i << " = [" << num(r.begin()) << "," << num(r.end()) << "[ has an end point outside the integer universe 0..24");
    CHECK(b < e && !r.isEmpty(), who << ": stored range #" << i << " = " << showIv(Iv(b, e)) << " is empty / reversed");
    got.push_back(Iv(b, e));
  }
  return got;
}

template <class T> void checkMR(const MultiRange<T>& mr, const MModel& m, const string& who) {
  // the model's two representations agree (internal)
  uint32_t u = 0;
  for (auto& k : m.comps) { CHECK(k.first < k.second && (u & maskOf(k)) == 0, "internal: model components not disjoint / empty"); u |= maskOf(k); }
  CHECK(u == m.bits, "internal: model components " << showList(m.comps) << " do not cover the model point set " << showBits(m.bits));
  vector<Iv> got = readStored<MultiRange<T>, T>(mr, who);
  for (size_t i = 0; i + 1 < got.size(); ++i)
    CHECK(got[i].second <= got[i + 1].first, who << ": stored ranges " << showList(got) << " overlap or are not in ascending order at #" << i);
  uint32_t gu = 0; for (auto& k : got) gu |= maskOf(k);
  CHECK(gu == m.bits, who << ": union of stored ranges " << showList(got) << " is " << showBits(gu) << " but the point set (adds ∩ restrictions, components kept by filters) is " << showBits(m.bits));
  CHECK(got == m.comps, who << ": stored ranges " << showList(got) << " differ from the components " << showList(m.comps) << " obtained by merging overlapping ranges only");
  vector<T> bounds = mr.getBounds();
  CHECK(bounds.size() == 2 * got.size(), who << ": getBounds() has " << bounds.size() << " entries for " << got.size() << " ranges");
  for (size_t i = 0; i < got.size(); ++i)
    CHECK(bounds[2 * i] == static_cast<T>(got[i].first) && bounds[2 * i + 1] == static_cast<T>(got[i].second), who << ": getBounds() disagrees with getRange(" << i << ")");
  CHECK(mr.isEmpty() == got.empty(), who << ": isEmpty()=" << mr.isEmpty() << " with " << got.size() << " stored ranges");
  CHECK(mr.toString() == showList(m.comps), who << ": toString()=\"" << mr.toString() << "\" expected \"" << showList(m.comps) << "\"");
  CHECK(mr.totalLength() == static_cast<size_t>(popc(m.bits)), who << ": totalLength()=" << mr.totalLength() << " but the measure of " << showList(m.comps) << " is " << popc(m.bits));
}

template <class T> void checkRS(const RangeSet<T>& rs, const SModel& s, const string& who) {
  CHECK(rs.size() == s.items.size(), who << ": RangeSet holds " << rs.size() << " ranges " << rs.toString() << ", the model " << s.items.size() << " " << showList(s.items));
  vector<Iv> got = readStored<RangeSet<T>, T>(rs, who);
  string str = showList(got);  // in the collection's own order
  vector<Iv> a = got, b = s.items; sort(a.begin(), a.end()); sort(b.begin(), b.end());
  CHECK(a == b, who << ": RangeSet holds " << showList(got) << " but every non-empty added range restricted/filtered individually gives " << showList(s.items));
  size_t tot = 0; for (auto& k : s.items) tot += static_cast<size_t>(k.second - k.first);
  CHECK(rs.totalLength() == tot, who << ": RangeSet totalLength()=" << rs.totalLength() << " expected the sum of lengths " << tot);
  CHECK(rs.isEmpty() == s.items.empty(), who << ": RangeSet isEmpty()=" << rs.isEmpty());
  CHECK(rs.toString() == str, who << ": RangeSet toString()=\"" << rs.toString() << "\" but getRange lists \"" << str << "\"");
}

// ---- the world: a few live collections (each a MultiRange and a RangeSet driven by the same ops)
template <class T> struct World {
  struct Obj { unique_ptr<MultiRange<T>> mr; unique_ptr<RangeSet<T>> rs; MModel mm; SModel sm; };
  vf::Ctx& c;
  vector<Obj> o;
  explicit World(vf::Ctx& ctx) : c(ctx) { CRange<T>::live = 0; }
  void fresh() { Obj x; x.mr.reset(new MultiRange<T>()); x.rs.reset(new RangeSet<T>()); o.push_back(std::move(x)); }
  static Iv norm(int a, int b) { return Iv(min(a, b), max(a, b)); }

  void add(size_t i, int a, int b) {
    int nOver; bool touch;
    modelAdd(o[i].mm, o[i].sm, norm(a, b), nOver, touch);
    c.nt(nOver >= 2 || touch || a > b);
    CRange<T> r(static_cast<T>(a), static_cast<T>(b));  // reversed arguments are passed as such
    RangeCollection<T>& m = *o[i].mr; RangeCollection<T>& s = *o[i].rs;
    m.addRange(r); s.addRange(r);
  }
  void restrictTo(size_t i, int a, int b) {
    bool had = o[i].mm.bits != 0 || !o[i].sm.items.empty();
    modelRestrict(o[i].mm, o[i].sm, norm(a, b));
    c.nt((had && abs(a - b) <= 1) || a > b);
    Range<T> r(static_cast<T>(a), static_cast<T>(b));
    o[i].mr->restrictTo(r); o[i].rs->restrictTo(r);
  }
  void filterWithin(size_t i, int a, int b) {
    modelFilter(o[i].mm, o[i].sm, norm(a, b));
    c.nt(a > b);
    Range<T> r(static_cast<T>(a), static_cast<T>(b));
    o[i].mr->filterWithin(r); o[i].rs->filterWithin(r);
  }
  void clear(size_t i) { o[i].mm = MModel(); o[i].sm = SModel(); o[i].mr->clear(); o[i].rs->clear(); }
  // dst == o.size(): new object; otherwise the old object in the slot is destroyed after the copy was made
  void copyTo(size_t src, size_t dst) {
    Obj x; x.mr.reset(new MultiRange<T>(*o[src].mr)); x.rs.reset(new RangeSet<T>(*o[src].rs)); x.mm = o[src].mm; x.sm = o[src].sm;
    if (dst == o.size()) o.push_back(std::move(x)); else o[dst] = std::move(x);
  }
  void assign(size_t dst, size_t src) {
    if (dst == src && (!o[dst].mm.comps.empty() || !o[dst].sm.items.empty()))
      c.excludeIfKnown("C20-self-assign");  // x = x on a non-empty collection
    const MultiRange<T>& ms = *o[src].mr; const RangeSet<T>& ss = *o[src].rs;
    MultiRange<T>& rm = (*o[dst].mr = ms); RangeSet<T>& rr = (*o[dst].rs = ss);
    CHECK(&rm == o[dst].mr.get() && &rr == o[dst].rs.get(), "operator= does not return *this");
    if (dst != src) { o[dst].mm = o[src].mm; o[dst].sm = o[src].sm; }
  }
  void checkAll(const string& after) {
    set<const void*> addr; size_t stored = 0;
    for (size_t k = 0; k < o.size(); ++k) {
      string who = "after " + after + ", collection #" + to_string(k);
      checkMR<T>(*o[k].mr, o[k].mm, who + " (MultiRange)");
      checkRS<T>(*o[k].rs, o[k].sm, who + " (RangeSet)");
      bool shared = false;
      for (size_t i = 0; i < o[k].mr->size(); ++i) { shared |= !addr.insert(&o[k].mr->getRange(i)).second; ++stored; }
      for (size_t i = 0; i < o[k].rs->size(); ++i) { shared |= !addr.insert(&o[k].rs->getRange(i)).second; ++stored; }
      if (shared) {  // destroying the collections would free the shared object twice: leak them and report
        for (auto& x : o) { (void)x.mr.release(); (void)x.rs.release(); }
        CHECK(false, who << ": a stored Range object is shared with another collection (shallow copy)");
      }
    }
    CHECK(CRange<T>::live == static_cast<long>(stored), "after " << after << ": " << CRange<T>::live << " Range objects are alive but the live collections store " << stored << " (leak)");
  }
  void finish() {
    o.clear();
    CHECK(CRange<T>::live == 0, CRange<T>::live << " Range objects still alive after every collection was destroyed (leak)");
  }
};

// ---- random histories over the 0..24 universe
void genAddRange(vf::Ctx& c, int& a, int& b) {
  a = c.irange(0, 24);
  int len;
  switch (c.weighted({2, 4, 4, 3, 2, 2, 1})) {
    case 0: len = 0; break;
    case 1: len = 1; break;
    case 2: len = 2; break;
    case 3: len = 3; break;
    case 4: len = c.irange(4, 6); break;
    case 5: len = c.irange(7, 12); break;
    default: len = c.irange(13, 24);
  }
  if (a + len > 24) a = 24 - len;
  b = a + len;
  if (c.oneIn(4)) swap(a, b);  // reversed arguments
}
void genCutRange(vf::Ctx& c, int& a, int& b) {
  switch (c.weighted({4, 2, 2, 2})) {
    case 0: a = c.irange(0, 24); b = c.irange(0, 24); break;          // any order
    case 1: a = b = c.irange(0, 24); break;                           // empty
    case 2: a = c.irange(0, 23); b = a + 1; break;                    // one cell
    default: a = c.irange(0, 3); b = 24 - c.irange(0, 3);             // wide
  }
}

template <class T> void history(vf::Ctx& c, const char* tn) {
  World<T> w(c); w.fresh();
  int nops = c.irange(1, 12);
  c.desc << tn << ":";
  for (int op = 0; op < nops; ++op) {
    size_t i = static_cast<size_t>(c.below(w.o.size()));
    int a = 0, b = 0; ostringstream d;
    bool empty = w.o[i].mm.comps.empty() && w.o[i].sm.items.empty();
    switch (empty ? c.weighted({16, 1, 1, 1, 2, 1, 1}) : c.weighted({18, 6, 6, 2, 6, 6, 1})) {
      case 0: genAddRange(c, a, b); d << "#" << i << ".add(" << a << "," << b << ")"; c.desc << " " << d.str(); w.add(i, a, b); break;
      case 1: genCutRange(c, a, b); d << "#" << i << ".restrictTo(" << a << "," << b << ")"; c.desc << " " << d.str(); w.restrictTo(i, a, b); break;
      case 2: genCutRange(c, a, b); d << "#" << i << ".filterWithin(" << a << "," << b << ")"; c.desc << " " << d.str(); w.filterWithin(i, a, b); break;
      case 3: d << "#" << i << ".clear()"; c.desc << " " << d.str(); w.clear(i); break;
      case 4: { size_t dst = w.o.size() < 4 ? w.o.size() : static_cast<size_t>(c.below(w.o.size()));
                d << "#" << dst << "=copy-construct(#" << i << ")"; c.desc << " " << d.str(); w.copyTo(i, dst); break; }
      case 5: {  // assignment between two different collections (a second, empty one is created when there is only one)
        if (w.o.size() == 1) { w.fresh(); d << "#1=new #1=#0"; c.desc << " " << d.str(); w.assign(1, 0); break; }
        size_t src = (i + 1 + static_cast<size_t>(c.below(w.o.size() - 1))) % w.o.size();
        d << "#" << i << "=#" << src; c.desc << " " << d.str(); w.assign(i, src); break; }
      default: d << "#" << i << "=#" << i; c.desc << " " << d.str(); w.assign(i, i);
    }
    w.checkAll(d.str());
  }
  w.finish();
}

// ---- exhaustive op sequences over the 0..6 universe. Two collections A (acted upon) and B:
// "copy" copy-constructs B from A and continues on the copy (the original must stay unchanged),
// "assign" does the same through operator=, "A=B" assigns the other collection back, "A=A" self-assigns.
struct EOp { int kind, a, b; };
const vector<EOp>& enumOps() {
  static vector<EOp> t;
  if (t.empty()) {
    const int U = 6;
    for (int a = 0; a <= U; ++a) for (int b = 0; b <= U; ++b) t.push_back(EOp{0, a, b});       // add, any argument order
    for (int a = 0; a <= U; ++a) for (int b = a; b <= U; ++b) t.push_back(EOp{1, a, b});       // restrictTo
    for (int a = 0; a <= U; ++a) for (int b = a; b <= U; ++b) t.push_back(EOp{2, a, b});       // filterWithin
    for (int k = 3; k <= 7; ++k) t.push_back(EOp{k, 0, 0});                                    // clear, copy, assign, A=B, A=A
  }
  return t;
}
const int THOROUGH_SHARDS = 16;  // the enum laws run with this many shards in the thorough tier: then length 3

template <class T> void sequences(vf::Ctx& c, const char* tn) {
  const vector<EOp>& tab = enumOps();
  // replay files (not enumerating) may hold sequences of either tier
  int maxLen = c.s.enumerating() ? (c.shardN >= THOROUGH_SHARDS ? 3 : 2) : 3;
  World<T> w(c); w.fresh(); w.fresh();
  c.desc << tn << ":";
  for (int op = 0; op < maxLen; ++op) {
    size_t k = static_cast<size_t>(c.below(tab.size() + 1));
    if (k == 0) { if (op == 0) { c.desc << " (no op)"; c.shardPoint(); } break; }
    const EOp& e = tab[k - 1]; ostringstream d;
    switch (e.kind) {
      case 0: d << "add(" << e.a << "," << e.b << ")"; break;
      case 1: d << "restrictTo(" << e.a << "," << e.b << ")"; break;
      case 2: d << "filterWithin(" << e.a << "," << e.b << ")"; break;
      case 3: d << "clear()"; break;
      case 4: d << "B=copy-construct(A),swap"; break;
      case 5: d << "B=A,swap"; break;
      case 6: d << "A=B"; break;
      default: d << "A=A";
    }
    c.desc << " " << d.str();
    if (op == 0) c.shardPoint();
    switch (e.kind) {
      case 0: w.add(0, e.a, e.b); break;
      case 1: w.restrictTo(0, e.a, e.b); break;
      case 2: w.filterWithin(0, e.a, e.b); break;
      case 3: w.clear(0); break;
      case 4: w.copyTo(0, 1); swap(w.o[0], w.o[1]); break;
      case 5: w.assign(1, 0); swap(w.o[0], w.o[1]); break;
      case 6: w.assign(0, 1); break;
      default: w.assign(0, 0);
    }
    w.checkAll(d.str());
  }
  w.finish();
}

// ---- Range<T> primitives against interval arithmetic on [a,b[, all pairs of the 0..6 universe
template <class T> struct Shifts { static vector<T> get() { return {T(0), T(3), T(-2), T(1000000)}; } };
template <> struct Shifts<unsigned> { static vector<unsigned> get() { return {0u, 3u, 7u, numeric_limits<unsigned>::max(), numeric_limits<unsigned>::max() - 2u}; } };
template <> struct Shifts<size_t> { static vector<size_t> get() { return {size_t(0), size_t(3), size_t(7), numeric_limits<size_t>::max(), numeric_limits<size_t>::max() - 2u}; } };
template <> struct Shifts<double> { static vector<double> get() { return {0.0, 3.0, -2.0, 0.5, 1048576.0}; } };

template <class T> void rangePairs(vf::Ctx& c, const char* tn) {
  int a = c.irange(0, 6), b = c.irange(0, 6), p = c.irange(0, 6), q = c.irange(0, 6);
  c.desc << tn << ": x=Range(" << a << "," << b << ") y=Range(" << p << "," << q << ")";
  const int xl = min(a, b), xh = max(a, b), yl = min(p, q), yh = max(p, q);
  const bool xe = xl == xh, ye = yl == yh;
  const uint32_t mx = maskOf(xl, xh), my = maskOf(yl, yh);
  c.nt(a > b || p > q || xe || ye || xh == yl || yh == xl || (mx & my) == my || (mx & my) == mx);
  const Range<T> x(static_cast<T>(a), static_cast<T>(b)), y(static_cast<T>(p), static_cast<T>(q));
  auto is = [](const Range<T>& r, int lo, int hi) { return r.begin() == static_cast<T>(lo) && r.end() == static_cast<T>(hi); };
  auto sh = [](const Range<T>& r) { return "[" + num(r.begin()) + "," + num(r.end()) + "["; };
  // construction, emptiness, length, text
  CHECK(is(x, xl, xh), "Range(" << a << "," << b << ") stores " << sh(x) << ", expected the end points in ascending order");
  CHECK(x.isEmpty() == xe, "isEmpty()=" << x.isEmpty() << " for " << sh(x));
  CHECK(x.length() == static_cast<T>(xh - xl), "length()=" << num(x.length()) << " for " << sh(x));
  CHECK(x.toString() == showIv(Iv(xl, xh)), "toString()=\"" << x.toString() << "\" for " << showIv(Iv(xl, xh)));
  // structural comparison
  CHECK((x == y) == (xl == yl && xh == yh) && (x != y) == !(xl == yl && xh == yh), "==/!= of " << sh(x) << " and " << sh(y) << ": ==" << (x == y) << " !=" << (x != y));
  // containment
  bool cont = x.contains(y);
  if (!ye) CHECK(cont == ((my & ~mx) == 0), sh(x) << ".contains(" << sh(y) << ")=" << cont << " but the point sets say " << ((my & ~mx) == 0));
  else if (xl <= yl && yl <= xh) CHECK(cont, sh(x) << ".contains(" << sh(y) << ")=false for an empty range lying within the bounds");
  // contiguity (two non-empty ranges)
  if (!xe && !ye) CHECK(x.isContiguous(y) == (xh == yl || yh == xl), sh(x) << ".isContiguous(" << sh(y) << ")=" << x.isContiguous(y));
  // expansion
  {
    Range<T> z(x); z.expandWith(y);
    CHECK(is(y, yl, yh), "expandWith modified its argument");
    if (!xe && !ye) {
      bool join = yl <= xh && xl <= yh;  // overlap or touch: the union is an interval
      if (join) CHECK(is(z, min(xl, yl), max(xh, yh)), sh(x) << ".expandWith(" << sh(y) << ") gives " << sh(z) << ", expected the hull " << showIv(Iv(min(xl, yl), max(xh, yh))));
      else CHECK(is(z, xl, xh), sh(x) << ".expandWith(" << sh(y) << ") gives " << sh(z) << " although the ranges are apart (must stay unchanged)");
    } else if (ye) {
      CHECK(is(z, xl, xh), sh(x) << ".expandWith(empty " << sh(y) << ") gives " << sh(z) << ", expected no change");
    } else {
      CHECK(is(z, xl, xh) || is(z, yl, yh), "empty " << sh(x) << ".expandWith(" << sh(y) << ") gives " << sh(z) << ", expected no change or the operand");
    }
  }
  // slicing
  {
    Range<T> z(x); z.sliceWith(y);
    CHECK(is(y, yl, yh), "sliceWith modified its argument");
    if ((mx & my) == 0) CHECK(z.isEmpty(), sh(x) << ".sliceWith(" << sh(y) << ") gives " << sh(z) << " although the ranges share no position (must be empty)");
    else CHECK(is(z, max(xl, yl), min(xh, yh)), sh(x) << ".sliceWith(" << sh(y) << ") gives " << sh(z) << ", expected the intersection " << showIv(Iv(max(xl, yl), min(xh, yh))));
  }
  // shifting preserves the length (modular arithmetic for the unsigned types)
  for (T v : Shifts<T>::get()) {
    Range<T> z(x); Range<T>& r1 = (z += v);
    CHECK(&r1 == &z && z.length() == x.length(), sh(x) << " += " << num(v) << " gives " << sh(z) << " of length " << num(z.length()));
    CHECK(z.begin() == static_cast<T>(x.begin() + v) && z.end() == static_cast<T>(x.end() + v), sh(x) << " += " << num(v) << " gives " << sh(z));
    Range<T> z2(x); Range<T>& r2 = (z2 -= v);
    CHECK(&r2 == &z2 && z2.length() == x.length(), sh(x) << " -= " << num(v) << " gives " << sh(z2) << " of length " << num(z2.length()));
    CHECK(z2.begin() == static_cast<T>(x.begin() - v) && z2.end() == static_cast<T>(x.end() - v), sh(x) << " -= " << num(v) << " gives " << sh(z2));
    Range<T> w(x); Range<T> s1 = w + v; Range<T> s2 = w - v;
    CHECK(w == x, "operator+/- modified the receiver");
    CHECK(s1 == z && s2 == z2, "x + v / x - v differ from += / -= for v=" << num(v) << " on " << sh(x));
  }
  // clone is a distinct equal object
  {
    unique_ptr<Range<T>> k(x.clone());
    CHECK(k.get() != &x && *k == x, "clone() of " << sh(x));
    *k += static_cast<T>(1);
    CHECK(is(x, xl, xh), "mutating the clone changed the original");
  }
  // overlap (last: the known finding skips the case from here only)
  {
    bool want = (mx & my) != 0;
    bool emptyInside = (ye && !xe && xl < yl && yl < xh) || (xe && !ye && yl < xl && xl < yh);
    if (emptyInside) c.excludeIfKnown("C20-overlap-empty");  // an empty range strictly inside a non-empty one
    CHECK(x.overlap(y) == want, sh(x) << ".overlap(" << sh(y) << ")=" << x.overlap(y) << " but the two ranges share " << (want ? "a" : "no") << " position");
    CHECK(y.overlap(x) == want, sh(y) << ".overlap(" << sh(x) << ")=" << y.overlap(x) << " but the two ranges share " << (want ? "a" : "no") << " position");
  }
}

}  // namespace

#define NT_HIST "an add that overlaps >= 2 stored ranges or touches one, a restriction of a non-empty collection to an empty / one-cell range, or reversed arguments"

LAW(H_history_int, RC, 40000, 1500000, 96, NT_HIST) { history<int>(c, "int"); }
LAW(H_history_unsigned, RC, 40000, 1500000, 96, NT_HIST) { history<unsigned>(c, "unsigned"); }
LAW(H_history_sizet, RC, 40000, 1500000, 96, NT_HIST) { history<size_t>(c, "size_t"); }
LAW(H_history_double, RC, 40000, 1500000, 96, NT_HIST) { history<double>(c, "double"); }

// enum laws: the quick / thorough fields are shard counts (length <= 2 quick, <= 3 with THOROUGH_SHARDS shards)
LAW(E_seq_int, ENUM, 2, THOROUGH_SHARDS, 0, NT_HIST) { sequences<int>(c, "int"); }
LAW(E_seq_unsigned, ENUM, 2, THOROUGH_SHARDS, 0, NT_HIST) { sequences<unsigned>(c, "unsigned"); }
LAW(E_seq_sizet, ENUM, 2, THOROUGH_SHARDS, 0, NT_HIST) { sequences<size_t>(c, "size_t"); }
LAW(E_seq_double, ENUM, 2, THOROUGH_SHARDS, 0, NT_HIST) { sequences<double>(c, "double"); }

#define NT_PAIR "a pair with an empty, reversed-argument, touching or nested range"
LAW(E_range_int, ENUM, 1, 1, 0, NT_PAIR) { rangePairs<int>(c, "int"); }
LAW(E_range_unsigned, ENUM, 1, 1, 0, NT_PAIR) { rangePairs<unsigned>(c, "unsigned"); }
LAW(E_range_sizet, ENUM, 1, 1, 0, NT_PAIR) { rangePairs<size_t>(c, "size_t"); }
LAW(E_range_double, ENUM, 1, 1, 0, NT_PAIR) { rangePairs<double>(c, "double"); }

static struct Init { Init() { vf::G().resetHook = [] { vf::quietBpp(); vf::installAudit(); }; } } init_;
VF_MAIN("C20")
