// C18 — random draws follow the named law, keep structural constraints, are reproducible
// (DESIGN.md section 5/C18, soundness rule 5).
//
// Every case carries an explicit 32-bit library seed drawn from the Ctx; each law calls RandomTools::setSeed first, so a
// case is a pure function of its choices (setSeed -> mt19937::seed resets the whole generator state; the samplers build
// their std:: distribution objects per call, so no state survives outside DEFAULT_GENERATOR).
//
// Statistical oracles (rule 5): n = 20 000 draws per test; Kolmogorov-Smirnov against the library's OWN cumulative
// function under the documented convention, reject iff sqrt(n)*D > 3.6 (asymptotic level 2*exp(-2*3.6^2) = 1.1e-11);
// sample mean within 8 sigma/sqrt(n); chi-square goodness of fit at 1e-9 (upper tail from Boost gamma_q; cells with
// expectation < 25 pooled; cells of probability 0 must be empty, exactly).  Budget: <= 2000 tests per run at <= 1e-9 each, i.e.
// a false-alarm probability <= 2e-6 per run; the quick tier runs 398 tests (144 KS + mean on the RandomTools samplers, 48 + 36
// KS on randC / randC on a restricted domain, 48 + 32 + 78 + 12 chi-square), i.e. <= 4.0e-7 per quick run (1.7e-7 when the
// KS tests are counted at their own level 1.1e-11), the thorough tier 5x that: 1990 tests, <= 2.0e-6.
#include <boost/math/special_functions/beta.hpp>
#include <boost/math/special_functions/gamma.hpp>

#include "common/pbt.hpp"
#include "common/bppcommon.hpp"

#include <Bpp/Exceptions.h>
#include <Bpp/Numeric/AbstractParametrizable.h>
#include <Bpp/Numeric/Hmm/AutoCorrelationTransitionMatrix.h>
#include <Bpp/Numeric/Hmm/FullHmmTransitionMatrix.h>
#include <Bpp/Numeric/Matrix/Matrix.h>
#include <Bpp/Numeric/NumConstants.h>
#include <Bpp/Numeric/Prob/BetaDiscreteDistribution.h>
#include <Bpp/Numeric/Prob/ConstantDistribution.h>
#include <Bpp/Numeric/Prob/ExponentialDiscreteDistribution.h>
#include <Bpp/Numeric/Prob/GammaDiscreteDistribution.h>
#include <Bpp/Numeric/Prob/GaussianDiscreteDistribution.h>
#include <Bpp/Numeric/Prob/SimpleDiscreteDistribution.h>
#include <Bpp/Numeric/Prob/TruncatedExponentialDiscreteDistribution.h>
#include <Bpp/Numeric/Prob/UniformDiscreteDistribution.h>
#include <Bpp/Numeric/Random/ContingencyTableGenerator.h>
#include <Bpp/Numeric/Random/RandomTools.h>
#include <Bpp/Numeric/Stat/ContingencyTableTest.h>
#include <Bpp/Numeric/VectorExceptions.h>

#include <random>

using namespace bpp;
using namespace std;

namespace {
typedef RandomTools RT;
typedef long double LD;

const size_t NDRAW = 20000;        // draws per statistical test
const double KS_CRIT = 3.6;        // reject iff sqrt(n) D > 3.6
const double CHI_ALPHA = 1e-9;     // chi-square level
const double MEAN_SIG = 8.0;       // sample mean within 8 sigma / sqrt(n)
const double MINEXP = 25.0;        // smallest expected count of a chi-square cell (smaller ones are pooled)

// known findings (ids listed in known_findings.d/C18.json while they are open)
const char* K_EXP = "C18-randexponential-rate";
const char* K_GAMMA = "C18-randgamma-scale";
const char* K_GAUSSC = "C18-gaussian-randc-variance";
const char* K_GAMOFF = "C18-gamma-randc-offset";
const char* K_CUMSUM = "C18-pickfromcumsum-empty";
const char* K_RCONT = "C18-rcont2-start-cast";
const char* K_HMMEQ = "C18-hmm-sample-stale-equilibrium";
const char* K_GAUSSDOM = "C18-gaussian-randc-ignores-domain";

// parameter grid 0.1..20 of the quantifier; 1 is the neutral value of every convention (mean = rate, variance = sd,
// rate = scale): cases at 1 are trivial by the non-trivial rule.
const double GRID[] = {1, 0.1, 0.2, 0.5, 2, 5, 10, 20};
double gridv(vf::Ctx& c) { return GRID[c.below(8)]; }
uint32_t genSeed(vf::Ctx& c) { return static_cast<uint32_t>(c.raw() & 0xffffffffu); }
// Seeds of the reproducibility law.  setSeed takes std::mt19937::result_type (uint_fast32_t: 64 bits here, reduced modulo 2^32 by
// mt19937::seed), and "with a fixed seed the stream is reproducible" holds for every value of that type: one case in three
// takes a boundary value of the 32-bit and of the argument type's range (0 first: the simplest case), the others a random
// 32-bit value or, one in eight, a random value of the full argument type.
typedef std::mt19937::result_type SeedT;
SeedT genSeedAny(vf::Ctx& c) {
  static const uint64_t B[] = {0ull, 1ull, 2ull, 0x7fffffffull, 0x80000000ull, 0x80000001ull, 0xfffffffeull, 0xffffffffull, 0x100000000ull, 0x100000001ull,
                               0x7fffffffffffffffull, 0x8000000000000000ull, 0xffffffff00000000ull, 0xffffffffffffffffull, 5489ull /* mt19937 default */};
  uint64_t k = c.below(24);
  uint64_t v = k < 8 ? B[c.below(sizeof B / sizeof B[0])] : k < 11 ? c.raw() : (c.raw() & 0xffffffffull);
  return static_cast<SeedT>(v);   // (a 32-bit SeedT would fold the large values: still boundary values of that type)
}

// ------------------------------------------------------------------ statistics
// Kolmogorov-Smirnov statistic sqrt(n) D.  The samplers return doubles, i.e. reals rounded to the nearest double: a sample
// value v stands for the real interval between its two neighbours, so the empirical cdf just after v is compared with
// F(succ(v)) and the one just before v with F(pred(v)) (for Beta(20, 0.1) 3.4% of the mass lies above the largest double
// below 1 and is necessarily returned as 1.0; without this the atom is reported as a discrepancy of 0.034).
template <class F> double ksSqrtN(vector<double> xs, F cdf) {
  sort(xs.begin(), xs.end());
  const double INF = numeric_limits<double>::infinity();
  double n = static_cast<double>(xs.size()), D = 0;
  for (size_t i = 0; i < xs.size();) {
    size_t j = i; while (j + 1 < xs.size() && xs[j + 1] == xs[i]) ++j;   // ties i..j
    double Fup = cdf(nextafter(xs[i], INF)), Fdn = cdf(nextafter(xs[i], -INF));
    if (!(Fup == Fup) || !(Fdn == Fdn)) return INF;
    D = max(D, max(static_cast<double>(j + 1) / n - Fup, Fdn - static_cast<double>(i) / n));
    i = j + 1;
  }
  return sqrt(n) * D;
}
double meanOf(const vector<double>& xs) { LD s = 0; for (double x : xs) s += x; return static_cast<double>(s / static_cast<LD>(xs.size())); }

struct Gof { double stat = 0, df = 0, p = 1; bool zeroHit = false; size_t zeroCell = 0; };
// chi-square goodness of fit of observed counts to cell probabilities (any positive scale); cells of probability 0 must be empty
Gof gof(const vector<double>& cnt, const vector<double>& prob) {
  Gof g; double n = 0, ps = 0;
  for (size_t i = 0; i < cnt.size(); ++i) { n += cnt[i]; ps += prob[i]; }
  vector<pair<double, double>> cells; double pe = 0, po = 0;
  for (size_t i = 0; i < cnt.size(); ++i) {
    if (prob[i] == 0) { if (cnt[i] > 0 && !g.zeroHit) { g.zeroHit = true; g.zeroCell = i; } continue; }
    double e = n * prob[i] / ps;
    if (e < MINEXP) { pe += e; po += cnt[i]; } else cells.push_back({e, cnt[i]});
  }
  if (pe > 0) {
    if (pe >= MINEXP || cells.empty()) cells.push_back({pe, po});
    else { size_t k = 0; for (size_t i = 1; i < cells.size(); ++i) if (cells[i].first < cells[k].first) k = i; cells[k].first += pe; cells[k].second += po; }
  }
  for (auto& ce : cells) g.stat += (ce.second - ce.first) * (ce.second - ce.first) / ce.first;
  g.df = cells.empty() ? 0 : static_cast<double>(cells.size() - 1);
  g.p = g.df > 0 ? static_cast<double>(boost::math::gamma_q(static_cast<LD>(g.df) / 2, static_cast<LD>(g.stat) / 2)) : 1.0;
  return g;
}
#define CHECK_GOF(c, g, ...)                                                                                            \
  do {                                                                                                                  \
    CHECK(!(g).zeroHit, __VA_ARGS__ << ": cell " << (g).zeroCell << " has probability 0 but was drawn");                       \
    (c).observe("chi2_minus_log10_p", -log10(max((g).p, 1e-300)));                                                      \
    CHECK((g).p >= CHI_ALPHA, __VA_ARGS__ << ": chi-square " << (g).stat << " on " << (g).df << " df, p = " << (g).p << " < 1e-9"); \
  } while (0)
#define CHECK_KS(c, xs, cdf, ...)                                                                                       \
  do {                                                                                                                  \
    double ks_ = ksSqrtN(xs, cdf);                                                                                      \
    (c).observe("ks_sqrtn_D", ks_);                                                                                     \
    CHECK(ks_ <= KS_CRIT, __VA_ARGS__ << ": Kolmogorov-Smirnov sqrt(n)*D = " << ks_ << " > 3.6 (n = " << (xs).size() << ", sample mean " << meanOf(xs) << ")"); \
  } while (0)
#define CHECK_MEAN(c, xs, mu, sigma, ...)                                                                               \
  do {                                                                                                                  \
    double m_ = meanOf(xs), z_ = std::abs(m_ - (mu)) / ((sigma) / sqrt(static_cast<double>((xs).size())));              \
    (c).observe("mean_z", z_);                                                                                          \
    CHECK(z_ <= MEAN_SIG, __VA_ARGS__ << ": sample mean " << m_ << " is " << z_ << " standard errors from the law's mean " << (mu)); \
  } while (0)

string showV(const vector<double>& v) { ostringstream o; o << "{"; for (size_t i = 0; i < v.size(); ++i) o << (i ? "," : "") << v[i]; o << "}"; return o.str(); }
string showZ(const vector<size_t>& v) { ostringstream o; o << "{"; for (size_t i = 0; i < v.size(); ++i) o << (i ? "," : "") << v[i]; o << "}"; return o.str(); }

// weight vector of length n, entries from a small pool including 0, at least one positive (position drawn)
vector<double> genWeights(vf::Ctx& c, size_t n) {
  static const double POOL[] = {1, 0, 2, 3, 0.5, 8, 0.25, 5};
  vector<double> w(n);
  for (auto& x : w) x = POOL[c.below(8)];
  bool any = false; for (double x : w) any |= x > 0;
  if (!any) w[c.below(n)] = 1;
  return w;
}
bool hasZero(const vector<double>& w) { for (double x : w) if (x == 0) return true; return false; }

// ------------------------------------------------------------------ contingency tables: predictor for the known finding
// C18-rcont2-start-cast.  The library computes the start value of each cell as  ia * size_t(id/ie + 0.5)  (0 or ia)
// instead of  size_t(ia * id/ie + 0.5);  when that value lies outside the support of the cell the log-factorial table
// is indexed out of range (the process dies under the sanitizer).  Whether this happens for a cell after the first one
// depends on the tables drawn so far, so the predictor replays the documented algorithm (AS 159, transcription of the
// library's arithmetic on signed integers) on a COPY of the generator and reports whether an out-of-support start occurs
// during the next `ncalls` calls.  It is used only to exclude those cases while the finding is listed as known.
bool startOutsideSupport(long ia, long id, long ie) {
  long ib = ie - ia, ii = ib - id;
  long nlm = ia * static_cast<long>(static_cast<size_t>((static_cast<LD>(id) / static_cast<LD>(ie)) + 0.5));
  return nlm > id || nlm > ia || ii + nlm < 0;
}
bool shadowRcont2Bad(mt19937& g, const vector<size_t>& nrowt, const vector<size_t>& ncolt) {
  size_t nrow = nrowt.size(), ncol = ncolt.size(), nr_1 = nrow - 1, nc_1 = ncol - 1;
  long ntot = 0; for (size_t r : nrowt) ntot += static_cast<long>(r);
  vector<double> fact(static_cast<size_t>(ntot) + 1); double fx = 0; fact[0] = 0;
  for (long i = 1; i <= ntot; ++i) { fx = fx + log(static_cast<double>(i)); fact[static_cast<size_t>(i)] = fx; }
  auto F = [&](long k) { return fact[static_cast<size_t>(k)]; };
  auto U = [&]() { uniform_real_distribution<double> d(0, 1.0); return d(g); };
  vector<long> jwork(ncol, 0);
  for (size_t j = 0; j < nc_1; ++j) jwork[j] = static_cast<long>(ncolt[j]);
  long jc = ntot;
  for (size_t l = 0; l < nr_1; ++l) {
    long ia = static_cast<long>(nrowt[l]), ic = jc; jc -= ia;
    for (size_t m = 0; m < nc_1; ++m) {
      long id = jwork[m], ie = ic; ic -= id; long ib = ie - ia, ii = ib - id;
      if (ie == 0) { ia = 0; break; }
      LD dummy = U(); long nlm, nll, j; LD x, y, sumprb; bool lsp, lsm;
      for (;;) {
        if (startOutsideSupport(ia, id, ie)) return true;
        nlm = ia * static_cast<long>(static_cast<size_t>((static_cast<LD>(id) / static_cast<LD>(ie)) + 0.5));
        x = exp(F(ia) + F(ib) + F(ic) + F(id) - F(ie) - F(nlm) - F(id - nlm) - F(ia - nlm) - F(ii + nlm));
        if (x >= dummy) break;
        sumprb = x; y = x; nll = nlm;
        do {
          j = (id - nlm) * (ia - nlm); lsp = (j == 0);
          if (!lsp) { ++nlm; x = x * static_cast<LD>(j) / (static_cast<LD>(nlm) * static_cast<LD>(ii + nlm)); sumprb += x; if (sumprb >= dummy) goto L160; }
          do {
            j = nll * (ii + nll); lsm = (j == 0);
            if (!lsm) {
              --nll; y = y * static_cast<LD>(j) / (static_cast<LD>(id - nll) * static_cast<LD>(ia - nll)); sumprb += y;
              if (sumprb >= dummy) { nlm = nll; goto L160; }
              if (!lsp) break;
            }
          } while (!lsm);
        } while (!lsp);
        dummy = sumprb * U();
      }
L160:
      ia -= nlm; jwork[m] -= nlm;
    }
  }
  return false;
}
// call before `ncalls` consecutive rcont2() calls on margins (rows, cols) at the current generator state
void guardRcont2(vf::Ctx& c, const vector<size_t>& rows, const vector<size_t>& cols, int ncalls) {
  if (!c.isKnown(K_RCONT)) return;
  mt19937 g = RT::DEFAULT_GENERATOR;
  for (int k = 0; k < ncalls; ++k) if (shadowRcont2Bad(g, rows, cols)) c.excludeIfKnown(K_RCONT);
}

void checkTable(const RowMatrix<size_t>& t, const vector<size_t>& rows, const vector<size_t>& cols, const char* when) {
  CHECK(t.getNumberOfRows() == rows.size() && t.getNumberOfColumns() == cols.size(), when << ": table is " << t.getNumberOfRows() << "x" << t.getNumberOfColumns());
  size_t N = 0; for (size_t r : rows) N += r;
  for (size_t i = 0; i < rows.size(); ++i) {
    size_t s = 0;
    for (size_t j = 0; j < cols.size(); ++j) { CHECK(t(i, j) <= N, when << ": cell (" << i << "," << j << ") = " << t(i, j) << " is negative (wrapped) or exceeds the total " << N); s += t(i, j); }
    CHECK(s == rows[i], when << ": row " << i << " sums to " << s << ", requested " << rows[i]);
  }
  for (size_t j = 0; j < cols.size(); ++j) {
    size_t s = 0; for (size_t i = 0; i < rows.size(); ++i) s += t(i, j);
    CHECK(s == cols[j], when << ": column " << j << " sums to " << s << ", requested " << cols[j]);
  }
}

// ------------------------------------------------------------------ HMM support
struct Alpha : public virtual HmmStateAlphabet, public AbstractParametrizable {
  size_t n;
  explicit Alpha(size_t k) : AbstractParametrizable(""), n(k) {}
  Alpha* clone() const override { return new Alpha(*this); }
  const Clonable& getState(size_t) const override { return *this; }
  size_t getNumberOfStates() const override { return n; }
  bool worksWith(const HmmStateAlphabet& a) const override { return a.getNumberOfStates() == n; }
};
// stationary vector of a positive stochastic matrix, by power iteration in long double (from the definition pi = pi P)
vector<double> stationary(const vector<vector<double>>& P) {
  size_t K = P.size(); vector<LD> pi(K, 1.0L / static_cast<LD>(K)), nx(K);
  for (int it = 0; it < 20000; ++it) {
    LD diff = 0, s = 0;
    for (size_t j = 0; j < K; ++j) { nx[j] = 0; for (size_t i = 0; i < K; ++i) nx[j] += pi[i] * static_cast<LD>(P[i][j]); s += nx[j]; }
    for (size_t j = 0; j < K; ++j) { nx[j] /= s; diff += fabsl(nx[j] - pi[j]); }
    pi = nx; if (diff < 1e-18L) break;
  }
  vector<double> r(K); for (size_t j = 0; j < K; ++j) r[j] = static_cast<double>(pi[j]);
  return r;
}
// random stochastic matrix with entries >= 1/45 (well mixing: the library's P^256 and the true stationary vector agree)
vector<vector<double>> genStoch(vf::Ctx& c, size_t K) {
  vector<vector<double>> P(K, vector<double>(K));
  for (size_t i = 0; i < K; ++i) {
    double s = 0; for (size_t j = 0; j < K; ++j) { P[i][j] = static_cast<double>(1 + c.below(9)); s += P[i][j]; }
    for (size_t j = 0; j < K; ++j) P[i][j] /= s;
  }
  return P;
}

// ------------------------------------------------------------------ distributions (C09 families with a draw)
struct Dist {
  unique_ptr<DiscreteDistributionInterface> d; string text; const char* knownC = nullptr;  // finding hit by randC() for these parameters
  bool hasC = true; bool nontrivial = false; bool constant = false; int family = 0;
  bool representable = true;  // false: more than 1e-4 of the law's mass lies between the last double of the (open) domain and its bound
};
// family weights: Gamma, Gamma with offset, Beta, Gaussian, Exponential, TruncExponential, Uniform, Constant, Simple
const vector<unsigned> FAM_ALL = {3, 2, 3, 3, 3, 2, 2, 1, 2};
Dist genDist(vf::Ctx& c, const vector<unsigned>& famWeights = FAM_ALL) {
  Dist r; ostringstream o; size_t K = static_cast<size_t>(c.irange(2, 10));
  { unsigned tot = 0; for (unsigned x : famWeights) tot += x;   // same draw as Ctx::weighted
    uint64_t u = c.below(tot); r.family = 0; for (unsigned x : famWeights) { if (u < x) break; u -= x; ++r.family; } }
  switch (r.family) {
    case 0: { double a = gridv(c), b = gridv(c); o << "Gamma(" << K << ",alpha=" << a << ",beta=" << b << ")"; r.d.reset(new GammaDiscreteDistribution(K, a, b)); if (b != 1) { r.knownC = K_GAMMA; r.nontrivial = true; } break; }
    case 1: {
      double a = gridv(c), b = gridv(c), off = c.pick({0.5, -2.0, 3.0}); o << "Gamma(" << K << ",alpha=" << a << ",beta=" << b << ",offset=" << off << ")";
      r.d.reset(new GammaDiscreteDistribution(K, a, b, 0.05, 0.05, true, off)); r.nontrivial = true;
      // the domain is ]offset,inf[: a variate smaller than half the spacing of the doubles at the offset gives offset + variate == offset, which
      // cannot be returned (alpha=0.1, offset=0.5: 2.5% of the mass, Boost reference; the KS statistic sits at 3.5 +- noise from this alone)
      r.representable = static_cast<double>(boost::math::gamma_p(static_cast<LD>(a), static_cast<LD>(b) * static_cast<LD>(nextafter(std::abs(off), INFINITY) - std::abs(off)))) <= 1e-4;
      if (b != 1) r.knownC = K_GAMMA; else if (off > 0) r.knownC = K_GAMOFF;
      break; }
    case 2: { double a = gridv(c), b = gridv(c); o << "Beta(" << K << ",alpha=" << a << ",beta=" << b << ")"; r.d.reset(new BetaDiscreteDistribution(K, a, b)); r.nontrivial = (a != 1 || b != 1);
      // the domain is ]0,1[: reals that round to 1.0 cannot be returned (Beta(20,0.1): 3.4% of the mass, Boost reference)
      r.representable = static_cast<double>(boost::math::ibetac(static_cast<LD>(a), static_cast<LD>(b), static_cast<LD>(nextafter(1.0, 0.0)))) <= 1e-4;
      break; }
    case 3: { double mu = static_cast<double>(c.zig(5)), s = gridv(c); o << "Gaussian(" << K << ",mu=" << mu << ",sigma=" << s << ")"; r.d.reset(new GaussianDiscreteDistribution(K, mu, s)); if (s != 1) { r.knownC = K_GAUSSC; r.nontrivial = true; } break; }
    case 4: { double l = gridv(c); o << "Exponential(" << K << ",lambda=" << l << ")"; r.d.reset(new ExponentialDiscreteDistribution(K, l)); if (l != 1) { r.knownC = K_EXP; r.nontrivial = true; } break; }
    case 5: { double l = gridv(c), tp = c.pick({2.0, 0.5, 10.0}); o << "TruncExponential(" << K << ",lambda=" << l << ",tp=" << tp << ")"; r.d.reset(new TruncatedExponentialDiscreteDistribution(K, l, tp)); if (l != 1) { r.knownC = K_EXP; } r.nontrivial = true; break; }
    case 6: { double lo = static_cast<double>(c.zig(5)), w = gridv(c); o << "Uniform(" << K << "," << lo << "," << lo + w << ")"; r.d.reset(new UniformDiscreteDistribution(static_cast<unsigned int>(K), lo, lo + w)); r.nontrivial = (w != 1); break; }
    case 7: { double v = static_cast<double>(c.zig(5)) / 2; o << "Constant(" << v << ")"; r.d.reset(new ConstantDistribution(v)); r.constant = true; break; }
    default: {
      vector<double> vals(K), w = genWeights(c, K); double s = 0;
      for (size_t i = 0; i < K; ++i) { vals[i] = static_cast<double>(i) * 0.5 - 1; s += w[i]; }
      for (auto& x : w) x /= s;
      o << "Simple(fixed, values -1,-0.5,.. probs " << showV(w) << ")"; r.d.reset(new SimpleDiscreteDistribution(vals, w, NumConstants::TINY(), true)); r.hasC = false;  // fixed: no theta parameters (their constraints are the matter of C09)
      r.nontrivial = hasZero(w);
      break; }
  }
  r.text = o.str();
  return r;
}

}  // namespace

// ====================================================================================================================
// 1. reproducibility
// ====================================================================================================================
namespace {
struct Op { int kind; double a, b; size_t n, k; vector<double> w; bool flag; vector<size_t> rows, cols; };
void put(vector<uint64_t>& t, double x) { uint64_t u; memcpy(&u, &x, sizeof u); t.push_back(u); }
void put(vector<uint64_t>& t, size_t x) { t.push_back(static_cast<uint64_t>(x)); }
const int NKIND = 21;
bool continuousKind(int k) { return k == 0 || (k >= 3 && k <= 7) || k == 17; }

Op genOp(vf::Ctx& c) {
  Op o; o.kind = static_cast<int>(c.below(NKIND)); o.a = gridv(c); o.b = gridv(c); o.n = 1 + c.below(8); o.k = c.below(o.n + 1); o.flag = c.flag();
  o.w = genWeights(c, o.n);
  if (o.kind == 16 || o.kind == 19) {  // a small table; its margins
    size_t nr = 2 + c.below(2), nc = 2 + c.below(2); o.rows.assign(nr, 0); o.cols.assign(nc, 0);
    for (size_t i = 0; i < nr; ++i) for (size_t j = 0; j < nc; ++j) { size_t v = 1 + c.below(6); o.rows[i] += v; o.cols[j] += v; }
  }
  return o;
}
string showOp(const Op& o) {
  static const char* NM[NKIND] = {"uniform", "flipCoin", "intBelow", "gaussian", "gamma1", "gamma2", "beta", "exponential", "pickOne(v,repl)", "pickOne(cv)", "getSample", "pickOne(v,w,repl)",
                                  "pickOne(cv,cw)", "getSample(w)", "pickFromCumSum", "multinomial", "rcont2", "dist.randC", "hmm.sample", "ctTest(perm)", "dist.rand"};
  ostringstream s; s << NM[o.kind] << "[a=" << o.a << ",b=" << o.b << ",n=" << o.n << ",k=" << o.k << ",f=" << o.flag;
  if (o.kind >= 11 && o.kind <= 15) s << ",w=" << showV(o.w);
  if (!o.rows.empty()) s << ",rows=" << showZ(o.rows) << ",cols=" << showZ(o.cols);
  s << "]"; return s.str();
}
// runs the script after setSeed(seed); only valid inputs, no exception expected
vector<uint64_t> runScript(vf::Ctx& c, const vector<Op>& ops, SeedT seed) {
  vector<uint64_t> t; RT::setSeed(seed);
  for (const Op& o : ops) {
    vector<int> v(o.n); for (size_t i = 0; i < o.n; ++i) v[i] = 100 + static_cast<int>(i);
    switch (o.kind) {
      case 0: put(t, RT::giveRandomNumberBetweenZeroAndEntry(o.a)); break;
      case 1: put(t, static_cast<size_t>(RT::flipCoin(o.flag ? 0.5 : 0.3))); break;
      case 2: put(t, RT::giveIntRandomNumberBetweenZeroAndEntry<size_t>(o.n)); put(t, static_cast<size_t>(RT::giveIntRandomNumberBetweenZeroAndEntry<int>(static_cast<int>(o.n)))); break;
      case 3: put(t, RT::randGaussian(o.a, o.b)); break;
      case 4: put(t, RT::randGamma(o.a)); break;
      case 5: put(t, RT::randGamma(o.a, o.b)); break;
      case 6: put(t, RT::randBeta(o.a, o.b)); break;
      case 7: put(t, RT::randExponential(o.a)); break;
      case 8: put(t, static_cast<size_t>(RT::pickOne(v, o.flag))); put(t, v.size()); break;
      case 9: { const vector<int>& cv = v; put(t, static_cast<size_t>(RT::pickOne(cv))); break; }
      case 10: { vector<int> out(o.k); RT::getSample(v, out, o.flag); for (int x : out) put(t, static_cast<size_t>(x)); break; }
      case 11: { vector<double> w = o.w; put(t, static_cast<size_t>(RT::pickOne(v, w, o.flag))); put(t, w.size()); break; }
      case 12: { const vector<int>& cv = v; const vector<double>& cw = o.w; put(t, static_cast<size_t>(RT::pickOne(cv, cw))); break; }
      case 13: {
        size_t npos = 0; for (double x : o.w) npos += x > 0;
        vector<int> out(o.flag ? o.k : min(o.k, npos)); RT::getSample(v, o.w, out, o.flag); for (int x : out) put(t, static_cast<size_t>(x)); break; }
      case 14: { vector<double> cs(o.n); double s = 0, tot = 0; for (double x : o.w) tot += x; for (size_t i = 0; i < o.n; ++i) { s += o.w[i]; cs[i] = s / tot; } cs[o.n - 1] = 1; put(t, RT::pickFromCumSum(cs)); break; }
      case 15: { for (size_t x : RT::randMultinomial(o.k + 1, o.w)) put(t, x); break; }
      case 16: { guardRcont2(c, o.rows, o.cols, 2); ContingencyTableGenerator g(o.rows, o.cols); for (int r = 0; r < 2; ++r) { RowMatrix<size_t> m = g.rcont2(); for (size_t i = 0; i < o.rows.size(); ++i) for (size_t j = 0; j < o.cols.size(); ++j) put(t, m(i, j)); } break; }
      case 17: { GammaDiscreteDistribution g(4, o.a, o.b); put(t, g.randC()); BetaDiscreteDistribution b(3, o.a, o.b); put(t, b.randC()); GaussianDiscreteDistribution n(3, o.a, o.b); put(t, n.randC()); break; }
      case 18: {
        size_t K = 2 + o.n % 3; auto al = make_shared<Alpha>(K); FullHmmTransitionMatrix m(al); RowMatrix<double> P(K, K);
        for (size_t i = 0; i < K; ++i) for (size_t j = 0; j < K; ++j) P(i, j) = (i == j ? 0.5 : 0.5 / static_cast<double>(K - 1));
        m.setTransitionProbabilities(P); m.getEquilibriumFrequencies();
        for (size_t x : m.sample(o.k + 2)) put(t, x);
        break; }
      case 19: {
        // a table with these margins: the outer-product-like filling is irrelevant, only reproducibility of the permutation p-value is observed
        vector<vector<size_t>> tab(o.rows.size(), vector<size_t>(o.cols.size(), 0)); vector<size_t> rr = o.rows, cc = o.cols;
        for (size_t i = 0; i < rr.size(); ++i) for (size_t j = 0; j < cc.size(); ++j) { size_t x = min(rr[i], cc[j]); tab[i][j] = x; rr[i] -= x; cc[j] -= x; }
        guardRcont2(c, o.rows, o.cols, 10);
        ContingencyTableTest ct(tab, 10, false); put(t, ct.getPValue()); put(t, ct.getStatistic());
        break; }
      default: { ExponentialDiscreteDistribution e(5, o.a); put(t, e.rand()); SimpleDiscreteDistribution s(vector<double>{1, 2, 3}, vector<double>{0.2, 0.5, 0.3}); put(t, s.rand()); break; }
    }
  }
  return t;
}
}  // namespace

LAW(R1_reproducible, RC, 6000, 120000, 420, "script of >= 5 calls with >= 2 continuous draws (sequences under different seeds are then compared)") {
  // the other seed differs from the first one modulo 2^32 (mt19937::seed reduces its argument: seeds 2^32 apart name the same stream)
  SeedT seed = genSeedAny(c), other = seed + 1 + static_cast<SeedT>(c.below(1000));
  if (c.oneIn(4)) other = seed ^ (static_cast<SeedT>(1) << c.below(32));
  int nops = c.irange(1, 16); vector<Op> ops; int ncont = 0;
  c.desc << "seed " << seed << " other seed " << other << " script:";
  for (int k = 0; k < nops; ++k) { ops.push_back(genOp(c)); c.desc << " " << showOp(ops.back()); if (continuousKind(ops.back().kind)) ++ncont; }
  c.nt(nops >= 5 && ncont >= 2);
  // four runs: seed, seed again at once (whatever state the first run left behind - e.g. a cached spare normal deviate - must be
  // wiped by setSeed), another seed (disturbs the generator), seed once more. The immediate repetition makes the law independent
  // of the history of the process: a state that survives setSeed shows in a fresh process too, so the replay file reproduces it.
  vector<uint64_t> A = runScript(c, ops, seed);
  vector<uint64_t> A2 = runScript(c, ops, seed);
  vector<uint64_t> B = runScript(c, ops, other);
  vector<uint64_t> C = runScript(c, ops, seed);
  CHECK(A.size() == C.size() && A.size() == A2.size(), "same seed, same script: " << A.size() << " values, then " << A2.size() << " and " << C.size());
  for (size_t i = 0; i < A.size(); ++i) CHECK(A[i] == A2[i], "same seed, same script, run twice in a row: value #" << i << " differs (bit patterns " << hex << A[i] << " vs " << A2[i] << dec << ")");
  for (size_t i = 0; i < A.size(); ++i) CHECK(A[i] == C[i], "same seed, same script: value #" << i << " differs (bit patterns " << hex << A[i] << " vs " << C[i] << dec << ")");
  if (ncont >= 2) CHECK(A != B, "seeds " << seed << " and " << other << " gave the identical sequence of " << A.size() << " values");
}

// ====================================================================================================================
// 2. continuous samplers of RandomTools  (2 tests per case: KS + mean)
// ====================================================================================================================
LAW(K_uniform, RC, 10, 50, 4, "entry != 1") {
  uint32_t seed = genSeed(c); double e = gridv(c);
  c.desc << "giveRandomNumberBetweenZeroAndEntry(" << e << ") seed " << seed; c.nt(e != 1);
  RT::setSeed(seed); vector<double> xs(NDRAW);
  for (auto& x : xs) { x = RT::giveRandomNumberBetweenZeroAndEntry(e); CHECK(x >= 0 && x < e, "draw " << vf::dec(x) << " outside [0," << e << "["); }
  CHECK_KS(c, xs, [&](double x) { return x <= 0 ? 0. : x >= e ? 1. : x / e; }, "uniform on [0," << e << "[");
  CHECK_MEAN(c, xs, e / 2, e / sqrt(12.0), "uniform on [0," << e << "[");
}

LAW(K_gaussian, RC, 12, 60, 6, "variance != 1 (variance and standard deviation differ)") {
  uint32_t seed = genSeed(c); double mean = static_cast<double>(c.zig(5)), var = gridv(c);
  c.desc << "randGaussian(mean=" << mean << ", variance=" << var << ") seed " << seed; c.nt(var != 1);
  RT::setSeed(seed); vector<double> xs(NDRAW); for (auto& x : xs) x = RT::randGaussian(mean, var);
  CHECK_KS(c, xs, [&](double x) { return RT::pNorm(x, mean, sqrt(var)); }, "randGaussian(" << mean << "," << var << ") vs pNorm(x," << mean << ",sqrt(" << var << "))");
  CHECK_MEAN(c, xs, mean, sqrt(var), "randGaussian(" << mean << "," << var << ")");
}

LAW(K_exponential, RC, 12, 60, 4, "mean != 1 (mean and rate differ)") {
  uint32_t seed = genSeed(c); double mean = gridv(c);
  c.desc << "randExponential(mean=" << mean << ") seed " << seed; c.nt(mean != 1);
  if (mean != 1) c.excludeIfKnown(K_EXP);
  RT::setSeed(seed); vector<double> xs(NDRAW); for (auto& x : xs) { x = RT::randExponential(mean); CHECK(x >= 0, "negative draw " << x); }
  CHECK_KS(c, xs, [&](double x) { return x <= 0 ? 0. : 1 - exp(-x / mean); }, "randExponential(" << mean << ") vs 1-exp(-x/" << mean << ") (documented: the argument is the mean)");
  CHECK_MEAN(c, xs, mean, mean, "randExponential(" << mean << ")");
}

LAW(K_gamma1, RC, 12, 60, 4, "alpha != 1") {
  uint32_t seed = genSeed(c); double a = gridv(c);
  c.desc << "randGamma(alpha=" << a << ") seed " << seed; c.nt(a != 1);
  RT::setSeed(seed); vector<double> xs(NDRAW); for (auto& x : xs) { x = RT::randGamma(a); CHECK(x >= 0, "negative draw " << x); }
  CHECK_KS(c, xs, [&](double x) { return x <= 0 ? 0. : RT::pGamma(x, a, 1.); }, "randGamma(" << a << ") vs pGamma(x," << a << ",1)");
  CHECK_MEAN(c, xs, a, sqrt(a), "randGamma(" << a << ")");
}

LAW(K_gamma2, RC, 14, 70, 6, "beta != 1 (rate and scale differ)") {
  uint32_t seed = genSeed(c); double b = gridv(c), a = gridv(c);
  c.desc << "randGamma(alpha=" << a << ", beta=" << b << ") seed " << seed; c.nt(b != 1);
  if (b != 1) c.excludeIfKnown(K_GAMMA);
  RT::setSeed(seed); vector<double> xs(NDRAW); for (auto& x : xs) { x = RT::randGamma(a, b); CHECK(x >= 0, "negative draw " << x); }
  CHECK_KS(c, xs, [&](double x) { return x <= 0 ? 0. : RT::pGamma(x, a, b); }, "randGamma(" << a << "," << b << ") vs pGamma(x," << a << "," << b << ") (beta is a rate in pGamma/qGamma)");
  CHECK_MEAN(c, xs, a / b, sqrt(a) / b, "randGamma(" << a << "," << b << ")");
}

LAW(K_beta, RC, 12, 60, 6, "alpha != 1 or beta != 1") {
  uint32_t seed = genSeed(c); double a = gridv(c), b = gridv(c);
  c.desc << "randBeta(alpha=" << a << ", beta=" << b << ") seed " << seed; c.nt(a != 1 || b != 1);
  RT::setSeed(seed); vector<double> xs(NDRAW); for (auto& x : xs) { x = RT::randBeta(a, b); CHECK(x >= 0 && x <= 1, "draw " << vf::dec(x) << " outside [0,1]"); }
  CHECK_KS(c, xs, [&](double x) { return x <= 0 ? 0. : x >= 1 ? 1. : RT::pBeta(x, a, b); }, "randBeta(" << a << "," << b << ") vs pBeta");
  CHECK_MEAN(c, xs, a / (a + b), sqrt(a * b / ((a + b) * (a + b) * (a + b + 1))), "randBeta(" << a << "," << b << ")");
}

// ====================================================================================================================
// 3. distribution-level draws (1 test per case)
// ====================================================================================================================
LAW(D_randC, RC, 48, 240, 24, "convention-sensitive parameter != 1, an offset, or a truncation") {
  uint32_t seed = genSeed(c); Dist D = genDist(c);
  c.desc << D.text << ".randC() seed " << seed; c.nt(D.nontrivial);
  RT::setSeed(seed);
  if (!D.hasC) {  // documented: Exception when there is no continuous version
    bool raised = false; try { D.d->randC(); } catch (Exception&) { raised = true; }
    CHECK(raised, D.text << " has no continuous version but randC() returned"); return;
  }
  if (D.knownC) c.excludeIfKnown(D.knownC);
  double lo = D.d->getLowerBound(), hi = D.d->getUpperBound();
  vector<double> xs(NDRAW);
  for (auto& x : xs) { x = D.d->randC(); CHECK(x >= lo && x <= hi, D.text << ".randC() = " << vf::dec(x) << " outside the domain [" << lo << "," << hi << "]"); }
  if (D.constant) { for (double x : xs) CHECK(x == lo, "constant distribution drew " << x); return; }
  if (!D.representable) { c.label("law_not_representable_in_double_no_KS"); return; }
  double Flo = D.d->pProb(lo), Fhi = D.d->pProb(hi);
  CHECK(Fhi > Flo, "internal: domain without mass");
  CHECK_KS(c, xs, [&](double x) { return x <= lo ? 0. : x >= hi ? 1. : (D.d->pProb(x) - Flo) / (Fhi - Flo); }, D.text << ".randC() vs its own pProb renormalised to the domain [" << lo << "," << hi << "]");
}

// Option combinations: the same families after restrictToConstraint has narrowed the domain.  randC() then re-draws until the value
// lies in the domain, so the draws follow the family's law (offset, truncation included) conditioned on the domain: the object's
// own pProb renormalised to the domain it reports.  The Gamma family with an offset is weighted up (offset x restriction).
namespace {
struct Restr { double x1 = 0, x2 = 0; bool in1 = false, in2 = false; string text; };
// a sub-interval of the current domain: both ends, the lower end only (forced when the truncation point of a TruncExponential
// must stay inside), the upper end only.  The end points are quantiles of the object's own law at levels from a small pool
// (input generation only: the share of the mass that is left is measured afterwards on the restricted object).
bool genRestr(vf::Ctx& c, const DiscreteDistributionInterface& d, bool lowerOnly, Restr& r) {
  double lo = d.getLowerBound(), hi = d.getUpperBound(), uLo = d.pProb(lo), uHi = d.pProb(hi);
  int mode = lowerOnly ? 1 : static_cast<int>(c.weighted({3, 2, 2}));
  double t1 = 0, t2 = 1;
  if (mode == 0) { t1 = c.pick({0.25, 0.1, 0.4, 0.55}); t2 = t1 + c.pick({0.3, 0.2, 0.4}); }
  else if (mode == 1) t1 = c.pick({0.5, 0.3, 0.7, 0.85});
  else t2 = c.pick({0.5, 0.7, 0.3, 0.15});
  r.in1 = c.flag(); r.in2 = c.flag();
  r.x1 = mode == 2 ? (lo > -1e22 ? lo - 1 - std::abs(lo) / 2 : -INFINITY) : d.qProb(uLo + t1 * (uHi - uLo));
  r.x2 = mode == 1 ? (hi < 1e22 ? hi + 1 + std::abs(hi) / 2 : INFINITY) : d.qProb(uLo + t2 * (uHi - uLo));
  r.text = string(r.in1 ? "[" : "]") + vf::dec(r.x1) + ";" + vf::dec(r.x2) + (r.in2 ? "]" : "[");
  return r.x1 < r.x2 && std::max(r.x1, lo) < std::min(r.x2, hi);
}
}  // namespace

// Termination is part of this law (watchdog 3 CPU-seconds per case, a hang is a violation): the restricted domains hold >= 15% of
// the mass (never < 5%), so 20 000 draws of the conditional law need about 10^5 variates of the parent law (0.1 s); a randC()
// that has not delivered them after several 10^6 variates accepts far less than the law puts on the domain: it does not draw from it.
LAW(D_randC_restricted, RC, 36, 180, 32, "the restricted domain holds at most 90% of the mass: first draws are rejected and re-drawn", 3, true) {
  static const vector<unsigned> FAM = {2, 6, 2, 2, 2, 2, 2, 0, 0};   // no Constant (one point), no Simple (no continuous version)
  uint32_t seed = genSeed(c); Dist D = genDist(c, FAM);
  Restr r; bool ok = genRestr(c, *D.d, D.family == 5, r);
  c.desc << D.text << " restrictToConstraint(" << r.text << ").randC() seed " << seed;
  if (!ok) { c.label("no_proper_subinterval"); return; }
  if (D.knownC) c.excludeIfKnown(D.knownC);
  if (D.family == 3) c.excludeIfKnown(K_GAUSSDOM);   // GaussianDiscreteDistribution::randC has no rejection loop: it ignores the restricted domain
  double mass0 = D.d->pProb(D.d->getUpperBound()) - D.d->pProb(D.d->getLowerBound());
  D.d->restrictToConstraint(IntervalConstraint(r.x1, r.x2, r.in1, r.in2));
  double lo = D.d->getLowerBound(), hi = D.d->getUpperBound(), Flo = D.d->pProb(lo), Fhi = D.d->pProb(hi), share = (Fhi - Flo) / mass0;
  c.desc << " (domain [" << vf::dec(lo) << ";" << vf::dec(hi) << "], " << share << " of the mass)";
  if (!(share >= 0.05)) { c.label("restricted_domain_almost_without_mass"); return; }   // cost of the rejection loop; not reached by the quantile levels above
  c.nt(share <= 0.9);
  RT::setSeed(seed);
  vector<double> xs(NDRAW);
  for (auto& x : xs) { x = D.d->randC(); CHECK(x >= lo && x <= hi, D.text << " restricted to " << r.text << ": randC() = " << vf::dec(x) << " outside the domain [" << vf::dec(lo) << ";" << vf::dec(hi) << "]"); }
  // reals of the domain within one double of a bound may round onto the bound or outside and are then re-drawn: no KS when they
  // carry more than 1e-4 of the domain's mass (Gamma(alpha=0.1,offset=3) on ]3;3.0003]: 5%); Beta near 1 as in D_randC
  double edge = std::max(D.d->pProb(nextafter(lo, INFINITY)) - Flo, Fhi - D.d->pProb(nextafter(hi, -INFINITY))) / (Fhi - Flo);
  if (!(edge <= 1e-4) || (D.family == 2 && !D.representable && hi > 0.999)) { c.label("law_not_representable_in_double_no_KS"); return; }
  CHECK_KS(c, xs, [&](double x) { return x <= lo ? 0. : x >= hi ? 1. : (D.d->pProb(x) - Flo) / (Fhi - Flo); }, D.text << " restricted to " << r.text << ": randC() vs its own pProb renormalised to the domain [" << vf::dec(lo) << ";" << vf::dec(hi) << "]");
}

LAW(D_rand, RC, 48, 240, 24, "at least 3 classes") {
  uint32_t seed = genSeed(c); Dist D = genDist(c);
  c.desc << D.text << ".rand() seed " << seed;
  vector<double> cat = D.d->getCategories(), pr = D.d->getProbabilities();
  c.nt(cat.size() >= 3);
  RT::setSeed(seed); vector<double> cnt(cat.size(), 0);
  for (size_t k = 0; k < NDRAW; ++k) {
    double x = D.d->rand(); auto it = find(cat.begin(), cat.end(), x);
    CHECK(it != cat.end(), D.text << ".rand() = " << vf::dec(x) << " is not one of the " << cat.size() << " class values");
    cnt[static_cast<size_t>(it - cat.begin())] += 1;
  }
  Gof g = gof(cnt, pr); CHECK_GOF(c, g, D.text << ".rand() frequencies " << showV(cnt) << " vs class probabilities " << showV(pr));
}

// ====================================================================================================================
// 4. HMM transition matrix sample()  (2 tests per case)
// ====================================================================================================================
LAW(H_hmm_sample, RC, 16, 80, 40, "at least 3 states, or the equilibrium vector was not requested before sampling") {
  uint32_t seed = genSeed(c); size_t K = static_cast<size_t>(c.irange(2, 5)); bool full = !c.oneIn(4), primed = !c.oneIn(3);
  auto al = make_shared<Alpha>(K); unique_ptr<AbstractHmmTransitionMatrix> M; vector<vector<double>> P(K, vector<double>(K));
  if (full) {
    P = genStoch(c, K); auto* m = new FullHmmTransitionMatrix(al); M.reset(m);
    RowMatrix<double> R(K, K); for (size_t i = 0; i < K; ++i) for (size_t j = 0; j < K; ++j) R(i, j) = P[i][j];
    m->setTransitionProbabilities(R);
    c.desc << "FullHmmTransitionMatrix " << K << " states rows";
  } else {
    auto* m = new AutoCorrelationTransitionMatrix(al); M.reset(m);
    for (size_t i = 0; i < K; ++i) { double l = c.pick({0.5, 0.2, 0.8, 0.95, 0.05}); m->setParameterValue("lambda" + to_string(i + 1), l); for (size_t j = 0; j < K; ++j) P[i][j] = i == j ? l : (1 - l) / static_cast<double>(K - 1); }
    c.desc << "AutoCorrelationTransitionMatrix " << K << " states rows";
  }
  for (auto& r : P) c.desc << " " << showV(r);
  c.desc << (primed ? " equilibrium requested before sampling" : " sampling directly") << " seed " << seed;
  c.nt(K >= 3 || !primed);
  if (full && !primed) c.excludeIfKnown(K_HMMEQ);
  if (primed) M->getEquilibriumFrequencies();
  RT::setSeed(seed);
  CHECK(M->sample(0).empty(), "sample(0) is not empty");
  vector<double> first(K, 0); vector<vector<double>> tr(K, vector<double>(K, 0));
  for (size_t k = 0; k < NDRAW / 2; ++k) {
    vector<size_t> s = M->sample(2); CHECK(s.size() == 2, "sample(2) has " << s.size() << " states");
    CHECK(s[0] < K && s[1] < K, "sample(2) returned state " << max(s[0], s[1]) << " of " << K);
    first[s[0]] += 1; tr[s[0]][s[1]] += 1;
  }
  vector<size_t> chain = M->sample(NDRAW / 2); CHECK(chain.size() == NDRAW / 2, "sample(n) has " << chain.size() << " states");
  for (size_t k = 0; k < chain.size(); ++k) { CHECK(chain[k] < K, "state " << chain[k] << " of " << K); if (k) tr[chain[k - 1]][chain[k]] += 1; }
  // transitions: conditional on the number of visits of each state, one chi-square over all cells
  {
    // the statistic is the sum of the K row statistics, (K-1) df each (fewer after pooling)
    double stat = 0, df = 0;
    for (size_t i = 0; i < K; ++i) { Gof g = gof(tr[i], P[i]); CHECK(!g.zeroHit, "transition of probability 0 drawn"); stat += g.stat; df += g.df; }
    double p = df > 0 ? static_cast<double>(boost::math::gamma_q(static_cast<LD>(df) / 2, static_cast<LD>(stat) / 2)) : 1;
    c.observe("chi2_minus_log10_p", -log10(max(p, 1e-300)));
    CHECK(p >= CHI_ALPHA, "transitions do not follow the rows of P: chi-square " << stat << " on " << df << " df, p = " << p);
  }
  if (full) {  // the starting state follows the equilibrium distribution (documented); AutoCorrelation's equilibrium vector is C13's matter
    vector<double> pi = stationary(P);
    Gof g = gof(first, pi); CHECK_GOF(c, g, "first state of sample() over " << NDRAW / 2 << " calls: counts " << showV(first) << " vs equilibrium " << showV(pi));
  }
}

// ====================================================================================================================
// 5. picks: structure (no statistics) and frequencies (1 test per case)
// ====================================================================================================================
namespace {
template <class F> int emptyRaised(F f) {  // 1 = EmptyVectorException (element or index type), 0 = returned
  try { f(); } catch (EmptyVectorException<int>&) { return 1; } catch (EmptyVectorException<size_t>&) { return 1; } catch (EmptyVectorException<double>&) { return 1; }
  return 0;
}
vector<int> source(size_t n) { vector<int> v(n); for (size_t i = 0; i < n; ++i) v[i] = 100 + static_cast<int>(i); return v; }
bool allFrom(const vector<int>& out, size_t n) { for (int x : out) if (x < 100 || x >= 100 + static_cast<int>(n)) return false; return true; }
bool distinct(vector<int> out) { sort(out.begin(), out.end()); return adjacent_find(out.begin(), out.end()) == out.end(); }
}  // namespace

LAW(P_structure, RC, 60000, 1500000, 48, "empty source, sample size >= source size, or a zero weight") {
  uint32_t seed = genSeed(c); int kind = static_cast<int>(c.below(12));
  size_t n = static_cast<size_t>(c.irange(0, 12)), k = static_cast<size_t>(c.irange(0, 14)); bool repl = c.flag();
  // the `replace` argument is defaulted (documented default: false = without replacement) in pickOne(v), pickOne(v, w), getSample(v, out),
  // getSample(v, w, out): half of the cases without replacement leave the argument out, and the same laws must hold
  bool dflt = c.flag() && !repl; const char* rtext = dflt ? "(default)" : repl ? "true" : "false";
  RT::setSeed(seed);
  vector<int> v = source(n); const vector<int> orig = v;
  switch (kind) {
    case 0: {  // pickOne(v, replace)
      c.desc << "pickOne(v[" << n << "], replace=" << rtext << ")"; c.nt(n == 0);
      if (n == 0) { CHECK(emptyRaised([&] { if (dflt) RT::pickOne(v); else RT::pickOne(v, repl); }), "pickOne on an empty vector returned"); break; }
      int e = dflt ? RT::pickOne(v) : RT::pickOne(v, repl); CHECK(allFrom({e}, n), "picked " << e << " which is not in the source");
      if (repl) CHECK(v == orig, "pickOne(v, true) modified v");
      else { CHECK(v.size() == n - 1, "pickOne(v, replace=" << rtext << ") on a non-const vector must remove the picked element: size " << v.size() << " after the call, " << n << " before"); v.push_back(e); sort(v.begin(), v.end()); CHECK(v == orig, "pickOne(v, false): the remaining elements plus the picked one are not the source"); }
      break; }
    case 1: {  // pickOne(const v)
      c.desc << "pickOne(const v[" << n << "])"; c.nt(n == 0);
      if (n == 0) { CHECK(emptyRaised([&] { RT::pickOne(orig); }), "pickOne on an empty vector returned"); break; }
      int e = RT::pickOne(orig); CHECK(allFrom({e}, n), "picked " << e << " which is not in the source");
      break; }
    case 2: case 3: {  // getSample unweighted
      c.desc << "getSample(v[" << n << "], out[" << k << "], replace=" << rtext << ")"; c.nt(n == 0 || k >= n);
      vector<int> out(k, -1);
      auto call = [&] { if (dflt) RT::getSample(orig, out); else RT::getSample(orig, out, repl); };
      if (!repl && k > n) { bool r = false; try { call(); } catch (IndexOutOfBoundsException&) { r = true; } CHECK(r, "over-long request without replacement (replace=" << rtext << ") did not raise IndexOutOfBoundsException"); break; }
      if (n == 0 && k > 0) { CHECK(emptyRaised(call), "sampling with replacement from an empty vector returned"); break; }
      if (n == 0) { emptyRaised(call); break; }  // empty sample of an empty source: returning or EmptyVectorException both allowed
      call();
      CHECK(out.size() == k && allFrom(out, n), "sample contains an element that is not in the source");
      if (!repl) { CHECK(distinct(out), "sample without replacement (replace=" << rtext << ") repeats a position"); if (k == n) { sort(out.begin(), out.end()); CHECK(out == orig, "full-size sample without replacement is not a permutation"); } }
      break; }
    case 4: case 5: {  // pickOne(v, w, replace)
      vector<double> w = n ? genWeights(c, n) : vector<double>(); const vector<double> w0 = w;
      c.desc << "pickOne(v[" << n << "], w=" << showV(w) << ", replace=" << rtext << ")"; c.nt(n == 0 || hasZero(w));
      if (n == 0) { CHECK(emptyRaised([&] { if (dflt) RT::pickOne(v, w); else RT::pickOne(v, w, repl); }), "weighted pickOne on an empty vector returned"); break; }
      int e = dflt ? RT::pickOne(v, w) : RT::pickOne(v, w, repl); CHECK(allFrom({e}, n), "picked " << e << " which is not in the source");
      CHECK(w0[static_cast<size_t>(e - 100)] > 0, "picked element " << e << " of weight 0");
      if (repl) CHECK(v == orig && w == w0, "pickOne(v, w, true) modified its arguments");
      else {
        CHECK(v.size() == n - 1 && w.size() == n - 1, "pickOne(v, w, replace=" << rtext << ") on non-const vectors must remove the picked element and its weight: sizes " << v.size() << "," << w.size() << " after the call, " << n << " before");
        for (size_t i = 0; i < v.size(); ++i) { CHECK(v[i] != e && allFrom({v[i]}, n), "element " << v[i] << " remains"); CHECK(w[i] == w0[static_cast<size_t>(v[i] - 100)], "after removal element " << v[i] << " carries weight " << w[i] << " instead of " << w0[static_cast<size_t>(v[i] - 100)]); }
        CHECK(distinct(v), "remaining elements repeat");
      }
      break; }
    case 6: {  // pickOne(const v, const w)
      const vector<double> w = n ? genWeights(c, n) : vector<double>();
      c.desc << "pickOne(const v[" << n << "], const w=" << showV(w) << ")"; c.nt(n == 0 || hasZero(w));
      if (n == 0) { CHECK(emptyRaised([&] { RT::pickOne(orig, w); }), "weighted pickOne on an empty vector returned"); break; }
      int e = RT::pickOne(orig, w); CHECK(allFrom({e}, n), "picked " << e); CHECK(w[static_cast<size_t>(e - 100)] > 0, "picked element " << e << " of weight 0");
      break; }
    case 7: case 8: {  // getSample weighted
      const vector<double> w = n ? genWeights(c, n) : vector<double>(); size_t npos = 0; for (double x : w) npos += x > 0;
      c.desc << "getSample(v[" << n << "], w=" << showV(w) << ", out[" << k << "], replace=" << rtext << ")"; c.nt(n == 0 || k >= n || hasZero(w));
      vector<int> out(k, -1);
      auto call = [&] { if (dflt) RT::getSample(orig, w, out); else RT::getSample(orig, w, out, repl); };
      if (!repl && k > n) { bool r = false; try { call(); } catch (IndexOutOfBoundsException&) { r = true; } CHECK(r, "over-long weighted request without replacement (replace=" << rtext << ") did not raise IndexOutOfBoundsException"); break; }
      if (n == 0 && k > 0) { CHECK(emptyRaised(call), "weighted sampling with replacement from an empty vector returned"); break; }
      if (n == 0) { emptyRaised(call); break; }
      call();
      CHECK(out.size() == k && allFrom(out, n), "sample contains an element that is not in the source");
      size_t zeros = 0; for (int x : out) zeros += w[static_cast<size_t>(x - 100)] == 0;
      if (repl) CHECK(zeros == 0, "an element of weight 0 was sampled");
      else {
        CHECK(distinct(out), "weighted sample without replacement (replace=" << rtext << ") repeats a position");
        if (k <= npos) CHECK(zeros == 0, "an element of weight 0 was sampled although " << npos << " >= " << k << " elements have positive weight");
        else CHECK(k - zeros == npos, "sample larger than the number of positive weights must contain all of them");
        if (k == n) { sort(out.begin(), out.end()); CHECK(out == orig, "full-size weighted sample without replacement is not a permutation"); }
      }
      break; }
    case 9: {  // pickFromCumSum
      vector<double> w = n ? genWeights(c, n) : vector<double>(), cs(n); double tot = 0, s = 0; for (double x : w) tot += x;
      for (size_t i = 0; i < n; ++i) { s += w[i]; cs[i] = s / tot; } if (n) cs[n - 1] = 1;
      c.desc << "pickFromCumSum(" << showV(cs) << ")"; c.nt(n == 0 || hasZero(w));
      if (n == 0) { c.excludeIfKnown(K_CUMSUM); CHECK(emptyRaised([&] { RT::pickFromCumSum(cs); }), "pickFromCumSum on an empty vector returned"); break; }
      size_t p = RT::pickFromCumSum(cs); CHECK(p < n, "index " << p << " of " << n);
      CHECK(w[p] > 0, "picked index " << p << " of weight 0");
      break; }
    case 10: {  // randMultinomial
      if (n == 0) n = 1;
      const vector<double> w = genWeights(c, n);
      c.desc << "randMultinomial(" << k << ", " << showV(w) << ")"; c.nt(hasZero(w));
      vector<size_t> s = RT::randMultinomial(k, w); CHECK(s.size() == k, "sample size " << s.size());
      for (size_t x : s) { CHECK(x < n, "state " << x << " of " << n); CHECK(w[x] > 0, "state " << x << " of probability 0 drawn"); }
      break; }
    default: {  // integers and coins
      c.desc << "giveIntRandomNumberBetweenZeroAndEntry(" << n << ") in 4 integer types, flipCoin(0), flipCoin(1)"; c.nt(n == 0);
      if (n == 0) {
        int r = 0;
        try { RT::giveIntRandomNumberBetweenZeroAndEntry<size_t>(0); } catch (Exception&) { ++r; }
        try { RT::giveIntRandomNumberBetweenZeroAndEntry<int>(0); } catch (Exception&) { ++r; }
        CHECK(r == 2, "entry = 0 did not raise");
      } else {
        for (int rep = 0; rep < 8; ++rep) {
          size_t a = RT::giveIntRandomNumberBetweenZeroAndEntry<size_t>(n); int b = RT::giveIntRandomNumberBetweenZeroAndEntry<int>(static_cast<int>(n));
          unsigned d = RT::giveIntRandomNumberBetweenZeroAndEntry<unsigned>(static_cast<unsigned>(n)); long e = RT::giveIntRandomNumberBetweenZeroAndEntry<long>(static_cast<long>(n));
          CHECK(a < n && b >= 0 && b < static_cast<int>(n) && d < n && e >= 0 && e < static_cast<long>(n), "value outside [0," << n << "[: " << a << " " << b << " " << d << " " << e);
        }
      }
      for (int rep = 0; rep < 8; ++rep) CHECK(!RT::flipCoin(0.) && RT::flipCoin(1.), "flipCoin(0) was true or flipCoin(1) false");
      break; }
  }
  c.desc << " seed " << seed;
}

LAW(P_freq, RC, 78, 390, 40, "non-uniform weights, or sampling without replacement") {
  uint32_t seed = genSeed(c); int api = static_cast<int>(c.below(13)); size_t n = static_cast<size_t>(c.irange(1, 12));
  vector<int> v = source(n); const vector<int>& cv = v; vector<double> cnt, pr; ostringstream what;
  bool weightedApi = (api >= 4 && api <= 9);
  vector<double> w = weightedApi ? genWeights(c, n) : vector<double>(n, 1.0);
  bool nonUniform = false; for (double x : w) nonUniform |= x != w[0];
  RT::setSeed(seed);
  auto tally = [&](int e) { cnt[static_cast<size_t>(e - 100)] += 1; };
  cnt.assign(n, 0); pr = w;
  switch (api) {
    case 0: what << "pickOne(v[" << n << "], true)"; for (size_t i = 0; i < NDRAW; ++i) tally(RT::pickOne(v, true)); break;
    case 1: what << "pickOne(const v[" << n << "])"; for (size_t i = 0; i < NDRAW; ++i) tally(RT::pickOne(cv)); break;
    case 2: { size_t k = 1 + c.below(14); what << "getSample(v[" << n << "], out[" << k << "], true), all positions"; vector<int> out(k); for (size_t i = 0; i < NDRAW / k; ++i) { RT::getSample(cv, out, true); for (int e : out) tally(e); } break; }
    case 3: {
      size_t k = 1 + c.below(n); nonUniform = true;
      if (n <= 4 && k == n) {  // the whole arrangement is uniform over the n! permutations
        what << "getSample(v[" << n << "], out[" << n << "], false), the permutation"; map<vector<int>, double> m; vector<int> out(k);
        for (size_t i = 0; i < NDRAW; ++i) { RT::getSample(cv, out, false); m[out] += 1; }
        vector<int> p = v; cnt.clear(); pr.clear(); do { cnt.push_back(m.count(p) ? m[p] : 0); pr.push_back(1); } while (next_permutation(p.begin(), p.end()));
      } else {
        size_t pos = c.below(k); what << "getSample(v[" << n << "], out[" << k << "], false), element at position " << pos; vector<int> out(k);
        for (size_t i = 0; i < NDRAW; ++i) { RT::getSample(cv, out, false); tally(out[pos]); }
      }
      break; }
    case 4: what << "pickOne(v, w=" << showV(w) << ", true)"; for (size_t i = 0; i < NDRAW; ++i) { vector<double> ww = w; tally(RT::pickOne(v, ww, true)); } break;
    case 5: { what << "pickOne(const v, const w=" << showV(w) << ")"; const vector<double>& cw = w; for (size_t i = 0; i < NDRAW; ++i) tally(RT::pickOne(cv, cw)); break; }
    case 6: { size_t k = 1 + c.below(14); what << "getSample(v, w=" << showV(w) << ", out[" << k << "], true), all positions"; vector<int> out(k); for (size_t i = 0; i < NDRAW / k; ++i) { RT::getSample(cv, w, out, true); for (int e : out) tally(e); } break; }
    case 7: {  // without replacement: the first two positions follow w_i/W * w_j/(W - w_i)
      size_t npos = 0; double W = 0; for (double x : w) { npos += x > 0; W += x; }
      size_t k = min<size_t>(npos, 1 + c.below(3)); nonUniform = true;
      what << "getSample(v, w=" << showV(w) << ", out[" << k << "], false), " << (k >= 2 ? "first two positions" : "first position"); vector<int> out(k);
      if (k >= 2) { cnt.assign(n * n, 0); pr.assign(n * n, 0); for (size_t i = 0; i < n; ++i) for (size_t j = 0; j < n; ++j) if (i != j && w[i] > 0 && w[j] > 0) pr[i * n + j] = w[i] / W * w[j] / (W - w[i]); }
      for (size_t i = 0; i < NDRAW; ++i) { RT::getSample(cv, w, out, false); if (k >= 2) cnt[static_cast<size_t>(out[0] - 100) * n + static_cast<size_t>(out[1] - 100)] += 1; else tally(out[0]); }
      break; }
    case 8: {
      vector<double> cs(n); double tot = 0, s = 0; for (double x : w) tot += x; for (size_t i = 0; i < n; ++i) { s += w[i]; cs[i] = s / tot; } cs[n - 1] = 1;
      what << "pickFromCumSum(" << showV(cs) << ")"; for (size_t i = 0; i < NDRAW; ++i) { size_t p = RT::pickFromCumSum(cs); CHECK(p < n, "index " << p); cnt[p] += 1; }
      break; }
    case 9: { what << "randMultinomial(" << NDRAW << ", " << showV(w) << ")"; for (size_t x : RT::randMultinomial(NDRAW, w)) { CHECK(x < n, "state " << x << " of " << n); cnt[x] += 1; } break; }
    case 10: {
      double p = c.pick({0.5, 0.1, 0.25, 0.9, 0.01, 0.75}); bool dflt = c.oneIn(4); if (dflt) p = 0.5; nonUniform = p != 0.5;
      what << (dflt ? "flipCoin() default" : "flipCoin(") << p << ")"; cnt.assign(2, 0); pr = {1 - p, p};
      for (size_t i = 0; i < NDRAW; ++i) cnt[(dflt ? RT::flipCoin() : RT::flipCoin(p)) ? 1 : 0] += 1;
      break; }
    case 11: {
      bool asInt = c.flag(); what << "giveIntRandomNumberBetweenZeroAndEntry<" << (asInt ? "int" : "size_t") << ">(" << n << ")";
      for (size_t i = 0; i < NDRAW; ++i) { size_t r = asInt ? static_cast<size_t>(RT::giveIntRandomNumberBetweenZeroAndEntry<int>(static_cast<int>(n))) : RT::giveIntRandomNumberBetweenZeroAndEntry<size_t>(n); CHECK(r < n, "value " << r); cnt[r] += 1; }
      break; }
    default: what << "pickOne(v[" << n << "], false) on a fresh copy"; nonUniform = true; for (size_t i = 0; i < NDRAW; ++i) { vector<int> u = v; tally(RT::pickOne(u, false)); } break;
  }
  c.desc << what.str() << " seed " << seed; c.nt(nonUniform);
  Gof g = gof(cnt, pr); CHECK_GOF(c, g, what.str() << ": counts " << showV(cnt) << " vs weights " << showV(pr));
}

// ====================================================================================================================
// 6. contingency tables
// ====================================================================================================================
namespace {
void rcontCase(vf::Ctx& c, const vector<size_t>& rows, const vector<size_t>& cols, uint32_t seed, int ncalls) {
  ContingencyTableGenerator gen(rows, cols);
  RT::setSeed(seed);
  guardRcont2(c, rows, cols, ncalls);
  for (int k = 0; k < ncalls; ++k) { RowMatrix<size_t> t = gen.rcont2(); checkTable(t, rows, cols, k == 0 ? "first rcont2()" : "repeated rcont2() on the same generator"); }
}
}  // namespace

// all margin pairs with 2-3 rows/columns and total <= 8, 4 seeds each (7512 pairs)
LAW(T_margins_enum, ENUM, 8, 8, 0, "a zero margin, or one row and one column holding more than half of the total") {
  static const uint32_t SEEDS[4] = {0u, 1u, 0x9e3779b9u, 0xfffffffeu};
  size_t N = c.below(9), nr = 2 + c.below(2), nc = 2 + c.below(2);
  vector<size_t> rows(nr), cols(nc); size_t rest = N;
  for (size_t i = 0; i + 1 < nr; ++i) { rows[i] = c.below(rest + 1); rest -= rows[i]; } rows[nr - 1] = rest; rest = N;
  for (size_t j = 0; j + 1 < nc; ++j) { cols[j] = c.below(rest + 1); rest -= cols[j]; } cols[nc - 1] = rest;
  c.desc << "rows " << showZ(rows) << " cols " << showZ(cols);
  c.shardPoint();
  uint32_t seed = SEEDS[c.below(4)]; c.desc << " seed " << seed;
  bool z = false; for (size_t r : rows) z |= r == 0; for (size_t x : cols) z |= x == 0;
  c.nt(z || (2 * *max_element(rows.begin(), rows.end()) > N && 2 * *max_element(cols.begin(), cols.end()) > N));
  rcontCase(c, rows, cols, seed, 3);
}

LAW(T_margins, RC, 20000, 400000, 48, "a zero margin, a dominant cell, or more than 3 rows or columns") {
  uint32_t seed = genSeed(c); size_t nr = static_cast<size_t>(c.irange(2, 5)), nc = static_cast<size_t>(c.irange(2, 5));
  vector<size_t> rows(nr, 0), cols(nc, 0); int style = static_cast<int>(c.weighted({4, 2, 2, 1}));
  if (style == 0 || style == 2) {  // margins of a random table (style 2: one dominant cell)
    size_t cap = 200 / (nr * nc);
    for (size_t i = 0; i < nr; ++i) for (size_t j = 0; j < nc; ++j) { size_t v = c.below(cap + 1); if (style == 2) v = c.below(3); rows[i] += v; cols[j] += v; }
    if (style == 2) { size_t i = c.below(nr), j = c.below(nc), v = 20 + c.below(120); rows[i] += v; cols[j] += v; }
  } else {  // independent compositions of a total <= 200
    size_t N = c.below(201), rest = N;
    for (size_t i = 0; i + 1 < nr; ++i) { rows[i] = c.below(rest + 1); rest -= rows[i]; } rows[nr - 1] = rest; rest = N;
    for (size_t j = 0; j + 1 < nc; ++j) { cols[j] = c.below(rest + 1); rest -= cols[j]; } cols[nc - 1] = rest;
  }
  if (style == 3) {  // invalid input: totals differ, or a margin vector is too short -> Exception (constructor)
    bool shortv = c.flag();
    if (shortv) { if (c.flag()) rows.resize(c.below(2)); else cols.resize(c.below(2)); } else rows[c.below(nr)] += 1 + c.below(3);
    c.desc << "invalid margins rows " << showZ(rows) << " cols " << showZ(cols); c.nt(true);
    bool raised = false; try { ContingencyTableGenerator g(rows, cols); } catch (Exception&) { raised = true; }
    CHECK(raised, "constructor accepted " << (shortv ? "a margin vector with fewer than 2 entries" : "margins with different totals"));
    return;
  }
  c.desc << "rows " << showZ(rows) << " cols " << showZ(cols) << " seed " << seed;
  bool z = false; for (size_t r : rows) z |= r == 0; for (size_t x : cols) z |= x == 0;
  c.nt(z || style == 2 || nr > 3 || nc > 3);
  rcontCase(c, rows, cols, seed, 3);
}

// 2x2: the top-left cell is hypergeometric (1 test per case)
LAW(T_hyper2x2, RC, 12, 60, 8, "margins not all equal") {
  uint32_t seed = genSeed(c); long N = 2 + static_cast<long>(c.below(119)), r0 = 1 + static_cast<long>(c.below(static_cast<uint64_t>(N - 1))), c0 = 1 + static_cast<long>(c.below(static_cast<uint64_t>(N - 1)));
  vector<size_t> rows = {static_cast<size_t>(r0), static_cast<size_t>(N - r0)}, cols = {static_cast<size_t>(c0), static_cast<size_t>(N - c0)};
  c.desc << "2x2 rows " << showZ(rows) << " cols " << showZ(cols) << " seed " << seed << ", " << NDRAW << " tables"; c.nt(!(2 * r0 == N && 2 * c0 == N));
  if (startOutsideSupport(r0, c0, N)) c.excludeIfKnown(K_RCONT);
  long lo = max(0L, r0 + c0 - N), hi = min(r0, c0);
  vector<double> pr(static_cast<size_t>(hi - lo + 1)), cnt(pr.size(), 0);
  auto lch = [](long n, long k) { return lgammal(static_cast<LD>(n) + 1) - lgammal(static_cast<LD>(k) + 1) - lgammal(static_cast<LD>(n - k) + 1); };
  for (long k = lo; k <= hi; ++k) pr[static_cast<size_t>(k - lo)] = static_cast<double>(expl(lch(c0, k) + lch(N - c0, r0 - k) - lch(N, r0)));
  ContingencyTableGenerator gen(rows, cols); RT::setSeed(seed);
  for (size_t i = 0; i < NDRAW; ++i) {
    RowMatrix<size_t> t = gen.rcont2(); if (i < 50) checkTable(t, rows, cols, "rcont2()");
    long k = static_cast<long>(t(0, 0)); CHECK(k >= lo && k <= hi, "top-left cell " << k << " outside [" << lo << "," << hi << "]"); cnt[static_cast<size_t>(k - lo)] += 1;
  }
  Gof g = gof(cnt, pr); CHECK_GOF(c, g, "top-left cell of rcont2 on rows " << showZ(rows) << " cols " << showZ(cols) << " vs hypergeometric law");
}

LAW(T_test, RC, 12000, 240000, 60, "a zero margin (must raise), or the permutation variant") {
  uint32_t seed = genSeed(c); size_t nr = static_cast<size_t>(c.irange(2, 5)), nc = static_cast<size_t>(c.irange(2, 5)); unsigned nperm = c.flag() ? 50 : 0;
  vector<vector<size_t>> tab(nr, vector<size_t>(nc)); vector<size_t> rows(nr, 0), cols(nc, 0); size_t cap = 200 / (nr * nc);
  bool sparse = c.oneIn(3);
  for (size_t i = 0; i < nr; ++i) for (size_t j = 0; j < nc; ++j) { size_t v = sparse ? c.below(2) * c.below(cap + 1) : c.below(cap + 1); tab[i][j] = v; rows[i] += v; cols[j] += v; }
  c.desc << "ContingencyTableTest(table"; for (auto& r : tab) c.desc << " " << showZ(r); c.desc << ", nperm=" << nperm << ") seed " << seed;
  bool z = false; for (size_t r : rows) z |= r == 0; for (size_t x : cols) z |= x == 0;
  c.nt(z || nperm > 0);
  RT::setSeed(seed);
  if (z) { bool raised = false; try { ContingencyTableTest t(tab, nperm, false); } catch (Exception&) { raised = true; } CHECK(raised, "a table with an empty row or column was accepted"); return; }
  if (nperm) guardRcont2(c, rows, cols, static_cast<int>(nperm));
  ContingencyTableTest t(tab, nperm, false);
  double p = t.getPValue(), s = t.getStatistic();
  CHECK(p >= 0 && p <= 1, "p-value " << vf::dec(p) << " outside [0,1] (statistic " << s << ")");
  CHECK(s >= 0 && std::isfinite(s), "statistic " << s);
  CHECK(t.getDegreesOfFreedom() == static_cast<double>((nr - 1) * (nc - 1)), "df " << t.getDegreesOfFreedom());
  CHECK(t.getMarginRows() == rows && t.getMarginColumns() == cols, "margins reported by the test differ from the sums of the table");
}

static struct Init { Init() { vf::G().resetHook = [] { vf::quietBpp(); vf::installAudit(); }; } } init_;
VF_MAIN("C18")
