// C19 — simplex parametrisations always yield a probability vector and invert exactly.
// Laws (F) forward, (I) inverse, (J) injectivity, (C) copy independence, (O) ordered variant of DESIGN.md section 5/C19.
//
// References are written from the doc comment of bpp::Simplex (Simplex.h) / the mathematical definition of each coding:
//   global ratio : p_i = theta_i * prod_{j<i}(1-theta_j), p_n = prod_j (1-theta_j);      theta_i = p_i / (p_i+...+p_n)
//   local ratio  : alpha_k=(1-theta_k)/theta_k, p_i = alpha_1..alpha_{i-1}/(1+sum_k alpha_1..alpha_k); theta_i = p_i/(p_i+p_{i+1})
//   binary       : tree of conditional probabilities over the low bits of the 0-based index: the group of indices whose b low
//                  bits are `low` splits on bit b; theta_{low+2^b} is the share of the half with that bit set.
//   ordered      : v_i = sum_{j>=i} p_j / j.
#include "common/pbt.hpp"
#include "common/bppcommon.hpp"

#include <Bpp/Exceptions.h>
#include <Bpp/Numeric/ParameterList.h>
#include <Bpp/Numeric/Prob/Simplex.h>

using namespace bpp;
using namespace std;

namespace {

typedef long double LD;
const double EPS = DBL_EPSILON;

// ------------------------------------------------------------------ references
void binRec(size_t n, const vector<double>& th, size_t low, unsigned b, LD mass, vector<LD>& p) {
  size_t hi = low + (size_t(1) << b);          // smallest other member of the group {j<n : j mod 2^b == low}
  if (hi >= n) { p[low] = mass; return; }      // the group is the single index `low`
  LD t = th[hi - 1];                           // theta_{hi}: binary writing of hi is 1 followed by the b low bits
  binRec(n, th, hi, b + 1, mass * t, p);
  binRec(n, th, low, b + 1, mass * (1.0L - t), p);
}

// probabilities from parameters; *ovf is set when the local-ratio products leave the range of double
vector<LD> refForward(int method, const vector<double>& th, bool* ovf = nullptr) {
  size_t n = th.size() + 1; vector<LD> p(n, 0.0L);
  if (ovf) *ovf = false;
  if (method == 1) {
    LD m = 1;
    for (size_t i = 0; i + 1 < n; ++i) { p[i] = static_cast<LD>(th[i]) * m; m *= (1.0L - th[i]); }
    p[n - 1] = m;
  } else if (method == 2) {
    // products alpha_1..alpha_k as mant * 2^ex with mant in [1/2,1): 32 ratios of up to 2e323 leave the range of long double too
    vector<LD> mant(n); vector<long> ex(n); mant[0] = 0.5L; ex[0] = 1;
    for (size_t k = 0; k + 1 < n; ++k) {
      int sh = 0; mant[k + 1] = frexpl(mant[k] * ((1.0L - th[k]) / static_cast<LD>(th[k])), &sh); ex[k + 1] = ex[k] + sh;
    }
    long top = *max_element(ex.begin(), ex.end());
    LD den = 0;   // 1 + sum of the products, in units of 2^top (terms 2^-16000 below the largest vanish)
    for (size_t i = 0; i < n; ++i) den += ldexpl(mant[i], static_cast<int>(std::max(ex[i] - top, -16000L)));
    for (size_t i = 0; i < n; ++i) p[i] = ldexpl(mant[i] / den, static_cast<int>(std::max(ex[i] - top, -16400L)));
    if (ovf) *ovf = top > 1024 || ldexpl(den, static_cast<int>(top)) > static_cast<LD>(DBL_MAX);   // a product or their sum beyond DBL_MAX
  } else {
    binRec(n, th, 0, 0, 1.0L, p);
  }
  return p;
}

unsigned bitLen(size_t i) { unsigned b = 0; while (i) { ++b; i >>= 1; } return b; }

// parameters from probabilities (long double), and the mass each coordinate distributes
void refInverse(int method, const vector<LD>& p, vector<LD>& th, vector<LD>& mass) {
  size_t n = p.size(); th.assign(n - 1, 0); mass.assign(n - 1, 0);
  for (size_t i = 1; i < n; ++i) {   // parameter theta_i, 1-based
    if (method == 1) { LD tail = 0; for (size_t j = n; j-- > i - 1;) tail += p[j]; th[i - 1] = p[i - 1] / tail; mass[i - 1] = tail; }
    else if (method == 2) { mass[i - 1] = p[i - 1] + p[i]; th[i - 1] = p[i - 1] / mass[i - 1]; }
    else {
      unsigned b = bitLen(i); size_t mod = size_t(1) << b, half = mod >> 1, low = i - half; LD s1 = 0, s0 = 0;
      for (size_t j = 0; j < n; ++j) { if (j % mod == i) s1 += p[j]; if (j % mod == low) s0 += p[j]; }
      mass[i - 1] = s0 + s1; th[i - 1] = s1 / (s0 + s1);
    }
  }
}

vector<LD> refOrdered(const vector<LD>& p) {
  size_t n = p.size(); vector<LD> v(n);
  for (size_t i = 0; i < n; ++i) { LD s = 0; for (size_t j = n; j-- > i;) s += p[j] / static_cast<LD>(j + 1); v[i] = s; }
  return v;
}

LD sumLD(const vector<double>& v) { LD s = 0; for (double x : v) s += x; return s; }
vector<LD> toLD(const vector<double>& v) { return vector<LD>(v.begin(), v.end()); }

string showV(const vector<double>& v) { ostringstream o; o << "("; for (size_t i = 0; i < v.size(); ++i) o << (i ? " " : "") << vf::dec(v[i]); o << ")"; return o.str(); }

// ------------------------------------------------------------------ configuration
struct Cfg { int n; int method; bool allowNull; string prefix; };
const char* const PFX[] = {"Simplex.", "", "S.", "a.b.", "theta"};
const int FORCED[] = {2, 3, 4, 5, 7, 8, 9, 15, 16, 17, 31, 32, 33, 1};

Cfg genCfg(vf::Ctx& c, int minN = 1) {
  Cfg g;
  switch (c.weighted({5, 3, 2})) {
    case 0: g.n = c.irange(1, 17); break;
    case 1: g.n = c.pick(FORCED); break;
    default: g.n = c.irange(18, 33);
  }
  if (g.n < minN) g.n = minN;
  g.method = 1 + static_cast<int>(c.below(3));
  g.allowNull = c.flag();
  g.prefix = c.pick(PFX);
  return g;
}
string showCfg(const Cfg& g) {
  ostringstream o; o << "method " << g.method << " n " << g.n << (g.allowNull ? " allowNull" : "") << " prefix '" << g.prefix << "'"; return o.str();
}
bool powerOfTwo(int n) { return (n & (n - 1)) == 0; }

// ------------------------------------------------------------------ generators
const double PFLOOR = 1e-9;

// probability vector, entries >= 1e-9, |sum-1| <= 1e-15 (checked)
vector<double> genP(vf::Ctx& c, int n) {
  vector<LD> w(static_cast<size_t>(n));
  switch (c.weighted({3, 3, 3, 2, 2})) {
    case 0: for (auto& x : w) x = 1 + static_cast<double>(c.below(8)); break;               // small integers (0 -> uniform)
    case 1: for (auto& x : w) x = -std::log(1.0 - c.unit()) + 1e-12; break;                 // Dirichlet(1)
    case 2: for (auto& x : w) x = c.logu(1e-9, 1.0); break;                                  // log-uniform
    case 3: { size_t big = c.below(static_cast<uint64_t>(n)), big2 = c.below(static_cast<uint64_t>(n));   // spiky
      for (size_t i = 0; i < w.size(); ++i) w[i] = (i == big || i == big2) ? 1.0 : c.logu(1e-9, 1e-6); break; }
    default: { bool odd = c.flag();                                                          // alternating large / tiny
      for (size_t i = 0; i < w.size(); ++i) w[i] = ((i & 1) == (odd ? 1u : 0u)) ? c.real(0.5, 1.0) : c.logu(1e-9, 1e-5); }
  }
  vector<double> p(w.size());
  LD s = 0; for (LD x : w) s += x;
  for (size_t i = 0; i < w.size(); ++i) p[i] = std::max(static_cast<double>(w[i] / s), PFLOOR * (1 + 1e-6));
  s = sumLD(p);
  for (auto& x : p) x = static_cast<double>(x / s);
  for (int it = 0; it < 4; ++it) {   // put the rounding residue on the largest entry
    LD r = 1.0L - sumLD(p); if (fabsl(r) <= 2e-17L) break;
    size_t m = static_cast<size_t>(max_element(p.begin(), p.end()) - p.begin()); p[m] = static_cast<double>(p[m] + r);
  }
  LD r = fabsl(1.0L - sumLD(p));
  CHECK(r <= 1e-15L, "internal: generator could not normalise, residue " << static_cast<double>(r));
  for (double x : p) CHECK(x >= PFLOOR, "internal: generator entry below 1e-9: " << vf::dec(x));
  return p;
}

// The admissible values of one parameter. The statement quantifies over the OPEN unit cube for both flavours of the constraint
// (allowNull only closes the interval the parameter carries: ]0,1[ -> [0,1]; the end points themselves are outside the property, and
// the local-ratio coding divides by theta). In double that is DBL_TRUE_MIN (4.9e-324) <= theta <= 1-2^-53.
const double TMIN = 4.9406564584124654e-324, TMAX = 1 - DBL_EPSILON / 2;

// a coordinate from the part of (0,1) beyond 1e-9 of a border, down to the smallest positive doubles and up to 1 - ulp
double genFullCoord(vf::Ctx& c) {
  double t;
  switch (c.weighted({3, 2, 2, 1, 1})) {
    case 0: t = std::pow(10.0, -c.irange(9, 323)) * (1 + c.unit()); break;                       // any decade below 1e-9
    case 1: switch (c.below(4)) {                                                                 // landmarks of the double format
        case 0: t = std::ldexp(1.0, -c.irange(30, 1074)); break;                                  //   2^-k, subnormal from k = 1023
        case 1: t = TMIN * static_cast<double>(1 + c.below(8)); break;                            //   the first subnormals
        case 2: t = DBL_MIN * (c.flag() ? 1 + c.unit() : 1 - c.unit() / 2); break;                //   around the smallest normal
        default: t = (1 / DBL_MAX) * (0.25 + 4 * c.unit());                                       //   around 1/DBL_MAX (1/theta overflows below)
      } break;
    case 2: t = 1 - (DBL_EPSILON / 2) * static_cast<double>(1 + c.below(16)); break;              // 1 - j ulp
    case 3: t = 1 - std::ldexp(1.0, -c.irange(30, 53)); break;                                    // 1 - 2^-k
    default: t = 1 - c.logu(1.2e-16, 1e-9);
  }
  if (!(t >= TMIN)) t = TMIN;
  if (!(t <= TMAX)) t = TMAX;
  return t;
}

// one coordinate in (0,1). mode 0 mixed, 1 all close to 0, 2 all close to 1 (exponent e shared by the vector).
// extreme: the whole admissible range (forward laws); otherwise at least 1e-9 away from the borders.
double genCoord(vf::Ctx& c, int mode, int e, bool extreme) {
  static const double DY[] = {0.5, 0.25, 0.75, 0.125, 0.375, 0.625, 0.875, 0.0625, 0.9375};
  double t;
  if (mode == 1) t = std::pow(10.0, -e) * (1 + c.unit());
  else if (mode == 2) t = 1 - std::pow(10.0, -std::min(e, 16)) * (1 + c.unit());
  else switch (c.weighted({4, 3, 2, 2, 1})) {
    case 0: t = c.pick(DY); break;
    case 1: t = c.real(0.02, 0.98); break;
    case 2: t = c.logu(1e-9, 1e-2); break;
    case 3: t = 1 - c.logu(1e-9, 1e-2); break;
    default:
      if (extreme && c.weighted({1, 2})) t = genFullCoord(c);
      else { double m = extreme ? c.logu(1e-15, 1e-9) : c.logu(1e-9, 1e-6); t = c.flag() ? 1 - m : m; }
  }
  if (!(t > 0)) t = extreme ? TMIN : 1e-15;
  if (!(t < 1)) t = extreme ? TMAX : 1 - 1e-15;
  return t;
}
struct ThGen { int mode = 0, e = 9; };
ThGen genThMode(vf::Ctx& c, bool extreme) {
  ThGen g; g.mode = static_cast<int>(c.weighted({10, 1, 1}));
  if (g.mode) {
    g.e = extreme ? c.irange(3, 15) : c.irange(3, 9);
    if (extreme && c.oneIn(2)) g.e = c.irange(16, 323);   // every decade down to the subnormals (close to 1: capped at 1 - ulp)
  }
  return g;
}

bool nearEdge(const vector<double>& th) { for (double t : th) if (t < 1e-6 || t > 1 - 1e-6) return true; return false; }
bool smallEntry(const vector<double>& p) { for (double x : p) if (x < 1e-6) return true; return false; }

// ------------------------------------------------------------------ observation helpers
string thName(size_t k1) { return "theta" + to_string(k1); }

vector<double> readTheta(const Simplex& s) {
  vector<double> th; for (size_t k = 1; k < s.dimension(); ++k) th.push_back(s.getParameterValue(thName(k))); return th;
}

// every parameter named prefix+theta<k>, constrained to the documented interval and strictly inside (0,1)
void auditParams(const Simplex& s, const Cfg& g, const string& prefix, const char* where) {
  CHECK(s.dimension() == static_cast<size_t>(g.n), where << ": dimension() = " << s.dimension() << " for " << g.n << " probabilities");
  CHECK(s.getMethod() == g.method, where << ": getMethod() = " << s.getMethod());
  CHECK(s.getNamespace() == prefix, where << ": getNamespace() = '" << s.getNamespace() << "'");
  CHECK(s.getNumberOfParameters() == static_cast<size_t>(g.n - 1), where << ": " << s.getNumberOfParameters() << " parameters for " << g.n << " probabilities");
  const ParameterList& pl = s.getParameters();
  for (size_t k = 1; k < static_cast<size_t>(g.n); ++k) {
    const Parameter& q = pl[k - 1];
    CHECK(q.getName() == prefix + thName(k), where << ": parameter " << k << " is named '" << q.getName() << "'");
    double v = q.getValue();
    CHECK(v > 0 && v < 1, where << ": " << q.getName() << " = " << vf::dec(v) << " is not strictly inside (0,1)");
    CHECK(q.hasConstraint(), where << ": " << q.getName() << " has no constraint");
    auto ic = dynamic_pointer_cast<const IntervalConstraint>(q.getConstraint());
    CHECK(ic && ic->getLowerBound() == 0 && ic->getUpperBound() == 1 && ic->strictLowerBound() == !g.allowNull && ic->strictUpperBound() == !g.allowNull,
          where << ": " << q.getName() << " carries constraint " << q.getConstraint()->getDescription());
    CHECK(q.getConstraint()->isCorrect(v), where << ": constraint rejects the stored value " << vf::dec(v));
    CHECK(vf::sameBits(s.getParameterValue(thName(k)), v), where << ": getParameterValue by short name differs from the list entry");
  }
}

// conditioning bound of DESIGN (I)
double condBound(const vector<double>& th) {
  LD s = static_cast<LD>(th.size() + 1);
  for (double t : th) s += 1.0L / std::min<LD>(t, 1.0L - t);
  return static_cast<double>(8 * static_cast<LD>(EPS) * s);
}

// forward law against the model parameters `th` (exact doubles held by the object)
void checkForward(vf::Ctx& c, const vector<double>& got, int method, const vector<double>& th, const char* where) {
  size_t n = th.size() + 1;
  CHECK(got.size() == n, where << ": getFrequencies() has " << got.size() << " entries, dimension " << n);
  bool ovf = false; vector<LD> ref = refForward(method, th, &ovf);
  if (ovf) c.excludeIfKnown("C19-local-overflow");
  LD sum = 0;
  for (size_t i = 0; i < n; ++i) {
    CHECK(got[i] >= 0, where << ": prob(" << i << ") = " << vf::dec(got[i]) << " is not a non-negative number; theta " << showV(th));
    sum += got[i];
    LD tol = 1e-12L * fabsl(ref[i]) + 1e-300L, err = fabsl(static_cast<LD>(got[i]) - ref[i]);
    c.observe("forward_err_over_tol", static_cast<double>(err / tol));
    CHECK(err <= tol, where << ": prob(" << i << ") = " << vf::dec(got[i]) << " but the documented formula gives " << vf::dec(static_cast<double>(ref[i])) << "; method " << method << " theta " << showV(th));
  }
  double stol = 8 * static_cast<double>(n) * EPS;
  c.observe("forward_sum_over_tol", static_cast<double>(fabsl(sum - 1) / stol));
  CHECK(fabsl(sum - 1) <= stol, where << ": probabilities sum to 1" << (sum > 1 ? "+" : "-") << static_cast<double>(fabsl(sum - 1)) << "; method " << method << " theta " << showV(th));
}

void checkProbAccessor(const Simplex& s, const char* where) {
  const vector<double>& f = s.getFrequencies();
  for (size_t i = 0; i < f.size(); ++i) CHECK(vf::sameBits(s.prob(i), f[i]), where << ": prob(" << i << ") differs from getFrequencies()[" << i << "]");
}

// inverse law: frequencies equal p within the conditioning bound, and the reported parameters encode p
void checkInverse(vf::Ctx& c, const Simplex& s, const Cfg& g, const string& prefix, const vector<double>& p, const char* where) {
  auditParams(s, g, prefix, where);
  vector<double> th = readTheta(s);
  double B = condBound(th);
  const vector<double>& f = s.getFrequencies();
  CHECK(f.size() == p.size(), where << ": getFrequencies() has " << f.size() << " entries");
  vector<LD> enc = refForward(g.method, th);
  for (size_t i = 0; i < p.size(); ++i) {
    double e1 = std::fabs(f[i] - p[i]);
    c.observe(string("inverse_err_over_bound_m") + to_string(g.method), e1 / B);
    c.observe(string("inverse_abs_err_m") + to_string(g.method), e1);
    CHECK(e1 <= B, where << ": getFrequencies()[" << i << "] = " << vf::dec(f[i]) << " but " << vf::dec(p[i]) << " was given (|diff| " << e1 << " > conditioning bound " << B << "); p " << showV(p));
    double e2 = static_cast<double>(fabsl(enc[i] - static_cast<LD>(p[i])));
    c.observe(string("encode_err_over_bound_m") + to_string(g.method), e2 / B);
    CHECK(e2 <= B, where << ": the reported parameters " << showV(th) << " encode p[" << i << "] = " << vf::dec(static_cast<double>(enc[i])) << " under the documented formula, given " << vf::dec(p[i]) << " (bound " << B << ")");
  }
  checkProbAccessor(s, where);
}

// set parameters of `s` to `th` for the coordinates in `idx` through one of the public routes
void applyTheta(vf::Ctx& c, Simplex& s, const string& prefix, const vector<double>& th, const vector<size_t>& idx, int route) {
  if (route == 0) { for (size_t k : idx) s.setParameterValue(thName(k + 1), th[k]); return; }
  ParameterList pl;
  for (size_t k : idx) pl.addParameter(Parameter(prefix + thName(k + 1), th[k]));
  if (route == 1) s.matchParametersValues(pl);
  else if (route == 2) s.setParametersValues(pl);
  else s.setAllParametersValues(pl);
  (void)c;
}
const char* const ROUTE[] = {"setParameterValue", "matchParametersValues", "setParametersValues", "setAllParametersValues"};

vector<size_t> allIdx(size_t m) { vector<size_t> v(m); for (size_t i = 0; i < m; ++i) v[i] = i; return v; }

}  // namespace

// ------------------------------------------------------------------ (F) forward, exhaustive on a dyadic lattice
// theta in {1/2,1/4,3/4}: all products are exact in double for the global and the binary coding -> equality demanded.
LAW(F_dyadic_enum, ENUM, 1, 1, 0, "n >= 3 and not all parameters equal 1/2") {
  static const double LAT[] = {0.5, 0.25, 0.75};
  Cfg g; g.n = c.irange(1, 7); g.method = 1 + static_cast<int>(c.below(3)); g.allowNull = c.flag(); g.prefix = "Simplex.";
  bool route = c.flag();
  vector<double> th; bool nonHalf = false;
  for (int k = 1; k < g.n; ++k) { th.push_back(LAT[c.below(3)]); nonHalf |= th.back() != 0.5; }
  c.desc << showCfg(g) << " " << ROUTE[route ? 1 : 0] << " theta " << showV(th);
  c.nt(g.n >= 3 && nonHalf);
  Simplex s(static_cast<size_t>(g.n), static_cast<unsigned short>(g.method), g.allowNull);
  auditParams(s, g, g.prefix, "uniform constructor");
  for (int i = 0; i < g.n; ++i) CHECK(std::fabs(s.prob(static_cast<size_t>(i)) - 1.0 / g.n) <= 4 * EPS, "uniform constructor: prob(" << i << ") = " << vf::dec(s.prob(static_cast<size_t>(i))));
  applyTheta(c, s, g.prefix, th, allIdx(th.size()), route ? 1 : 0);
  vector<double> got = s.getFrequencies();
  checkForward(c, got, g.method, th, "after update");
  if (g.method != 2) {   // every product is exact (if matchParametersValues saw no change the entries still hold 1/n = the product)
    vector<LD> ref = refForward(g.method, th);
    for (size_t i = 0; i < got.size(); ++i) CHECK(static_cast<LD>(got[i]) == ref[i], "prob(" << i << ") = " << vf::hexd(got[i]) << " differs from the exact product " << vf::hexd(static_cast<double>(ref[i])) << " for dyadic theta " << showV(th));
  }
  auditParams(s, g, g.prefix, "after update");
  CHECK(vf::auditOffences() == 0, "run-time monitor: " << vf::auditFirst());
}

// ------------------------------------------------------------------ (F) forward, random histories
LAW(F_forward, RC, 24000, 1000000, 640, "n not a power of two with the binary coding, or a coordinate within 1e-6 of 0 or 1", 120) {   // 120 s per-case watchdog: a loaded machine stalled unfinished cases past the default 30 s
  Cfg g = genCfg(c);
  size_t m = static_cast<size_t>(g.n - 1);
  bool fromVector = c.oneIn(4);
  string prefix = g.prefix;
  c.desc << showCfg(g);
  unique_ptr<Simplex> sp;
  if (fromVector) { vector<double> p0 = genP(c, g.n); c.desc << " built from " << showV(p0); sp.reset(new Simplex(p0, static_cast<unsigned short>(g.method), g.allowNull, prefix)); }
  else { sp.reset(new Simplex(static_cast<size_t>(g.n), static_cast<unsigned short>(g.method), g.allowNull, prefix)); c.desc << " built uniform"; }
  Simplex& s = *sp;
  auditParams(s, g, prefix, "constructor");
  if (!fromVector) for (size_t i = 0; i < s.dimension(); ++i) CHECK(std::fabs(s.prob(i) - 1.0 / g.n) <= 4 * EPS, "uniform constructor: prob(" << i << ") = " << vf::dec(s.prob(i)) << " for n " << g.n);
  vector<double> th = readTheta(s);   // model: the doubles the object holds
  bool edge = false, recomputed = false;
  int nops = c.irange(1, 4);
  for (int op = 0; op < nops; ++op) {
    int kind = static_cast<int>(c.weighted({4, 3, 3, 1}));
    c.desc << "; ";
    if (kind == 3) {   // rename
      string np = c.pick(PFX); c.desc << "setNamespace('" << np << "')"; s.setNamespace(np); prefix = np;
    } else if (m == 0) {
      c.desc << "fireParameterChanged"; s.fireParameterChanged(s.getParameters()); recomputed = true;
    } else {
      ThGen tg = genThMode(c, true);
      vector<size_t> idx; int route;
      if (kind == 0) { idx = allIdx(m); route = static_cast<int>(c.below(4)); }
      else if (kind == 1) { idx.push_back(c.below(m)); route = static_cast<int>(c.below(3)); }
      else { for (size_t k = 0; k < m; ++k) if (c.flag()) idx.push_back(k); if (idx.empty()) idx.push_back(0); route = static_cast<int>(c.below(3)); }
      vector<double> before = th;
      for (size_t k : idx) th[k] = genCoord(c, tg.mode, tg.e, true);
      c.desc << ROUTE[route] << "{";
      for (size_t k : idx) c.desc << "theta" << k + 1 << "=" << vf::dec(th[k]) << " ";
      c.desc << "}";
      applyTheta(c, s, prefix, th, idx, route);
      if (route != 1 || before != th) recomputed = true;
    }
    edge |= nearEdge(th);
    auditParams(s, g, prefix, "after op");
    vector<double> now = readTheta(s);
    for (size_t k = 0; k < m; ++k) CHECK(vf::sameBits(now[k], th[k]), "theta" << k + 1 << " holds " << vf::dec(now[k]) << " after setting " << vf::dec(th[k]));
    if (recomputed) checkForward(c, s.getFrequencies(), g.method, th, "after op");
    checkProbAccessor(s, "after op");
  }
  c.nt((g.method == 3 && !powerOfTwo(g.n)) || edge);
  if (edge) c.label("edge_coordinate");
  CHECK(vf::auditOffences() == 0, "run-time monitor: " << vf::auditFirst());
}

// ------------------------------------------------------------------ (I) inverse
LAW(I_inverse, RC, 24000, 1000000, 400, "n not a power of two with the binary coding, or an entry below 1e-6", 120) {   // 120 s per-case watchdog: a loaded machine stalled unfinished cases past the default 30 s
  Cfg g = genCfg(c);
  vector<double> p = genP(c, g.n);
  c.desc << showCfg(g) << " p " << showV(p);
  c.nt((g.method == 3 && !powerOfTwo(g.n)) || smallEntry(p));
  if (smallEntry(p)) c.label("small_entry");
  unsigned short M = static_cast<unsigned short>(g.method);
  string prefix = g.prefix;
  // construction
  Simplex s(p, M, g.allowNull, prefix);
  checkInverse(c, s, g, prefix, p, "constructor");
  // the probabilities are a function of the parameters: a notification recomputes them
  if (c.flag()) { c.desc << "; notify"; s.fireParameterChanged(s.getParameters()); }
  else if (g.n > 1) { size_t k = 1 + c.below(static_cast<uint64_t>(g.n - 1)); c.desc << "; re-set theta" << k; s.setParameterValue(thName(k), s.getParameterValue(thName(k))); }
  checkInverse(c, s, g, prefix, p, "constructor + notification");
  checkForward(c, s.getFrequencies(), g.method, readTheta(s), "constructor + notification");
  // frequency setter on an object in another state
  unique_ptr<Simplex> tp;
  int start = static_cast<int>(c.below(3));
  if (start == 0) { tp.reset(new Simplex(static_cast<size_t>(g.n), M, g.allowNull, prefix)); c.desc << "; uniform object"; }
  else if (start == 1) { vector<double> q = genP(c, g.n); tp.reset(new Simplex(q, M, g.allowNull, prefix)); c.desc << "; object built from " << showV(q); }
  else { tp.reset(new Simplex(s)); c.desc << "; copy"; }
  Simplex& t = *tp;
  if (c.oneIn(4)) { prefix = c.pick(PFX); t.setNamespace(prefix); c.desc << " renamed '" << prefix << "'"; }
  if (start != 2 || c.flag()) {
    vector<double> thBefore = readTheta(t);
    t.setFrequencies(p); c.desc << " setFrequencies(p)";
    checkInverse(c, t, g, prefix, p, "setFrequencies");
    if (readTheta(t) != thBefore) checkForward(c, t.getFrequencies(), g.method, readTheta(t), "setFrequencies");   // recomputed from the new parameters
  }
  // a second vector through the same object, then back
  if (c.flag()) {
    vector<double> q = genP(c, g.n); c.desc << "; setFrequencies " << showV(q) << " and back";
    t.setFrequencies(q); checkInverse(c, t, g, prefix, q, "second setFrequencies");
    t.setFrequencies(p); checkInverse(c, t, g, prefix, p, "setFrequencies back");
  }
  // sums clearly different from one are refused (bpp::Exception), state untouched
  {
    static const double DEV[] = {1e-3, -1e-3, 1e-2, -1e-2, 0.5, -0.5, 1.0};
    double d = c.pick(DEV); vector<double> bad = p; for (auto& x : bad) x *= (1 + d);
    c.desc << "; sum " << vf::dec(static_cast<double>(sumLD(bad)));
    vector<double> f0 = t.getFrequencies(), th0 = readTheta(t);
    bool raised = false;
    try { t.setFrequencies(bad); } catch (Exception&) { raised = true; }
    CHECK(raised, "setFrequencies accepted a vector summing to " << vf::dec(static_cast<double>(sumLD(bad))));
    raised = false;
    try { Simplex u(bad, M, g.allowNull, prefix); } catch (Exception&) { raised = true; }
    CHECK(raised, "the constructor accepted a vector summing to " << vf::dec(static_cast<double>(sumLD(bad))));
    vector<double> f1 = t.getFrequencies(), th1 = readTheta(t);
    for (size_t i = 0; i < f0.size(); ++i) CHECK(vf::sameBits(f0[i], f1[i]), "a refused setFrequencies changed prob(" << i << ")");
    for (size_t i = 0; i < th0.size(); ++i) CHECK(vf::sameBits(th0[i], th1[i]), "a refused setFrequencies changed theta" << i + 1);
  }
  CHECK(vf::auditOffences() == 0, "run-time monitor: " << vf::auditFirst());
}

// ------------------------------------------------------------------ (J) injectivity: left inverse
LAW(J_left_inverse, RC, 16000, 600000, 200, "n not a power of two with the binary coding, or a coordinate within 1e-6 of 0 or 1, or an entry below 1e-6", 120) {   // 120 s per-case watchdog: a loaded machine stalled unfinished cases past the default 30 s
  Cfg g = genCfg(c, 2);
  size_t m = static_cast<size_t>(g.n - 1);
  unsigned short M = static_cast<unsigned short>(g.method);
  // admissible theta whose image has entries >= ~1e-9: either the (rounded) preimage of a generated p, or a direct draw
  // pulled towards the centre of the simplex when its image leaves the quantified range
  vector<double> th(m);
  bool viaP = c.flag();
  vector<LD> pr;
  if (viaP) pr = toLD(genP(c, g.n));
  else {
    ThGen tg = genThMode(c, false);
    for (auto& t : th) t = genCoord(c, tg.mode, tg.e, false);
    pr = refForward(g.method, th);
    LD mn = *min_element(pr.begin(), pr.end());
    if (mn < 2e-9L) { LD lam = 2e-9L * g.n; for (auto& x : pr) x = (1 - lam) * x + lam / g.n; viaP = true; }
  }
  vector<LD> thL, massL;
  if (viaP) { refInverse(g.method, pr, thL, massL); for (size_t k = 0; k < m; ++k) th[k] = static_cast<double>(thL[k]); }
  for (double t : th) CHECK(t > 0 && t < 1, "internal: generated theta outside (0,1)");
  // mass each coordinate distributes, for the doubles actually used
  vector<LD> pref = refForward(g.method, th);
  refInverse(g.method, pref, thL, massL);
  c.desc << showCfg(g) << " theta " << showV(th);
  vector<double> prefD; for (LD x : pref) prefD.push_back(static_cast<double>(x));
  c.nt((g.method == 3 && !powerOfTwo(g.n)) || nearEdge(th) || smallEntry(prefD));
  Simplex s(static_cast<size_t>(g.n), M, g.allowNull, g.prefix);
  int route = static_cast<int>(c.below(4));
  c.desc << " via " << ROUTE[route];
  applyTheta(c, s, g.prefix, th, allIdx(m), route);
  vector<double> p = s.getFrequencies();
  Simplex r(p, M, g.allowNull, g.prefix);
  auditParams(r, g, g.prefix, "rebuilt from getFrequencies()");
  vector<double> back = readTheta(r);
  for (size_t k = 0; k < m; ++k) {
    double tol = static_cast<double>(64.0L * g.n * EPS / massL[k]);
    double err = std::fabs(back[k] - th[k]);
    c.observe(string("left_inverse_err_over_tol_m") + to_string(g.method), err / tol);
    c.observe(string("left_inverse_abs_err_m") + to_string(g.method), err);
    CHECK(err <= tol, "theta" << k + 1 << " = " << vf::dec(th[k]) << " came back as " << vf::dec(back[k]) << " through p = " << showV(p) << " (|diff| " << err << " > " << tol << ", mass " << static_cast<double>(massL[k]) << ")");
  }
  // and through the frequency setter of another object
  Simplex r2(static_cast<size_t>(g.n), M, g.allowNull, g.prefix);
  r2.setFrequencies(p);
  vector<double> back2 = readTheta(r2);
  for (size_t k = 0; k < m; ++k) {
    double tol = static_cast<double>(64.0L * g.n * EPS / massL[k]);
    CHECK(std::fabs(back2[k] - th[k]) <= tol, "setFrequencies: theta" << k + 1 << " = " << vf::dec(th[k]) << " came back as " << vf::dec(back2[k]) << " (tol " << tol << ")");
  }
  CHECK(vf::auditOffences() == 0, "run-time monitor: " << vf::auditFirst());
}

// ------------------------------------------------------------------ (J) injectivity: separation
LAW(J_separation, RC, 10000, 400000, 120, "n not a power of two with the binary coding, or the two vectors differ by less than 1e-4", 120) {   // 120 s per-case watchdog: a loaded machine stalled unfinished cases past the default 30 s
  Cfg g = genCfg(c, 2);
  size_t m = static_cast<size_t>(g.n - 1);
  vector<double> a(m);
  for (auto& t : a) t = c.flag() ? c.real(0.02, 0.98) : 0.5;
  size_t k = c.below(m);
  static const double STEP[] = {1e-6, 1e-5, 1e-3, 0.1, 0.5};
  double d = c.pick(STEP) * (1 + c.unit());
  vector<double> b = a;
  if (c.flag()) d = -d;
  if (a[k] + d > 0.98 || a[k] + d < 0.02) d = -d;
  if (a[k] + d > 0.98 || a[k] + d < 0.02) d = (a[k] < 0.5 ? 1e-6 : -1e-6);
  b[k] = a[k] + d;
  c.desc << showCfg(g) << " theta " << showV(a) << " vs theta" << k + 1 << " = " << vf::dec(b[k]);
  CHECK(std::fabs(b[k] - a[k]) >= 0.999e-6 && b[k] >= 0.02 && b[k] <= 0.98, "internal: separation generator");
  c.nt((g.method == 3 && !powerOfTwo(g.n)) || std::fabs(d) < 1e-4);
  unsigned short M = static_cast<unsigned short>(g.method);
  Simplex s(static_cast<size_t>(g.n), M, g.allowNull, g.prefix), t(static_cast<size_t>(g.n), M, g.allowNull, g.prefix);
  applyTheta(c, s, g.prefix, a, allIdx(m), 0);
  bool sameObject = c.flag();
  vector<double> pa = s.getFrequencies(), pb;
  if (sameObject) { s.setParameterValue(thName(k + 1), b[k]); pb = s.getFrequencies(); }
  else { applyTheta(c, t, g.prefix, b, allIdx(m), 1); pb = t.getFrequencies(); }
  double best = 0;
  for (size_t i = 0; i < pa.size(); ++i) { double mx = std::max(std::fabs(pa[i]), std::fabs(pb[i])); if (mx > 0) best = std::max(best, std::fabs(pa[i] - pb[i]) / mx); }
  c.observe("separation_1e-10_over_rel_diff", 1e-10 / best);
  CHECK(best > 1e-10, "parameter vectors differing by " << d << " in theta" << k + 1 << " give the same probabilities (largest relative difference " << best << ")");
  CHECK(vf::auditOffences() == 0, "run-time monitor: " << vf::auditFirst());
}

// ------------------------------------------------------------------ (J) injectivity over the whole admissible range
// Parameters anywhere in [DBL_TRUE_MIN, 1-2^-53]; everything is compared RELATIVELY, per coordinate, on the side of the border the
// parameter is close to (theta when theta <= 1/2, 1-theta -- an exact double there -- otherwise).
//
// Coordinate k splits a mass into two branches, theta_k = up_k/(up_k+down_k):
//   global ratio: up = p_k, down = p_{k+1}+...+p_n;  local ratio: up = p_k, down = p_{k+1};  binary: the two halves of its group.
// up, down are sums of probabilities; when the library returns every probability with relative error <= d, both sums and hence
// theta_k AND 1-theta_k come back (documented inverse formula, evaluated here in long double) with relative error <= 2d/(1-d).
// d from the forward formulae (u = 2^-53, theta exact, fl(1-theta) one rounding):
//   global ratio: at most n-1 factors fl(1-theta_j) and n-1 products                                  d <= 2n u     -> 2d <= 2n eps
//   local ratio : each ratio alpha_k two roundings, one per running product and per rescaling of it
//                 (<= 4.5n u per term), the sum of n positive terms carrying the same, one division  d <= 9n u     -> 2d <= 9n eps
//   binary      : at most ceil(log2 n) <= 6 factors, each possibly fl(1-theta)                        d <= 12 u     -> 2d <= 12 eps
// asserted with the slack below (4n, 16n, 32 eps). Products only shrink (the local ratio is normalised by a sum not below its largest term), so a
// probability is touched by underflow only when its own value is below DBL_MIN: a coordinate is judged only when the reference
// value of both its branches is >= 1e-290 (the library legitimately returns 0 / subnormals below that, nothing is asserted there).
namespace {
struct Branch { LD up, down; };
vector<Branch> refBranches(int method, const vector<LD>& p) {
  size_t n = p.size(); vector<Branch> b(n - 1);
  for (size_t i = 1; i < n; ++i) {   // parameter theta_i, 1-based
    LD up = 0, down = 0;
    if (method == 1) { up = p[i - 1]; for (size_t j = n; j-- > i;) down += p[j]; }
    else if (method == 2) { up = p[i - 1]; down = p[i]; }
    else {
      unsigned bl = bitLen(i); size_t mod = size_t(1) << bl, low = i - (mod >> 1);
      for (size_t j = 0; j < n; ++j) { if (j % mod == i) up += p[j]; if (j % mod == low) down += p[j]; }
    }
    b[i - 1] = Branch{up, down};
  }
  return b;
}
double relTolJ(int method, int n) { return (method == 1 ? 4.0 * n : method == 2 ? 16.0 * n : 32.0) * EPS; }
const LD RESOLVED = 1e-290L;

// b = a moved by `f` on the side of the border it is close to; always inside [TMIN, TMAX]
double scaleSmallSide(double a, double f) {
  double b = a <= 0.5 ? a * f : 1 - (1 - a) * f;
  if (!(b >= TMIN && b <= TMAX)) b = a <= 0.5 ? a / f : 1 - (1 - a) / f;
  return b;
}
double stepUlps(double a, uint64_t s, bool up) {
  uint64_t bits; memcpy(&bits, &a, sizeof bits);
  if (up) bits += s; else bits = bits > s ? bits - s : 0;
  double b; memcpy(&b, &bits, sizeof b);
  return b;
}
}  // namespace

LAW(J_full_range, RC, 14000, 600000, 240, "a coordinate closer than 1e-9 to 0 or 1 is judged by the inverse formula, or is the one a resolved pair differs in", 120) {
  Cfg g = genCfg(c, 2);
  size_t m = static_cast<size_t>(g.n - 1);
  unsigned short M = static_cast<unsigned short>(g.method);
  // ---- the parameter vector: one / some / all coordinates from the full range, the others ordinary
  vector<double> a(m);
  int pat = static_cast<int>(c.weighted({4, 3, 2}));
  size_t k0 = c.below(m);
  for (size_t k = 0; k < m; ++k) {
    bool full = pat == 2 || (pat == 0 ? k == k0 : c.flag());
    a[k] = full ? genFullCoord(c) : genCoord(c, 0, 9, false);
  }
  int route = static_cast<int>(c.below(4));
  c.desc << showCfg(g) << " theta " << showV(a) << " via " << ROUTE[route];
  for (double t : a) CHECK(t >= TMIN && t <= TMAX, "internal: generated theta outside (0,1)");
  Simplex s(static_cast<size_t>(g.n), M, g.allowNull, g.prefix);
  applyTheta(c, s, g.prefix, a, allIdx(m), route);
  auditParams(s, g, g.prefix, "after update");
  vector<double> now = readTheta(s);
  for (size_t k = 0; k < m; ++k) CHECK(vf::sameBits(now[k], a[k]), "theta" << k + 1 << " holds " << vf::dec(now[k]) << " after setting " << vf::dec(a[k]));
  vector<double> pa = s.getFrequencies();
  checkForward(c, pa, g.method, a, "after update");   // a probability vector, each entry relative to the documented formula 
  // ---- left inverse by the documented formula, relative per coordinate
  vector<LD> refA = refForward(g.method, a);
  vector<Branch> want = refBranches(g.method, refA), got = refBranches(g.method, toLD(pa));
  double tolRel = relTolJ(g.method, g.n);
  bool judgedEdge = false; size_t unresolved = 0;
  for (size_t k = 0; k < m; ++k) {
    if (want[k].up < RESOLVED || want[k].down < RESOLVED) { ++unresolved; continue; }
    bool low = a[k] <= 0.5;
    LD target = low ? static_cast<LD>(a[k]) : static_cast<LD>(1 - a[k]);     // 1 - a[k] is exact for a[k] >= 1/2
    LD back = (low ? got[k].up : got[k].down) / (got[k].up + got[k].down);
    LD err = fabsl(back - target) / target;
    c.observe(string("full_left_inverse_rel_err_over_tol_m") + to_string(g.method), static_cast<double>(err / tolRel));
    CHECK(err <= tolRel, (low ? "theta" : "1-theta") << k + 1 << " = " << vf::dec(static_cast<double>(target)) << " comes back as " << vf::dec(static_cast<double>(back))
          << " from the returned probabilities " << showV(pa) << " by the documented inverse (relative error " << static_cast<double>(err) << " > " << tolRel << "); method " << g.method << " theta " << showV(a));
    if (a[k] < 1e-9 || a[k] > 1 - 1e-9) judgedEdge = true;
  }
  if (unresolved) c.label("coordinates_below_underflow");
  // ---- a second vector differing in one coordinate: by a factor, a relative step, a number of ulps, or anywhere in the range
  size_t k = (pat == 0 && !c.oneIn(4)) ? k0 : c.below(m);
  vector<double> b = a;
  int kind = static_cast<int>(c.weighted({3, 3, 3, 1}));
  ostringstream how;
  if (kind == 0) { static const double F[] = {3, 2, 10, 0.5, 1.5, 1e3, 1.0009765625}; double f = c.pick(F); b[k] = scaleSmallSide(a[k], f); how << "factor " << f; }
  else if (kind == 1) { double r = std::pow(10.0, -c.irange(3, 13)) * (1 + c.unit()); b[k] = scaleSmallSide(a[k], 1 + r); how << "relative step " << r; }
  else if (kind == 2) { int j = c.irange(6, 44); b[k] = stepUlps(a[k], uint64_t(1) << j, c.flag()); how << "2^" << j << " ulps"; }
  else { b[k] = genFullCoord(c); how << "redrawn"; }
  if (!(b[k] >= TMIN && b[k] <= TMAX) || b[k] == a[k]) {   // fell off the range or rounded back: halve / double on the small side
    double sm = a[k] <= 0.5 ? a[k] : 1 - a[k], sm2 = sm < 0.25 ? sm * 2 : sm / 2;
    b[k] = a[k] <= 0.5 ? sm2 : 1 - sm2; how << " (replaced: doubled/halved)";
  }
  CHECK(b[k] >= TMIN && b[k] <= TMAX && b[k] != a[k], "internal: pair generator gave " << vf::dec(b[k]) << " for " << vf::dec(a[k]));
  bool sameObject = c.flag();
  c.desc << "; vs theta" << k + 1 << " = " << vf::dec(b[k]) << " [" << how.str() << (sameObject ? ", same object]" : ", second object]");
  vector<double> pb;
  Simplex t(static_cast<size_t>(g.n), M, g.allowNull, g.prefix);
  if (sameObject) { s.setParameterValue(thName(k + 1), b[k]); pb = s.getFrequencies(); }
  else { applyTheta(c, t, g.prefix, b, allIdx(m), 1 + static_cast<int>(c.below(3))); pb = t.getFrequencies(); }
  checkForward(c, pb, g.method, b, "second vector");
  vector<LD> refB = refForward(g.method, b);
  LD R = 0; size_t at = 0;   // the probability the documented formula separates best, among those clear of underflow in both
  for (size_t i = 0; i < refA.size(); ++i) {
    if (refA[i] < RESOLVED || refB[i] < RESOLVED) continue;
    LD r = fabsl(refA[i] - refB[i]) / std::max(refA[i], refB[i]);
    if (r > R) { R = r; at = i; }
  }
  bool pairResolved = R >= 4 * static_cast<LD>(tolRel);   // the two images are further apart than the rounding of either (<= tolRel/2 each)
  if (pairResolved) {
    LD D = fabsl(static_cast<LD>(pa[at]) - static_cast<LD>(pb[at])) / std::max<LD>(pa[at], pb[at]);
    c.observe("full_pair_expected_over_observed_separation", static_cast<double>(R / std::max<LD>(D, 1e-300L)));
    CHECK(pa[at] != pb[at], "parameter vectors differing in theta" << k + 1 << " (" << vf::dec(a[k]) << " vs " << vf::dec(b[k]) << ") give the same prob(" << at << ") = " << vf::dec(pa[at])
          << ", the documented formula gives " << vf::dec(static_cast<double>(refA[at])) << " vs " << vf::dec(static_cast<double>(refB[at])) << "; method " << g.method << " theta " << showV(a));
    CHECK(D >= R / 2, "parameter vectors differing in theta" << k + 1 << " (" << vf::dec(a[k]) << " vs " << vf::dec(b[k]) << "): prob(" << at << ") = " << vf::dec(pa[at]) << " vs " << vf::dec(pb[at])
          << " differ relatively by " << static_cast<double>(D) << ", the documented formula separates them by " << static_cast<double>(R) << "; method " << g.method << " theta " << showV(a));
  } else c.label("pair_not_resolved");
  c.nt(judgedEdge || (pairResolved && (a[k] < 1e-9 || a[k] > 1 - 1e-9)));
  CHECK(vf::auditOffences() == 0, "run-time monitor: " << vf::auditFirst());
}

// ------------------------------------------------------------------ (C) copy independence
LAW(C_copy, RC, 12000, 500000, 400, "n >= 2 (there is a parameter to change)", 120) {   // 120 s per-case watchdog: a loaded machine stalled unfinished cases past the default 30 s
  Cfg g = genCfg(c);
  size_t m = static_cast<size_t>(g.n - 1);
  unsigned short M = static_cast<unsigned short>(g.method);
  vector<double> p = genP(c, g.n);
  c.desc << showCfg(g) << " p " << showV(p);
  c.nt(g.n >= 2);
  Simplex a(p, M, g.allowNull, g.prefix);
  if (c.flag() && m) { ThGen tg = genThMode(c, false); vector<double> th(m); for (auto& t : th) t = genCoord(c, tg.mode, tg.e, false); applyTheta(c, a, g.prefix, th, allIdx(m), 0); c.desc << " then theta " << showV(th); }
  int how = static_cast<int>(c.below(3));
  unique_ptr<Simplex> bp;
  if (how == 0) { bp.reset(new Simplex(a)); c.desc << "; copy-construct"; }
  else if (how == 1) { bp.reset(a.clone()); c.desc << "; clone"; }
  else {   // assignment over an unrelated object
    Cfg h = genCfg(c); bp.reset(new Simplex(static_cast<size_t>(h.n), static_cast<unsigned short>(h.method), h.allowNull, h.prefix));
    c.desc << "; assign over (" << showCfg(h) << ")"; *bp = a;
  }
  Simplex& b = *bp;
  auto snapshot = [](const Simplex& s, vector<double>& f, vector<double>& th, vector<string>& names) {
    f = s.getFrequencies(); th = readTheta(s); names = s.getParameters().getParameterNames();
  };
  auto same = [&](const Simplex& s, const vector<double>& f, const vector<double>& th, const vector<string>& names, const char* who, const char* after) {
    vector<double> f1, th1; vector<string> n1; snapshot(s, f1, th1, n1);
    CHECK(f1.size() == f.size() && th1.size() == th.size(), who << " changed size after " << after);
    for (size_t i = 0; i < f.size(); ++i) CHECK(vf::sameBits(f[i], f1[i]), who << ": prob(" << i << ") changed from " << vf::dec(f[i]) << " to " << vf::dec(f1[i]) << " after " << after);
    for (size_t i = 0; i < th.size(); ++i) CHECK(vf::sameBits(th[i], th1[i]), who << ": theta" << i + 1 << " changed from " << vf::dec(th[i]) << " to " << vf::dec(th1[i]) << " after " << after);
    CHECK(n1 == names, who << ": parameter names changed after " << after);
  };
  vector<double> fa, tha; vector<string> na; snapshot(a, fa, tha, na);
  auditParams(b, g, g.prefix, "copy");
  same(b, fa, tha, na, "the copy differs from its source:", "copying");
  for (size_t k = 0; k < m; ++k) CHECK(&a.getParameters()[k] != &b.getParameters()[k], "the copy shares parameter object theta" << k + 1 << " with its source");
  // change the copy
  string bprefix = g.prefix;
  auto mutate = [&](Simplex& x, string& xprefix, const char* who) {
    int kind = static_cast<int>(c.weighted({4, 3, 1}));
    if (kind == 0 && m) {
      ThGen tg = genThMode(c, false); vector<double> th = readTheta(x); vector<size_t> idx;
      for (size_t k = 0; k < m; ++k) if (c.flag()) idx.push_back(k);
      if (idx.empty()) idx.push_back(c.below(m));
      for (size_t k : idx) { double nv = genCoord(c, tg.mode, tg.e, false); if (nv == th[k]) nv = nv < 0.5 ? nv * 1.5 : nv * 0.75; th[k] = nv; }
      int route = static_cast<int>(c.below(3));
      c.desc << "; " << who << "." << ROUTE[route] << " theta " << showV(th);
      applyTheta(c, x, xprefix, th, idx, route);
      checkForward(c, x.getFrequencies(), g.method, th, who);
      vector<double> now = readTheta(x);
      for (size_t k = 0; k < m; ++k) CHECK(vf::sameBits(now[k], th[k]), who << ": theta" << k + 1 << " holds " << vf::dec(now[k]) << " after setting " << vf::dec(th[k]));
    } else if (kind <= 1) {
      vector<double> q = genP(c, g.n); c.desc << "; " << who << ".setFrequencies " << showV(q);
      x.setFrequencies(q); checkInverse(c, x, g, xprefix, q, who);
    } else {
      xprefix = c.pick(PFX); c.desc << "; " << who << ".setNamespace('" << xprefix << "')"; x.setNamespace(xprefix);
      auditParams(x, g, xprefix, who);
    }
  };
  string aprefix = g.prefix;
  mutate(b, bprefix, "copy");
  same(a, fa, tha, na, "the source", "changing the copy");
  vector<double> fb, thb; vector<string> nb; snapshot(b, fb, thb, nb);
  mutate(a, aprefix, "source");
  same(b, fb, thb, nb, "the copy", "changing the source");
  auditParams(a, g, aprefix, "source at end"); auditParams(b, g, bprefix, "copy at end");
  CHECK(vf::auditOffences() == 0, "run-time monitor: " << vf::auditFirst());
}

// ------------------------------------------------------------------ (O) ordered variant
namespace {
void checkOrderedShape(vf::Ctx& c, const vector<double>& v, size_t n, const char* where) {
  CHECK(v.size() == n, where << ": getFrequencies() has " << v.size() << " values, dimension " << n);
  LD sum = 0;
  for (size_t i = 0; i < n; ++i) {
    CHECK(v[i] >= 0, where << ": value " << i << " = " << vf::dec(v[i]) << " is not a non-negative number");
    if (i + 1 < n) CHECK(v[i] - v[i + 1] >= -1e-15, where << ": values increase at " << i << ": " << vf::dec(v[i]) << " < " << vf::dec(v[i + 1]));
    sum += v[i];
  }
  double stol = 8 * static_cast<double>(n) * EPS;
  c.observe("ordered_sum_over_tol", static_cast<double>(fabsl(sum - 1) / stol));
  CHECK(fabsl(sum - 1) <= stol, where << ": values sum to 1" << (sum > 1 ? "+" : "-") << static_cast<double>(fabsl(sum - 1)) << ": " << showV(v));
}
void checkOrderedRoundTrip(vf::Ctx& c, const OrderedSimplex& os, const Cfg& g, const string& prefix, const vector<double>& v, const char* where) {
  auditParams(os, g, prefix, where);
  const vector<double>& got = os.getFrequencies();
  checkOrderedShape(c, got, v.size(), where);
  // v_i = sum_{j>=i} p_j/j: the conditioning bound of the probabilities times the harmonic number H_33 < 5
  double B = 5 * condBound(readTheta(os));
  for (size_t i = 0; i < v.size(); ++i) {
    double e = std::fabs(got[i] - v[i]);
    c.observe(string("ordered_roundtrip_err_over_bound_m") + to_string(g.method), e / B);
    CHECK(e <= B, where << ": getFrequencies()[" << i << "] = " << vf::dec(got[i]) << " but " << vf::dec(v[i]) << " was given (|diff| " << e << " > bound " << B << "); v " << showV(v));
  }
}
vector<double> genOrdered(vf::Ctx& c, int n) {
  vector<LD> vl = refOrdered(toLD(genP(c, n)));
  vector<double> v; for (LD x : vl) v.push_back(static_cast<double>(x));
  for (size_t i = 0; i + 1 < v.size(); ++i) CHECK(v[i] > v[i + 1], "internal: ordered generator not strictly decreasing");
  return v;
}
}  // namespace

LAW(O_ordered, RC, 18000, 700000, 500, "n not a power of two with the binary coding, or a step between neighbouring values below 1e-6, or a coordinate within 1e-6 of 0 or 1", 120) {   // 120 s per-case watchdog: a loaded machine stalled unfinished cases past the default 30 s
  Cfg g = genCfg(c);
  size_t n = static_cast<size_t>(g.n), m = n - 1;
  unsigned short M = static_cast<unsigned short>(g.method);
  vector<double> v = genOrdered(c, g.n);
  bool smallStep = false; for (size_t i = 0; i + 1 < n; ++i) smallStep |= (v[i] - v[i + 1]) * static_cast<double>(i + 1) < 1e-6;
  smallStep |= v[n - 1] * static_cast<double>(n) < 1e-6;
  c.desc << showCfg(g) << " v " << showV(v);
  string prefix = g.prefix;
  bool edge = false;
  unique_ptr<OrderedSimplex> op;
  if (c.flag()) { op.reset(new OrderedSimplex(v, M, g.allowNull, prefix)); c.desc << "; vector constructor"; checkOrderedRoundTrip(c, *op, g, prefix, v, "constructor"); }
  else {
    op.reset(new OrderedSimplex(n, M, g.allowNull, prefix)); c.desc << "; uniform constructor, setFrequencies(v)";
    auditParams(*op, g, prefix, "uniform constructor");
    checkOrderedShape(c, op->getFrequencies(), n, "uniform constructor");
    vector<LD> u = refOrdered(vector<LD>(n, 1.0L / static_cast<LD>(n)));
    for (size_t i = 0; i < n; ++i) CHECK(fabsl(op->getFrequencies()[i] - u[i]) <= 1e-12L * u[i], "uniform constructor: value " << i << " = " << vf::dec(op->getFrequencies()[i]) << ", definition " << vf::dec(static_cast<double>(u[i])));
    op->setFrequencies(v);
    checkOrderedRoundTrip(c, *op, g, prefix, v, "setFrequencies");
  }
  OrderedSimplex& os = *op;
  int nops = c.irange(0, 3);
  for (int k = 0; k < nops; ++k) {
    int kind = static_cast<int>(c.weighted({3, 3, 1}));
    if (kind == 0 && m) {   // forward through the parameters
      ThGen tg = genThMode(c, true); vector<double> th = readTheta(os); vector<size_t> idx;
      for (size_t j = 0; j < m; ++j) if (c.flag()) idx.push_back(j);
      if (idx.empty()) idx.push_back(c.below(m));
      for (size_t j : idx) { double nv = genCoord(c, tg.mode, tg.e, true); if (nv == th[j]) nv = nv < 0.5 ? nv * 1.5 : nv * 0.75; th[j] = nv; }
      int route = static_cast<int>(c.below(3));
      c.desc << "; " << ROUTE[route] << " theta " << showV(th);
      applyTheta(c, os, prefix, th, idx, route);
      edge |= nearEdge(th);
      bool ovf = false; vector<LD> pref = refForward(g.method, th, &ovf);
      if (ovf) c.excludeIfKnown("C19-local-overflow");
      vector<LD> vref = refOrdered(pref);
      const vector<double>& got = os.getFrequencies();
      checkOrderedShape(c, got, n, "after parameter update");
      for (size_t i = 0; i < n; ++i) {
        LD tol = 1e-12L * vref[i] + 1e-300L, err = fabsl(static_cast<LD>(got[i]) - vref[i]);
        c.observe("ordered_forward_err_over_tol", static_cast<double>(err / tol));
        CHECK(err <= tol, "after parameter update: value " << i << " = " << vf::dec(got[i]) << " but the definition gives " << vf::dec(static_cast<double>(vref[i])) << "; theta " << showV(th));
      }
      auditParams(os, g, prefix, "after parameter update");
    } else if (kind <= 1) {   // another vector
      vector<double> w = genOrdered(c, g.n); c.desc << "; setFrequencies " << showV(w);
      os.setFrequencies(w); checkOrderedRoundTrip(c, os, g, prefix, w, "second setFrequencies");
    } else {   // copy is independent
      OrderedSimplex cp(os); vector<double> before = os.getFrequencies(), thb = readTheta(os);
      vector<double> w = genOrdered(c, g.n); c.desc << "; copy.setFrequencies " << showV(w);
      cp.setFrequencies(w); checkOrderedRoundTrip(c, cp, g, prefix, w, "copy");
      const vector<double>& after = os.getFrequencies(); vector<double> tha = readTheta(os);
      for (size_t i = 0; i < n; ++i) CHECK(vf::sameBits(before[i], after[i]), "changing a copy changed value " << i << " of the source");
      for (size_t i = 0; i < m; ++i) CHECK(vf::sameBits(thb[i], tha[i]), "changing a copy changed theta" << i + 1 << " of the source");
    }
  }
  c.nt((g.method == 3 && !powerOfTwo(g.n)) || smallStep || edge);
  // a refused vector (sum clearly different from one): bpp::Exception, and the object keeps returning an ordered probability vector.
  // Last step of the case, so that the exclusion of the known finding loses nothing checked above.
  if (c.oneIn(6)) {
    static const double DEV[] = {1e-3, -1e-3, 1e-2, -1e-2, 0.5, -0.5, 1.0};
    double d = c.pick(DEV); vector<double> bad = v; for (auto& x : bad) x *= (1 + d);
    c.desc << "; setFrequencies(sum " << vf::dec(static_cast<double>(sumLD(bad))) << ")";
    bool raised = false;
    try { os.setFrequencies(bad); } catch (Exception&) { raised = true; }
    CHECK(raised, "setFrequencies accepted values summing to " << vf::dec(static_cast<double>(sumLD(bad))));
    raised = false;
    try { OrderedSimplex u(bad, M, g.allowNull, prefix); } catch (Exception&) { raised = true; }
    CHECK(raised, "the constructor accepted values summing to " << vf::dec(static_cast<double>(sumLD(bad))));
    CHECK(vf::auditOffences() == 0, "run-time monitor: " << vf::auditFirst());
    c.excludeIfKnown("C19-ordered-refused-set");
    checkOrderedShape(c, os.getFrequencies(), n, "after a refused setFrequencies");
  }
  CHECK(vf::auditOffences() == 0, "run-time monitor: " << vf::auditFirst());
}

static struct Init { Init() { vf::G().resetHook = [] { vf::quietBpp(); vf::installAudit(); }; } } init_;
VF_MAIN("C19")
