// C11 — constraint-removing reparametrisation is a faithful change of variables.
// Laws of DESIGN.md section 5/C11:
//   T1 round trip, T2 monotonicity, T3 derivatives of the map vs the documented formula (long double),
//   T4 derivatives vs finite differences of the library's own map, T5 placebo transform,
//   W0 (exhaustive lattice of the eight configurations), W1 state right after wrapping,
//   W2 wrapper value = original function at the back-transformed point which satisfies the constraints,
//   W3 chain rule for first/second/cross derivatives,
//   W4 histories on a SHARED wrapped function (moved directly, through a clone or a second wrapper) with
//      re-evaluation of a wrapper at a coordinate vector it already holds.
// Interval constraints are built with default and explicit boundary precisions (the constraint's `precision`
// attribute does not change which values are legal, so every clause applies unchanged).
#include "common/pbt.hpp"
#include "common/bppcommon.hpp"

#include <Bpp/Numeric/AbstractParametrizable.h>
#include <Bpp/Numeric/Function/Functions.h>
#include <Bpp/Numeric/Function/ReparametrizationFunctionWrapper.h>
#include <Bpp/Numeric/ParameterList.h>
#include <Bpp/Numeric/TransformedParameter.h>

using namespace bpp;
using namespace std;

namespace {

typedef long double LD;
const double EPS = DBL_EPSILON;
const double INF = std::numeric_limits<double>::infinity();
const LD PI_L = 3.14159265358979323846264338327950288L;
const double TINY = 1e-12;  // the documented nudge of the wrapper (NumConstants::TINY())

// ------------------------------------------------------------------ transforms and their references
enum Kind { HYP = 0, TAN = 1, RPOS = 2, RNEG = 3 };
// HYP/TAN: ]lo,hi[ with scale s.  RPOS: ]lo,+inf[ (hi=+inf).  RNEG: ]-inf,hi[ (lo=-inf).  Half-lines: s = 1 (quantifier).
struct Tr { Kind k; double lo, hi, s; };
const char* kindName(Kind k) { return k == HYP ? "tanh" : k == TAN ? "tan" : k == RPOS ? "halfline+" : "halfline-"; }
bool isInterval(const Tr& t) { return t.k == HYP || t.k == TAN; }
string show(const Tr& t) {
  ostringstream o; o << kindName(t.k) << " ]" << vf::dec(t.lo) << ";" << vf::dec(t.hi) << "[";
  if (isInterval(t)) o << " scale " << vf::dec(t.s);
  return o.str();
}
unique_ptr<TransformedParameter> make(const Tr& t, double x) {
  switch (t.k) {
    case HYP: return unique_ptr<TransformedParameter>(new IntervalTransformedParameter("p", x, t.lo, t.hi, t.s, true));
    case TAN: return unique_ptr<TransformedParameter>(new IntervalTransformedParameter("p", x, t.lo, t.hi, t.s, false));
    case RPOS: return unique_ptr<TransformedParameter>(new RTransformedParameter("p", x, t.lo, true, 1.));
    default: return unique_ptr<TransformedParameter>(new RTransformedParameter("p", x, t.hi, false, 1.));
  }
}
double midOf(const Tr& t) { return t.k == RPOS ? t.lo + 0.5 : t.k == RNEG ? t.hi - 0.5 : t.lo + (t.hi - t.lo) / 2; }

// documented half-line map at unit scale: distance from the bound as a function of the coordinate, and its inverse
LD gpos(LD u) { return u < 0 ? expl(u) : u + 1; }
LD gpos1(LD u) { return u < 0 ? expl(u) : 1.0L; }
LD gpos2(LD u) { return u < 0 ? expl(u) : 0.0L; }
LD fpos(LD d) { return d < 1 ? logl(d) : d - 1; }

// The documentation of the negative half-line is garbled (its two branches do not join and the conditions are
// written on the wrong variable); the only reading that is a bijection onto ]-inf,b[ is the mirror image of the
// positive map, x = b - g(o*t), in one of the two orientations o = -1 (increasing, "-log(-(x-b))" as documented
// for the branch next to the bound) or o = +1 (decreasing, "log(-(x-b))" as coded).  Both are accepted.
LD backRef(const Tr& t, double tc, int orient = -1) {
  LD w = static_cast<LD>(t.hi) - t.lo, y = static_cast<LD>(tc) / t.s;
  switch (t.k) {
    case HYP: return (tanhl(y) + 1) * w / 2 + t.lo;
    case TAN: return (atanl(y) + PI_L / 2) * w / PI_L + t.lo;
    case RPOS: return t.lo + gpos(tc);
    default: return t.hi - gpos(static_cast<LD>(orient) * tc);
  }
}
LD d1Ref(const Tr& t, double tc, int orient = -1) {
  LD w = static_cast<LD>(t.hi) - t.lo, y = static_cast<LD>(tc) / t.s;
  switch (t.k) {
    case HYP: { LD ch = coshl(y); return w / (2 * t.s) / (ch * ch); }
    case TAN: return w / (PI_L * t.s * (1 + y * y));
    case RPOS: return gpos1(tc);
    default: return -static_cast<LD>(orient) * gpos1(static_cast<LD>(orient) * tc);
  }
}
LD d2Ref(const Tr& t, double tc, int orient = -1) {
  LD w = static_cast<LD>(t.hi) - t.lo, y = static_cast<LD>(tc) / t.s, s = t.s;
  switch (t.k) {
    case HYP: { LD ch = coshl(y); return -w / (s * s) / (ch * ch) * tanhl(y); }
    case TAN: { LD q = 1 + y * y; return -2 * y * w / (PI_L * s * s * q * q); }
    case RPOS: return gpos2(tc);
    default: return -gpos2(static_cast<LD>(orient) * tc);
  }
}
LD fwdRef(const Tr& t, double x, int orient = -1) {
  LD w = static_cast<LD>(t.hi) - t.lo;
  switch (t.k) {
    case HYP: return t.s * atanhl(2 * (static_cast<LD>(x) - t.lo) / w - 1);
    case TAN: return t.s * tanl(PI_L * (static_cast<LD>(x) - t.lo) / w - PI_L / 2);
    case RPOS: return fpos(static_cast<LD>(x) - t.lo);
    default: return static_cast<LD>(orient) * fpos(static_cast<LD>(t.hi) - x);
  }
}
// magnitude that governs the absolute rounding error of the back map (tolerance (1) of the DESIGN section)
double scaleOf(const Tr& t, double x) {
  if (isInterval(t)) return max({1.0, std::abs(t.lo), std::abs(t.hi), t.hi - t.lo});
  double b = t.k == RPOS ? t.lo : t.hi;
  return max({1.0, std::abs(b), std::abs(x), std::abs(x - b)});
}
double tolOf(const Tr& t, double x) { return 16 * EPS * scaleOf(t, x); }

// Known finding C11-pi-tangent: NumConstants::PI() = 3.141593 > pi.  The tangent transform evaluates
// tan(P*u - P/2), u = (x-lo)/(hi-lo), which leaves ]-pi/2,pi/2[ when u < (P-pi)/(2P) = 5.5133e-8 (or u > 1 - that).
bool inPiZone(const Tr& t, double x) {
  LD u = (static_cast<LD>(x) - t.lo) / (static_cast<LD>(t.hi) - t.lo);
  return t.k == TAN && (u < 5.52e-8L || u > 1 - 5.52e-8L);
}

// ------------------------------------------------------------------ generators
void genBounds(vf::Ctx& c, double& lo, double& hi) {
  double w;
  switch (c.weighted({4, 2, 2})) {
    case 0: { static const double ws[] = {1, 2, 8, 0.5, 10, 100, 2000}; w = c.pick(ws); break; }
    case 1: w = c.logu(1e-3, 2e3); break;
    default: w = c.real(0.01, 50);
  }
  switch (c.weighted({4, 3, 1})) {
    case 0: lo = static_cast<double>(c.zig(5)); break;
    case 1: lo = c.real(-1e3, 1e3); break;
    default: { static const double ls[] = {-1000, 999, 0.1, -0.3}; lo = c.pick(ls); }
  }
  hi = lo + w;
  if (hi > 1e3) { hi = 1e3; lo = hi - w; }
  if (lo < -1e3) lo = -1e3;
}
// a value strictly inside ]lo,hi[, at least dminLo / dminHi away from the ends (0: may be 1 ulp away)
double genInside(vf::Ctx& c, double lo, double hi, double dminLo, double dminHi) {
  double w = hi - lo, x;
  switch (c.weighted({2, 4, 3, 3, 1})) {
    case 0: x = lo + w / 2; break;
    case 1: x = lo + w * c.unit(); break;
    case 2: x = lo + c.logu(max(dminLo, 1e-12), 1e-6) * (c.flag() ? w : 1.0); break;
    case 3: x = hi - c.logu(max(dminHi, 1e-12), 1e-6) * (c.flag() ? w : 1.0); break;
    default: {
      int k = 1 + static_cast<int>(c.below(3));
      if (c.flag()) x = dminLo == 0 ? vf::ulpStep(lo, k) : lo + dminLo; else x = dminHi == 0 ? vf::ulpStep(hi, -k) : hi - dminHi;
    }
  }
  if (x < lo + dminLo) x = lo + dminLo;
  if (x > hi - dminHi) x = hi - dminHi;
  if (!(x > lo)) x = std::nextafter(lo, INF);
  if (!(x < hi)) x = std::nextafter(hi, -INF);
  return x;
}
// distance from the bound of a half-line, > 0 and >= dmin
double genDist(vf::Ctx& c, double dmin) {
  double d;
  switch (c.weighted({2, 3, 3, 3, 2})) {
    case 0: d = 0.5; break;
    case 1: d = c.real(0, 3); break;
    case 2: d = c.logu(max(dmin, 1e-12), 1e-6); break;
    case 3: { static const double off[] = {0.0, 1e-15, 1e-12, 1e-9, 1e-3}; d = 1 + (c.flag() ? 1 : -1) * c.pick(off); break; }  // around the switch point
    default: d = c.logu(1, 2e3);
  }
  if (d < dmin) d = dmin;
  return d;
}
double genInsideTr(vf::Ctx& c, const Tr& t) {
  if (isInterval(t)) return genInside(c, t.lo, t.hi, 0, 0);
  double b = t.k == RPOS ? t.lo : t.hi, dir = t.k == RPOS ? 1 : -1;
  if (c.oneIn(8)) return vf::ulpStep(b, static_cast<int>(dir) * (1 + static_cast<int>(c.below(3))));
  double d = genDist(c, 0), x = b + dir * d;
  if (t.k == RPOS ? !(x > b) : !(x < b)) x = std::nextafter(b, dir * INF);
  return x;
}
Tr genTr(vf::Ctx& c) {
  Tr t; t.k = static_cast<Kind>(c.weighted({3, 3, 2, 2}));
  genBounds(c, t.lo, t.hi);
  t.s = 1;
  if (isInterval(t)) {
    switch (c.weighted({2, 2, 1})) {
      case 0: break;
      case 1: t.s = c.logu(0.1, 10); break;
      default: { static const double ss[] = {0.1, 10, 0.5, 2}; t.s = c.pick(ss); }
    }
  } else if (t.k == RPOS) t.hi = INF; else t.lo = -INF;
  return t;
}
double genT(vf::Ctx& c) {
  switch (c.weighted({3, 3, 2, 1})) {
    case 0: return static_cast<double>(c.zig(30));
    case 1: return c.real(-30, 30);
    case 2: return c.real(-2, 2);
    default: { static const double es[] = {30, -30, 19.5, -19.5, 20, -20, 25, -25}; return c.pick(es); }
  }
}
double distToBound(const Tr& t, double x) {
  double d = INF;
  if (std::isfinite(t.lo)) d = min(d, x - t.lo);
  if (std::isfinite(t.hi)) d = min(d, t.hi - x);
  return d;
}

// ------------------------------------------------------------------ the wrapped function
// f(x) = sum lin_i x_i + sum_{i<=j} q_ij x_i x_j + sum cub_i x_i^3, analytic derivatives, value cached on update
class Poly : public virtual SecondOrderDerivable, public AbstractParametrizable {
  vector<string> names_; vector<double> lin_, cub_; vector<vector<double>> q_;
  double val_ = 0;
public:
  long nSet = 0, nFire = 0;
  Poly(const vector<string>& names, const vector<double>& x0, const vector<shared_ptr<ConstraintInterface>>& cons,
       const vector<double>& lin, const vector<double>& cub, const vector<vector<double>>& q)
    : AbstractParametrizable(""), names_(names), lin_(lin), cub_(cub), q_(q) {
    for (size_t i = 0; i < names.size(); ++i) addParameter_(new Parameter(names[i], x0[i], cons[i]));
    val_ = evalNow();
  }
  Poly* clone() const override { return new Poly(*this); }
  size_t idx(const string& v) const { for (size_t i = 0; i < names_.size(); ++i) if (names_[i] == v) return i; throw Exception("Poly: unknown variable " + v); }
  double x(size_t i) const { return getParameterValue(names_[i]); }
  double evalNow() const {
    size_t n = names_.size(); double s = 0;
    for (size_t i = 0; i < n; ++i) { double xi = x(i); s += lin_[i] * xi + cub_[i] * xi * xi * xi; for (size_t j = i; j < n; ++j) s += q_[i][j] * xi * x(j); }
    return s;
  }
  void setParameters(const ParameterList& pl) override { ++nSet; matchParametersValues(pl); }
  double getValue() const override { return val_; }
  void fireParameterChanged(const ParameterList&) override { ++nFire; val_ = evalNow(); }
  void enableFirstOrderDerivatives(bool) override {}
  bool enableFirstOrderDerivatives() const override { return true; }
  void enableSecondOrderDerivatives(bool) override {}
  bool enableSecondOrderDerivatives() const override { return true; }
  double getFirstOrderDerivative(const string& v) const override {
    size_t i = idx(v), n = names_.size(); double xi = x(i), s = lin_[i] + 3 * cub_[i] * xi * xi + 2 * q_[i][i] * xi;
    for (size_t j = 0; j < n; ++j) if (j != i) s += q_[min(i, j)][max(i, j)] * x(j);
    return s;
  }
  double getSecondOrderDerivative(const string& v) const override { size_t i = idx(v); return 2 * q_[i][i] + 6 * cub_[i] * x(i); }
  double getSecondOrderDerivative(const string& v1, const string& v2) const override {
    size_t i = idx(v1), j = idx(v2); if (i == j) return getSecondOrderDerivative(v1);
    return q_[min(i, j)][max(i, j)];
  }
};

// a constraint that is not an interval (the wrapper must leave such a parameter alone)
struct AbsBelow : public ConstraintInterface {
  double m;
  explicit AbsBelow(double mm) : m(mm) {}
  AbsBelow* clone() const override { return new AbsBelow(*this); }
  bool isCorrect(double v) const override { return std::abs(v) <= m; }
  bool includes(double a, double b) const override { return isCorrect(a) && isCorrect(b); }
  double getLimit(double v) const override { return v > m ? m : v < -m ? -m : v; }
  double getAcceptedLimit(double v) const override { return getLimit(v); }
  string getDescription() const override { return "|x|<=" + vf::dec(m); }
  ConstraintInterface* operator&(const ConstraintInterface&) const override { return clone(); }
  bool isEmpty() const override { return false; }
};

// configurations: 0 [a,b]  1 ]a,b[  2 [a,b[  3 ]a,b]  4 ]a,+inf[  5 [a,+inf[  6 ]-inf,b[  7 ]-inf,b]  8 unconstrained  9 non-interval
// prec: the constraint's "accepted precision on the boundary" constructor argument; < 0 = not given (library default 1e-12).
// It only feeds getAcceptedLimit(); isCorrect() - the set of legal values - does not depend on it.
struct PSpec { int cfg; double lo, hi; bool il, iu; double x0; string name; double prec = -1; };
bool accP(const PSpec& s, double v) {  // reference predicate of the original constraint
  if (s.cfg == 8) return true;
  if (s.cfg == 9) return std::abs(v) <= 1e6;
  return (s.il ? v >= s.lo : v > s.lo) && (s.iu ? v <= s.hi : v < s.hi);
}
string showP(const PSpec& s) {
  ostringstream o; o << s.name << ":";
  if (s.cfg == 8) o << "free"; else if (s.cfg == 9) o << "|x|<=1e6";
  else o << (s.il ? "[" : "]") << vf::dec(s.lo) << ";" << vf::dec(s.hi) << (s.iu ? "]" : "[");
  if (s.prec >= 0) o << "(precision " << vf::dec(s.prec) << ")";
  o << "=" << vf::dec(s.x0);
  return o.str();
}
shared_ptr<ConstraintInterface> consOf(const PSpec& s) {
  if (s.cfg == 8) return nullptr;
  if (s.cfg == 9) return make_shared<AbsBelow>(1e6);
  if (s.prec < 0) return make_shared<IntervalConstraint>(s.lo, s.hi, s.il, s.iu);
  return make_shared<IntervalConstraint>(s.lo, s.hi, s.il, s.iu, s.prec);
}
bool transformed(const PSpec& s) { return s.cfg <= 7; }
Tr trOf(const PSpec& s) {  // the documented transform of the configuration (hyperbolic, unit scale)
  Tr t; t.s = 1; t.lo = s.lo; t.hi = s.hi; t.k = s.cfg <= 3 ? HYP : s.cfg <= 5 ? RPOS : RNEG; return t;
}
void setShape(PSpec& s) {
  static const bool IL[] = {true, false, true, false, false, true, false, false}, IU[] = {true, false, false, true, false, false, false, true};
  if (s.cfg <= 7) { s.il = IL[s.cfg]; s.iu = IU[s.cfg]; } else { s.il = s.iu = false; }
  if (s.cfg == 4 || s.cfg == 5) s.hi = INF;
  if (s.cfg == 6 || s.cfg == 7) s.lo = -INF;
  if (s.cfg >= 8) { s.lo = -INF; s.hi = INF; }
}
// Values closer than 4e-12 to an OPEN bound are not generated for the wrapper: its documented treatment of open
// bounds moves them inwards by 1e-12 ("correct the bound in order to prevent numerical issues"), which leaves such
// values outside the transformed interval; the statement does not speak about them.
const double OPEN_MIN = 4e-12;
// a legal original value of the configuration (for the start value, and for moving the wrapped function directly)
double genValue(vf::Ctx& c, const PSpec& s) {
  double x;
  if (s.cfg <= 3) {
    if ((s.il || s.iu) && c.oneIn(5)) x = (s.il && (!s.iu || c.flag())) ? s.lo : s.hi;  // exactly on a closed bound
    else x = genInside(c, s.lo, s.hi, s.il ? 0 : OPEN_MIN, s.iu ? 0 : OPEN_MIN);
  } else if (s.cfg <= 7) {
    bool pos = s.cfg <= 5, closed = pos ? s.il : s.iu; double b = pos ? s.lo : s.hi, dir = pos ? 1 : -1;
    if (closed && c.oneIn(5)) x = c.flag() ? b : vf::ulpStep(b, static_cast<int>(dir) * (1 + static_cast<int>(c.below(3))));
    else {
      double d = genDist(c, closed ? 0 : OPEN_MIN); x = b + dir * d;
      if (!accP(s, x)) x = b + dir * max(OPEN_MIN, 4 * EPS * std::abs(b));
    }
  } else x = c.flag() ? static_cast<double>(c.zig(10)) : c.real(-1e3, 1e3);
  return x;
}
// The boundary precision given to the IntervalConstraint constructor: mostly absent (default), else zero, values so
// small that bound +- precision rounds back to the bound, the default given explicitly, and values well above it.
double genPrec(vf::Ctx& c) {
  switch (c.weighted({5, 3, 1})) {
    case 0: return -1;
    case 1: { static const double ps[] = {0.0, 1e-16, 1e-9, 1e-14, 1e-12, 1e-6, 1e-15, 1e-10, 1e-3}; return c.pick(ps); }
    default: return c.logu(1e-18, 1e-3);
  }
}
PSpec genSpec(vf::Ctx& c, int i) {
  PSpec s; s.name = "p" + to_string(i); s.cfg = static_cast<int>(c.below(10));
  genBounds(c, s.lo, s.hi); setShape(s);
  s.x0 = genValue(c, s);
  if (s.cfg <= 7) s.prec = genPrec(c);
  return s;
}

struct Fn {
  vector<PSpec> ps; vector<double> lin, cub; vector<vector<double>> q;
  shared_ptr<Poly> f;
  void build() {
    vector<string> names; vector<double> x0; vector<shared_ptr<ConstraintInterface>> cons;
    for (auto& s : ps) { names.push_back(s.name); x0.push_back(s.x0); cons.push_back(consOf(s)); }
    f = make_shared<Poly>(names, x0, cons, lin, cub, q);
  }
  string show() const {
    ostringstream o; o << "f(";
    for (size_t i = 0; i < ps.size(); ++i) o << (i ? ", " : "") << showP(ps[i]);
    o << ") lin=["; for (double v : lin) o << v << " "; o << "] cub=["; for (double v : cub) o << v << " ";
    o << "] q=["; for (size_t i = 0; i < ps.size(); ++i) for (size_t j = i; j < ps.size(); ++j) o << q[i][j] << " "; o << "]";
    return o.str();
  }
};
Fn genFn(vf::Ctx& c) {
  Fn F; int n = c.irange(1, 5);
  for (int i = 0; i < n; ++i) F.ps.push_back(genSpec(c, i));
  F.lin.resize(n); F.cub.resize(n); F.q.assign(n, vector<double>(n, 0.0));
  for (int i = 0; i < n; ++i) { F.lin[i] = c.ival(3); F.cub[i] = c.ival(2); }
  for (int i = 0; i < n; ++i) for (int j = i; j < n; ++j) F.q[i][j] = c.ival(2);
  F.build();
  return F;
}

// the wrapper under test
struct Wr {
  int kind = 0;            // 0 plain, 1 first order, 2 second order
  vector<size_t> widx;     // indices (into Fn::ps) of the parameters given to the wrapper, in wrapper order
  shared_ptr<ReparametrizationFunctionWrapper> w;
  // Sub-checks that involve a parameter of a known finding's input class are left out while the finding is known;
  // everything else in the case is still checked and the case is counted as excluded at the end of the law.
  mutable const char* pending = nullptr;
  bool negKnown(vf::Ctx& c, const PSpec& s) const;
  ReparametrizationDerivableFirstOrderWrapper* w1() const { return dynamic_cast<ReparametrizationDerivableFirstOrderWrapper*>(w.get()); }
  ReparametrizationDerivableSecondOrderWrapper* w2() const { return dynamic_cast<ReparametrizationDerivableSecondOrderWrapper*>(w.get()); }
};
Wr wrap(Fn& F, int kind, const vector<size_t>* subset, bool verbose, ostream& desc) {
  Wr W; W.kind = kind;
  desc << (kind == 0 ? " plain wrapper" : kind == 1 ? " first-order wrapper" : " second-order wrapper");
  ParameterList sub;
  if (subset) {
    desc << " over {"; for (size_t i : *subset) { desc << F.ps[i].name << " "; sub.addParameter(F.f->parameter(F.ps[i].name)); } desc << "}";
    W.widx = *subset;
  } else for (size_t i = 0; i < F.ps.size(); ++i) W.widx.push_back(i);
  if (verbose) desc << " verbose";
  switch (kind) {
    case 0: W.w = subset ? make_shared<ReparametrizationFunctionWrapper>(F.f, sub, verbose) : make_shared<ReparametrizationFunctionWrapper>(F.f, verbose); break;
    case 1: W.w = subset ? make_shared<ReparametrizationDerivableFirstOrderWrapper>(F.f, sub, verbose) : make_shared<ReparametrizationDerivableFirstOrderWrapper>(F.f, verbose); break;
    default: W.w = subset ? make_shared<ReparametrizationDerivableSecondOrderWrapper>(F.f, sub, verbose) : make_shared<ReparametrizationDerivableSecondOrderWrapper>(F.f, verbose);
  }
  return W;
}
bool isNeg(const PSpec& s) { return s.cfg == 6 || s.cfg == 7; }
bool Wr::negKnown(vf::Ctx& c, const PSpec& s) const {
  if (isNeg(s) && c.isKnown("C11-neg-halfline")) { pending = "C11-neg-halfline"; return true; }
  return false;
}
vector<size_t> genSubset(vf::Ctx& c, size_t n) {
  vector<size_t> s; for (size_t i = 0; i < n; ++i) if (c.flag()) s.push_back(i);
  if (s.empty()) s.push_back(c.below(n));
  return s;
}
bool ntSpec(const PSpec& s) {
  if (s.cfg >= 8) return false;
  if (s.cfg >= 4 || !s.il || !s.iu) return true;
  return distToBound(trOf(s), s.x0) < 1e-6;
}
// Known finding C11-closed-upper-overshoot: IntervalTransformedParameter::getOriginalValue computes
// (tanh(t)+1)*(hi-lo')/2 + lo'.  When the double hi-lo' was rounded upwards and tanh(t)+1 rounds to 2 or 2-2^-52
// (t >= 18.2) the result exceeds hi by one ulp and the wrapper raises ConstraintException for a closed upper bound.
bool overshootProne(const PSpec& s, double t) {
  if (!(s.cfg == 0 || s.cfg == 3) || !(t >= 18)) return false;
  double lo = s.il ? s.lo : s.lo + TINY, w = s.hi - lo;
  return static_cast<LD>(w) > static_cast<LD>(s.hi) - static_cast<LD>(lo);
}

// orientation of the negative half-line map that reproduces the observed back-transformed value (0: neither)
// At t = 0 both orientations give b-1: there the sign of the map's own first derivative (hint) decides.
int orientOf(const Tr& t, double tc, double x, double tol, double hint = 0) {
  bool inc = std::abs(static_cast<double>(backRef(t, tc, -1) - x)) <= tol, dcr = std::abs(static_cast<double>(backRef(t, tc, +1) - x)) <= tol;
  if (inc && dcr) return hint < 0 ? +1 : -1;
  return inc ? -1 : dcr ? +1 : 0;
}

// ---- W1: state immediately after wrapping
void checkInit(vf::Ctx& c, Fn& F, const Wr& W, const vector<double>& before, long nSetBefore) {
  // the wrapped function was not touched
  CHECK(F.f->nSet == nSetBefore, "wrapping called setParameters on the wrapped function " << (F.f->nSet - nSetBefore) << " time(s)");
  for (size_t i = 0; i < F.ps.size(); ++i) {
    const Parameter& p = F.f->parameter(F.ps[i].name);
    CHECK(vf::sameBits(p.getValue(), before[i]), "after wrapping " << F.ps[i].name << " holds " << vf::dec(p.getValue()) << ", it had " << vf::dec(before[i]));
    CHECK(p.hasConstraint() == (F.ps[i].cfg != 8), "wrapping changed the constraint of " << F.ps[i].name << " in the wrapped function");
  }
  CHECK(W.w->getNumberOfParameters() == W.widx.size(), "wrapper has " << W.w->getNumberOfParameters() << " parameters, expected " << W.widx.size());
  CHECK(vf::sameBits(W.w->getValue(), F.f->getValue()), "wrapper value " << vf::dec(W.w->getValue()) << " differs from the function value right after wrapping");
  {
    for (size_t k = 0; k < W.widx.size(); ++k) {
      const PSpec& s = F.ps[W.widx[k]];
      CHECK(W.w->hasParameter(s.name) && W.w->getParameters()[k].getName() == s.name, "wrapper parameter " << k << " is not " << s.name);
      const TransformedParameter* tp = dynamic_cast<const TransformedParameter*>(&W.w->parameter(s.name));
      CHECK(tp != nullptr, "wrapper parameter " << s.name << " is not a TransformedParameter");
      CHECK(!tp->hasConstraint(), "transformed parameter " << s.name << " carries a constraint");
      double t = tp->getValue(), back = tp->getOriginalValue();
      if (!transformed(s)) {
        CHECK(vf::sameBits(t, s.x0) && vf::sameBits(back, s.x0), "parameter " << showP(s) << " without interval constraint did not pass through: coordinate " << vf::dec(t) << ", original " << vf::dec(back));
        CHECK(tp->getFirstOrderDerivative() == 1. && tp->getSecondOrderDerivative() == 0., "placebo derivative is not (1,0) for " << s.name);
        continue;
      }
      CHECK(std::isfinite(t), "transformed coordinate of " << showP(s) << " is " << t << ", not a real number");
      if (W.negKnown(c, s)) continue;
      Tr tr = trOf(s);
      double tol = tolOf(tr, s.x0);
      bool onClosed = (s.il && std::abs(s.x0 - s.lo) < TINY) || (s.iu && std::abs(s.x0 - s.hi) < TINY);
      if (onClosed) tol += 2.3e-12;  // documented nudge of a value sitting on a closed bound
      double err = std::abs(back - s.x0);
      c.observe("init_roundtrip_err/tol", err / tol);
      CHECK(err <= tol, "wrapper coordinate " << vf::dec(t) << " of " << showP(s) << " back-transforms to " << vf::dec(back) << " (error " << err << " > " << tol << ")");
    }
  }
}

// ---- W2: one evaluation of the wrapper at coordinates tv (for the wrapper parameters listed in upd)
// xcur: model of the point held by the wrapped function (updated).
// movedOutside: the shared function was moved by another route since this wrapper's last evaluation.  The named
// coordinates must arrive whatever happened in between; what a PARTIAL update does to the wrapper's other
// parameters in that situation is not fixed by the statement (the code documents "we only set parameters that have
// been changed"), so only parameters outside the wrapper are then required to stay untouched.
void checkEval(vf::Ctx& c, Fn& F, const Wr& W, const vector<size_t>& upd, const vector<double>& tv, bool useF, vector<double>& xcur, bool movedOutside = false) {
  ParameterList pl;
  for (size_t k = 0; k < upd.size(); ++k) pl.addParameter(Parameter(F.ps[upd[k]].name, tv[k]));
  for (size_t k = 0; k < upd.size(); ++k) if (overshootProne(F.ps[upd[k]], tv[k])) c.excludeIfKnown("C11-closed-upper-overshoot");
  double v;
  try {
    if (useF) v = W.w->f(pl); else { W.w->setParameters(pl); v = W.w->getValue(); }
  } catch (ConstraintException& e) {
    string m = e.what(); m = m.substr(0, m.find_first_of("\t\n"));  // drop the stack trace
    CHECK(false, "evaluating the wrapper at real coordinates raised a ConstraintException: the back-transformed point violates the original constraints (" << m << ")");
  }
  vector<double> xl(F.ps.size());
  for (size_t i = 0; i < F.ps.size(); ++i) {
    xl[i] = F.f->getParameterValue(F.ps[i].name);
    CHECK(accP(F.ps[i], xl[i]), "back-transformed value " << vf::dec(xl[i]) << " of " << showP(F.ps[i]) << " violates the original constraint");
    bool updated = std::find(upd.begin(), upd.end(), i) != upd.end();
    if (movedOutside && std::find(W.widx.begin(), W.widx.end(), i) != W.widx.end()) continue;
    if (!updated) CHECK(vf::sameBits(xl[i], xcur[i]), "parameter " << F.ps[i].name << " was not updated but changed from " << vf::dec(xcur[i]) << " to " << vf::dec(xl[i]));
  }
  double direct = F.f->evalNow();
  CHECK(vf::sameBits(v, direct), "wrapper value " << vf::dec(v) << " differs from the original function " << vf::dec(direct) << " at the point it now holds");
  CHECK(vf::sameBits(W.w->getValue(), v) && vf::sameBits(F.f->getValue(), v), "getValue() of wrapper/function disagree with f()");
  for (size_t k = 0; k < upd.size(); ++k)
    CHECK(vf::sameBits(W.w->getParameterValue(F.ps[upd[k]].name), tv[k]), "wrapper does not hold the coordinate it was given for " << F.ps[upd[k]].name);
  // the point received by the function is the back-transform (documented formula, own long double implementation)
  {
    for (size_t k = 0; k < upd.size(); ++k) {
      const PSpec& s = F.ps[upd[k]];
      if (W.negKnown(c, s)) continue;
      if (!transformed(s)) { CHECK(vf::sameBits(xl[upd[k]], tv[k]), "parameter " << s.name << " without interval constraint: coordinate " << vf::dec(tv[k]) << " arrived as " << vf::dec(xl[upd[k]])); continue; }
      Tr tr = trOf(s);
      double x = xl[upd[k]], tol = tolOf(tr, x) + 2.3e-12;  // bounds may be moved by the documented 1e-12
      if (isNeg(s)) {
        CHECK(orientOf(tr, tv[k], x, tol) != 0, "coordinate " << vf::dec(tv[k]) << " of " << showP(s) << " arrived as " << vf::dec(x) << ", the mirrored half-line map gives " << vf::dec(static_cast<double>(backRef(tr, tv[k], -1))) << " or " << vf::dec(static_cast<double>(backRef(tr, tv[k], 1))));
      } else {
        double ref = static_cast<double>(backRef(tr, tv[k])), err = std::abs(x - ref);
        c.observe("eval_point_err/tol", err / tol);
        CHECK(err <= tol, "coordinate " << vf::dec(tv[k]) << " of " << showP(s) << " arrived as " << vf::dec(x) << ", documented formula gives " << vf::dec(ref) << " (error " << err << " > " << tol << ")");
      }
    }
  }
  xcur = xl;
}

// ---- W3: chain rule at the current point; tcur[k] = coordinate held by wrapper parameter k
void checkChain(vf::Ctx& c, Fn& F, const Wr& W, const vector<double>& tcur) {
  size_t m = W.widx.size();
  vector<LD> g1(m), g2(m); vector<double> rel(m); vector<bool> skip(m, false);
  for (size_t k = 0; k < m; ++k) {
    const PSpec& s = F.ps[W.widx[k]];
    if (W.negKnown(c, s)) { skip[k] = true; continue; }
    if (!transformed(s)) { g1[k] = 1; g2[k] = 0; rel[k] = 0; continue; }
    Tr tr = trOf(s); int o = -1;
    if (isNeg(s)) {
      double x = F.f->getParameterValue(s.name);
      o = orientOf(tr, tcur[k], x, tolOf(tr, x) + 2.3e-12, dynamic_cast<const TransformedParameter&>(W.w->parameter(s.name)).getFirstOrderDerivative());
      CHECK(o != 0, "negative half-line " << showP(s) << ": back-transformed value " << vf::dec(x) << " is not the mirrored map at " << vf::dec(tcur[k]));
    }
    g1[k] = d1Ref(tr, tcur[k], o); g2[k] = d2Ref(tr, tcur[k], o);
    rel[k] = s.cfg <= 3 ? 4e-12 / (s.hi - s.lo) : 0;  // open bounds are moved by the documented 1e-12
  }
  auto close = [&](double got, LD ref, LD mag, double r) { return std::abs(static_cast<double>(got - ref)) <= static_cast<double>((1e-9 + r) * mag) + 1e-300; };
  for (size_t k = 0; k < m; ++k) {
    if (skip[k]) continue;
    const string& nk = F.ps[W.widx[k]].name;
    LD fi = F.f->getFirstOrderDerivative(nk), fii = F.f->getSecondOrderDerivative(nk);
    if (W.kind >= 1) {
      double got = W.w1()->getFirstOrderDerivative(nk); LD ref = fi * g1[k];
      if (fabsl(ref) > 1e-280L) c.observe("chain_d1_err/tol", std::abs(static_cast<double>((got - ref) / ((1e-9 + rel[k]) * ref))));
      CHECK(close(got, ref, fabsl(ref), rel[k]), "d/dt_" << nk << ": wrapper gives " << vf::dec(got) << ", chain rule f'*g' = " << vf::dec(static_cast<double>(fi)) << " * " << vf::dec(static_cast<double>(g1[k])) << " = " << vf::dec(static_cast<double>(ref)));
    }
    if (W.kind >= 2) {
      double got = W.w2()->getSecondOrderDerivative(nk); LD ref = fii * g1[k] * g1[k] + fi * g2[k], mag = fabsl(fii * g1[k] * g1[k]) + fabsl(fi * g2[k]);
      if (mag > 1e-280L) c.observe("chain_d2_err/tol", std::abs(static_cast<double>((got - ref) / ((1e-9 + 2 * rel[k]) * mag))));
      CHECK(close(got, ref, mag, 2 * rel[k]), "d2/dt_" << nk << "^2: wrapper gives " << vf::dec(got) << ", chain rule f''*g'^2 + f'*g'' = " << vf::dec(static_cast<double>(fii)) << "*" << vf::dec(static_cast<double>(g1[k])) << "^2 + " << vf::dec(static_cast<double>(fi)) << "*" << vf::dec(static_cast<double>(g2[k])) << " = " << vf::dec(static_cast<double>(ref)));
      for (size_t l = 0; l < m; ++l) {
        if (l == k || skip[l]) continue;
        const string& nl = F.ps[W.widx[l]].name;
        LD fkl = F.f->getSecondOrderDerivative(nk, nl); LD r2 = fkl * g1[k] * g1[l];
        double g = W.w2()->getSecondOrderDerivative(nk, nl);
        CHECK(close(g, r2, fabsl(r2), rel[k] + rel[l]), "d2/dt_" << nk << " dt_" << nl << ": wrapper gives " << vf::dec(g) << ", chain rule f_ij*g_i'*g_j' = " << vf::dec(static_cast<double>(r2)));
      }
    }
  }
}

vector<double> currentT(const Fn& F, const Wr& W) {
  vector<double> t; for (size_t i : W.widx) t.push_back(W.w->getParameterValue(F.ps[i].name)); return t;
}

}  // namespace

// ------------------------------------------------------------------ T1 round trip
LAW(T1_roundtrip, RC, 40000, 1500000, 20, "a half-line transform, or a value within 1e-6 of a bound") {
  Tr tr = genTr(c);
  double x = genInsideTr(c, tr);
  bool viaCtor = c.flag();
  c.desc << show(tr) << " x=" << vf::dec(x) << (viaCtor ? " via constructor" : " via setOriginalValue");
  c.nt(!isInterval(tr) || distToBound(tr, x) < 1e-6);
  if (inPiZone(tr, x)) c.excludeIfKnown("C11-pi-tangent");
  if (tr.k == RNEG) c.excludeIfKnown("C11-neg-halfline");
  unique_ptr<TransformedParameter> p;
  if (viaCtor) p = make(tr, x); else { p = make(tr, midOf(tr)); p->setOriginalValue(x); }
  double t = p->getValue(), back = p->getOriginalValue(), tol = tolOf(tr, x), err = std::abs(back - x);
  c.observe("roundtrip_err/tol", err / tol);
  CHECK(err <= tol, "x=" << vf::dec(x) << " -> t=" << vf::dec(t) << " -> " << vf::dec(back) << " (error " << err << " > " << tol << ") for " << show(tr));
  CHECK(!p->hasConstraint(), "a transformed parameter carries a constraint");
  unique_ptr<TransformedParameter> q(p->clone());
  CHECK(vf::sameBits(q->getOriginalValue(), back) && vf::sameBits(q->getValue(), t), "clone of the transformed parameter differs");
  // values outside the interval are refused with the documented exception, the coordinate is kept
  if (c.oneIn(3)) {
    static const double off[] = {0.0, 1e-9, 1.0, 2500.0};
    double d = c.pick(off), bad;
    if (isInterval(tr)) bad = c.flag() ? tr.lo - d : tr.hi + d; else bad = tr.k == RPOS ? tr.lo - d : tr.hi + d;
    bool raised = false;
    try { p->setOriginalValue(bad); } catch (ConstraintException&) { raised = true; }
    CHECK(raised, "setOriginalValue(" << vf::dec(bad) << ") outside " << show(tr) << " did not raise ConstraintException");
    CHECK(vf::sameBits(p->getValue(), t), "a refused setOriginalValue changed the coordinate");
  }
}

// ------------------------------------------------------------------ T2 monotonicity (both directions of the map)
LAW(T2_monotone, RC, 30000, 1000000, 24, "a half-line transform, or a non-unit scale") {
  Tr tr = genTr(c);
  bool forward = c.flag();
  c.nt(!isInterval(tr) || tr.s != 1);
  unique_ptr<TransformedParameter> p = make(tr, midOf(tr));
  if (!forward) {
    double t[3]; for (double& v : t) v = genT(c);
    sort(t, t + 3);
    c.desc << show(tr) << " coordinate -> original at t=" << vf::dec(t[0]) << "," << vf::dec(t[1]) << "," << vf::dec(t[2]);
    if (tr.k == RNEG) c.excludeIfKnown("C11-neg-halfline");
    double o[3]; for (int i = 0; i < 3; ++i) { p->setValue(t[i]); o[i] = p->getOriginalValue(); }
    int seen = 0;
    for (int i = 0; i < 2; ++i) {
      if (t[i] == t[i + 1]) continue;
      double sc = scaleOf(tr, o[i]), slack = 2 * EPS * sc;
      if (tr.k != RNEG) {
        CHECK(o[i + 1] >= o[i] - slack, "not monotone: orig(" << vf::dec(t[i]) << ")=" << vf::dec(o[i]) << " > orig(" << vf::dec(t[i + 1]) << ")=" << vf::dec(o[i + 1]) << " for " << show(tr));
        LD gap = backRef(tr, t[i + 1]) - backRef(tr, t[i]);
        if (gap > 8 * EPS * sc) CHECK(o[i + 1] > o[i], "not strictly monotone: orig(" << vf::dec(t[i]) << ") = orig(" << vf::dec(t[i + 1]) << ") = " << vf::dec(o[i]) << " although the exact images differ by " << static_cast<double>(gap));
      } else {
        int sg = o[i + 1] > o[i] + slack ? 1 : o[i + 1] < o[i] - slack ? -1 : 0;
        LD gapI = fabsl(backRef(tr, t[i + 1], -1) - backRef(tr, t[i], -1)), gapD = fabsl(backRef(tr, t[i + 1], 1) - backRef(tr, t[i], 1));
        if (min(gapI, gapD) > 8 * EPS * sc) CHECK(sg != 0, "not strictly monotone: orig(" << vf::dec(t[i]) << ") = orig(" << vf::dec(t[i + 1]) << ") = " << vf::dec(o[i]));
        CHECK(sg == 0 || seen == 0 || sg == seen, "not monotone: orig(" << vf::dec(t[0]) << ")=" << vf::dec(o[0]) << ", orig(" << vf::dec(t[1]) << ")=" << vf::dec(o[1]) << ", orig(" << vf::dec(t[2]) << ")=" << vf::dec(o[2]) << " for " << show(tr));
        if (sg) seen = sg;
      }
    }
  } else {
    double x[3]; for (double& v : x) v = genInsideTr(c, tr);
    sort(x, x + 3);
    c.desc << show(tr) << " original -> coordinate at x=" << vf::dec(x[0]) << "," << vf::dec(x[1]) << "," << vf::dec(x[2]);
    for (double v : x) if (inPiZone(tr, v)) c.excludeIfKnown("C11-pi-tangent");
    double t[3]; LD r[3], E[3];
    for (int i = 0; i < 3; ++i) {
      p->setOriginalValue(x[i]); t[i] = p->getValue(); r[i] = fwdRef(tr, x[i]);
      // forward error bound of the documented formula evaluated in double
      LD w = static_cast<LD>(tr.hi) - tr.lo;
      if (tr.k == HYP) { LD u = 2 * (static_cast<LD>(x[i]) - tr.lo) / w - 1; E[i] = tr.s * 4 * EPS / (1 - u * u) + 4 * EPS * fabsl(r[i]); }
      else if (tr.k == TAN) { LD y = PI_L * (static_cast<LD>(x[i]) - tr.lo) / w - PI_L / 2, cy = cosl(y); E[i] = tr.s * 8 * EPS / (cy * cy) + 4 * EPS * fabsl(r[i]); }
      else { double b = tr.k == RPOS ? tr.lo : tr.hi; E[i] = 4 * EPS * (1 + fabsl(r[i]) + std::abs(x[i]) + std::abs(b)); }
    }
    int seen = 0;
    for (int i = 0; i < 2; ++i) {
      if (x[i] == x[i + 1]) continue;
      if (!(E[i] < 1) || !(E[i + 1] < 1) || !std::isfinite(t[i]) || !std::isfinite(t[i + 1])) continue;  // saturated within rounding of a bound
      double slack = static_cast<double>(4 * (E[i] + E[i + 1]));
      bool strict = tr.k != TAN && fabsl(r[i + 1] - r[i]) > 16 * (E[i] + E[i + 1]);
      if (tr.k != RNEG) {
        CHECK(t[i + 1] >= t[i] - slack, "not monotone: coord(" << vf::dec(x[i]) << ")=" << vf::dec(t[i]) << " > coord(" << vf::dec(x[i + 1]) << ")=" << vf::dec(t[i + 1]) << " for " << show(tr));
        if (strict) CHECK(t[i + 1] > t[i], "not strictly monotone: coord(" << vf::dec(x[i]) << ") = coord(" << vf::dec(x[i + 1]) << ") = " << vf::dec(t[i]));
      } else {
        int sg = t[i + 1] > t[i] + slack ? 1 : t[i + 1] < t[i] - slack ? -1 : 0;
        if (strict) CHECK(sg != 0, "not strictly monotone: coord(" << vf::dec(x[i]) << ") = coord(" << vf::dec(x[i + 1]) << ") = " << vf::dec(t[i]));
        CHECK(sg == 0 || seen == 0 || sg == seen, "not monotone: coord(" << vf::dec(x[0]) << ")=" << vf::dec(t[0]) << ", coord(" << vf::dec(x[1]) << ")=" << vf::dec(t[1]) << ", coord(" << vf::dec(x[2]) << ")=" << vf::dec(t[2]) << " for " << show(tr));
        if (sg) seen = sg;
      }
    }
  }
}

// ------------------------------------------------------------------ T3 derivatives of the map = derivatives of the documented formula
LAW(T3_derivatives_formula, RC, 30000, 1000000, 20, "a half-line transform, a non-unit scale, or |t/scale| > 5") {
  Tr tr = genTr(c);
  bool byX = c.oneIn(3);
  unique_ptr<TransformedParameter> p = make(tr, midOf(tr));
  if (byX) { double x = genInsideTr(c, tr); c.desc << show(tr) << " at x=" << vf::dec(x); if (inPiZone(tr, x)) c.excludeIfKnown("C11-pi-tangent"); p->setOriginalValue(x); }
  else { double t = genT(c); c.desc << show(tr) << " at t=" << vf::dec(t); p->setValue(t); }
  double t = p->getValue();
  if (!std::isfinite(t)) return;  // x within rounding of a bound: no real coordinate, nothing to differentiate
  c.nt(!isInterval(tr) || tr.s != 1 || std::abs(t / tr.s) > 5);
  // PI() = 3.141593 changes every derivative of the tangent map by the relative amount (P-pi)/pi = 1.1e-7
  if (tr.k == TAN) c.excludeIfKnown("C11-pi-tangent");
  if (tr.k == RNEG) c.excludeIfKnown("C11-neg-halfline");
  int o = -1;
  if (tr.k == RNEG) {
    double x = p->getOriginalValue(); o = orientOf(tr, t, x, tolOf(tr, x), p->getFirstOrderDerivative());
    CHECK(o != 0, "negative half-line: orig(" << vf::dec(t) << ") = " << vf::dec(x) << " is not the mirrored documented map (" << vf::dec(static_cast<double>(backRef(tr, t, -1))) << " or " << vf::dec(static_cast<double>(backRef(tr, t, 1))) << ")");
  }
  double d1 = p->getFirstOrderDerivative(), d2 = p->getSecondOrderDerivative();
  LD r1 = d1Ref(tr, t, o), r2 = d2Ref(tr, t, o);
  double e1 = std::abs(static_cast<double>(d1 - r1)), e2 = std::abs(static_cast<double>(d2 - r2));
  if (r1 != 0) c.observe("d1_formula_relerr", e1 / std::abs(static_cast<double>(r1)));
  if (r2 != 0) c.observe("d2_formula_relerr", e2 / std::abs(static_cast<double>(r2)));
  CHECK(e1 <= 1e-9 * std::abs(static_cast<double>(r1)) + 1e-300, "first derivative at t=" << vf::dec(t) << " is " << vf::dec(d1) << ", documented formula gives " << vf::dec(static_cast<double>(r1)) << " for " << show(tr));
  CHECK(e2 <= 1e-9 * std::abs(static_cast<double>(r2)) + 1e-300, "second derivative at t=" << vf::dec(t) << " is " << vf::dec(d2) << ", documented formula gives " << vf::dec(static_cast<double>(r2)) << " for " << show(tr));
}

// ------------------------------------------------------------------ T4 derivatives agree with finite differences of the library's own map
LAW(T4_derivatives_fd, RC, 30000, 1000000, 16, "derivative above the rounding noise of the difference quotient (the comparison is informative)") {
  Tr tr = genTr(c);
  double t = genT(c);
  double h = 1e-3 * tr.s;
  if (!isInterval(tr) && std::abs(t) <= 1.5 * h) t = t < 0 ? -4 * h : 4 * h;  // the half-line map is only C1 at t=0
  c.desc << show(tr) << " at t=" << vf::dec(t);
  unique_ptr<TransformedParameter> p = make(tr, midOf(tr));
  auto at = [&](double tt) -> LD { p->setValue(tt); return p->getOriginalValue(); };
  LD M = 0;
  auto D = [&](double hh, LD& d1, LD& d2) {
    double tp = t + hh, tm = t - hh; LD xp = at(tp), xm = at(tm), x0 = at(t);
    M = max({M, fabsl(xp), fabsl(xm), fabsl(x0)});
    d1 = (xp - xm) / (static_cast<LD>(tp) - tm);
    LD hp = static_cast<LD>(tp) - t, hm = static_cast<LD>(t) - tm;
    d2 = 2 * ((xp - x0) / hp - (x0 - xm) / hm) / (hp + hm);
  };
  LD a1, a2, b1, b2; D(h, a1, a2); D(h / 2, b1, b2);
  LD fd1 = (4 * b1 - a1) / 3, fd2 = (4 * b2 - a2) / 3;
  p->setValue(t);
  double d1 = p->getFirstOrderDerivative(), d2 = p->getSecondOrderDerivative();
  // magnitudes of the intermediate quantities of the documented formula (they carry the rounding error)
  if (isInterval(tr)) M = max({M, static_cast<LD>(tr.hi - tr.lo), fabsl(tr.lo), fabsl(tr.hi)});
  else M = max({M, fabsl(tr.k == RPOS ? tr.lo : tr.hi), static_cast<LD>(std::abs(t) + 1)});
  double n1 = static_cast<double>(32 * EPS * M / h), n2 = static_cast<double>(256 * EPS * M / (h * h));
  double e1 = std::abs(static_cast<double>(fd1 - d1)), e2 = std::abs(static_cast<double>(fd2 - d2));
  c.nt(std::abs(d1) > 100 * n1 && std::abs(d2) > 100 * n2);
  c.observe("d1_fd_err/tol", e1 / (1e-6 * std::abs(d1) + n1));
  c.observe("d2_fd_err/tol", e2 / (1e-6 * std::abs(d2) + n2));
  CHECK(e1 <= 1e-6 * std::abs(d1) + n1, "first derivative at t=" << vf::dec(t) << " is " << vf::dec(d1) << " but the difference quotient of getOriginalValue gives " << vf::dec(static_cast<double>(fd1)) << " for " << show(tr));
  CHECK(e2 <= 1e-6 * std::abs(d2) + n2, "second derivative at t=" << vf::dec(t) << " is " << vf::dec(d2) << " but the second difference of getOriginalValue gives " << vf::dec(static_cast<double>(fd2)) << " for " << show(tr));
}

// ------------------------------------------------------------------ T5 placebo transform
LAW(T5_placebo, RC, 4000, 100000, 8, "non-zero value") {
  double x = c.flag() ? c.real(-1e3, 1e3) : c.ival(30), y = c.flag() ? c.real(-1e3, 1e3) : c.ival(30);
  c.desc << "placebo x=" << vf::dec(x) << " then " << vf::dec(y);
  c.nt(x != 0);
  PlaceboTransformedParameter p("p", x);
  CHECK(vf::sameBits(p.getValue(), x) && vf::sameBits(p.getOriginalValue(), x), "placebo changed the value " << vf::dec(x));
  p.setOriginalValue(y);
  CHECK(vf::sameBits(p.getValue(), y) && vf::sameBits(p.getOriginalValue(), y), "placebo setOriginalValue changed the value " << vf::dec(y));
  p.setValue(x);
  CHECK(vf::sameBits(p.getOriginalValue(), x), "placebo getOriginalValue differs from the coordinate");
  CHECK(p.getFirstOrderDerivative() == 1. && p.getSecondOrderDerivative() == 0., "placebo derivatives are not (1,0)");
}

// ------------------------------------------------------------------ W0 exhaustive lattice: every configuration, one parameter
LAW(W0_configs_enum, ENUM, 1, 1, 0, "a half-infinite configuration, an open bound, or a start value on/next to a bound") {
  static const double LO[] = {0, -1, 0.1, -1000, 999}, HI[] = {1, 7, 0.3, 1000, 1000};
  static const double TS[] = {0, -1, 1, -20, 20, -30, 30};
  PSpec s; s.name = "p0"; s.cfg = static_cast<int>(c.below(10));
  size_t b = c.below(5); s.lo = LO[b]; s.hi = HI[b]; setShape(s);
  int pos = static_cast<int>(c.below(5));
  if (s.cfg <= 3) {
    double w = s.hi - s.lo;
    switch (pos) {
      case 0: s.x0 = s.lo + w / 2; break;
      case 1: s.x0 = s.lo + 1e-9; break;
      case 2: s.x0 = s.hi - 1e-9; break;
      case 3: s.x0 = s.il ? s.lo : s.lo + OPEN_MIN; break;
      default: s.x0 = s.iu ? s.hi : s.hi - OPEN_MIN;
    }
  } else if (s.cfg <= 7) {
    bool ps = s.cfg <= 5, closed = ps ? s.il : s.iu; double bd = ps ? s.lo : s.hi, dir = ps ? 1 : -1;
    static const double DS[] = {0.5, 1e-9, 1.0, 5.0};
    s.x0 = pos < 4 ? bd + dir * DS[pos] : (closed ? bd : bd + dir * OPEN_MIN);
  } else { static const double XS[] = {0, 1, -2.5, 1000, -1e-9}; s.x0 = XS[pos]; }
  int kind = static_cast<int>(c.below(3));
  double t = TS[c.below(7)];
  static const double PREC[] = {-1, 0.0, 1e-9};  // constraint precision: default, none, well above the wrapper's 1e-12 nudge
  if (s.cfg <= 7) s.prec = PREC[c.below(3)];
  Fn F; F.ps.push_back(s); F.lin = {2}; F.cub = {-1}; F.q = {{1}}; F.build();
  c.desc << F.show();
  c.nt(ntSpec(s) || pos >= 3);
  vector<double> before = {F.f->getParameterValue("p0")}; long ns = F.f->nSet;
  Wr W = wrap(F, kind, nullptr, false, c.desc);
  c.desc << " t=" << t;
  checkInit(c, F, W, before, ns);
  vector<double> xcur = before;
  checkEval(c, F, W, {0}, {t}, true, xcur);
  checkChain(c, F, W, {t});
  CHECK(vf::auditOffences() == 0, "run-time monitor: " << vf::auditFirst());
  if (W.pending) c.excludeIfKnown(W.pending);
}

// ------------------------------------------------------------------ W1 immediately after wrapping
LAW(W1_after_wrapping, RC, 25000, 800000, 128, "some wrapped parameter is half-infinite, has an open bound, or starts within 1e-6 of a bound") {
  Fn F = genFn(c);
  int kind = static_cast<int>(c.below(3)); bool sub = c.oneIn(4), verbose = c.oneIn(8);
  vector<size_t> subset; if (sub) subset = genSubset(c, F.ps.size());
  c.desc << F.show();
  vector<double> before; for (auto& s : F.ps) before.push_back(F.f->getParameterValue(s.name));
  long ns = F.f->nSet;
  Wr W = wrap(F, kind, sub ? &subset : nullptr, verbose, c.desc);
  for (size_t i : W.widx) c.nt(ntSpec(F.ps[i]));
  checkInit(c, F, W, before, ns);
  // a copy of the wrapper holds the same coordinates
  unique_ptr<ReparametrizationFunctionWrapper> cp(W.w->clone());
  for (size_t i : W.widx) CHECK(vf::sameBits(cp->getParameterValue(F.ps[i].name), W.w->getParameterValue(F.ps[i].name)), "clone of the wrapper holds another coordinate for " << F.ps[i].name);
  CHECK(vf::auditOffences() == 0, "run-time monitor: " << vf::auditFirst());
  if (W.pending) c.excludeIfKnown(W.pending);
}

// ------------------------------------------------------------------ W2 value at the back-transformed point, constraints satisfied
LAW(W2_value_and_constraints, RC, 30000, 1000000, 192, "some wrapped parameter is half-infinite or has an open bound, or a coordinate with |t| >= 19 (saturated tanh)") {
  Fn F = genFn(c);
  int kind = static_cast<int>(c.below(3)); bool sub = c.oneIn(4);
  vector<size_t> subset; if (sub) subset = genSubset(c, F.ps.size());
  c.desc << F.show();
  Wr W = wrap(F, kind, sub ? &subset : nullptr, false, c.desc);
  vector<double> xcur; for (auto& s : F.ps) xcur.push_back(F.f->getParameterValue(s.name));
  int ne = c.irange(1, 3);
  for (int e = 0; e < ne; ++e) {
    vector<size_t> upd = W.widx;
    if (c.oneIn(3)) { upd.clear(); for (size_t i : W.widx) if (c.flag()) upd.push_back(i); if (upd.empty()) upd = W.widx; }
    vector<double> tv; bool useF = !c.oneIn(4);
    c.desc << (useF ? "; f(" : "; setParameters(");
    for (size_t i : upd) { double t = genT(c); tv.push_back(t); c.desc << F.ps[i].name << "=" << vf::dec(t) << " "; c.nt((transformed(F.ps[i]) && std::abs(t) >= 19) || (F.ps[i].cfg >= 1 && F.ps[i].cfg <= 7)); }
    c.desc << ")";
    checkEval(c, F, W, upd, tv, useF, xcur);
  }
  CHECK(vf::auditOffences() == 0, "run-time monitor: " << vf::auditFirst());
  if (W.pending) c.excludeIfKnown(W.pending);
}

// ------------------------------------------------------------------ W3 chain rule
LAW(W3_chain_rule, RC, 30000, 1000000, 192, "a transformed parameter whose function derivative is non-zero") {
  Fn F = genFn(c);
  int kind = c.oneIn(3) ? 1 : 2; bool sub = c.oneIn(4);
  vector<size_t> subset; if (sub) subset = genSubset(c, F.ps.size());
  c.desc << F.show();
  Wr W = wrap(F, kind, sub ? &subset : nullptr, false, c.desc);
  vector<double> xcur; for (auto& s : F.ps) xcur.push_back(F.f->getParameterValue(s.name));
  if (c.oneIn(6)) { c.desc << "; at the initial point"; checkChain(c, F, W, currentT(F, W)); }
  int ne = c.irange(1, 2);
  for (int e = 0; e < ne; ++e) {
    vector<double> tv; c.desc << "; f(";
    for (size_t i : W.widx) { double t = genT(c); tv.push_back(t); c.desc << F.ps[i].name << "=" << vf::dec(t) << " "; }
    c.desc << ")";
    checkEval(c, F, W, W.widx, tv, true, xcur);
    for (size_t i : W.widx) c.nt(transformed(F.ps[i]) && F.f->getFirstOrderDerivative(F.ps[i].name) != 0);
    checkChain(c, F, W, tv);
  }
  if (W.pending) c.excludeIfKnown(W.pending);
}

// ------------------------------------------------------------------ W4 histories on a shared wrapped function
// The wrapper does not own the function (shared_ptr, shared with the caller, with clones and with other wrappers).
// "Evaluated at ANY real-valued transformed point equals the original function at the back-transformed point" holds
// for every evaluation of a history, in particular when the function was moved by another route in between and the
// wrapper is evaluated again at a coordinate vector it already holds (nothing changes on the wrapper's side).
LAW(W4_shared_function_history, RC, 30000, 800000, 320, "a wrapper is evaluated with at least one coordinate bitwise equal to the one it holds after the shared function was moved away from that value directly, through a clone or through a second wrapper") {
  Fn F = genFn(c);
  int kind = static_cast<int>(c.below(3)); bool sub = c.oneIn(5);
  vector<size_t> subset; if (sub) subset = genSubset(c, F.ps.size());
  c.desc << F.show() << " A:";
  vector<Wr> Ws; Ws.push_back(wrap(F, kind, sub ? &subset : nullptr, false, c.desc));
  vector<size_t> subset2;
  switch (c.weighted({2, 2, 2})) {
    case 0: break;
    case 1: { Wr B = Ws[0]; B.w.reset(Ws[0].w->clone()); c.desc << " B: clone of A"; Ws.push_back(B); break; }
    default: {
      int k2 = static_cast<int>(c.below(3)); bool sub2 = c.oneIn(3); if (sub2) subset2 = genSubset(c, F.ps.size());
      c.desc << " B:"; Ws.push_back(wrap(F, k2, sub2 ? &subset2 : nullptr, false, c.desc));
    }
  }
  // moved[j]: the function left the point wrapper j put it at (or, before j's first evaluation, its initial point)
  vector<bool> moved(Ws.size(), false);
  auto fNow = [&] { vector<double> x; for (auto& s : F.ps) x.push_back(F.f->getParameterValue(s.name)); return x; };
  int nops = c.irange(2, 5);
  for (int op = 0; op < nops; ++op) {
    size_t j = Ws.size() > 1 ? c.below(2) : 0; const Wr& W = Ws[j];
    unsigned what = c.weighted({3, 2, 2});
    if (what == 1) {  // move the function directly to other legal values
      ParameterList pl; c.desc << "; direct(";
      for (size_t i = 0; i < F.ps.size(); ++i) if (c.flag() || (i + 1 == F.ps.size() && pl.size() == 0)) {
        double x = genValue(c, F.ps[i]); pl.addParameter(Parameter(F.ps[i].name, x)); c.desc << F.ps[i].name << "=" << vf::dec(x) << " ";
      }
      c.desc << ")";
      vector<double> b = fNow();
      if (c.flag()) F.f->setParameters(pl); else F.f->matchParametersValues(pl);
      vector<double> a = fNow();
      for (size_t i = 0; i < a.size(); ++i) if (!vf::sameBits(a[i], b[i])) for (size_t k = 0; k < Ws.size(); ++k) moved[k] = true;
      continue;
    }
    vector<size_t> upd = W.widx;
    if (c.oneIn(3)) { upd.clear(); for (size_t i : W.widx) if (c.flag()) upd.push_back(i); if (upd.empty()) upd = W.widx; }
    // again: every named coordinate is bitwise the one the wrapper holds; otherwise fresh coordinates, some of them kept
    bool again = what == 0, useF = !c.oneIn(4);
    vector<double> tv; vector<bool> held;
    c.desc << "; " << (j ? "B." : "A.") << (useF ? "f(" : "setParameters(");
    for (size_t i : upd) {
      bool keep = again || c.oneIn(4);
      double t = keep ? W.w->getParameterValue(F.ps[i].name) : genT(c);
      tv.push_back(t); held.push_back(vf::sameBits(t, W.w->getParameterValue(F.ps[i].name)));
      c.desc << F.ps[i].name << (held.back() ? "=again " : "=") << vf::dec(t) << " ";
    }
    c.desc << ")";
    vector<double> xcur = fNow(), b = xcur;
    bool wasMoved = moved[j];
    checkEval(c, F, W, upd, tv, useF, xcur, wasMoved);
    bool changed = false, heldRestored = false;
    for (size_t i = 0; i < b.size(); ++i) if (!vf::sameBits(b[i], xcur[i])) changed = true;
    for (size_t k = 0; k < upd.size(); ++k) if (held[k] && !vf::sameBits(b[upd[k]], xcur[upd[k]])) heldRestored = true;
    c.nt(wasMoved && heldRestored);
    if (changed) for (size_t k = 0; k < Ws.size(); ++k) if (k != j) moved[k] = true;
    if (upd.size() == W.widx.size()) moved[j] = false;
    if (W.kind >= 1 && upd.size() == W.widx.size() && c.oneIn(4)) checkChain(c, F, W, currentT(F, W));
  }
  CHECK(vf::auditOffences() == 0, "run-time monitor: " << vf::auditFirst());
  for (auto& W : Ws) if (W.pending) c.excludeIfKnown(W.pending);
}

static struct Init {
  Init() { vf::G().resetHook = [] { vf::quietBpp(); vf::installAudit(); }; }
  // the framework's 1 s watchdog tick must not fire while statics (the law registry) are being destroyed at exit
  ~Init() { struct itimerval z; memset(&z, 0, sizeof z); setitimer(ITIMER_REAL, &z, nullptr); signal(SIGALRM, SIG_IGN); }
} init_;
VF_MAIN("C11")
