// C10 — optimisers never end worse than they start, converge when convex, respect bounds.
// Laws of DESIGN.md section 5/C10, one law per clause of the statement. Every optimiser law runs the same kind of case
// (genCase/runCase): one optimiser {BFGS, conjugate gradient, Powell, downhill simplex, SimpleMultiDimensions,
// SimpleNewtonMultiDimensions, Brent (outward / inward bracketing), golden section, Newton 1-D, Newton backtracking
// through OneDimensionOptimizationTools::lineSearch, MetaOptimizer (2-3 sub-optimisers over a partition of the variables,
// step / full, n = 1..3, each sub-optimiser left as built or pre-configured with a constraint policy of its own, which the
// meta-optimiser's policy overrides)} on one convex objective of dimension 1..6 from one start, with or without interval
// constraints (containing start and minimiser), one of the three constraint policies, tolerance 1e-4..1e-10,
// default or small (20..500) evaluation cap, verbose 0, profiler / message handler null. The optimiser that runs is
// either the one built and configured directly or a copy of that configured prototype: copy-constructed, clone()-d, or
// a freshly built optimiser (same or another function object, default settings) to which the prototype was ASSIGNED;
// the prototype may have been init()-ed before and may be destroyed or kept alive afterwards. Brent's initial interval
// lies around start and minimiser, around the start only, or entirely to one side of the start (outward bracketing:
// all laws; inward bracketing: all laws except convergence, which keeps intervals containing the minimiser).
//   La_termination   optimize() returns: CPU watchdog 60 s (a hang is a violation) and, deterministic and cheap, a run
//                    started at the exact minimiser with the default cap uses at most 50000 objective evaluations
//                    (worst legitimate value seen: 3338); the only exception accepted in any law is a
//                    ConstraintException under the *keep* policy with constraints present (counted, label)
//   Lb_descent       f(reported parameters) <= f(start) + 1e-12 (1+|f(start)|)
//   Lc_consistency   returned value == getFunctionValue() == f(getParameters()) (bitwise, evaluated by the harness) and
//                    the function object is left at those parameters with that value
//   Ld_budget        the library's counter is "loop iterations + evaluations counted by the step":
//                    (i) no iteration is started once the counter reached the cap (counter read after every step),
//                    (ii) final counter <= cap + objective evaluations of the last iteration (from the record; not for
//                    the meta-optimiser, which adds up counters that contain its sub-optimisers' iteration counts),
//                    (iii) isToleranceReached() is true whenever the run stopped before the cap and
//                    isMaximumNumberOfEvaluationsReached() == (counter >= cap)
//   Le_convergence   strictly convex quadratic, no constraint (or constraints stripped by the *ignore* policy), default
//                    cap: |x - c|_inf <= K_opt * scale + 1e-9, scale = sqrt(tau * max(1,|d|) * cond / lambda_min)
//                    (BFGS: two documented extra terms, see the law); no claim for a run of a |df| < tau optimiser that
//                    the default budget cut while its last two iterations still differed by >= tau (see the law)
//   Lf_feasible_auto automatic policy: every point at which the objective was evaluated satisfies every constraint
//                    (reference predicate on the bounds), the reported point is feasible, no exception escapes
//                    (also with the same constraints on the function's own parameters: an infeasible evaluation throws)
//   Lg_bracket       bracketMinimum: b strictly between a and c, f(b) <= f(a), f(b) <= f(c), stored f == f(stored x)
//   Lg_inward        inwardBracketMinimum: a, b are the given ends, c in [a,b] (mesh rounding), f(c) <= f at every point
//                    the routine evaluated (ends and mesh), every mesh point was visited, stored f == f(stored x)
//
// The objective (class Obj) is harness code: f(x) = Phi(Q^T (x - c)) + d with Q orthogonal (product of plane rotations),
// Phi one of  sum 1/2 lam_i y_i^2 | sum lam_i (cosh y_i - 1) | log sum_i 2 cosh(s_i y_i) - log 2n | sum lam_i (y^4/4 + rho y^2/2),
// exact analytic first and second derivatives, unique minimiser c with value d, cond = max lam / min lam <= 1e3. It
// records every call of setParameters (the point the function then sits on). Value and derivatives are a pure function
// of the point, so "f evaluated by the harness" is bitwise reproducible. Its own parameters are unconstrained (an
// infeasible evaluation is observed, not refused) except in the second configuration of Lf.
//
// Generator restrictions (inside the quantifier, reasons next to the code): in Le the simplex method gets >= 2 variables
// and non-lattice starts, and as a meta sub-optimiser it runs in full mode (Nelder-Mead stops on equal vertex values /
// a fresh simplex of size 0.2 is built by every init()).
//
// Cost bound: Powell (alone or inside the meta-optimiser) on an objective whose minimum value is exactly 0 gets a cap of
// 50000 where the default (10^6) would have been used: its relative stop rule cannot be met there and the run lasts
// until the cap (reason and numbers at the end of genCase).
//
// Convergence constants K_opt (frozen): calibrated on the unchanged tree (known findings excluded) and on a copy with all
// proposed fixes (no exclusion), >= 10x above the worst ratio err/scale seen (evidence: "conv_ratio_<optimiser>"):
//   worst seen   bfgs 0.77  cg 6.3  powell 3.7  simplex 6.5 (fixed copy)  simple 0.38  simple-newton 0.39
//                brent 0.063 / 0.047  golden 0.027 (fixed copy)  newton-1d 0 (exact)  meta 0.7 (2.1 on the fixed copy)
//   (thorough tier seeds 1 and 2: 30272 + 61395 unexcluded Le cases; plus 8 seeds x 1500 cases on each tree)
// Debugging: C10_TRACE=1 prints every case before it is run (and its cost), C10_RATIO=x prints Le cases above ratio x,
// C10_KEEP_PROTO=1 never destroys the prototype (a copy that still points into it then shows as a wrong result, not a crash).
#include "common/pbt.hpp"
#include "common/bppcommon.hpp"

#include <Bpp/Numeric/AbstractParametrizable.h>
#include <Bpp/Numeric/AutoParameter.h>
#include <Bpp/Numeric/Function/BfgsMultiDimensions.h>
#include <Bpp/Numeric/Function/BrentOneDimension.h>
#include <Bpp/Numeric/Function/ConjugateGradientMultiDimensions.h>
#include <Bpp/Numeric/Function/DirectionFunction.h>
#include <Bpp/Numeric/Function/DownhillSimplexMethod.h>
#include <Bpp/Numeric/Function/Functions.h>
#include <Bpp/Numeric/Function/GoldenSectionSearch.h>
#include <Bpp/Numeric/Function/MetaOptimizer.h>
#include <Bpp/Numeric/Function/NewtonBacktrackOneDimension.h>
#include <Bpp/Numeric/Function/NewtonOneDimension.h>
#include <Bpp/Numeric/Function/OneDimensionOptimizationTools.h>
#include <Bpp/Numeric/Function/PowellMultiDimensions.h>
#include <Bpp/Numeric/Function/SimpleMultiDimensions.h>
#include <Bpp/Numeric/Function/SimpleNewtonMultiDimensions.h>

#include <typeinfo>

using namespace bpp;
using namespace std;

namespace {

const double INF = std::numeric_limits<double>::infinity();

string nm(int j) { return "x" + to_string(j); }
string showVec(const vector<double>& v) { string s = "("; for (size_t i = 0; i < v.size(); ++i) s += (i ? "," : "") + vf::dec(v[i]); return s + ")"; }

// ------------------------------------------------------------------ intervals (reference predicate, from the definition)
struct Iv { bool has = false; double lo = -INF, hi = INF; bool il = true, iu = true; };
bool acc(const Iv& i, double v) { return !i.has || ((i.il ? v >= i.lo : v > i.lo) && (i.iu ? v <= i.hi : v < i.hi)); }
string show(const Iv& i) { return !i.has ? string("none") : string(i.il ? "[" : "]") + vf::dec(i.lo) + ";" + vf::dec(i.hi) + (i.iu ? "]" : "["); }
shared_ptr<ConstraintInterface> mk(const Iv& i) { return i.has ? make_shared<IntervalConstraint>(i.lo, i.hi, i.il, i.iu) : nullptr; }

// ------------------------------------------------------------------ objective specification and evaluation
enum FKind { QUAD = 0, COSH = 1, LSE = 2, QUARTIC = 3 };
const char* FNAME[] = {"quadratic", "sum-cosh", "log-sum-exp", "quartic-bowl"};
struct Rot { int i, j; double th; };
struct Spec {
  int kind = QUAD, n = 1;
  vector<double> c, lam; double d = 0, rho = 1;
  vector<Rot> rots;
  vector<double> Q;  // n*n, row-major, x-space row a, y-space column i
  double lmin() const { return *min_element(lam.begin(), lam.end()); }
  double lmax() const { return *max_element(lam.begin(), lam.end()); }
  double cond() const { return lmax() / lmin(); }
  void buildQ() {
    Q.assign(static_cast<size_t>(n * n), 0.0);
    for (int a = 0; a < n; ++a) Q[static_cast<size_t>(a * n + a)] = 1;
    for (auto& r : rots) {
      double cs = cos(r.th), sn = sin(r.th);
      for (int a = 0; a < n; ++a) {
        double qi = Q[static_cast<size_t>(a * n + r.i)], qj = Q[static_cast<size_t>(a * n + r.j)];
        Q[static_cast<size_t>(a * n + r.i)] = cs * qi - sn * qj;
        Q[static_cast<size_t>(a * n + r.j)] = sn * qi + cs * qj;
      }
    }
  }
  // value, gradient (n) and Hessian (n*n) at x; pure
  double eval(const vector<double>& x, vector<double>* g = nullptr, vector<double>* H = nullptr) const {
    size_t N = static_cast<size_t>(n);
    vector<double> y(N, 0.0), p1(N, 0.0), HY(N * N, 0.0);
    for (size_t i = 0; i < N; ++i) { double s = 0; for (size_t a = 0; a < N; ++a) s += Q[a * N + i] * (x[a] - c[a]); y[i] = s; }
    double v = 0;
    switch (kind) {
      case QUAD:
        for (size_t i = 0; i < N; ++i) { v += 0.5 * lam[i] * y[i] * y[i]; p1[i] = lam[i] * y[i]; HY[i * N + i] = lam[i]; }
        break;
      case COSH:
        for (size_t i = 0; i < N; ++i) { v += lam[i] * (cosh(y[i]) - 1); p1[i] = lam[i] * sinh(y[i]); HY[i * N + i] = lam[i] * cosh(y[i]); }
        break;
      case QUARTIC:
        for (size_t i = 0; i < N; ++i) {
          double q = y[i] * y[i];
          v += lam[i] * (q * q / 4 + rho * q / 2); p1[i] = lam[i] * (q * y[i] + rho * y[i]); HY[i * N + i] = lam[i] * (3 * q + rho);
        }
        break;
      default: {  // LSE, s_i = sqrt(lam_i)
        double m = 0; vector<double> s(N), pp(N), pm(N);
        for (size_t i = 0; i < N; ++i) { s[i] = sqrt(lam[i]); m = max(m, std::abs(s[i] * y[i])); }
        double S = 0;
        for (size_t i = 0; i < N; ++i) { pp[i] = exp(s[i] * y[i] - m); pm[i] = exp(-s[i] * y[i] - m); S += pp[i] + pm[i]; }
        v = m + log(S) - log(2.0 * static_cast<double>(n));
        for (size_t i = 0; i < N; ++i) { pp[i] /= S; pm[i] /= S; p1[i] = s[i] * (pp[i] - pm[i]); }
        // diagonal without cancellation: q(1-q) + 4 p+ p-  with q = p+ + p-  and  1-q = sum of the other q's
        for (size_t i = 0; i < N; ++i) for (size_t j = 0; j < N; ++j) {
          if (i != j) { HY[i * N + j] = -p1[i] * p1[j]; continue; }
          double q = pp[i] + pm[i], rest = 0; for (size_t l = 0; l < N; ++l) if (l != i) rest += pp[l] + pm[l];
          HY[i * N + i] = s[i] * s[i] * (q * rest + 4 * pp[i] * pm[i]);
        }
      }
    }
    if (g) { g->assign(N, 0.0); for (size_t a = 0; a < N; ++a) { double s = 0; for (size_t i = 0; i < N; ++i) s += Q[a * N + i] * p1[i]; (*g)[a] = s; } }
    if (H) {
      H->assign(N * N, 0.0);
      for (size_t a = 0; a < N; ++a) for (size_t b = 0; b < N; ++b) {
        double s = 0;
        for (size_t i = 0; i < N; ++i) for (size_t j = 0; j < N; ++j) if (HY[i * N + j] != 0) s += Q[a * N + i] * HY[i * N + j] * Q[b * N + j];
        (*H)[a * N + b] = s;
      }
    }
    return v + d;
  }
  string show() const {
    ostringstream o; o << FNAME[kind] << " n=" << n << " c=" << showVec(c) << " d=" << vf::dec(d) << " lam=" << showVec(lam);
    if (kind == QUARTIC) o << " rho=" << rho;
    o << " rot=[";
    for (auto& r : rots) o << "(" << r.i << "," << r.j << "," << vf::dec(r.th) << ")";
    o << "]";
    return o.str();
  }
};

// ------------------------------------------------------------------ the recording objective
struct Record {
  size_t n = 0;
  vector<double> xs, fs;  // flat points, values
  size_t count() const { return fs.size(); }
  vector<double> point(size_t k) const { return vector<double>(xs.begin() + static_cast<long>(k * n), xs.begin() + static_cast<long>((k + 1) * n)); }
};

struct EvalBudget {};  // thrown by the objective (deliberately not a std::exception) when its evaluation allowance is used up

class Obj : public virtual SecondOrderDerivable, public AbstractParametrizable {
  Spec s_; double v_ = 0; vector<double> g_, H_; bool d1_ = true, d2_ = true;
public:
  Record rec;
  size_t allowance = 0;  // 0 = unlimited
  Obj(const Spec& s, const vector<double>& x0, const vector<Iv>* cons) : AbstractParametrizable(""), s_(s) {
    for (int j = 0; j < s.n; ++j) addParameter_(new Parameter(nm(j), x0[static_cast<size_t>(j)], cons ? mk((*cons)[static_cast<size_t>(j)]) : nullptr));
    rec.n = static_cast<size_t>(s.n);
    recompute();
  }
  Obj* clone() const override { return new Obj(*this); }
  vector<double> here() const { vector<double> x(static_cast<size_t>(s_.n)); for (int j = 0; j < s_.n; ++j) x[static_cast<size_t>(j)] = getParameterValue(nm(j)); return x; }
  void recompute() { v_ = s_.eval(here(), &g_, &H_); }
  void fireParameterChanged(const ParameterList&) override { recompute(); }
  void setParameters(const ParameterList& pl) override {
    if (allowance && rec.count() >= allowance) throw EvalBudget();
    matchParametersValues(pl);
    vector<double> x = here(); rec.xs.insert(rec.xs.end(), x.begin(), x.end()); rec.fs.push_back(v_);
  }
  double getValue() const override { return v_; }
  void enableFirstOrderDerivatives(bool yn) override { d1_ = yn; }
  bool enableFirstOrderDerivatives() const override { return d1_; }
  void enableSecondOrderDerivatives(bool yn) override { d2_ = yn; }
  bool enableSecondOrderDerivatives() const override { return d2_; }
  int idx(const string& v) const { return atoi(v.c_str() + 1); }
  double getFirstOrderDerivative(const string& v) const override { return g_[static_cast<size_t>(idx(v))]; }
  double getSecondOrderDerivative(const string& v) const override { size_t a = static_cast<size_t>(idx(v)); return H_[a * static_cast<size_t>(s_.n) + a]; }
  double getSecondOrderDerivative(const string& v, const string& w) const override { return H_[static_cast<size_t>(idx(v)) * static_cast<size_t>(s_.n) + static_cast<size_t>(idx(w))]; }
};

// ------------------------------------------------------------------ cases
enum OptKind { BFGS = 0, CG, POWELL, DSM, SIMPLE, SNEWTON, BRENT_OUT, BRENT_IN, GOLDEN, NEWTON1D, LINESEARCH, META, NOPT };
const char* ONAME[] = {"bfgs", "conjugate-gradient", "powell", "downhill-simplex", "simple-multi", "simple-newton", "brent-outward", "brent-inward",
                       "golden-section", "newton-1d", "linesearch(newton-backtrack)", "meta"};
bool oneDim(int o) { return o == BRENT_OUT || o == BRENT_IN || o == GOLDEN || o == NEWTON1D; }
enum Policy { AUTO = 0, KEEP = 1, IGNORE = 2 };
const char* PNAME[] = {"auto", "keep", "ignore"};
const string& policyStr(int p) { return p == AUTO ? AutoParameter::CONSTRAINTS_AUTO : p == KEEP ? AutoParameter::CONSTRAINTS_KEEP : AutoParameter::CONSTRAINTS_IGNORE; }

struct SubOpt { int kind; bool full; vector<int> vars; int presetPolicy = -1; };  // presetPolicy: constraint policy the sub-optimiser was configured with before it was handed over (-1: untouched)
struct Case {
  int opt = BFGS; Spec spec; vector<double> start; int startMode = 0;
  vector<Iv> cons; bool anyCons = false; int policy = AUTO; bool consOnFunction = false;
  double tol = 1e-6; unsigned cap = 0;  // 0 = the optimiser's default
  double xinf = 0, xsup = 1;            // initial interval (Brent, golden section)
  vector<double> dir; double dirScale = 1; int dirMode = 0;  // line search
  vector<SubOpt> subs; unsigned metaN = 1; unsigned subCap = 0;  // meta (subCap: evaluation cap set on every sub-optimiser, 0 = their defaults)
  bool activeSide = false;
  int ivMode = 0;                        // Brent: where the initial interval lies (see genCase)
  // how the optimiser that is run was obtained: 0 built and configured directly, 1 copy-constructed from a configured
  // prototype, 2 clone() of it, 3 a freshly built optimiser (default settings) that the prototype was ASSIGNED to
  int origin = 0;
  bool protoInit = false;   // the prototype had init() called (same parameter list) before it was copied
  bool protoDrop = false;   // the prototype is destroyed before the copy is used (otherwise it outlives the run)
  bool decoy = false;       // origin 3: the assignment target was built on another function object
};

struct Filter { int policy = -1; int needCons = -1; bool quadOnly = false; bool allowSmallCap = true; bool allowFunctionCons = false; bool moreSmallCap = false; bool convergence = false; };

void genSpec(vf::Ctx& c, Spec& s, int n, bool quadOnly) {
  s.n = n;
  s.kind = quadOnly ? QUAD : static_cast<int>(c.weighted({5, 2, 2, 2}));
  size_t N = static_cast<size_t>(n);
  s.c.resize(N); s.lam.resize(N);
  for (size_t i = 0; i < N; ++i) s.c[i] = c.flag() ? c.real(-5, 5) : c.ival(5);
  switch (c.weighted({3, 2, 2})) { case 0: s.d = 0; break; case 1: s.d = c.ival(10); break; default: s.d = c.real(-100, 100); }
  double lmin = c.flag() ? c.logu(0.01, 10) : c.pick({1.0, 0.01, 0.1, 10.0});
  double cond = 1;
  if (n > 1) switch (c.weighted({2, 2, 3})) { case 0: cond = 1; break; case 1: cond = c.pick({10.0, 100.0, 1000.0}); break; default: cond = c.logu(1, 1000); }
  for (size_t i = 0; i < N; ++i) s.lam[i] = i == 0 ? lmin : i + 1 == N ? lmin * cond : lmin * c.logu(1, cond);
  if (s.kind == QUARTIC) s.rho = c.pick({1.0, 0.1, 0.01});
  if (s.kind == LSE || s.kind == COSH) for (auto& l : s.lam) l = min(l, 25.0);  // keeps exp/cosh far from overflow on the boxes used
  int nrot = n > 1 ? c.irange(0, 2 * n) : 0;
  for (int r = 0; r < nrot; ++r) { Rot q; q.i = static_cast<int>(c.below(static_cast<uint64_t>(n))); q.j = static_cast<int>(c.below(static_cast<uint64_t>(n))); q.th = c.real(0, 3.14159265358979); if (q.i != q.j) s.rots.push_back(q); }
  s.buildQ();
}

void genStart(vf::Ctx& c, Case& k, bool noLattice) {
  size_t N = static_cast<size_t>(k.spec.n);
  k.start.resize(N);
  k.startMode = static_cast<int>(c.weighted({5, 1, 1, 2}));
  double mag = k.startMode == 3 ? c.logu(1e-8, 1) : 0;
  for (size_t i = 0; i < N; ++i) {
    double off;
    switch (k.startMode) {
      case 0: {
        bool re = c.flag(); double a = c.real(0, 7.6), b = c.ival(8); bool neg = c.flag();
        off = !(re || noLattice) ? b : (neg ? -1 : 1) * (0.37 + a);   // the simplest real offset is 0.37
        break; }
      case 1: off = 0; break;
      case 2: off = c.real(-1e-8, 1e-8); break;
      default: off = mag * c.real(-1, 1);
    }
    k.start[i] = k.spec.c[i] + off;
  }
}

void genCons(vf::Ctx& c, Case& k, int needCons) {
  size_t N = static_cast<size_t>(k.spec.n);
  k.cons.assign(N, Iv());
  bool want = needCons == 1 || (needCons != 0 && c.weighted({3, 4}) == 1);
  if (!want) return;
  static const double GAPS[] = {1.0, 0.0, 1e-3, 0.1, 10.0};
  for (size_t i = 0; i < N; ++i) {
    int t = static_cast<int>(c.below(4));  // 0 two-sided, 1 lower only, 2 upper only, 3 none
    if (needCons == 1 && i == 0 && t == 3) t = 0;
    if (t == 3) continue;
    Iv v; v.has = true; v.il = !c.flag(); v.iu = !c.flag();
    double gl = GAPS[c.below(5)], gu = GAPS[c.below(5)];
    if (!v.il && gl == 0) gl = 1e-3;
    if (!v.iu && gu == 0) gu = 1e-3;
    double lo = min(k.start[i], k.spec.c[i]) - gl, hi = max(k.start[i], k.spec.c[i]) + gu;
    if (hi - lo < 1e-3) hi = lo + 1;
    if (t == 0 || t == 1) v.lo = lo; else v.il = false;
    if (t == 0 || t == 2) v.hi = hi; else v.iu = false;
    // open ends must leave start and minimiser strictly inside (the subtraction above may round onto the bound)
    if (!acc(v, k.start[i]) || !acc(v, k.spec.c[i])) { v.lo = std::isfinite(v.lo) ? lo - 1 : v.lo; v.hi = std::isfinite(v.hi) ? hi + 1 : v.hi; }
    k.cons[i] = v; k.anyCons = true;
    double w = (std::isfinite(v.lo) && std::isfinite(v.hi)) ? v.hi - v.lo : 10;
    if ((std::isfinite(v.lo) && k.start[i] - v.lo <= 0.1 * w) || (std::isfinite(v.hi) && v.hi - k.start[i] <= 0.1 * w)) k.activeSide = true;
  }
}

int genSubKind(vf::Ctx& c, size_t groupSize) {
  static const int K[] = {SNEWTON, BFGS, CG, POWELL, DSM, SIMPLE, NEWTON1D};
  int s = K[c.below(groupSize == 1 ? 7 : 6)];
  return s;
}

Case genCase(vf::Ctx& c, const Filter& f, const vector<int>& opts) {
  Case k;
  k.opt = opts[c.below(opts.size())];
  // Convergence law: the simplex method stops on the spread of the function values over its vertices, which is 0 for
  // vertices placed symmetrically about the minimiser (always possible with 2 vertices, and on a lattice of starts);
  // that is Nelder-Mead, not a defect: dimension >= 2 and non-lattice starts there.
  bool simplexConv = f.convergence && (k.opt == DSM || k.opt == META);
  int n = oneDim(k.opt) ? 1 : (k.opt == META || simplexConv) ? c.irange(2, 6) : c.irange(1, 6);
  genSpec(c, k.spec, n, f.quadOnly);
  genStart(c, k, simplexConv);
  genCons(c, k, f.needCons);
  k.policy = f.policy >= 0 ? f.policy : static_cast<int>(c.below(3));
  if (f.allowFunctionCons && k.anyCons && k.policy != IGNORE) k.consOnFunction = c.flag();
  k.tol = c.flag() ? c.logu(1e-10, 1e-4) : c.pick({1e-6, 1e-4, 1e-8, 1e-10});
  if (f.allowSmallCap && c.weighted({3, 2}) == 1) k.cap = static_cast<unsigned>(c.irange(20, 500));
  if (f.moreSmallCap && k.cap == 0 && c.flag()) k.cap = static_cast<unsigned>(c.irange(20, 60));
  double w1 = 1, w2 = 1;
  // Brent's initial interval: 0 contains start and minimiser, 1 around the start, 2 to the right of the start (gap w1,
  // possibly 0), 3 to the left of the start. Nothing in the class documentation ties the start to the interval
  // ("Brent's algorithm needs 2 initial guesses": setInitialInterval), and the descent clause is quantified over every start.
  auto brentInterval = [&](int mode) {
    double s0 = k.start[0], m = k.spec.c[0];
    k.ivMode = mode;
    if (mode == 0) { k.xinf = min(s0, m) - w1; k.xsup = max(s0, m) + w2; }
    else if (mode == 1) { k.xinf = s0 - w1; k.xsup = s0 + w2; }
    else if (mode == 2) { k.xinf = s0 + w1; k.xsup = s0 + w1 + (w2 > 0 ? w2 : 1); }
    else { k.xsup = s0 - w1; k.xinf = s0 - w1 - (w2 > 0 ? w2 : 1); }
    if (!(k.xsup - k.xinf >= 1e-6)) k.xsup = k.xinf + 1;
  };
  if (k.opt == BRENT_OUT || k.opt == BRENT_IN || k.opt == GOLDEN) {
    double s0 = k.start[0], m = k.spec.c[0];
    w1 = c.pick({1.0, 0.0, 0.01, 0.1, 10.0}); w2 = c.pick({1.0, 0.0, 0.01, 0.1, 10.0});
    int mode = k.opt == BRENT_IN ? 0 : static_cast<int>(c.below(3));
    if (k.opt == GOLDEN) {  // the start value IS one end of the initial interval (the optimiser never looks at the parameter's value)
      if (mode == 0) { k.xinf = s0; k.xsup = max(s0, m) + (w1 > 0 ? w1 : 1); }
      else if (mode == 1) { k.xsup = s0; k.xinf = min(s0, m) - (w1 > 0 ? w1 : 1); }
      else { k.xinf = s0; k.xsup = s0 + (w1 > 0 ? w1 : 1); }
      if (!(k.xsup - k.xinf >= 1e-6)) k.xsup = k.xinf + 1;
    } else brentInterval(mode);
  }
  if (k.opt == LINESEARCH) { k.dirMode = static_cast<int>(c.below(2)); k.dirScale = c.pick({1.0, 0.1, 10.0, 100.0, 1e-3}); }
  if (k.opt == META) {
    int ng = c.irange(2, 3);
    k.subs.resize(static_cast<size_t>(ng));
    for (int v = 0; v < n; ++v) k.subs[v < ng ? static_cast<size_t>(v) : c.below(static_cast<uint64_t>(ng))].vars.push_back(v);  // every group non-empty
    for (auto& s : k.subs) {
      s.kind = genSubKind(c, s.vars.size()); s.full = c.flag();
      // Convergence law: DownhillSimplexMethod::init() builds a fresh simplex of fixed size 0.2 and the meta-optimiser
      // calls init() before every step, so "one step per round" of the simplex method cannot refine below that size
      // by construction (and 2 vertices stop on symmetric values, see above): full runs on >= 2 variables there.
      if (f.convergence && s.kind == DSM) { s.full = true; if (s.vars.size() < 2) s.kind = SIMPLE; }
    }
    k.metaN = static_cast<unsigned>(c.irange(1, 3));
  }
  // ---- draws added later, AFTER every older draw: a committed choice vector (replays/C10) still decodes to the same case
  // (all zero = built directly, interval as before).
  // Inward bracketing only looks inside the interval it is given, so reaching the minimiser is only demanded of intervals
  // containing it (convergence law: mode 0); every other clause holds wherever the interval lies.
  if (k.opt == BRENT_IN && !f.convergence) brentInterval(static_cast<int>(c.below(4)));
  if (k.opt == BRENT_OUT && k.ivMode == 2 && c.flag()) brentInterval(3);
  if (k.opt != LINESEARCH) {
    k.origin = static_cast<int>(c.weighted({4, 1, 1, 3}));
    if (k.origin) { k.protoInit = c.oneIn(4); k.protoDrop = c.oneIn(4); }
    if (k.origin == 3) k.decoy = c.flag();
    if (getenv("C10_KEEP_PROTO")) k.protoDrop = false;
  }
  // A sub-optimiser handed to the meta-optimiser may have been configured with a constraint policy of its own before; the
  // policy in force is the meta-optimiser's (MetaOptimizer::doInit hands its own policy to every sub-optimiser it runs).
  if (k.opt == META) for (auto& s : k.subs) s.presetPolicy = static_cast<int>(c.weighted({3, 1, 1, 1})) - 1;
  // Cost bound. Powell's stop rule is relative to |f| (2|fp-fret| <= tau(|fp|+|fret|), Numerical Recipes): when the minimum
  // value is exactly 0 it is only met once two successive values are bitwise equal, and a run with the default cap
  // legitimately lasts until that cap: 10^6 iterations, 2*10^6 objective evaluations, 30 CPU-seconds under the sanitizers
  // (more than the 60 s watchdog on a heavily loaded machine). The same run with a cap of 50000 (also on the
  // sub-optimisers of a meta-optimiser, whose full runs have caps of their own) shows the same behaviour at 1/20 of the
  // cost; Powell is within 1e-8 of the minimiser after a few hundred evaluations.
  bool powell = k.opt == POWELL; for (auto& s : k.subs) powell = powell || s.kind == POWELL;
  if (powell && k.spec.d == 0 && k.cap == 0) { k.cap = 50000; if (k.opt == META) k.subCap = 50000; }
  return k;
}

string showCase(const Case& k) {
  ostringstream o;
  o << ONAME[k.opt] << " on " << k.spec.show() << " start=" << showVec(k.start) << " cons={";
  for (size_t i = 0; i < k.cons.size(); ++i) o << (i ? " " : "") << show(k.cons[i]);
  o << "} policy=" << PNAME[k.policy] << (k.consOnFunction ? " (function constrained too)" : "") << " tol=" << vf::dec(k.tol) << " cap=";
  if (k.cap) o << k.cap; else o << "default";
  if (k.opt == BRENT_OUT || k.opt == BRENT_IN || k.opt == GOLDEN) o << " interval=[" << vf::dec(k.xinf) << ";" << vf::dec(k.xsup) << "]";
  if (k.opt == BRENT_OUT || k.opt == BRENT_IN) o << (k.ivMode == 0 ? " (around start and minimiser)" : k.ivMode == 1 ? " (around the start)" : k.ivMode == 2 ? " (right of the start)" : " (left of the start)");
  if (k.opt == LINESEARCH) o << " direction=" << (k.dirMode ? "newton" : "-gradient") << "*" << k.dirScale;
  if (k.opt == META) {
    o << " meta(n=" << k.metaN << (k.subCap ? ", sub-optimiser caps " + to_string(k.subCap) : string()) << ")";
    for (auto& s : k.subs) { o << " [" << ONAME[s.kind] << "," << (s.full ? "full" : "step") << (s.presetPolicy >= 0 ? string(",preset policy ") + PNAME[s.presetPolicy] : string()) << ":"; for (int v : s.vars) o << " x" << v; o << "]"; }
  }
  if (k.origin) {
    o << " optimiser=" << (k.origin == 1 ? "copy-constructed from" : k.origin == 2 ? "clone() of" : k.decoy ? "fresh one built on another function, then assigned" : "fresh one on the same function, then assigned")
      << " the configured prototype" << (k.protoInit ? " (already init()-ed)" : "") << (k.protoDrop ? " (prototype destroyed afterwards)" : " (prototype kept alive)");
  }
  return o.str();
}

// ------------------------------------------------------------------ running a case
struct Marker : public OptimizationListener {
  const Record* rec = nullptr; vector<size_t> marks; vector<unsigned> counter; vector<double> value; size_t atInit = 0, cur = 0;
  vector<pair<size_t, size_t>> span;  // evaluations [first, second) of every step (init() may be called again: meta)
  void optimizationInitializationPerformed(const OptimizationEvent&) override { atInit = cur = rec->count(); }
  void optimizationStepPerformed(const OptimizationEvent& e) override {
    marks.push_back(rec->count()); counter.push_back(e.getOptimizer()->getNumberOfEvaluations()); value.push_back(e.getOptimizer()->getFunctionValue());
    span.push_back({cur, rec->count()}); cur = rec->count();
  }
  bool listenerModifiesParameters() const override { return false; }
};

// Termination made cheap and deterministic for one class of starts: from the exact minimiser nothing can be improved,
// every optimiser stops by its tolerance test (or, simplex method on an objective with minimum value 0, by its own cap of
// 5000) after at most a few thousand objective evaluations (worst seen: 3338). The objective aborts the run beyond this.
const size_t AT_MIN_EVALS = 50000;

struct Out {
  bool returned = false; bool constraintExc = false; string exc;  // exc: any other exception (type: what)
  bool budgetAbort = false;  // start at the exact minimiser, default cap: more than AT_MIN_EVALS objective evaluations
  double ret = 0, fv = 0, fStart = 0, fRep = 0, fObj = 0;
  vector<double> rep, objAt;
  unsigned nEval = 0, cap = 0; bool tolReached = false, maxReached = false;
  size_t lastStepEvals = 0, steps = 0; vector<unsigned> counter;  // counter[k]: getNumberOfEvaluations() when step k+1 was done
  vector<double> stepValue;                                        // getFunctionValue() when step k+1 was done (what the stop condition reads)
  shared_ptr<Obj> obj;
  double minSeen = INF;
  bool bfgsStepIncrease = false;  // some BFGS iteration ended above the value it started from (see stepIncrease)
};

// Footprint of the line-search defect: BfgsMultiDimensions::doStep evaluates the objective first at the point the
// step starts from (backtracking initialisation, lambda = 0) and last at the point it moves to. A backtracking
// search either finds a sufficient decrease or keeps lambda = 0, so the last value can never exceed the first.
bool stepIncrease(const Record& r, const vector<pair<size_t, size_t>>& span) {
  for (auto& s : span) if (s.second > s.first + 1 && r.fs[s.second - 1] > r.fs[s.first]) return true;
  return false;
}

shared_ptr<OptimizerInterface> makeOpt(int kind, shared_ptr<Obj> obj) {
  switch (kind) {
    case BFGS: return make_shared<BfgsMultiDimensions>(obj);
    case CG: return make_shared<ConjugateGradientMultiDimensions>(obj);
    case POWELL: return make_shared<PowellMultiDimensions>(obj);
    case DSM: return make_shared<DownhillSimplexMethod>(obj);
    case SIMPLE: return make_shared<SimpleMultiDimensions>(obj);
    case SNEWTON: return make_shared<SimpleNewtonMultiDimensions>(obj);
    case BRENT_OUT: case BRENT_IN: return make_shared<BrentOneDimension>(obj);
    case GOLDEN: return make_shared<GoldenSectionSearch>(obj);
    case NEWTON1D: return make_shared<NewtonOneDimension>(obj);
    default: return nullptr;
  }
}

// The optimiser that is run may be a copy of a configured prototype (Case::origin). Every optimiser class relies on the
// compiler-generated copy operations on top of AbstractOptimizer's (MetaOptimizer defines its own); the copy must be an
// optimiser in its own right: same function, settings and stop condition, nothing left pointing into the prototype.
template <class T> shared_ptr<OptimizerInterface> deriveT(const shared_ptr<OptimizerInterface>& proto, int origin, const shared_ptr<OptimizerInterface>& fresh) {
  auto p = dynamic_pointer_cast<T>(proto);
  if (origin == 1) return make_shared<T>(*p);
  if (origin == 2) return shared_ptr<OptimizerInterface>(p->clone());
  auto w = dynamic_pointer_cast<T>(fresh);
  *w = *p;
  return w;
}
shared_ptr<OptimizerInterface> derive(int kind, const shared_ptr<OptimizerInterface>& proto, int origin, shared_ptr<Obj> targetFn) {
  shared_ptr<OptimizerInterface> fresh;
  if (origin == 3) {
    if (kind == META) {
      auto desc = make_unique<MetaOptimizerInfos>();
      desc->addOptimizer("simple-multi", makeOpt(SIMPLE, targetFn), vector<string>{nm(0)}, 0, MetaOptimizerInfos::IT_TYPE_STEP);
      fresh = make_shared<MetaOptimizer>(targetFn, std::move(desc), 1);
    } else fresh = makeOpt(kind, targetFn);
  }
  switch (kind) {
    case BFGS: return deriveT<BfgsMultiDimensions>(proto, origin, fresh);
    case CG: return deriveT<ConjugateGradientMultiDimensions>(proto, origin, fresh);
    case POWELL: return deriveT<PowellMultiDimensions>(proto, origin, fresh);
    case DSM: return deriveT<DownhillSimplexMethod>(proto, origin, fresh);
    case SIMPLE: return deriveT<SimpleMultiDimensions>(proto, origin, fresh);
    case SNEWTON: return deriveT<SimpleNewtonMultiDimensions>(proto, origin, fresh);
    case BRENT_OUT: case BRENT_IN: return deriveT<BrentOneDimension>(proto, origin, fresh);
    case GOLDEN: return deriveT<GoldenSectionSearch>(proto, origin, fresh);
    case NEWTON1D: return deriveT<NewtonOneDimension>(proto, origin, fresh);
    case META: return deriveT<MetaOptimizer>(proto, origin, fresh);
    default: return nullptr;
  }
}

// Known findings whose input class is recognisable before the run (a hang or crash cannot be excluded afterwards).
bool usesKind(const Case& k, int kind) {
  if (k.opt == kind) return true;
  if (k.opt == META) for (auto& s : k.subs) if (s.kind == kind) return true;
  return false;
}
void excludeBeforeRun(vf::Ctx& c, const Case& k) {
  // Powell's stop test is 2|fp-fret|/(|fp|+|fret|): 0/0 once the objective value is exactly 0 twice in a row, the
  // test is then never true and the run lasts 10^6 iterations (minutes). Only possible when the minimum value is 0.
  if (usesKind(k, POWELL) && k.spec.d == 0) c.excludeIfKnown("C10-powell-nan-stop");
  // MetaOptimizer with n >= 2 progressive steps derives the intermediate tolerances from log10(f(start)): NaN (or
  // -inf) for f(start) <= 0, the sub-optimisers then never see "tolerance reached" and run to their own caps (10^6)
  if (k.opt == META && k.metaN >= 2 && k.spec.eval(k.start) <= 0) c.excludeIfKnown("C10-meta-log10-initial-value");
  // lineSearch moves to the last point the backtracking tried, also when the backtracking gave up: BFGS then ends its
  // step with a function increase. Inside the meta-optimiser this repeats in every round, the function-value stop
  // test is never met and the run lasts until the default cap of 10^6 (about a minute of CPU): not run.
  if (k.opt == META && usesKind(k, BFGS) && k.cap == 0) c.excludeIfKnown("C10-linesearch-takes-rejected-step");
}

Out runCase1(vf::Ctx& c, const Case& k);
Out runCase(vf::Ctx& c, const Case& k) {
  if (!getenv("C10_TRACE")) return runCase1(c, k);
  double t0 = vf::cpuS(); Out o = runCase1(c, k);
  fprintf(stderr, "C10 time %.3f evals %zu steps %zu nEval %u exc=%s\n", vf::cpuS() - t0, o.obj ? o.obj->rec.count() : 0, o.steps, o.nEval, o.exc.substr(0, 60).c_str());
  return o;
}
Out runCase1(vf::Ctx& c, const Case& k) {
  excludeBeforeRun(c, k);
  if (getenv("C10_TRACE")) fprintf(stderr, "C10 case: %s\n", showCase(k).c_str());
  Out o;
  o.obj = make_shared<Obj>(k.spec, k.start, k.consOnFunction ? &k.cons : nullptr);
  o.fStart = k.spec.eval(k.start);
  if (k.start == k.spec.c && k.cap == 0) o.obj->allowance = AT_MIN_EVALS;
  ParameterList pl;
  for (int j = 0; j < k.spec.n; ++j) pl.addParameter(Parameter(nm(j), k.start[static_cast<size_t>(j)], mk(k.cons[static_cast<size_t>(j)])));
  auto finish = [&](const ParameterList& rep) {
    o.rep.resize(static_cast<size_t>(k.spec.n));
    for (int j = 0; j < k.spec.n; ++j) o.rep[static_cast<size_t>(j)] = rep.getParameterValue(nm(j));
    o.fRep = k.spec.eval(o.rep); o.objAt = o.obj->here(); o.fObj = o.obj->getValue();
    for (double v : o.obj->rec.fs) o.minSeen = min(o.minSeen, v);
  };
  try {
    if (k.opt == LINESEARCH) {
      vector<double> g, H; k.spec.eval(k.start, &g, &H);
      vector<double> xi(g.size());
      if (k.dirMode == 0 || k.spec.kind != QUAD) for (size_t i = 0; i < g.size(); ++i) xi[i] = -g[i] * k.dirScale;
      else for (size_t i = 0; i < g.size(); ++i) xi[i] = (k.spec.c[i] - k.start[i]) * k.dirScale;  // Newton direction of a quadratic
      // as BFGS does: shorten the direction so that the full step stays inside the box
      double alp = 1;
      for (size_t i = 0; i < xi.size(); ++i) {
        const Iv& v = k.cons[i]; if (!v.has) continue;
        if (xi[i] > 0 && std::isfinite(v.hi)) alp = min(alp, 0.999 * (v.hi - k.start[i]) / xi[i]);
        if (xi[i] < 0 && std::isfinite(v.lo)) alp = min(alp, 0.999 * (v.lo - k.start[i]) / xi[i]);
      }
      for (auto& x : xi) x *= alp;
      o.obj->setParameters(pl);
      auto f1 = make_shared<DirectionFunction>(o.obj);
      o.nEval = OneDimensionOptimizationTools::lineSearch(f1, pl, xi, g, nullptr, nullptr, 0);
      o.cap = 10000; o.returned = true; o.tolReached = true;
      finish(pl); o.ret = o.fv = o.fRep;
      return o;
    }
    shared_ptr<OptimizerInterface> opt, proto; vector<shared_ptr<Marker>> bfgsMarkers;
    if (k.opt == META) {
      auto desc = make_unique<MetaOptimizerInfos>();
      for (auto& s : k.subs) {
        vector<string> names; for (int v : s.vars) names.push_back(nm(v));
        unsigned short der = (s.kind == SNEWTON || s.kind == NEWTON1D) ? 2 : (s.kind == BFGS || s.kind == CG) ? 1 : 0;
        auto so = makeOpt(s.kind, o.obj);
        if (k.subCap) so->setMaximumNumberOfEvaluations(k.subCap);
        if (s.presetPolicy >= 0) so->setConstraintPolicy(policyStr(s.presetPolicy));
        desc->addOptimizer(ONAME[s.kind], so, names, der, s.full ? MetaOptimizerInfos::IT_TYPE_FULL : MetaOptimizerInfos::IT_TYPE_STEP);
      }
      opt = make_shared<MetaOptimizer>(o.obj, std::move(desc), k.metaN);
    } else opt = makeOpt(k.opt, o.obj);
    opt->setVerbose(0); opt->setProfiler(nullptr); opt->setMessageHandler(nullptr);
    opt->setConstraintPolicy(policyStr(k.policy));
    opt->getStopCondition()->setTolerance(k.tol);
    if (k.cap) opt->setMaximumNumberOfEvaluations(k.cap);
    if (k.opt == BRENT_OUT || k.opt == BRENT_IN) {
      auto b = dynamic_pointer_cast<BrentOneDimension>(opt);
      b->setInitialInterval(k.xinf, k.xsup);
      b->setBracketing(k.opt == BRENT_IN ? BrentOneDimension::BRACKET_INWARD : BrentOneDimension::BRACKET_OUTWARD);
    }
    if (k.opt == GOLDEN) dynamic_pointer_cast<GoldenSectionSearch>(opt)->setInitialInterval(k.xinf, k.xsup);
    if (k.origin) {
      // the optimiser configured above is only the prototype: the one that runs is a copy of it
      if (k.protoInit) opt->init(pl);
      shared_ptr<Obj> targetFn = k.decoy ? make_shared<Obj>(k.spec, k.spec.c, nullptr) : o.obj;
      proto = opt;
      opt = derive(k.opt, proto, k.origin, targetFn);
      if (k.protoDrop) proto.reset();
    }
    // listeners are not copied with an optimiser: attached to the one that runs (and to its own sub-optimisers)
    if (k.opt == META) {
      auto& infos = dynamic_pointer_cast<MetaOptimizer>(opt)->optimizers();
      for (size_t i = 0; i < k.subs.size(); ++i) if (k.subs[i].kind == BFGS) {
        auto m = make_shared<Marker>(); m->rec = &o.obj->rec; infos.getOptimizer(i)->addOptimizationListener(m); bfgsMarkers.push_back(m);
      }
    }
    auto marker = make_shared<Marker>(); marker->rec = &o.obj->rec;
    opt->addOptimizationListener(marker);
    if (k.opt == BFGS) bfgsMarkers.push_back(marker);
    // the budget actually in force (default caps are set by the constructors)
    opt->init(pl);
    o.ret = opt->optimize();
    o.returned = true;
    o.fv = opt->getFunctionValue(); o.nEval = opt->getNumberOfEvaluations(); o.tolReached = opt->isToleranceReached(); o.maxReached = opt->isMaximumNumberOfEvaluationsReached();
    o.steps = marker->marks.size(); o.counter = marker->counter; o.stepValue = marker->value;
    if (o.steps >= 1) o.lastStepEvals = marker->marks.back() - (o.steps >= 2 ? marker->marks[o.steps - 2] : marker->atInit);
    finish(opt->getParameters());
    for (auto& m : bfgsMarkers) if (stepIncrease(o.obj->rec, m->span)) o.bfgsStepIncrease = true;
  } catch (EvalBudget&) {
    o.budgetAbort = true; o.exc = "evaluation allowance used up";
  } catch (ConstraintException& e) {
    o.constraintExc = true; o.exc = string("ConstraintException: ") + e.what();
  } catch (std::exception& e) {
    o.exc = string(typeid(e).name()) + ": " + e.what();
  }
  return o;
}

unsigned defaultCap(int opt) {
  switch (opt) { case DSM: return 5000; case BRENT_OUT: case BRENT_IN: case GOLDEN: case NEWTON1D: return 10000; default: return 1000000; }
}

void excludeMetaStale(vf::Ctx& c, const Case& k);
// A run started at the exact minimiser (default cap) that used up its evaluation allowance: violation in every law.
void checkBudgetAbort(vf::Ctx& c, const Case& k, const Out& o) {
  if (!o.budgetAbort) return;
  if (usesKind(k, POWELL) && k.spec.d == 0) c.excludeIfKnown("C10-powell-nan-stop");
  if (k.opt == META && k.metaN >= 2 && o.fStart <= 0) c.excludeIfKnown("C10-meta-log10-initial-value");
  excludeMetaStale(c, k);  // the sub-optimisers keep undoing each other's work on a function nobody synchronises
  CHECK(false, "started at the exact minimiser with the default cap and still running after " << AT_MIN_EVALS << " objective evaluations (the stop test is never met)");
}

// Exceptions: a ConstraintException is an accepted outcome under the keep policy when constraints exist (the run is
// then not assessed any further: Skip-like early return value true); anything else is a violation in every law.
bool acceptedAbort(vf::Ctx& c, const Case& k, const Out& o) {
  if (o.returned) return false;
  if (o.constraintExc && k.policy == KEEP && k.anyCons) { c.label("keep_constraint_exception"); return true; }
  // MetaOptimizer keeps the constraints on its per-optimiser parameter lists under the ignore policy
  if (o.constraintExc && k.opt == META && k.policy == IGNORE && k.anyCons) c.excludeIfKnown("C10-meta-ignore-keeps-constraints");
  checkBudgetAbort(c, k, o);
  CHECK(false, "an exception escaped the optimiser: " << o.exc);
  return true;
}

void ntRule(vf::Ctx& c, const Case& k, const Out& o) {
  bool capHit = k.cap && o.returned && o.nEval >= k.cap;
  double dist = 0; for (size_t i = 0; i < k.start.size(); ++i) dist = max(dist, std::abs(k.start[i] - k.spec.c[i]));
  c.nt(k.spec.n >= 2 || (k.anyCons && k.activeSide) || capHit || dist <= 1e-6);
  c.label(ONAME[k.opt]);
  if (capHit) c.label("cap_hit");
}
const char* NTR = "dim >= 2, or start within 10% of a bound, or a small cap that is hit, or start within 1e-6 of the optimum";

const vector<int> ALL = {BFGS, CG, POWELL, DSM, SIMPLE, SNEWTON, BRENT_OUT, BRENT_IN, GOLDEN, NEWTON1D, LINESEARCH, META};

}  // namespace

namespace {
// a sub-optimiser driven by step() may leave the function on a trial point (downhill simplex, Powell); the
// meta-optimiser neither re-synchronises the function nor re-evaluates it: the next sub-optimiser works on a point
// nobody reported and the value returned belongs to that point
void excludeMetaStale(vf::Ctx& c, const Case& k) {
  if (k.opt == META) for (auto& s : k.subs) if (!s.full && (s.kind == DSM || s.kind == POWELL)) c.excludeIfKnown("C10-meta-stale-function");
}
}
// ------------------------------------------------------------------ (a) termination
LAW(La_termination, RC, 1200, 40000, 160, NTR, 60, true) {
  Filter f; Case k = genCase(c, f, ALL);
  c.desc << showCase(k);
  Out o = runCase(c, k);
  ntRule(c, k, o);
  c.observe(string("evals_") + ONAME[k.opt], static_cast<double>(o.obj->rec.count()));
  if (acceptedAbort(c, k, o)) return;
  CHECK(o.returned, "optimize() did not return");
}

// ------------------------------------------------------------------ (b) descent
LAW(Lb_descent, RC, 1500, 50000, 160, NTR, 60, false) {
  Filter f; Case k = genCase(c, f, ALL);
  c.desc << showCase(k);
  Out o = runCase(c, k);
  ntRule(c, k, o);
  if (acceptedAbort(c, k, o)) return;
  excludeMetaStale(c, k);
  // golden section reports the point it evaluated last, not the best one it holds
  if (k.opt == GOLDEN && o.fRep > o.minSeen) c.excludeIfKnown("C10-golden-reports-last");
  // lineSearch takes the last point the backtracking tried even when the backtracking gave up
  if (o.bfgsStepIncrease || (k.opt == LINESEARCH && o.fRep > o.fStart)) c.excludeIfKnown("C10-linesearch-takes-rejected-step");
  CHECK(o.fRep <= o.fStart + 1e-12 * (1 + std::abs(o.fStart)),
        "ended worse than it started: f(start)=" << vf::dec(o.fStart) << " f(reported)=" << vf::dec(o.fRep) << " reported=" << showVec(o.rep) << " (minimum " << vf::dec(k.spec.d) << ")");
}

// ------------------------------------------------------------------ (c) consistency
LAW(Lc_consistency, RC, 1500, 50000, 160, NTR, 60, false) {
  Filter f; vector<int> opts; for (int o : ALL) if (o != LINESEARCH) opts.push_back(o);
  Case k = genCase(c, f, opts);
  c.desc << showCase(k);
  Out o = runCase(c, k);
  ntRule(c, k, o);
  if (acceptedAbort(c, k, o)) return;
  excludeMetaStale(c, k);
  // downhill simplex: when all vertex values tie, the vertex taken as "lowest" at the start of the last step is also the
  // "highest" and is replaced during the step; optimize() then evaluates (and returns) the replaced vertex while
  // getParameters() still holds the old one. Footprint: the function is left on another point than the reported one.
  if (usesKind(k, DSM) && o.objAt != o.rep) c.excludeIfKnown("C10-dsm-stale-indices");
  CHECK(vf::sameBits(o.ret, o.fv), "optimize() returned " << vf::dec(o.ret) << " but getFunctionValue() is " << vf::dec(o.fv));
  CHECK(vf::sameBits(o.ret, o.fRep), "optimize() returned " << vf::dec(o.ret) << " but the objective at getParameters()=" << showVec(o.rep) << " is " << vf::dec(o.fRep));
  for (size_t i = 0; i < o.rep.size(); ++i)
    CHECK(vf::sameBits(o.rep[i], o.objAt[i]), "the function object is left at " << showVec(o.objAt) << " but getParameters() reports " << showVec(o.rep));
  CHECK(vf::sameBits(o.fObj, o.ret), "the function object holds value " << vf::dec(o.fObj) << " but optimize() returned " << vf::dec(o.ret));
}

// ------------------------------------------------------------------ (d) budget
// The counter of the library is "loop iterations + evaluations counted by the step" (AbstractOptimizer::optimize).
//  (i)  no iteration is started once the counter has reached the cap (the counter is read after every step);
//  (ii) the final counter exceeds the cap by no more than the objective evaluations of the last iteration (from the
//       record). Not applied to the meta-optimiser: it adds up the counters of its sub-optimisers, which contain the
//       sub-optimisers' own iteration counts (weakest reading: no claim);
//  (iii) isToleranceReached() / isMaximumNumberOfEvaluationsReached() agree with the counter.
LAW(Ld_budget, RC, 1500, 50000, 160, "a small cap that is hit", 60, false) {
  Filter f; f.moreSmallCap = true; vector<int> opts; for (int o : ALL) if (o != LINESEARCH) opts.push_back(o);
  Case k = genCase(c, f, opts);
  c.desc << showCase(k);
  Out o = runCase(c, k);
  c.label(ONAME[k.opt]);
  if (acceptedAbort(c, k, o)) return;
  unsigned cap = k.cap ? k.cap : defaultCap(k.opt);
  c.nt(k.cap && o.nEval >= k.cap);
  if (k.cap && o.nEval >= k.cap) c.label("cap_hit");
  for (size_t s = 0; s + 1 < o.counter.size(); ++s)
    CHECK(o.counter[s] + 1 < cap, "iteration " << s + 2 << " was started although the evaluation counter had reached " << o.counter[s] << "+1 with cap " << cap);
  if (k.opt != META) {
    // downhill simplex counts the n evaluations of a shrink twice
    if (k.opt == DSM && o.nEval > cap + o.lastStepEvals && o.nEval <= cap + o.lastStepEvals + static_cast<unsigned>(k.spec.n)) c.excludeIfKnown("C10-dsm-shrink-double-count");
    CHECK(o.nEval <= cap + o.lastStepEvals, "getNumberOfEvaluations()=" << o.nEval << " exceeds the cap " << cap << " by more than the " << o.lastStepEvals << " evaluations of the last step (" << o.steps << " steps)");
  }
  CHECK(o.tolReached || o.nEval >= cap, "stopped before the cap (" << o.nEval << " < " << cap << ") but isToleranceReached() is false");
  CHECK(o.maxReached == (o.nEval >= cap), "isMaximumNumberOfEvaluationsReached()=" << o.maxReached << " with " << o.nEval << " evaluations, cap " << cap);
}

// ------------------------------------------------------------------ (e) convergence on strictly convex quadratics
namespace {
// per-optimiser constants (see the header comment)
//                        bfgs  cg  powell  simplex  simple  s-newton  brent-out  brent-in  golden  newton-1d  (linesearch)  meta
const double KOPT[NOPT] = {30,   100, 100,   100,     5,      5,        3,         3,        3,      0.01,      0,            100};
// Line-search methods stop on |f_k - f_(k-1)| < tau (Powell: relative), which bounds the distance only through the
// progress of a typical step: the ratio has a heavy tail (conjugate gradient, whose line minimisation runs Brent with a
// hard-coded relative tolerance of 0.01: 0.32 over 60000 cases, then 6.3 once in 100000), hence the wide constants
// there; the coordinate-wise methods have a bounded rate (0.38 in every run).
// Brent and golden section stop on a *relative* abscissa tolerance (about 2 tau |x|, |x| <= 13 here): up to ~0.8 scale in
// the worst case (tau = 1e-4, lambda = 10) although the parabolic steps of Brent usually land much closer (0.044 seen).
}
LAW(Le_convergence, RC, 1500, 50000, 160, "dim >= 2 or start within 1e-6 of the optimum", 60, false) {
  Filter f; f.quadOnly = true; f.allowSmallCap = false; f.needCons = -1; f.convergence = true;
  vector<int> opts; for (int o : ALL) if (o != LINESEARCH) opts.push_back(o);
  Case k = genCase(c, f, opts);
  if (k.anyCons) k.policy = IGNORE;  // constraints present but stripped: none is active
  c.desc << showCase(k);
  // the stop test of the golden section search compares the tolerance with itself: every run stops after 3 steps
  if (k.opt == GOLDEN) c.excludeIfKnown("C10-golden-stop-self-compare");
  // the simplex method evaluates its stop test with the indices of the highest / lowest vertex found at the *start* of
  // the step: it stops as soon as the vertex just replaced is as good as the old best, wherever the others are
  if (usesKind(k, DSM)) c.excludeIfKnown("C10-dsm-stale-indices");
  if (k.opt == BRENT_IN) {
    // Brent with inward bracketing searches [lower end, best mesh point] instead of the whole interval: reference
    // mesh (10 intervals, the default) evaluated here; the defect shows when the minimiser is not below the best point
    double best = k.xinf, fbest = INF;
    for (int i = 0; i <= 10; ++i) { double g = k.xinf + (k.xsup - k.xinf) * i / 10.0, v = k.spec.eval(vector<double>{g}); if (v < fbest) { fbest = v; best = g; } }
    if (k.spec.c[0] >= best - 1e-9 * (1 + std::abs(best))) c.excludeIfKnown("C10-brent-inward-orientation");
  }
  Out o = runCase(c, k);
  ntRule(c, k, o);
  if (acceptedAbort(c, k, o)) return;
  if (o.bfgsStepIncrease) c.excludeIfKnown("C10-linesearch-takes-rejected-step");  // BFGS stops at the first function increase
  excludeMetaStale(c, k);
  // BFGS reads the bounds from the list handed to init(), not from its own (policy-processed) list: under the ignore
  // policy the search directions are still clipped at the bounds
  if (usesKind(k, BFGS) && k.policy == IGNORE && k.anyCons) c.excludeIfKnown("C10-bfgs-bounds-under-ignore");
  // "within a tolerance tied to its stopping tolerance" is a claim about runs ended by the stop rule. A run ended by the
  // evaluation budget (the other documented way to end, first clause of the statement) while its stop rule was still
  // legitimately unmet claims nothing about the distance: the optimisers that stop on |f_k - f_(k-1)| < tau
  // (FunctionStopCondition: BFGS, conjugate gradient, the two coordinate-wise ones, Newton 1-D, meta) are exempt when the
  // library reports "cap reached, tolerance not reached" AND the values it published for the last two iterations still
  // differ by at least tau (the rule re-evaluated here; a stop test that fails to fire on stagnating values stays a
  // violation). Seen once in 1.1e6 cases: meta-optimiser, cond 1000, tau 1e-10, full Powell runs inside every round
  // (25000 evaluations per round): cut after 41 rounds exactly where exact block descent stands after 41 rounds
  // (error 0.703; the rule |df| < 1e-10 is met at round 127). The other optimisers keep the unconditional claim.
  {
    unsigned cap = k.cap ? k.cap : defaultCap(k.opt);
    bool fsc = k.opt == BFGS || k.opt == CG || k.opt == SIMPLE || k.opt == SNEWTON || k.opt == NEWTON1D || k.opt == META;
    size_t ns = o.stepValue.size();
    double before = ns >= 2 ? o.stepValue[ns - 2] : o.fStart;  // the stop condition starts from the value at init()
    if (fsc && !o.tolReached && o.maxReached && o.nEval >= cap && ns >= 1 && std::abs(o.stepValue[ns - 1] - before) >= k.tol) {
      c.label("budget_cut_before_stop_rule");
      return;
    }
  }
  double err = 0; for (size_t i = 0; i < o.rep.size(); ++i) err = max(err, std::abs(o.rep[i] - k.spec.c[i]));
  double lmin = k.spec.lmin(), cond = k.spec.cond();
  double scale = sqrt(k.tol * max(1.0, std::abs(k.spec.d)) * cond / lmin);
  if (usesKind(k, BFGS)) {
    // BFGS starts from the unit matrix and takes the full quasi-Newton step when it decreases f sufficiently: with
    // small curvature the decrease per step is about |g|^2 = (lambda e)^2, below tau already for e ~ sqrt(tau)/lambda.
    scale *= max(1.0, 1 / sqrt(lmin));
    // Its line search (OneDimensionOptimizationTools::lineSearch) gives up once the step is below 1e-4 relative to
    // max(|x|,1) (hard-coded tolerance of the backtracking): |g| < 1e-4 |x| stalls the first step (e ~ 1e-4 |x| / lambda),
    // later steps leave up to cond times the relative step in the flat directions.
    double cm = 1; for (double v : k.spec.c) cm = max(cm, std::abs(v));
    scale += 1e-4 * cm * max(cond, 1 / lmin);
  }
  double ratio = max(0.0, err - 1e-9) / scale;
  c.observe(string("conv_ratio_") + ONAME[k.opt], ratio);
  if (getenv("C10_RATIO") && ratio > atof(getenv("C10_RATIO"))) fprintf(stderr, "C10 ratio %g err %g tolReached %d nEval %u: %s\n", ratio, err, o.tolReached, o.nEval, showCase(k).c_str());
  CHECK(ratio <= KOPT[k.opt], "did not reach the minimiser: |x-c|_inf=" << vf::dec(err) << " = " << ratio << " * scale (+1e-9), allowed " << KOPT[k.opt] << "; reported " << showVec(o.rep));
}

// ------------------------------------------------------------------ (f) feasibility under the automatic policy
LAW(Lf_feasible_auto, RC, 1500, 50000, 160, "start within 10% of a bound", 60, false) {
  Filter f; f.policy = AUTO; f.needCons = 1; f.allowFunctionCons = true;
  Case k = genCase(c, f, ALL);
  c.desc << showCase(k);
  Out o = runCase(c, k);
  c.label(ONAME[k.opt]); c.nt(k.activeSide);
  checkBudgetAbort(c, k, o);
  CHECK(o.exc.empty(), "an exception escaped under the automatic policy: " << o.exc);
  const Record& r = o.obj->rec;
  for (size_t e = 0; e < r.count(); ++e)
    for (size_t i = 0; i < r.n; ++i)
      CHECK(acc(k.cons[i], r.xs[e * r.n + i]), "evaluation #" << e << " of " << r.count() << " at " << showVec(r.point(e)) << ": x" << i << " is outside " << show(k.cons[i]));
  for (size_t i = 0; i < o.rep.size(); ++i) CHECK(acc(k.cons[i], o.rep[i]), "reported x" << i << "=" << vf::dec(o.rep[i]) << " is outside " << show(k.cons[i]));
}

// ------------------------------------------------------------------ (g) bracketing
namespace {
struct OneD { Spec s; double a, b; };
OneD genOneD(vf::Ctx& c) {
  OneD q; genSpec(c, q.s, 1, false);
  double m = q.s.c[0];
  q.a = m + (c.flag() ? c.real(-8, 8) : c.ival(8));
  double w = c.pick({1.0, 0.01, 0.1, 3.0, 10.0}) * (c.flag() ? 1 : -1);
  q.b = c.oneIn(4) ? m + c.real(-8, 8) : q.a + w;
  if (q.a == q.b) q.b = q.a + 1;
  return q;
}
}
namespace {
// The documented algorithm (Numerical Recipes mnbrak, the source the routine follows, with the library's constants),
// walked until it either returns or enters the branch "parabolic extrapolation between c and its limit accepted
// (f(u) < f(c))". The library's translation of that branch computes the next trial point from the *old* b and c
// (the book's SHFT macro uses the shifted ones). Returns true when that branch is entered.
template <class FN> bool walkEntersAcceptedExtrapolation(FN F, double a, double b) {
  const double PHI = (1. + sqrt(5.)) / 2., GLIM = 100.0;
  double ax = a, bx = b, fa = F(ax), fb = F(bx);
  if (fb > fa) { swap(ax, bx); swap(fa, fb); }
  double cx = bx + PHI * (bx - ax), fc = F(cx);
  for (int it = 0; it < 10000 && fb > fc; ++it) {
    double r = (bx - ax) * (fb - fc), q = (bx - cx) * (fb - fa);
    double sg = (q - r) < 0 ? -1 : (q - r == 0 ? 0 : 1);
    double u = bx - ((bx - cx) * q - (bx - ax) * r) / (2.0 * (std::abs(max(std::abs(q - r), 1e-20)) * sg));
    double ulim = bx + GLIM * (cx - bx), fu;
    if ((bx - u) * (u - cx) > 0.0) {
      fu = F(u);
      if (fu < fc || fu > fb) return false;
      u = cx + PHI * (cx - bx); fu = F(u);
    } else if ((cx - u) * (u - ulim) > 0.0) {
      fu = F(u);
      if (fu < fc) return true;
    } else if ((u - ulim) * (ulim - cx) >= 0.0) { u = ulim; fu = F(u); }
    else { u = cx + PHI * (cx - bx); fu = F(u); }
    ax = bx; bx = cx; cx = u; fa = fb; fb = fc; fc = fu;
  }
  return false;
}
}
LAW(Lg_bracket, RC, 4000, 200000, 24, "the minimiser is outside the two initial points", 30, true) {
  OneD q = genOneD(c);
  c.desc << "bracketMinimum(" << vf::dec(q.a) << "," << vf::dec(q.b) << ") on " << q.s.show();
  double m = q.s.c[0];
  c.nt(m < min(q.a, q.b) || m > max(q.a, q.b));
  auto obj = make_shared<Obj>(q.s, vector<double>{q.a}, nullptr);
  ParameterList pl; pl.addParameter(Parameter("x0", q.a));
  Bracket br = OneDimensionOptimizationTools::bracketMinimum(q.a, q.b, *obj, pl);
  auto F = [&](double x) { return q.s.eval(vector<double>{x}); };
  if (walkEntersAcceptedExtrapolation(F, q.a, q.b)) { c.label("accepted_extrapolation"); c.excludeIfKnown("C10-bracket-stale-shift"); }
  CHECK(vf::sameBits(br.a.f, F(br.a.x)) && vf::sameBits(br.b.f, F(br.b.x)) && vf::sameBits(br.c.f, F(br.c.x)),
        "stored values are not f at the stored points: a=(" << vf::dec(br.a.x) << "," << vf::dec(br.a.f) << ") b=(" << vf::dec(br.b.x) << "," << vf::dec(br.b.f) << ") c=(" << vf::dec(br.c.x) << "," << vf::dec(br.c.f) << ")");
  CHECK((br.a.x < br.b.x && br.b.x < br.c.x) || (br.a.x > br.b.x && br.b.x > br.c.x),
        "b is not strictly between a and c: a.x=" << vf::dec(br.a.x) << " b.x=" << vf::dec(br.b.x) << " c.x=" << vf::dec(br.c.x));
  CHECK(br.b.f <= br.a.f && br.b.f <= br.c.f, "the middle point is not the lowest: f(a)=" << vf::dec(br.a.f) << " f(b)=" << vf::dec(br.b.f) << " f(c)=" << vf::dec(br.c.f));
}

LAW(Lg_inward, RC, 4000, 200000, 24, "the minimiser is strictly inside the interval", 30, true) {
  OneD q = genOneD(c);
  unsigned nint = static_cast<unsigned>(c.pick({10, 1, 2, 3, 7, 50}));
  bool dflt = nint == 10 && c.flag();
  c.desc << "inwardBracketMinimum(" << vf::dec(q.a) << "," << vf::dec(q.b) << "," << (dflt ? string("default") : to_string(nint)) << ") on " << q.s.show();
  double m = q.s.c[0];
  c.nt(m > min(q.a, q.b) && m < max(q.a, q.b));
  auto obj = make_shared<Obj>(q.s, vector<double>{q.a}, nullptr);
  ParameterList pl; pl.addParameter(Parameter("x0", q.a));
  Bracket br = dflt ? OneDimensionOptimizationTools::inwardBracketMinimum(q.a, q.b, *obj, pl) : OneDimensionOptimizationTools::inwardBracketMinimum(q.a, q.b, *obj, pl, nint);
  auto F = [&](double x) { return q.s.eval(vector<double>{x}); };
  CHECK(br.a.x == q.a && br.b.x == q.b, "the ends were moved: a.x=" << vf::dec(br.a.x) << " b.x=" << vf::dec(br.b.x));
  CHECK(vf::sameBits(br.a.f, F(br.a.x)) && vf::sameBits(br.b.f, F(br.b.x)) && vf::sameBits(br.c.f, F(br.c.x)), "stored values are not f at the stored points");
  double slack = (nint + 4) * DBL_EPSILON * (std::abs(q.a) + std::abs(q.b));  // the mesh is walked by repeated addition
  CHECK(br.c.x >= min(q.a, q.b) - slack && br.c.x <= max(q.a, q.b) + slack, "c.x=" << vf::dec(br.c.x) << " is outside the interval");
  const Record& r = obj->rec;
  for (size_t e = 0; e < r.count(); ++e) CHECK(br.c.f <= r.fs[e], "c=(" << vf::dec(br.c.x) << "," << vf::dec(br.c.f) << ") is not the lowest evaluated point: f(" << vf::dec(r.xs[e]) << ")=" << vf::dec(r.fs[e]));
  CHECK(br.c.f <= br.a.f && br.c.f <= br.b.f, "f(c) exceeds an end value");
  for (unsigned i = 0; i <= nint; ++i) {  // the mesh was visited
    double g = q.a + (q.b - q.a) * (static_cast<double>(i) / static_cast<double>(nint)); bool seen = false;
    for (size_t e = 0; e < r.count() && !seen; ++e) seen = std::abs(r.xs[e] - g) <= slack;
    CHECK(seen, "mesh point " << i << "/" << nint << " (" << vf::dec(g) << ") was never evaluated");
  }
}

static struct Init { Init() { vf::G().resetHook = [] { vf::quietBpp(); vf::installAudit(); }; } } init_;
VF_MAIN("C10")
