// C03 — aliased parameters track their source through every update, copy and renaming.
#include "common/pbt.hpp"
#include "common/bppcommon.hpp"

#include <Bpp/Numeric/AbstractParameterAliasable.h>

using namespace bpp;
using namespace std;

namespace {
const double INF = numeric_limits<double>::infinity();
struct Iv { double lo, hi; bool il, iu; bool none; };
const Iv NONE{-INF, INF, true, true, true};
// pool; every value used by the law lies in the intersection of all of them: [2,5[
// (the last two share their bound values with an earlier entry but differ in openness: an intersection decided on bound values alone is wrong for them)
const Iv POOL[] = {NONE, {0, 10, true, true, false}, {0, 5, false, false, false}, {2, 8, true, false, false}, {-INF, 6, false, true, false}, {0, 10, false, false, false}, {0, 5, true, true, false}};
const double VALS[] = {2, 2.5, 3, 3.5, 4, 4.5, 4.75};
bool acc(const Iv& i, double v) { return i.none || ((i.il ? v >= i.lo : v > i.lo) && (i.iu ? v <= i.hi : v < i.hi)); }
bool sameIv(const Iv& a, const Iv& b) { if (a.none || b.none) return a.none == b.none; return a.lo == b.lo && a.hi == b.hi && a.il == b.il && a.iu == b.iu; }
Iv inter(const Iv& a, const Iv& b) {
  Iv r; r.none = false;
  if (a.lo > b.lo) { r.lo = a.lo; r.il = a.il; } else if (a.lo < b.lo) { r.lo = b.lo; r.il = b.il; } else { r.lo = a.lo; r.il = a.il && b.il; }
  if (a.hi < b.hi) { r.hi = a.hi; r.iu = a.iu; } else if (a.hi > b.hi) { r.hi = b.hi; r.iu = b.iu; } else { r.hi = a.hi; r.iu = a.iu && b.iu; }
  return r;
}
string showIv(const Iv& i) { if (i.none) return "none"; ostringstream o; o << (i.il ? "[" : "]") << i.lo << ";" << i.hi << (i.iu ? "]" : "["); return o.str(); }
shared_ptr<IntervalConstraint> mk(const Iv& i) { return i.none ? nullptr : make_shared<IntervalConstraint>(i.lo, i.hi, i.il, i.iu); }
const double GRID[] = {-1, 0, 1e-9, 1, 2 - 1e-9, 2, 2 + 1e-9, 3, 5 - 1e-9, 5, 5 + 1e-9, 6, 6 + 1e-9, 8 - 1e-9, 8, 9, 10, 10 + 1e-9, 11};

struct Obj : public AbstractParameterAliasable {
  explicit Obj(const string& ns) : AbstractParameterAliasable(ns) {}
  Obj* clone() const override { return new Obj(*this); }
  void add(Parameter* p) { addParameter_(p); }
  long fired = 0;
  void fireParameterChanged(const ParameterList&) override { ++fired; }
};
struct Model {
  string ns; int n;
  vector<double> v; vector<Iv> orig, cur; vector<int> from;  // from[B] = A or -1
  string shortName(int k) const { return "p" + to_string(k); }
  string fullName(int k) const { return ns + shortName(k); }
  bool isAncestor(int a, int b) const { int hops = 0; for (int x = b; x >= 0 && hops <= n; x = from[x], ++hops) { if (x == a) return true; } return false; }  // a is b or an ancestor of b (hop bound: scratch models may be cyclic)
  void setAndPropagate(int a, double x) { if (v[a] == x) return; v[a] = x; for (int b = 0; b < n; ++b) if (from[b] == a && b != a) setAndPropagate(b, x); }
  void link(int a, int b) {
    if (cur[a].none) { if (!cur[b].none) cur[a] = cur[b]; }
    else if (!cur[b].none && !sameIv(cur[a], cur[b])) { Iv r = inter(cur[b], cur[a]); cur[a] = r; cur[b] = r; }
    from[b] = a;
  }
};

void audit(vf::Ctx& c, Obj& o, const Model& m, const char* where) {
  (void)c;
  const ParameterList& pl = o.getParameters();
  CHECK(static_cast<int>(pl.size()) == m.n, where << ": number of parameters");
  CHECK(o.getNamespace() == m.ns, where << ": namespace '" << o.getNamespace() << "' model '" << m.ns << "'");
  set<string> indep;
  for (int k = 0; k < m.n; ++k) {
    CHECK(pl.hasParameter(m.fullName(k)), where << ": parameter " << m.fullName(k) << " missing");
    const Parameter& p = pl.parameter(m.fullName(k));
    CHECK(vf::sameBits(p.getValue(), m.v[k]), where << ": " << m.fullName(k) << " = " << p.getValue() << ", model " << m.v[k] << (m.from[k] >= 0 ? " (aliased to " + m.shortName(m.from[k]) + ")" : ""));
    CHECK(vf::sameBits(o.getParameterValue(m.shortName(k)), m.v[k]), where << ": getParameterValue");
    // (iii) constraint = model constraint (grid decides equality of accepted sets)
    CHECK(p.hasConstraint() == !m.cur[k].none, where << ": " << m.fullName(k) << " constraint presence " << p.hasConstraint() << ", model " << showIv(m.cur[k]));
    if (p.hasConstraint()) for (double g : GRID) CHECK(p.getConstraint()->isCorrect(g) == acc(m.cur[k], g), where << ": " << m.fullName(k) << " carries " << p.getConstraint()->getDescription() << " but the model says " << showIv(m.cur[k]) << " (differs at " << g << ")");
    CHECK(acc(m.orig[k], p.getValue()), where << ": value violates the parameter's own original constraint");
    if (m.from[k] >= 0) { CHECK(acc(m.orig[m.from[k]], p.getValue()), where << ": common value violates the source's original constraint"); }
    else indep.insert(m.fullName(k));
    // (iv) getFrom names the direct source
    string f = o.getFrom(m.fullName(k));
    CHECK(f == (m.from[k] >= 0 ? m.shortName(m.from[k]) : string("")), where << ": getFrom(" << m.fullName(k) << ") = '" << f << "', model '" << (m.from[k] >= 0 ? m.shortName(m.from[k]) : string("")) << "'");
    CHECK(o.hasIndependentParameter(m.shortName(k)) == (m.from[k] < 0), where << ": hasIndependentParameter(" << m.shortName(k) << ") = " << o.hasIndependentParameter(m.shortName(k)) << ", model " << (m.from[k] < 0));
  }
  // (ii) independent parameters
  const ParameterList& ip = o.getIndependentParameters();
  vector<string> in = ip.getParameterNames(); set<string> ins(in.begin(), in.end());
  CHECK(ins.size() == in.size(), where << ": independent list holds a name twice");
  if (ins != indep) { ostringstream a, b; for (auto& s : ins) a << s << " "; for (auto& s : indep) b << s << " "; CHECK(false, where << ": independent parameters {" << a.str() << "} but the model says {" << b.str() << "}"); }
  CHECK(o.getNumberOfIndependentParameters() == indep.size(), where << ": getNumberOfIndependentParameters");
  for (auto& s : in) CHECK(&ip.parameter(s) == &pl.parameter(s), where << ": the independent list does not share the live parameter object '" << s << "'");
  // (iv) name-based registry views, empty namespace only
  if (m.ns.empty()) {
    map<string, string> al = o.getAliases();
    set<string> keys; for (auto& kv : al) keys.insert(kv.first);
    set<string> aliased; for (int k = 0; k < m.n; ++k) if (m.from[k] >= 0) aliased.insert(m.fullName(k));
    CHECK(keys == aliased, where << ": getAliases() lists " << keys.size() << " aliased names, model " << aliased.size());
    for (auto& kv : al) { int b = atoi(kv.first.c_str() + 1), a = atoi(kv.second.c_str() + 1); CHECK(a != b && m.isAncestor(a, b), where << ": getAliases() maps " << kv.first << " to " << kv.second << " which is not one of its sources"); }
    for (int a = 0; a < m.n; ++a) {
      vector<string> ga = o.getAlias(m.shortName(a)); set<string> gs(ga.begin(), ga.end());
      for (int b = 0; b < m.n; ++b) {
        if (m.from[b] == a) CHECK(gs.count(m.fullName(b)), where << ": getAlias(" << m.shortName(a) << ") misses its direct follower " << m.shortName(b));
        if (gs.count(m.fullName(b))) CHECK(b != a && m.isAncestor(a, b), where << ": getAlias(" << m.shortName(a) << ") lists " << m.shortName(b) << " which does not follow it");
      }
    }
  }
}

}  // namespace

LAW(L1_alias_history, RC, 60000, 2000000, 300, "history with a chain of length >=2, or a copy/assignment after >=1 link, or a refused request, or a bulk map whose first key's source is itself a key", 5, true) {
  vector<unique_ptr<Obj>> O; vector<Model> M; O.reserve(4); M.reserve(4);
  {
    Model m; m.ns = c.oneIn(3) ? "ns." : ""; m.n = c.irange(2, 6);
    unique_ptr<Obj> o(new Obj(m.ns));
    c.desc << "obj0(ns='" << m.ns << "'){";
    for (int k = 0; k < m.n; ++k) {
      Iv iv = POOL[c.below(7)]; double v = VALS[c.below(7)];
      m.v.push_back(v); m.orig.push_back(iv); m.cur.push_back(iv); m.from.push_back(-1);
      o->add(new Parameter(m.fullName(k), v, mk(iv)));
      c.desc << m.shortName(k) << "=" << v << ":" << showIv(iv) << " ";
    }
    c.desc << "}";
    O.push_back(std::move(o)); M.push_back(m);
  }
  bool ntChain = false, ntCopyAfterLink = false, ntRefused = false, ntBulkOrder = false;
  audit(c, *O[0], M[0], "after construction");
  int nops = c.irange(1, 25);
  for (int op = 0; op < nops; ++op) {
    size_t X = c.below(O.size()); Obj& o = *O[X]; Model& m = M[X];
    int a = static_cast<int>(c.below(m.n)), b = static_cast<int>(c.below(m.n));
    int kind = static_cast<int>(c.weighted({6, 2, 6, 3, 2, 2, 2, 2, 2}));
    c.desc << "; o" << X << ".";
    int nlinks = 0; for (int k = 0; k < m.n; ++k) if (m.from[k] >= 0) ++nlinks;
    switch (kind) {
      case 0: {  // alias(A,B): B follows A
        c.desc << "alias(" << m.shortName(a) << "," << m.shortName(b) << ")";
        bool twice = m.from[b] >= 0; bool cycle = m.isAncestor(b, a);   // includes a==b and the direct reverse link
        bool directReverse = m.from[a] == b && a != b;
        if (!twice && cycle && !directReverse) c.excludeIfKnown("C03-cycle-accepted");
        try {
          o.aliasParameters(m.shortName(a), m.shortName(b));
          CHECK(!twice, "alias(" << m.shortName(a) << "," << m.shortName(b) << ") accepted although " << m.shortName(b) << " is already aliased to " << m.shortName(m.from[b]));
          CHECK(!cycle, "alias(" << m.shortName(a) << "," << m.shortName(b) << ") accepted although it closes a cycle (" << m.shortName(b) << " is " << (a == b ? "the same parameter" : "a source of " + m.shortName(a)) << ")");
          m.link(a, b);
          if (m.from[a] >= 0 || [&] { for (int k = 0; k < m.n; ++k) if (m.from[k] == b) return true; return false; }()) ntChain = true;
        } catch (ParameterNotFoundException&) { CHECK(false, "alias raised ParameterNotFoundException for existing parameters"); }
        catch (ConstraintException&) { CHECK(false, "alias raised ConstraintException although all values lie inside every constraint"); }
        catch (Exception&) { CHECK(twice || cycle, "alias(" << m.shortName(a) << "," << m.shortName(b) << ") refused although " << m.shortName(b) << " is independent and no cycle would be closed"); ntRefused = true; c.desc << "!"; }
        break; }
      case 1: {  // unalias
        if (c.flag()) for (int k = 0; k < m.n; ++k) if (m.from[k] >= 0) { b = k; a = m.from[k]; break; }
        c.desc << "unalias(" << m.shortName(a) << "," << m.shortName(b) << ")";
        bool linked = m.from[b] == a;
        try { o.unaliasParameters(m.shortName(a), m.shortName(b)); CHECK(linked, "unalias accepted a link that does not exist"); m.from[b] = -1; }
        catch (ParameterNotFoundException&) { CHECK(false, "unalias raised ParameterNotFoundException for existing parameters"); }
        catch (Exception&) { CHECK(!linked, "unalias refused an existing link"); ntRefused = true; c.desc << "!"; }
        break; }
      case 2: {  // set by name (any parameter, also an aliased one)
        double x = VALS[c.below(7)]; c.desc << "setParameterValue(" << m.shortName(a) << "," << x << ")";
        o.setParameterValue(m.shortName(a), x); m.setAndPropagate(a, x);
        break; }
      case 3: case 4: {  // bulk set / match on independent parameters (what applications do)
        ParameterList src; vector<pair<int, double>> e;
        for (int k = 0; k < m.n; ++k) if (m.from[k] < 0 && (kind == 4 ? true : c.flag())) { double x = c.oneIn(3) ? m.v[k] : VALS[c.below(7)]; e.push_back({k, x}); }
        for (size_t k = e.size(); k > 1; --k) swap(e[k - 1], e[c.below(k)]);
        for (auto& kv : e) src.addParameter(Parameter(m.fullName(kv.first), kv.second));
        int route = kind == 4 ? static_cast<int>(c.below(2)) : 0;  // kind 4 covers all independent names
        bool useAll = kind == 4 && route == 1 && nlinks == 0;    // setAllParametersValues needs every parameter of the object
        c.desc << (kind == 3 ? "setParametersValues{" : useAll ? "setAllParametersValues{" : "matchParametersValues{");
        for (auto& kv : e) c.desc << m.shortName(kv.first) << "=" << kv.second << " "; c.desc << "}";
        if (kind == 3) o.setParametersValues(src); else if (useAll) o.setAllParametersValues(src); else o.matchParametersValues(src);
        for (auto& kv : e) m.setAndPropagate(kv.first, kv.second);
        break; }
      case 5: {  // copy-construct, continue on both
        c.desc << "copy->o" << O.size();
        if (O.size() >= 3) { c.desc << "(skipped)"; break; }
        O.push_back(unique_ptr<Obj>(new Obj(o))); M.push_back(m);   // `o`,`m` may dangle after push_back: not used below
        if (nlinks) ntCopyAfterLink = true;
        audit(c, *O.back(), M.back(), "copy right after copy-construction");
        break; }
      case 6: {  // assign
        if (O.size() < 2) { c.desc << "nop"; break; }
        size_t Y = (X + 1 + c.below(O.size() - 1)) % O.size();
        c.desc << "assignFrom(o" << Y << ")";
        bool sameState = M[X].from == M[Y].from && M[X].n == M[Y].n;
        if (!sameState) c.excludeIfKnown("C03-assign-stale");
        *O[X] = *O[Y]; M[X] = M[Y];
        if (nlinks) ntCopyAfterLink = true;
        break; }
      case 7: {  // setNamespace
        string ns = c.pick({string(""), string("ns."), string("x_")}); c.desc << "setNamespace('" << ns << "')";
        o.setNamespace(ns); m.ns = ns;
        break; }
      default: {  // bulk alias from a name map (alias full name -> source full name)
        map<string, string> mp; vector<pair<int, int>> links;  // (source, alias)
        int k = c.irange(1, 3); bool wantCycle = c.oneIn(6);
        Model t = m;
        for (int j = 0; j < k; ++j) {
          int al = static_cast<int>(c.below(m.n)), so = static_cast<int>(c.below(m.n));
          if (t.from[al] >= 0 || mp.count(m.fullName(al))) continue;
          if (!wantCycle && t.isAncestor(al, so)) continue;
          mp[m.fullName(al)] = m.fullName(so); links.push_back({so, al}); t.from[al] = so;
        }
        bool cyclic = false; for (auto& l : links) { Model u = t; u.from[l.second] = -1; if (u.isAncestor(l.second, l.first)) cyclic = true; }
        // the first pass of the library's loop visits keys in string order
        bool sourceIsLaterKey = false; for (auto& kv : mp) if (mp.count(kv.second) && kv.second > kv.first) sourceIsLaterKey = true;
        c.desc << "aliasMap{"; for (auto& kv : mp) c.desc << kv.first << "->" << kv.second << " "; c.desc << "}";
        if (mp.empty()) break;
        if (sourceIsLaterKey || cyclic) { ntBulkOrder = true; c.excludeIfKnown("C03-bulk-alias-hang"); }
        // termination: decided by the per-case CPU-time watchdog of the framework (5 CPU-seconds; normal completion takes microseconds)
        bool raised = false;
        try { map<string, string> m2 = mp; o.aliasParameters(m2, false); }
        catch (Exception&) { raised = true; c.desc << "!"; }
        if (!raised) {
          CHECK(!cyclic, "bulk alias returned although the map contains a cycle");
          // links are performed sources-first; then every key receives the value its source had (through chains of keys)
          Model probe = m; map<int, int> srcOf; for (auto& l : links) srcOf[l.second] = l.first;
          // the library makes passes over the map in key (string) order and links an entry as soon as its source is resolved
          vector<pair<int, int>> todo = links; sort(todo.begin(), todo.end(), [&](const pair<int, int>& x, const pair<int, int>& y) { return m.fullName(x.second) < m.fullName(y.second); });
          set<int> pendingKeys; for (auto& q : todo) pendingKeys.insert(q.second);
          size_t guard = 0; vector<pair<int, int>> order;
          while (!todo.empty() && guard++ < 50) for (size_t j = 0; j < todo.size();) { if (!pendingKeys.count(todo[j].first)) { m.link(todo[j].first, todo[j].second); order.push_back(todo[j]); pendingKeys.erase(todo[j].second); todo.erase(todo.begin() + static_cast<long>(j)); } else ++j; }
          // the final value pass assigns, in processing order, to every key the value its (chain of) source(s) had before the call
          for (auto& l : order) { int r = l.second; int hops = 0; while (srcOf.count(r) && hops++ < 10) r = srcOf[r]; m.setAndPropagate(l.second, probe.v[r]); }
          if (links.size() >= 1) ntChain = ntChain || links.size() >= 2;
        } else {
          // every key is independent and every value lies inside every constraint of the pool: as for the single request, only a cycle justifies a refusal
          CHECK(cyclic, "bulk alias refused a map without a cycle whose keys are all independent");
          // a raising bulk call may leave a partial result: only mutual consistency of the views is demanded, then the case ends
          const ParameterList& ip = o.getIndependentParameters();
          for (int q = 0; q < m.n; ++q) {
            bool ind = ip.hasParameter(m.fullName(q)); string f = o.getFrom(m.fullName(q));
            CHECK(ind == f.empty(), "after a raising bulk alias: " << m.fullName(q) << " is " << (ind ? "" : "not ") << "independent but getFrom says '" << f << "'");
            CHECK(vf::sameBits(o.getParameters().parameter(m.fullName(q)).getValue(), m.v[q]), "a raising bulk alias changed the value of " << m.fullName(q));
          }
          c.nt(true); c.label("bulk_raised");
          return;
        }
        break; }
    }
    for (size_t k = 0; k < O.size(); ++k) audit(c, *O[k], M[k], "after op");
  }
  c.nt(ntChain || ntCopyAfterLink || ntRefused || ntBulkOrder);
  if (ntChain) c.label("chain>=2"); if (ntCopyAfterLink) c.label("copy_or_assign_after_link"); if (ntRefused) c.label("refused_request"); if (ntBulkOrder) c.label("bulk_source_is_later_key");
  CHECK(vf::auditOffences() == 0, "run-time monitor: " << vf::auditFirst());
}

static struct Init { Init() { vf::G().resetHook = [] { vf::quietBpp(); vf::installAudit(); }; } } init_;
VF_MAIN("C03")
