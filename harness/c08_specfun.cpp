// C08 — cumulative and quantile functions of the normal, gamma, chi-square and beta families are proper,
// mutually inverse and accurate (DESIGN.md section 5/C08).
//
// Reference F: Boost.Math 1.83 in long double (erfc, gamma_p/gamma_q, ibeta/ibetac), cross-checked once per
// process against glibc erfcl/lgammal and against series written from the definitions (c08ref::selfCheck()).
// Frozen tolerances (DESIGN section 5/C08): see namespace tol.
#include <boost/math/special_functions/beta.hpp>
#include <boost/math/special_functions/erf.hpp>
#include <boost/math/special_functions/gamma.hpp>

#include "common/pbt.hpp"
#include "common/bppcommon.hpp"

#include <Bpp/Exceptions.h>
#include <Bpp/Numeric/Random/RandomTools.h>

using namespace bpp;
using namespace std;

namespace {
typedef long double LD;
namespace bm = boost::math;
typedef RandomTools RT;

namespace tol {
const double GAMMA = 5e-8;        // incompleteGamma / pGamma / pChisq, absolute (documented "accurate = 1e-8"; probe 9.6e-9)
const double NORM = 1e-14;        // pNorm absolute (probe 9.7e-17)
const double NORM_REL = 1e-13;    // pNorm relative, lower tail
const double BETA = 1e-11;        // incompleteBeta / pBeta absolute (probe 3.0e-13)
const double QNORM = 5e-8;        // |qNorm - z| (AS70 documents 1.5e-8)
const double QCHISQ_REL = 2e-6;   // relative error of qChisq / qGamma (AS91 e = .5e-6; probe 2.3e-7)
const double QCHISQ_P = 1e-7;     // |F(qChisq(p)) - p|  (probe 8.9e-9)
const double QBETA = 1e-11;       // bracket tolerance of qBeta (probe 2.8e-13)
}  // namespace tol

const LD SQRT2L = 1.41421356237309504880168872420969808L;
const double EPS = 2.220446049250313e-16;

// ------------------------------------------------------------------ reference (never calls the library under test)
struct Tail { LD P, Q; };  // lower and upper tail probability
Tail refNorm(LD z) { LD t = z / SQRT2L; return Tail{0.5L * bm::erfc(-t), 0.5L * bm::erfc(t)}; }
Tail refGamma(LD a, LD x) {
  if (x <= 0) return Tail{0, 1};
  return Tail{bm::gamma_p(a, x), bm::gamma_q(a, x)};
}
Tail refBeta(LD a, LD b, LD x) {
  if (x <= 0) return Tail{0, 1};
  if (x >= 1) return Tail{1, 0};
  return Tail{bm::ibeta(a, b, x), bm::ibetac(a, b, x)};
}

// self-written series, used only to validate the Boost reference once per process
LD seriesGammaP(LD a, LD x) {  // P(a,x) = x^a e^-x / Gamma(a) * sum_n x^n / (a (a+1) ... (a+n))
  LD term = 1 / a, sum = term;
  for (int n = 1; n < 20000; ++n) { term *= x / (a + n); sum += term; if (term < 1e-24L * sum) break; }
  return expl(a * logl(x) - x - lgammal(a)) * sum;
}
LD seriesBetaLow(LD a, LD b, LD x, LD xc) {  // I_x(a,b) = x^a (1-x)^b / (a B(a,b)) * 2F1(a+b,1;a+1;x), all terms positive
  LD term = 1, sum = 1;
  for (int n = 0; n < 200000; ++n) { term *= x * (a + b + n) / (a + 1 + n); sum += term; if (term < 1e-24L * sum) break; }
  return expl(a * logl(x) + b * logl(xc) - logl(a) - (lgammal(a) + lgammal(b) - lgammal(a + b))) * sum;
}
LD seriesBeta(LD a, LD b, LD x) {
  if (x > (a + 1) / (a + b + 2)) return 1 - seriesBetaLow(b, a, 1 - x, x);
  return seriesBetaLow(a, b, x, 1 - x);
}
[[noreturn]] void refBroken(const char* what, LD a, LD b, LD x, LD boost, LD mine) {
  fprintf(stderr, "\nC08 REFERENCE SELF-CHECK FAILED (%s): args %.21Lg %.21Lg %.21Lg : Boost.Math %.21Lg, independent evaluation %.21Lg.\n"
                  "The reference itself is off; no verdict about the library can be given.\n", what, a, b, x, boost, mine);
  abort();
}
void selfCheck() {
  static bool done = false;
  if (done) return;
  done = true;
  // erfc: Boost vs glibc
  for (int k = -380; k <= 380; k += 3) {
    LD t = (LD)k / 10 / SQRT2L, bo = bm::erfc(t), gl = erfcl(t);
    if (!(fabsl(bo - gl) <= 1e-17L * fabsl(gl))) refBroken("erfc vs glibc erfcl", t, 0, 0, bo, gl);
  }
  // lgamma: Boost vs glibc
  static const LD sh[] = {0.05L, 0.1L, 0.3L, 0.5L, 1, 1.5L, 2.5L, 7, 17, 100, 200, 400};
  for (LD a : sh) {
    LD bo = bm::lgamma(a), gl = lgammal(a);
    if (!(fabsl(bo - gl) <= 1e-17L * (1 + fabsl(gl)))) refBroken("lgamma vs glibc lgammal", a, 0, 0, bo, gl);
  }
  // gamma_p: Boost vs series
  static const LD gx[] = {1e-300L, 1e-10L, 0.01L, 0.5L, 1, 3, 17, 60, 190, 210, 400, 1000};
  for (LD a : sh) {
    if (a > 200) continue;
    for (LD x : gx) {
      LD bo = bm::gamma_p(a, x), mine = seriesGammaP(a, x);
      if (!(fabsl(bo - mine) <= 1e-13L * mine + 1e-4000L)) refBroken("gamma_p vs series", a, 0, x, bo, mine);
      LD q = bm::gamma_q(a, x);
      if (!(fabsl(bo + q - 1) <= 1e-17L)) refBroken("gamma_p + gamma_q = 1", a, 0, x, bo, q);
    }
  }
  // ibeta: Boost vs series
  static const LD bs[] = {0.1L, 0.3L, 1, 2.5L, 17, 200};
  static const LD bx[] = {1e-300L, 1e-5L, 0.05L, 0.3L, 0.5L, 0.7L, 0.95L, 1 - 1e-9L};
  for (LD a : bs) for (LD b : bs) for (LD x : bx) {
    LD bo = bm::ibeta(a, b, x), mine = seriesBeta(a, b, x);
    if (!(fabsl(bo - mine) <= 1e-13L * fabsl(mine) + 1e-4000L)) refBroken("ibeta vs series", a, b, x, bo, mine);
    LD q = bm::ibetac(a, b, x);
    if (!(fabsl(bo + q - 1) <= 1e-17L)) refBroken("ibeta + ibetac = 1", a, b, x, bo, q);
  }
}

// p is bracketed by the reference cdf at lo and hi: F(lo) - tol <= p <= F(hi) + tol; computed on the tail
// that keeps full precision. Returns the excess (<= tol iff accepted).
LD bracketExcess(const Tail& lo, const Tail& hi, double p) {
  if (p <= 0.5) return max(lo.P - (LD)p, (LD)p - hi.P);
  LD q = 1.0L - (LD)p;
  return max(q - lo.Q, hi.Q - q);
}

// ------------------------------------------------------------------ generators
const int NP = 8193;  // logit grid of probabilities, index 4096 is exactly 0.5
const double PLO = 1e-6, PHI = 1 - 1e-6;
double pGrid(int k) {
  static const double L = std::log(PHI / PLO);
  double t = L * (k - 4096) / 4096.0;
  double p = 1.0 / (1.0 + std::exp(-t));
  return min(max(p, PLO), PHI);
}
struct PP { double p, p2; bool adjacentGrid; };  // p2 > p is a successor for monotonicity (p2 == p: none)
PP genProb(vf::Ctx& c, bool ends) {
  PP r; r.adjacentGrid = false;
  switch (c.weighted({4, 3, 2, 1, 1})) {
    case 0: { int k = 4096 + static_cast<int>(c.zig(4096)); if (k >= NP - 1) k = NP - 2; r.p = pGrid(k); r.p2 = pGrid(k + 1); r.adjacentGrid = true; break; }
    case 1: { static const double L = std::log(PHI / PLO); double t = c.real(-L, L); r.p = min(max(1.0 / (1.0 + std::exp(-t)), PLO), PHI); r.p2 = vf::ulpStep(r.p, 1 + static_cast<int>(c.below(3))); break; }
    case 2: r.p = vf::ulpStep(0.5, static_cast<int>(c.zig(4))); r.p2 = vf::ulpStep(r.p, 1); break;
    case 3: r.p = c.real(PLO, PHI); r.p2 = r.p * (1 + 1e-9); break;
    default: {
      static const double E[] = {PLO, PHI, 0.0, 1.0};
      r.p = E[c.below(ends ? 4 : 2)]; r.p2 = r.p; break;
    }
  }
  if (!(r.p2 <= PHI) || !(r.p2 > r.p)) r.p2 = r.p;
  return r;
}

double clampD(double x, double lo, double hi) { return x < lo ? lo : (x > hi ? hi : x); }
// shape parameter in [lo,hi]: special values (1 first), a 64-point log grid, or log-uniform
double genShape(vf::Ctx& c, double lo, double hi, std::initializer_list<double> extra = {}) {
  switch (c.weighted({3, 3, 2})) {
    case 0: {
      vector<double> sp = {1, 0.5, 2, 1.5, 3, 10, 100, lo, hi};
      for (double e : extra) sp.push_back(e);
      return clampD(sp[c.below(sp.size())], lo, hi);
    }
    case 1: { int k = static_cast<int>(c.below(64)); return clampD(lo * std::pow(hi / lo, k / 63.0), lo, hi); }
    default: return clampD(c.logu(lo, hi), lo, hi);
  }
}
double genRate(vf::Ctx& c) {
  switch (c.weighted({3, 2, 3})) {
    case 0: return 1.0;
    case 1: { static const double R[] = {0.5, 2, 1e-3, 1e3, 0.1, 10}; return R[c.below(6)]; }
    default: return clampD(c.logu(1e-3, 1e3), 1e-3, 1e3);
  }
}
bool within(double x, double y, int ulps) { return x >= vf::ulpStep(y, -ulps) && x <= vf::ulpStep(y, ulps); }

template <class F> bool throwsBpp(F f, string& what) {
  try { f(); } catch (bpp::Exception& e) { what = e.what(); return true; }
  return false;
}

}  // namespace

// =================================================================================================== normal
LAW(N1_pnorm, RC, 150000, 4000000, 8, "z within 2 grid steps (1/32) of a branch switch of the implementation, or tail probability < 1e-6", 120) {
  static const double SW[] = {0.67448975, -0.67448975, std::sqrt(32.0), -std::sqrt(32.0), -37.5193, 8.2924};
  double z, z2;
  switch (c.weighted({4, 3, 3, 1, 1})) {
    case 0: z = static_cast<double>(c.zig(2560)) / 64.0; z2 = z + 1.0 / 64.0; break;
    case 1: z = vf::ulpStep(SW[c.below(6)], static_cast<int>(c.zig(3))); z2 = vf::ulpStep(z, 1); break;
    case 2: z = c.real(-40, 40); z2 = vf::ulpStep(z, 1 + static_cast<int>(c.below(3))); break;
    case 3: { static const double S[] = {0.0, 1e-20, -1e-20, 1e-300, -1e-300, 2e-20, -2e-20}; z = S[c.below(7)]; z2 = vf::ulpStep(z, 1); break; }
    default: z = c.flag() ? 40.0 : -40.0; z2 = z; break;
  }
  if (z2 > 40) z2 = z;
  c.desc << "pNorm(z) z=" << vf::dec(z) << " successor " << vf::dec(z2);
  bool nearSw = false;
  for (double s : SW) if (std::fabs(z - s) <= 2.0 / 64.0) nearSw = true;
  Tail R = refNorm(z);
  c.nt(nearSw || min(R.P, R.Q) < 1e-6L);

  double F = RT::pNorm(z);
  CHECK(F >= 0 && F <= 1, "pNorm(" << vf::dec(z) << ") = " << vf::dec(F) << " is outside [0,1]");
  LD err = fabsl((LD)F - R.P);
  c.observe("pNorm_abs_err", static_cast<double>(err));
  CHECK(err <= tol::NORM, "pNorm(" << vf::dec(z) << ") = " << vf::dec(F) << ", reference " << static_cast<double>(R.P) << ", abs error " << static_cast<double>(err) << " > 1e-14");
  if (z < 0 && z >= -37.5) {
    LD rel = err / R.P;
    c.observe("pNorm_lower_tail_rel_err", static_cast<double>(rel));
    CHECK(rel <= tol::NORM_REL, "pNorm(" << vf::dec(z) << ") = " << vf::dec(F) << ", reference " << static_cast<double>(R.P) << ", relative error " << static_cast<double>(rel) << " > 1e-13 in the lower tail");
  }
  // ends of the working range
  if (z == 40) CHECK(F == 1, "pNorm(40) = " << vf::dec(F) << " != 1");
  if (z == -40) CHECK(F == 0, "pNorm(-40) = " << vf::dec(F) << " != 0");
  // reflection
  double Fm = RT::pNorm(-z);
  double refl = std::fabs(F + Fm - 1);
  c.observe("pNorm_reflection_defect", refl);
  CHECK(refl <= 2 * EPS, "pNorm(z)+pNorm(-z) = " << vf::dec(F + Fm) << " != 1 for z=" << vf::dec(z));
  // monotone
  if (z2 > z) {
    double F2 = RT::pNorm(z2);
    double slack = z < 0 ? 2 * tol::NORM_REL * F + 1e-305 : 2 * tol::NORM;
    c.observe("pNorm_decrease", F - F2);
    if (z < 0 && F > 0) c.observe("pNorm_decrease_rel_lower_tail", (F - F2) / F);
    CHECK(F2 >= F - slack, "pNorm decreases: pNorm(" << vf::dec(z) << ")=" << vf::dec(F) << " > pNorm(" << vf::dec(z2) << ")=" << vf::dec(F2));
  }
}

LAW(N2_norm_locscale, RC, 60000, 1500000, 48, "standardised argument in a tail (probability < 1e-6) or sigma != 1", 120) {
  double mu = c.flag() ? static_cast<double>(c.zig(1000)) : c.real(-1e3, 1e3);
  double sigma = genRate(c);
  double zt = c.flag() ? static_cast<double>(c.zig(2560)) / 64.0 : c.real(-40, 40);
  double x = mu + sigma * zt;
  double z = (x - mu) / sigma;  // what the documentation of pNorm(x,mu,sigma) denotes, in double
  if (!(std::fabs(z) <= 40)) throw vf::Skip();
  PP pp = genProb(c, false);
  c.desc << "x=" << vf::dec(x) << " mu=" << vf::dec(mu) << " sigma=" << vf::dec(sigma) << " p=" << vf::dec(pp.p);
  Tail R = refNorm(z);
  c.nt(sigma != 1 || min(R.P, R.Q) < 1e-6L);
  double F = RT::pNorm(x, mu, sigma);
  CHECK(vf::sameBits(F, RT::pNorm(z)), "pNorm(x,mu,sigma) = " << vf::dec(F) << " differs from pNorm((x-mu)/sigma) = " << vf::dec(RT::pNorm(z)) << " for (x-mu)/sigma=" << vf::dec(z));
  CHECK(fabsl((LD)F - R.P) <= tol::NORM, "pNorm(x,mu,sigma) = " << vf::dec(F) << " but the reference at (x-mu)/sigma=" << vf::dec(z) << " is " << static_cast<double>(R.P));
  // quantile with location/scale
  double q0 = RT::qNorm(pp.p), q = RT::qNorm(pp.p, mu, sigma);
  double want = q0 * sigma + mu;
  CHECK(std::fabs(q - want) <= 2 * EPS * (std::fabs(q0 * sigma) + std::fabs(mu)), "qNorm(p,mu,sigma) = " << vf::dec(q) << " but qNorm(p)*sigma+mu = " << vf::dec(want));
  // and it inverts pNorm(.,mu,sigma): the standardised quantile is within the documented accuracy
  double back = (q - mu) / sigma;
  LD ex = bracketExcess(refNorm((LD)back - tol::QNORM - 4 * EPS * (std::fabs(mu) / sigma + 8)), refNorm((LD)back + tol::QNORM + 4 * EPS * (std::fabs(mu) / sigma + 8)), pp.p);
  CHECK(ex <= 0, "qNorm(p,mu,sigma) = " << vf::dec(q) << " standardises to " << vf::dec(back) << " which is further than 5e-8 from the p-quantile, p=" << vf::dec(pp.p));
}

LAW(N3_qnorm, RC, 150000, 4000000, 8, "p within 4 ulps of 0.5 (tail switch), or p < 1e-5 / p > 1-1e-5, or ulp-adjacent successor", 120) {
  PP pp = genProb(c, false);
  double p = pp.p;
  c.desc << "qNorm(p) p=" << vf::dec(p) << " successor " << vf::dec(pp.p2);
  c.nt(within(p, 0.5, 4) || p < 1e-5 || p > 1 - 1e-5 || (pp.p2 > p && !pp.adjacentGrid));
  double z = RT::qNorm(p);
  CHECK(std::isfinite(z) && z != -9999, "qNorm(" << vf::dec(p) << ") = " << vf::dec(z) << " (error value) for a probability inside the documented range");
  // reference quantile (for the report) and bracket oracle (for the verdict)
  LD zr = p <= 0.5 ? -SQRT2L * bm::erfc_inv(2 * (LD)p) : SQRT2L * bm::erfc_inv(2 * (1.0L - (LD)p));
  c.observe("qNorm_abs_err", static_cast<double>(fabsl((LD)z - zr)));
  LD ex = bracketExcess(refNorm((LD)z - tol::QNORM), refNorm((LD)z + tol::QNORM), p);
  CHECK(ex <= 0, "qNorm(" << vf::dec(p) << ") = " << vf::dec(z) << " is further than 5e-8 from the quantile (Boost: " << static_cast<double>(zr) << ")");
  // metamorphic: the library's own cdf
  double back = RT::pNorm(z);
  c.observe("pNorm_qNorm_defect", std::fabs(back - p));
  CHECK(std::fabs(back - p) <= 0.3989423 * tol::QNORM + tol::NORM, "pNorm(qNorm(p)) = " << vf::dec(back) << " for p=" << vf::dec(p));
  // reflection: 1-p is exact for p >= 0.5
  if (p > 0.5) CHECK(vf::sameBits(z, -RT::qNorm(1 - p)), "qNorm(p) = " << vf::dec(z) << " != -qNorm(1-p) = " << vf::dec(-RT::qNorm(1 - p)) << " for p=" << vf::dec(p));
  // monotone
  if (pp.p2 > p) {
    double z2 = RT::qNorm(pp.p2);
    c.observe(pp.adjacentGrid ? "qNorm_decrease_grid" : "qNorm_decrease_fine", z - z2);
    // strict on adjacent grid points; between (near-)adjacent doubles rounding noise is allowed up to 2 x documented accuracy
    CHECK(z2 >= z - (pp.adjacentGrid ? 0.0 : 2 * tol::QNORM), "qNorm decreases: qNorm(" << vf::dec(p) << ")=" << vf::dec(z) << " > qNorm(" << vf::dec(pp.p2) << ")=" << vf::dec(z2));
  }
}

LAW(N4_qnorm_signal, RC, 8000, 200000, 8, "every case (probability outside ]0,1[)", 120) {
  double p;
  switch (c.weighted({3, 2, 2, 2})) {
    case 0: { static const double B[] = {0.0, 1.0, -1.0, 2.0, -1e-300, 1 + EPS, 1e-21, 1e-300, 5e-324, -0.5, 1.5, -1e6, 1e6}; p = B[c.below(13)]; break; }
    case 1: p = -c.logu(1e-300, 1e6); break;
    case 2: p = 1 + c.logu(EPS, 1e6); break;
    default: p = c.logu(1e-300, 0.99e-20); break;
  }
  bool three = c.flag();
  double mu = 0, sigma = 1;
  if (three) { mu = c.flag() ? c.real(-1e3, 1e3) : static_cast<double>(c.zig(100)); sigma = genRate(c); }
  c.desc << (three ? "qNorm(p,mu,sigma)" : "qNorm(p)") << " p=" << vf::dec(p) << " mu=" << vf::dec(mu) << " sigma=" << vf::dec(sigma);
  c.nt(true);
  if (!three) {
    double z = RT::qNorm(p);
    CHECK(z == -9999, "qNorm(" << vf::dec(p) << ") = " << vf::dec(z) << " instead of the documented error value -9999");
  } else {
    if (!(sigma == 1 && mu == 0)) c.excludeIfKnown("C08-qnorm3-sentinel");
    double z = RT::qNorm(p, mu, sigma);
    CHECK(z == -9999, "qNorm(" << vf::dec(p) << ", mu=" << vf::dec(mu) << ", sigma=" << vf::dec(sigma) << ") = " << vf::dec(z) << " instead of the documented error value -9999");
  }
}

// =================================================================================================== gamma / chi-square
LAW(G1_gamma_cdf, RC, 150000, 4000000, 12, "shape < 1, or argument within 2 grid steps / 3 ulps of the series / continued-fraction switch, or tail probability < 1e-6", 120) {
  double a = genShape(c, 0.05, 200);
  double sw = a > 1 ? a : 1;  // continued fraction iff x > 1 and x >= a
  double top = 50 * sw;
  const int NG = 4096;
  double step = (std::log(top) - std::log(1e-6)) / (NG - 1);
  double t, t2;
  switch (c.weighted({4, 3, 3, 1})) {
    case 0: { int k = static_cast<int>(c.below(NG - 1)); t = std::exp(std::log(1e-6) + k * step); t2 = std::exp(std::log(1e-6) + (k + 1) * step); break; }
    case 1: t = c.logu(1e-300, top); t2 = vf::ulpStep(t, 1 + static_cast<int>(c.below(3))); break;
    case 2: t = vf::ulpStep(sw, static_cast<int>(c.zig(3))); t2 = vf::ulpStep(t, 1); break;
    default: t = 0; t2 = 1e-300; break;
  }
  double beta = genRate(c);
  double x = t / beta, x2 = t2 / beta;
  c.desc << "gamma cdf shape=" << vf::dec(a) << " t=" << vf::dec(t) << " successor " << vf::dec(t2) << " rate=" << vf::dec(beta) << " x=t/rate=" << vf::dec(x);
  Tail R = refGamma(a, t);
  c.nt(a < 1 || std::fabs(std::log(t) - std::log(sw)) <= 2 * step || (t > 0 && min(R.P, R.Q) < 1e-6L));
  double g = RT::lnGamma(a);
  // (a) incompleteGamma
  double F = RT::incompleteGamma(t, a, g);
  CHECK(F >= 0 && F <= 1, "incompleteGamma(" << vf::dec(t) << "," << vf::dec(a) << ") = " << vf::dec(F) << " is outside [0,1]");
  LD err = fabsl((LD)F - R.P);
  c.observe("incompleteGamma_abs_err", static_cast<double>(err));
  CHECK(err <= tol::GAMMA, "incompleteGamma(" << vf::dec(t) << "," << vf::dec(a) << ") = " << vf::dec(F) << ", reference " << static_cast<double>(R.P) << ", abs error " << static_cast<double>(err));
  if (t == 0) CHECK(F == 0, "incompleteGamma(0,a) = " << vf::dec(F) << " != 0");
  // (b) pGamma with a rate
  double Fg = RT::pGamma(x, a, beta);
  Tail Rg = refGamma(a, (LD)beta * (LD)x);
  CHECK(Fg >= 0 && Fg <= 1, "pGamma(" << vf::dec(x) << "," << vf::dec(a) << "," << vf::dec(beta) << ") = " << vf::dec(Fg) << " is outside [0,1]");
  LD errg = fabsl((LD)Fg - Rg.P);
  c.observe("pGamma_abs_err", static_cast<double>(errg));
  CHECK(errg <= tol::GAMMA, "pGamma(" << vf::dec(x) << "," << vf::dec(a) << "," << vf::dec(beta) << ") = " << vf::dec(Fg) << ", reference " << static_cast<double>(Rg.P) << ", abs error " << static_cast<double>(errg));
  if (x == 0) CHECK(Fg == 0, "pGamma(0,a,b) = " << vf::dec(Fg) << " != 0");
  // (c) pChisq with nu = 2a at 2t
  double Fc = RT::pChisq(2 * t, 2 * a);
  CHECK(Fc >= 0 && Fc <= 1, "pChisq(" << vf::dec(2 * t) << "," << vf::dec(2 * a) << ") = " << vf::dec(Fc) << " is outside [0,1]");
  LD errc = fabsl((LD)Fc - R.P);
  c.observe("pChisq_abs_err", static_cast<double>(errc));
  CHECK(errc <= tol::GAMMA, "pChisq(" << vf::dec(2 * t) << "," << vf::dec(2 * a) << ") = " << vf::dec(Fc) << ", reference " << static_cast<double>(R.P) << ", abs error " << static_cast<double>(errc));
  // monotone in the argument
  double F2 = RT::incompleteGamma(t2, a, g), Fg2 = RT::pGamma(x2, a, beta);
  c.observe("incompleteGamma_decrease", F - F2);
  CHECK(F2 >= F - 2 * tol::GAMMA, "incompleteGamma decreases: at " << vf::dec(t) << " " << vf::dec(F) << ", at " << vf::dec(t2) << " " << vf::dec(F2) << " shape " << vf::dec(a));
  if (x2 >= x) CHECK(Fg2 >= Fg - 2 * tol::GAMMA, "pGamma decreases: at " << vf::dec(x) << " " << vf::dec(Fg) << ", at " << vf::dec(x2) << " " << vf::dec(Fg2));
}

LAW(G2_gamma_identities, RC, 100000, 2500000, 12, "shape < 1 or argument beyond the series / continued-fraction switch", 120) {
  double a = genShape(c, 0.05, 199);
  double sw = a > 1 ? a : 1;
  double t;
  switch (c.weighted({3, 3, 2})) {
    case 0: t = sw * std::exp(c.real(-7, 4)); break;
    case 1: t = c.logu(1e-300, 50 * sw); break;
    default: t = vf::ulpStep(c.flag() ? sw : sw + 1, static_cast<int>(c.zig(3))); break;
  }
  double beta = genRate(c);
  double x = t / beta;
  c.desc << "gamma identities shape=" << vf::dec(a) << " t=" << vf::dec(t) << " rate=" << vf::dec(beta);
  c.nt(a < 1 || (t > 1 && t >= a));
  // chi-square is a gamma, by definition of the wrapper
  double nu = 2 * a;
  CHECK(vf::sameBits(RT::pChisq(x, nu), RT::pGamma(x, nu / 2, 0.5)), "pChisq(x,nu) = " << vf::dec(RT::pChisq(x, nu)) << " != pGamma(x,nu/2,1/2) = " << vf::dec(RT::pGamma(x, nu / 2, 0.5)));
  CHECK(vf::sameBits(RT::pGamma(x, a, beta), RT::incompleteGamma(beta * x, a, RT::lnGamma(a))), "pGamma(x,a,b) != incompleteGamma(b*x,a,lnGamma(a))");
  // shape recurrence P(a+1,t) = P(a,t) - t^a e^-t / Gamma(a+1)
  double P0 = RT::incompleteGamma(t, a, RT::lnGamma(a)), P1 = RT::incompleteGamma(t, a + 1, RT::lnGamma(a + 1));
  LD corr = expl((LD)a * logl((LD)t) - (LD)t - lgammal((LD)a + 1));
  LD defect = fabsl((LD)P1 - ((LD)P0 - corr));
  c.observe("gamma_recurrence_defect", static_cast<double>(defect));
  CHECK(defect <= 2 * tol::GAMMA, "P(a+1,t) = " << vf::dec(P1) << " but P(a,t) - t^a e^-t/Gamma(a+1) = " << static_cast<double>((LD)P0 - corr) << " for a=" << vf::dec(a) << " t=" << vf::dec(t));
  // exponential special case
  double E = RT::pGamma(x, 1, beta);
  LD Er = -expm1l(-(LD)beta * (LD)x);
  c.observe("exponential_case_err", static_cast<double>(fabsl((LD)E - Er)));
  CHECK(fabsl((LD)E - Er) <= tol::GAMMA, "pGamma(x,1,b) = " << vf::dec(E) << " but 1-exp(-b x) = " << static_cast<double>(Er) << " for x=" << vf::dec(x) << " b=" << vf::dec(beta));
  // lnGamma against lgammal
  LD lg = lgammal((LD)a);
  double lgerr = static_cast<double>(fabsl((LD)RT::lnGamma(a) - lg) / (fabsl(lg) * EPS + 1e-300L));
  if (fabsl(lg) > 1e-3L) c.observe("lnGamma_err_ulps", lgerr);
  CHECK(fabsl((LD)RT::lnGamma(a) - lg) <= 16 * EPS * fabsl(lg) + 4 * EPS, "lnGamma(" << vf::dec(a) << ") = " << vf::dec(RT::lnGamma(a)) << " but lgammal gives " << static_cast<double>(lg));
}

LAW(G3_qchisq, RC, 120000, 3000000, 12, "df < 2 (shape < 1), or p < 1e-5 / p > 1-1e-5, or (p,df) within 3 ulps of a branch switch of AS91", 120) {
  double nu = genShape(c, 0.1, 400, {0.32, vf::ulpStep(0.32, 1), vf::ulpStep(0.32, -1), 0.2, 4, 30});
  PP pp = genProb(c, true);
  bool seeded = false;
  if (c.oneIn(6)) {  // the switch v >= -1.24 log(p) between the two starting approximations
    double ps = std::exp(-nu / 1.24);
    if (ps > 2.1e-6 && ps < 0.99999) { pp.p = vf::ulpStep(ps, static_cast<int>(c.zig(3))); pp.p2 = vf::ulpStep(pp.p, 1); pp.adjacentGrid = false; seeded = true; }
  }
  double p = pp.p;
  double beta = genRate(c);
  c.desc << "qChisq(p,df) p=" << vf::dec(p) << " df=" << vf::dec(nu) << " successor " << vf::dec(pp.p2) << "; qGamma rate=" << vf::dec(beta);
  c.nt(nu < 2 || p < 1e-5 || p > 1 - 1e-5 || seeded || within(nu, 0.32, 3));
  double q = RT::qChisq(p, nu);
  double qg = RT::qGamma(p, nu / 2, beta);
  CHECK(vf::sameBits(qg, q / (2 * beta)), "qGamma(p,a,b) = " << vf::dec(qg) << " != qChisq(p,2a)/(2b) = " << vf::dec(q / (2 * beta)));
  if (p < 0.000002 || p > 0.999998) {  // documented: "returns -1 if in error. 0.000002<prob<0.999998"
    CHECK(q == -1, "qChisq(" << vf::dec(p) << "," << vf::dec(nu) << ") = " << vf::dec(q) << " instead of the documented -1 for a probability outside ]2e-6,1-2e-6[");
    return;
  }
  CHECK(std::isfinite(q) && q > 0, "qChisq(" << vf::dec(p) << "," << vf::dec(nu) << ") = " << vf::dec(q) << " is not a positive finite number");
  LD a = (LD)nu / 2;
  // relative accuracy of the quantile: the true quantile lies in [q(1-2e-6), q(1+2e-6)]
  LD exRel = bracketExcess(refGamma(a, (LD)q * (1 - tol::QCHISQ_REL) / 2), refGamma(a, (LD)q * (1 + tol::QCHISQ_REL) / 2), p);
  LD qr = 2 * (p <= 0.5 ? bm::gamma_p_inv(a, (LD)p) : bm::gamma_q_inv(a, 1.0L - (LD)p));
  c.observe("qChisq_rel_err", static_cast<double>(fabsl((LD)q - qr) / qr));
  CHECK(exRel <= 0, "qChisq(" << vf::dec(p) << "," << vf::dec(nu) << ") = " << vf::dec(q) << " has relative error > 2e-6 (Boost quantile " << static_cast<double>(qr) << ")");
  // cdf at the quantile (bracket form, 4 ulps)
  LD exP = bracketExcess(refGamma(a, (LD)vf::ulpStep(q, -4) / 2), refGamma(a, (LD)vf::ulpStep(q, 4) / 2), p);
  c.observe("qChisq_cdf_defect", static_cast<double>(exP));
  CHECK(exP <= tol::QCHISQ_P, "reference cdf at qChisq(" << vf::dec(p) << "," << vf::dec(nu) << ") = " << vf::dec(q) << " misses p by " << static_cast<double>(exP));
  // metamorphic
  double back = RT::pChisq(q, nu);
  c.observe("pChisq_qChisq_defect", std::fabs(back - p));
  CHECK(std::fabs(back - p) <= tol::QCHISQ_P + tol::GAMMA, "pChisq(qChisq(p,df),df) = " << vf::dec(back) << " for p=" << vf::dec(p) << " df=" << vf::dec(nu));
  double backg = RT::pGamma(qg, nu / 2, beta);
  CHECK(std::fabs(backg - p) <= tol::QCHISQ_P + tol::GAMMA, "pGamma(qGamma(p,a,b),a,b) = " << vf::dec(backg) << " for p=" << vf::dec(p) << " a=" << vf::dec(nu / 2) << " b=" << vf::dec(beta));
  // monotone in p
  if (pp.p2 > p && pp.p2 <= 0.999998) {
    double q2 = RT::qChisq(pp.p2, nu);
    c.observe(pp.adjacentGrid ? "qChisq_rel_decrease_grid" : "qChisq_rel_decrease_fine", (q - q2) / q);
    CHECK(q2 >= q * (1 - (pp.adjacentGrid ? 0.0 : 2 * tol::QCHISQ_REL)), "qChisq decreases: qChisq(" << vf::dec(p) << ")=" << vf::dec(q) << " > qChisq(" << vf::dec(pp.p2) << ")=" << vf::dec(q2) << " df=" << vf::dec(nu));
  }
}

LAW(G4_gamma_signals, RC, 12000, 300000, 48, "every case (an argument outside the domain)", 120) {
  int kind = static_cast<int>(c.below(5));
  auto neg = [&]() -> double {
    switch (c.weighted({3, 2})) {
      case 0: { static const double N[] = {-1.0, -0.5, -1e-300, -1e6, -2.0, -5e-324}; return N[c.below(6)]; }
      default: return -c.logu(1e-300, 1e6);
    }
  };
  auto nonpos = [&]() -> double { return c.oneIn(4) ? 0.0 : neg(); };
  double a = genShape(c, 0.05, 200), beta = genRate(c), x = c.flag() ? c.logu(1e-300, 1e4) : static_cast<double>(c.irange(1, 20));
  c.nt(true);
  switch (kind) {
    case 0: {  // qChisq: df <= 0
      double nu = nonpos(); PP pp = genProb(c, false);
      c.desc << "qChisq(p,df) p=" << vf::dec(pp.p) << " df=" << vf::dec(nu);
      double q = RT::qChisq(pp.p, nu);
      CHECK(q == -1, "qChisq(" << vf::dec(pp.p) << "," << vf::dec(nu) << ") = " << vf::dec(q) << " instead of the documented -1 for df <= 0");
      break; }
    case 1: {  // qChisq: p outside [0,1] or outside ]2e-6,1-2e-6[
      double p;
      switch (c.weighted({2, 2, 2, 2})) {
        case 0: { static const double B[] = {0.0, 1.0, 1e-6, 1 - 1e-6, 1.9e-6, 0.9999985, -1.0, 2.0, 1e-300}; p = B[c.below(9)]; break; }
        case 1: p = c.logu(1e-300, 1.99e-6); break;
        case 2: p = 1 - c.logu(EPS, 1.99e-6); break;
        default: p = c.flag() ? neg() : 1 + c.logu(EPS, 1e6); break;
      }
      double nu = 2 * a;
      c.desc << "qChisq(p,df) p=" << vf::dec(p) << " df=" << vf::dec(nu);
      double q = RT::qChisq(p, nu);
      CHECK(q == -1, "qChisq(" << vf::dec(p) << "," << vf::dec(nu) << ") = " << vf::dec(q) << " instead of the documented -1 for a probability outside ]2e-6,1-2e-6[");
      break; }
    case 2: {  // incompleteGamma: x < 0
      double xn = neg();
      c.desc << "incompleteGamma(x,alpha) x=" << vf::dec(xn) << " alpha=" << vf::dec(a);
      double r = RT::incompleteGamma(xn, a, RT::lnGamma(a));
      CHECK(r == -1, "incompleteGamma(" << vf::dec(xn) << "," << vf::dec(a) << ") = " << vf::dec(r) << " instead of the documented -1 for x < 0");
      break; }
    case 3: {  // incompleteGamma: alpha <= 0
      double an = nonpos(); double xx = c.oneIn(4) ? 0.0 : x;
      c.desc << "incompleteGamma(x,alpha) x=" << vf::dec(xx) << " alpha=" << vf::dec(an);
      if (xx == 0) c.excludeIfKnown("C08-igamma-x0-badshape");
      double r = RT::incompleteGamma(xx, an, 0.0);
      CHECK(r == -1, "incompleteGamma(" << vf::dec(xx) << "," << vf::dec(an) << ") = " << vf::dec(r) << " instead of the documented -1 for alpha <= 0");
      break; }
    default: {  // pGamma: negative alpha / beta raise Exception
      int which = static_cast<int>(c.below(3));
      double an = which != 1 ? neg() : a, bn = which != 0 ? neg() : beta;
      c.desc << "pGamma(x,alpha,beta) x=" << vf::dec(x) << " alpha=" << vf::dec(an) << " beta=" << vf::dec(bn);
      string what; double r = 0;
      bool th = throwsBpp([&] { r = RT::pGamma(x, an, bn); }, what);
      CHECK(th, "pGamma(" << vf::dec(x) << "," << vf::dec(an) << "," << vf::dec(bn) << ") returned " << vf::dec(r) << " instead of raising bpp::Exception");
      break; }
  }
}

// =================================================================================================== beta
namespace {
const double MAXGAM = 171.624376956302725;
void genBetaShapes(vf::Ctx& c, double lo, double& a, double& b) {
  a = genShape(c, lo, 200, {0.3, 5, 50});
  b = genShape(c, lo, 200, {0.3, 5, 50});
  if (c.oneIn(10)) {  // a+b on either side of the switch to the logarithmic evaluation
    double bb = vf::ulpStep(MAXGAM - a, static_cast<int>(c.zig(2)));
    if (bb >= lo && bb <= 200) b = bb;
  }
}
}  // namespace

LAW(B1_beta_cdf, RC, 150000, 4000000, 16, "a shape < 1, or x within 3 ulps of a branch switch of the Cephes algorithm, or tail probability < 1e-6", 120) {
  double a, b; genBetaShapes(c, 0.1, a, b);
  double x, x2; bool seeded = false;
  switch (c.weighted({4, 3, 3, 2, 1})) {
    case 0: { int k = static_cast<int>(c.below(4096)); x = k / 4096.0; x2 = (k + 1) / 4096.0; break; }
    case 1: {
      double S[] = {1 / b, 0.95, a / (a + b), 1 - 1 / a, 0.05, (a - 1) / (a + b - 2), (b - 1) / (a + b - 2), 0.5};
      double s = S[c.below(8)];
      if (!(s > 0 && s < 1)) s = 0.5;
      x = clampD(vf::ulpStep(s, static_cast<int>(c.zig(3))), 0, 1); x2 = vf::ulpStep(x, 1); seeded = true; break; }
    case 2: x = c.unit(); x2 = vf::ulpStep(x, 1 + static_cast<int>(c.below(3))); break;
    case 3: if (c.flag()) { x = c.logu(1e-300, 1); x2 = vf::ulpStep(x, 1); } else { x = 1 - c.logu(EPS, 1); x2 = vf::ulpStep(x, 1); } break;
    default: x = c.flag() ? 1.0 : 0.0; x2 = x; break;
  }
  x = clampD(x, 0, 1);
  if (!(x2 <= 1) || !(x2 > x)) x2 = x;
  c.desc << "incompleteBeta(x,a,b) x=" << vf::dec(x) << " a=" << vf::dec(a) << " b=" << vf::dec(b) << " successor " << vf::dec(x2);
  Tail R = refBeta(a, b, x);
  c.nt(a < 1 || b < 1 || seeded || (x > 0 && x < 1 && min(R.P, R.Q) < 1e-6L));
  double F = RT::incompleteBeta(x, a, b);
  CHECK(F >= 0 && F <= 1, "incompleteBeta(" << vf::dec(x) << "," << vf::dec(a) << "," << vf::dec(b) << ") = " << vf::dec(F) << " is outside [0,1]");
  CHECK(vf::sameBits(F, RT::pBeta(x, a, b)), "pBeta differs from incompleteBeta");
  if (x == 0) CHECK(F == 0, "incompleteBeta(0,a,b) = " << vf::dec(F) << " != 0");
  if (x == 1) CHECK(F == 1, "incompleteBeta(1,a,b) = " << vf::dec(F) << " != 1");
  LD err = fabsl((LD)F - R.P);
  c.observe("incompleteBeta_abs_err", static_cast<double>(err));
  CHECK(err <= tol::BETA, "incompleteBeta(" << vf::dec(x) << "," << vf::dec(a) << "," << vf::dec(b) << ") = " << vf::dec(F) << ", reference " << static_cast<double>(R.P) << ", abs error " << static_cast<double>(err) << " > 1e-11");
  if (x2 > x) {
    double F2 = RT::incompleteBeta(x2, a, b);
    c.observe("incompleteBeta_decrease", F - F2);
    CHECK(F2 >= F - 2 * tol::BETA, "incompleteBeta decreases: at " << vf::dec(x) << " " << vf::dec(F) << ", at " << vf::dec(x2) << " " << vf::dec(F2) << " a=" << vf::dec(a) << " b=" << vf::dec(b));
  }
}

LAW(B2_beta_identities, RC, 100000, 2500000, 16, "a shape < 1 or x outside [0.05,0.95]", 120) {
  double a, b; genBetaShapes(c, 0.1, a, b);
  // x in [1/2,1[ so that 1-x is exact; the pair (x,1-x) is used in both roles
  double u;
  switch (c.weighted({3, 3, 2})) {
    case 0: u = 0.5 + c.below(2048) / 4096.0; break;
    case 1: u = 0.5 + 0.5 * c.unit(); break;
    default: u = 1 - c.logu(1e-16, 0.5); break;
  }
  u = clampD(u, 0.5, 1 - EPS / 2);
  double v = 1 - u;  // exact
  c.desc << "beta identities a=" << vf::dec(a) << " b=" << vf::dec(b) << " x=" << vf::dec(u) << " 1-x=" << vf::dec(v);
  c.nt(a < 1 || b < 1 || u > 0.95);
  // reflection I_x(a,b) = 1 - I_{1-x}(b,a), both orientations
  double I1 = RT::incompleteBeta(u, a, b), I2 = RT::incompleteBeta(v, b, a);
  c.observe("beta_reflection_defect", std::fabs(I1 - (1 - I2)));
  CHECK(std::fabs(I1 + I2 - 1) <= 2 * tol::BETA, "I_x(a,b) + I_{1-x}(b,a) = " << vf::dec(I1 + I2) << " != 1 for x=" << vf::dec(u) << " a=" << vf::dec(a) << " b=" << vf::dec(b));
  double J1 = RT::incompleteBeta(v, a, b), J2 = RT::incompleteBeta(u, b, a);
  CHECK(std::fabs(J1 + J2 - 1) <= 2 * tol::BETA, "I_x(a,b) + I_{1-x}(b,a) = " << vf::dec(J1 + J2) << " != 1 for x=" << vf::dec(v) << " a=" << vf::dec(a) << " b=" << vf::dec(b));
  // I_x(a,1) = x^a and, by reflection, I_x(1,b) = 1-(1-x)^b
  for (double xx : {u, v}) {
    double P = RT::incompleteBeta(xx, a, 1);
    LD Pr = powl((LD)xx, (LD)a);
    c.observe("beta_power_case_err", static_cast<double>(fabsl((LD)P - Pr)));
    CHECK(fabsl((LD)P - Pr) <= tol::BETA, "I_x(a,1) = " << vf::dec(P) << " but x^a = " << static_cast<double>(Pr) << " for x=" << vf::dec(xx) << " a=" << vf::dec(a));
  }
  // lnBeta: symmetric, and the lgamma combination
  double lb = RT::lnBeta(a, b);
  CHECK(vf::sameBits(lb, RT::lnBeta(b, a)), "lnBeta(a,b) = " << vf::dec(lb) << " != lnBeta(b,a) = " << vf::dec(RT::lnBeta(b, a)));
  LD l1 = lgammal((LD)a), l2 = lgammal((LD)b), l3 = lgammal((LD)a + (LD)b);
  LD lbr = l1 + l2 - l3, scale = fabsl(l1) + fabsl(l2) + fabsl(l3);
  c.observe("lnBeta_err_over_eps_scale", static_cast<double>(fabsl((LD)lb - lbr) / (EPS * (scale + 1))));
  CHECK(fabsl((LD)lb - lbr) <= 16 * EPS * scale + 4 * EPS, "lnBeta(" << vf::dec(a) << "," << vf::dec(b) << ") = " << vf::dec(lb) << " but lgammal gives " << static_cast<double>(lbr));
}

LAW(B3_qbeta, RC, 100000, 2500000, 16, "a shape < 1, or p < 1e-5 / p > 1-1e-5, or p within 4 ulps of 0.5 (tail swap), or the quantile within 1e-9 of 0 or 1", 120) {
  double a, b; genBetaShapes(c, 0.3, a, b);
  PP pp = genProb(c, true);
  double p = pp.p;
  c.desc << "qBeta(p,a,b) p=" << vf::dec(p) << " a=" << vf::dec(a) << " b=" << vf::dec(b) << " successor " << vf::dec(pp.p2);
  double q = RT::qBeta(p, a, b);
  c.nt(a < 1 || b < 1 || p < 1e-5 || p > 1 - 1e-5 || within(p, 0.5, 4) || q < 1e-9 || q > 1 - 1e-9);
  CHECK(q >= 0 && q <= 1, "qBeta(" << vf::dec(p) << "," << vf::dec(a) << "," << vf::dec(b) << ") = " << vf::dec(q) << " is outside [0,1]");
  if (p == 0) { CHECK(q == 0, "qBeta(0,a,b) = " << vf::dec(q)); return; }
  if (p == 1) { CHECK(q == 1, "qBeta(1,a,b) = " << vf::dec(q)); return; }
  double lo = max(0.0, vf::ulpStep(q, -4)), hi = min(1.0, vf::ulpStep(q, 4));
  LD ex = bracketExcess(refBeta(a, b, lo), refBeta(a, b, hi), p);
  c.observe("qBeta_bracket_excess", static_cast<double>(ex));
  CHECK(ex <= tol::QBETA, "qBeta(" << vf::dec(p) << "," << vf::dec(a) << "," << vf::dec(b) << ") = " << vf::dec(q) << ": the reference cdf on [q-4ulp,q+4ulp] misses p by " << static_cast<double>(ex) << " (cdf at q: " << static_cast<double>(refBeta(a, b, q).P) << ")");
  // metamorphic, the library's own cdf
  double Flo = RT::pBeta(lo, a, b), Fhi = RT::pBeta(hi, a, b);
  CHECK(Flo - 2 * tol::QBETA <= p && p <= Fhi + 2 * tol::QBETA, "pBeta on [q-4ulp,q+4ulp] = [" << vf::dec(Flo) << "," << vf::dec(Fhi) << "] misses p=" << vf::dec(p) << " for q=qBeta(p,a,b)=" << vf::dec(q));
  // monotone in p
  if (pp.p2 > p) {
    double q2 = RT::qBeta(pp.p2, a, b);
    c.observe(pp.adjacentGrid ? "qBeta_decrease_grid" : "qBeta_decrease_fine", q - q2);
    bool okMono = q2 >= q;
    if (!okMono && !pp.adjacentGrid) okMono = q2 >= vf::ulpStep(q, -8) || refBeta(a, b, q).P - refBeta(a, b, q2).P <= 2 * tol::QBETA;
    CHECK(okMono, "qBeta decreases: qBeta(" << vf::dec(p) << ")=" << vf::dec(q) << " > qBeta(" << vf::dec(pp.p2) << ")=" << vf::dec(q2) << " a=" << vf::dec(a) << " b=" << vf::dec(b));
  }
}

LAW(B4_beta_signals, RC, 12000, 300000, 48, "every case (an argument outside the domain)", 120) {
  auto neg = [&]() -> double {
    switch (c.weighted({3, 2})) {
      case 0: { static const double N[] = {-1.0, -0.5, -1e-300, -1e6, -2.0, -5e-324}; return N[c.below(6)]; }
      default: return -c.logu(1e-300, 1e6);
    }
  };
  auto above1 = [&]() -> double { return c.oneIn(3) ? 1 + EPS : 1 + c.logu(EPS, 1e6); };
  double a = genShape(c, 0.3, 200), b = genShape(c, 0.3, 200);
  double x = c.flag() ? c.unit() : c.below(5) / 4.0;
  int kind = static_cast<int>(c.below(4));
  c.nt(true);
  string what; double r = 0; bool th;
  switch (kind) {
    case 0: {  // incompleteBeta / pBeta: non-positive shape
      int which = static_cast<int>(c.below(3));
      double an = which != 1 ? (c.oneIn(4) ? 0.0 : neg()) : a, bn = which != 0 ? (c.oneIn(4) ? 0.0 : neg()) : b;
      bool viaP = c.flag();
      c.desc << (viaP ? "pBeta" : "incompleteBeta") << "(x,a,b) x=" << vf::dec(x) << " a=" << vf::dec(an) << " b=" << vf::dec(bn);
      th = throwsBpp([&] { r = viaP ? RT::pBeta(x, an, bn) : RT::incompleteBeta(x, an, bn); }, what);
      CHECK(th, "incompleteBeta(" << vf::dec(x) << "," << vf::dec(an) << "," << vf::dec(bn) << ") returned " << vf::dec(r) << " instead of raising bpp::Exception");
      break; }
    case 1: {  // incompleteBeta: x outside [0,1]
      double xo = c.flag() ? neg() : above1();
      c.desc << "incompleteBeta(x,a,b) x=" << vf::dec(xo) << " a=" << vf::dec(a) << " b=" << vf::dec(b);
      th = throwsBpp([&] { r = RT::incompleteBeta(xo, a, b); }, what);
      CHECK(th, "incompleteBeta(" << vf::dec(xo) << "," << vf::dec(a) << "," << vf::dec(b) << ") returned " << vf::dec(r) << " instead of raising bpp::Exception");
      break; }
    case 2: {  // qBeta: probability outside [0,1]
      double po = c.flag() ? neg() : above1();
      c.desc << "qBeta(p,a,b) p=" << vf::dec(po) << " a=" << vf::dec(a) << " b=" << vf::dec(b);
      th = throwsBpp([&] { r = RT::qBeta(po, a, b); }, what);
      CHECK(th, "qBeta(" << vf::dec(po) << "," << vf::dec(a) << "," << vf::dec(b) << ") returned " << vf::dec(r) << " instead of raising bpp::Exception");
      break; }
    default: {  // qBeta: negative shape
      int which = static_cast<int>(c.below(3));
      double an = which != 1 ? neg() : a, bn = which != 0 ? neg() : b;
      PP pp = genProb(c, true);
      c.desc << "qBeta(p,a,b) p=" << vf::dec(pp.p) << " a=" << vf::dec(an) << " b=" << vf::dec(bn);
      th = throwsBpp([&] { r = RT::qBeta(pp.p, an, bn); }, what);
      CHECK(th, "qBeta(" << vf::dec(pp.p) << "," << vf::dec(an) << "," << vf::dec(bn) << ") returned " << vf::dec(r) << " instead of raising bpp::Exception");
      break; }
  }
}

static struct Init { Init() { vf::G().resetHook = [] { vf::quietBpp(); vf::installAudit(); selfCheck(); }; } } init_;
VF_MAIN("C08")
