// C01 — a constrained parameter never holds a value its constraint rejects.
// Laws L1..L6 of DESIGN.md section 5/C01.
#include "common/pbt.hpp"
#include "common/bppcommon.hpp"

#include <Bpp/Numeric/AbstractParametrizable.h>
#include <Bpp/Numeric/AutoParameter.h>
#include <Bpp/Numeric/Constraints.h>
#include <Bpp/Numeric/Parameter.h>
#include <Bpp/Numeric/ParameterList.h>

using namespace bpp;
using namespace std;

namespace {

struct Iv { double lo, hi; bool il, iu; };
// reference predicate, from the definition
bool acc(const Iv& i, double v) { return (i.il ? v >= i.lo : v > i.lo) && (i.iu ? v <= i.hi : v < i.hi); }
string show(const Iv& i) { return string(i.il ? "[" : "]") + vf::dec(i.lo) + ";" + vf::dec(i.hi) + (i.iu ? "]" : "["); }
shared_ptr<IntervalConstraint> mk(const Iv& i) { return make_shared<IntervalConstraint>(i.lo, i.hi, i.il, i.iu); }
const double INF = std::numeric_limits<double>::infinity();

// order-type grid of a set of bounds: each bound, +-1ulp, +-1e-9, midpoints, far outside
vector<double> grid(vector<double> b) {
  vector<double> g;
  sort(b.begin(), b.end());
  for (double x : b) {
    if (std::isinf(x)) { g.push_back(x > 0 ? 1.7e308 : -1.7e308); continue; }  // only reals are test values
    g.push_back(x); g.push_back(vf::ulpStep(x, 1)); g.push_back(vf::ulpStep(x, -1)); g.push_back(x + 1e-9); g.push_back(x - 1e-9);
  }
  for (size_t i = 0; i + 1 < b.size(); ++i) if (std::isfinite(b[i]) && std::isfinite(b[i + 1])) g.push_back(b[i] / 2 + b[i + 1] / 2);
  double mn = 0, mx = 0; bool any = false;
  for (double x : b) if (std::isfinite(x)) { mn = any ? min(mn, x) : x; mx = any ? max(mx, x) : x; any = true; }
  g.push_back(mn - 1e6); g.push_back(mx + 1e6); g.push_back(0.0);
  return g;
}

double genBound(vf::Ctx& c) {
  switch (c.weighted({6, 3, 1, 1})) {
    case 0: return static_cast<double>(c.zig(6));
    case 1: return c.real(-1e3, 1e3);
    case 2: return -INF;
    default: return INF;
  }
}
Iv genIv(vf::Ctx& c, bool allowInf = true, bool allowEmpty = true) {
  Iv i;
  for (;;) {
    i.lo = genBound(c); i.hi = genBound(c);
    if (!allowInf && (std::isinf(i.lo) || std::isinf(i.hi))) { i.lo = static_cast<double>(c.zig(6)); i.hi = static_cast<double>(c.zig(6)); }
    if (i.lo == i.hi && std::isinf(i.lo)) continue;  // documented as non-sense: not generated
    if (i.lo == INF || i.hi == -INF) continue;
    break;
  }
  i.il = c.flag(); i.iu = c.flag();
  if (!allowEmpty && !(i.lo < i.hi)) { if (i.lo > i.hi) swap(i.lo, i.hi); if (i.lo == i.hi) { i.il = i.iu = true; } }
  return i;
}
bool emptyRef(const Iv& i) { return i.lo > i.hi || (i.lo == i.hi && !(i.il && i.iu)); }

}  // namespace

// ------------------------------------------------------------------ L1 membership (random)
LAW(L1_membership, RC, 20000, 1000000, 64, "test value on a bound, within 1 ulp of it, or equal bounds") {
  Iv i = genIv(c);
  auto ic = mk(i);
  c.desc << "interval " << show(i);
  vector<double> g = grid({i.lo, i.hi});
  g.push_back(c.real(-1e3, 1e3)); g.push_back(c.real(-1e3, 1e3));
  c.nt(std::isfinite(i.lo) || std::isfinite(i.hi));  // the grid then contains values on and within 1 ulp of a bound
  for (double v : g) {
    CHECK(ic->isCorrect(v) == acc(i, v), "isCorrect(" << vf::dec(v) << ") = " << ic->isCorrect(v) << " but the definition gives " << acc(i, v) << " for " << show(i));
  }
  // includes(a,b) for a<=b
  for (size_t k = 0; k < 12; ++k) {
    double a = g[c.below(g.size())], b = g[c.below(g.size())]; if (a > b) swap(a, b);
    CHECK(ic->includes(a, b) == (acc(i, a) && acc(i, b)), "includes(" << vf::dec(a) << "," << vf::dec(b) << ") wrong for " << show(i));
  }
  if (!emptyRef(i)) {
    for (double v : g) {
      if (std::isinf(v)) continue;
      double l = ic->getLimit(v), al = ic->getAcceptedLimit(v);
      if (acc(i, v)) { CHECK(l == v && al == v, "getLimit/getAcceptedLimit of an accepted value must return it; v=" << vf::dec(v) << " " << show(i)); }
      else {
        bool below = v <= i.lo;  // not accepted and interval non-empty: v is at/below lo or at/above hi
        double nb = below ? i.lo : i.hi;
        CHECK(l == nb, "getLimit(" << vf::dec(v) << ")=" << vf::dec(l) << " expected nearer bound " << vf::dec(nb) << " for " << show(i));
        double exp = below ? (i.il ? i.lo : i.lo + ic->getPrecision()) : (i.iu ? i.hi : i.hi - ic->getPrecision());
        CHECK(al == exp, "getAcceptedLimit(" << vf::dec(v) << ")=" << vf::dec(al) << " expected " << vf::dec(exp) << " for " << show(i));
      }
    }
  }
  CHECK(ic->getLowerBound() == i.lo && ic->getUpperBound() == i.hi && ic->strictLowerBound() == !i.il && ic->strictUpperBound() == !i.iu, "accessors");
  CHECK(ic->finiteLowerBound() == std::isfinite(i.lo) && ic->finiteUpperBound() == std::isfinite(i.hi), "finite*Bound");
}

// ------------------------------------------------------------------ L3 emptiness + L1 on the lattice (exhaustive)
LAW(L3_emptiness_enum, ENUM, 0, 0, 0, "equal bounds with at least one open end, or lo>hi") {
  static const double lat[] = {-INF, -1, 0, 0.5, 2, INF};
  Iv i; i.lo = lat[c.below(6)]; i.hi = lat[c.below(6)]; i.il = c.flag(); i.iu = c.flag();
  if ((std::isinf(i.lo) && i.lo == i.hi) || i.lo == INF || i.hi == -INF) throw vf::Skip();
  c.desc << "interval " << show(i);
  auto ic = mk(i);
  bool e = emptyRef(i);
  c.nt(i.lo >= i.hi);
  CHECK(ic->isEmpty() == e, "isEmpty()=" << ic->isEmpty() << " but " << (e ? "no real is accepted by " : "some real is accepted by ") << show(i));
  bool anyAcc = false;
  for (double v : grid({i.lo, i.hi})) { CHECK(ic->isCorrect(v) == acc(i, v), "isCorrect(" << vf::dec(v) << ")"); anyAcc |= acc(i, v); }
  CHECK(anyAcc == !e, "internal: grid witness disagrees with emptyRef for " << show(i));
}

LAW(L3_emptiness, RC, 10000, 300000, 32, "equal bounds or lo>hi") {
  Iv i = genIv(c);
  if (c.oneIn(3)) i.hi = i.lo;
  else if (c.oneIn(3) && std::isfinite(i.lo)) {  // bounds that differ by the smallest possible amounts (a tolerance-based test is wrong here)
    if (c.flag()) i.lo = c.pick({0.0, 1e-30, -1e-30, 1e-5, -2e-7});
    i.hi = c.flag() ? vf::ulpStep(i.lo, 1 + static_cast<int>(c.below(3))) : i.lo + c.pick({5e-324, 1e-300, 1e-30, 1e-21, 1e-19});
  }
  if (std::isinf(i.lo) && i.lo == i.hi) throw vf::Skip();
  c.desc << "interval " << show(i);
  c.nt(i.lo >= i.hi || i.hi - i.lo < 1e-15);
  CHECK(mk(i)->isEmpty() == emptyRef(i), "isEmpty()=" << mk(i)->isEmpty() << " for " << show(i));
  if (i.lo < i.hi) { double mid = i.lo / 2 + i.hi / 2; if (mid > i.lo && mid < i.hi) CHECK(mk(i)->isCorrect(mid) && !mk(i)->isEmpty(), "the interval accepts " << vf::dec(mid) << " but reports itself empty: " << show(i)); }
}

// ------------------------------------------------------------------ L2 intersection
static void checkIntersection(vf::Ctx& c, const Iv& a, const Iv& b) {
  auto A = mk(a), B = mk(b);
  vector<double> g = grid({a.lo, a.hi, b.lo, b.hi});
  unique_ptr<ConstraintInterface> r(*A & *B);
  CHECK(r != nullptr, "operator& of two intervals returned null");
  IntervalConstraint A2(*A); A2 &= *B;
  for (double v : g) {
    bool want = acc(a, v) && acc(b, v);
    CHECK(r->isCorrect(v) == want, "(" << show(a) << " & " << show(b) << ") = " << r->getDescription() << " : isCorrect(" << vf::dec(v) << ")=" << r->isCorrect(v) << ", both operands accept: " << want);
    CHECK(A2.isCorrect(v) == want, "(" << show(a) << " &= " << show(b) << ") = " << A2.getDescription() << " : isCorrect(" << vf::dec(v) << ")=" << A2.isCorrect(v) << ", both operands accept: " << want);
  }
  // operands untouched
  CHECK(A->getLowerBound() == a.lo && A->getUpperBound() == a.hi && A->strictLowerBound() == !a.il && A->strictUpperBound() == !a.iu, "operator& modified its left operand");
  (void)c;
}
LAW(L2_intersection_enum, ENUM, 0, 0, 0, "two bounds equal with different openness") {
  static const double lat[] = {-INF, 0, 1, 2, INF};
  Iv a, b;
  a.lo = lat[c.below(4)]; a.hi = lat[1 + c.below(4)]; b.lo = lat[c.below(4)]; b.hi = lat[1 + c.below(4)];
  a.il = c.flag(); a.iu = c.flag(); b.il = c.flag(); b.iu = c.flag();
  c.desc << show(a) << " & " << show(b);
  c.nt((a.lo == b.lo && a.il != b.il) || (a.hi == b.hi && a.iu != b.iu));
  checkIntersection(c, a, b);
}
LAW(L2_intersection, RC, 15000, 500000, 24, "two bounds equal with different openness, or disjoint operands") {
  Iv a = genIv(c), b = genIv(c);
  if (c.oneIn(3)) b.lo = a.lo;
  if (c.oneIn(3)) b.hi = a.hi;
  if ((std::isinf(b.lo) && b.lo == b.hi)) throw vf::Skip();
  c.desc << show(a) << " & " << show(b);
  c.nt((a.lo == b.lo && a.il != b.il) || (a.hi == b.hi && a.iu != b.iu) || a.hi < b.lo || b.hi < a.lo);
  checkIntersection(c, a, b);
  // precision is the max of both
  IntervalConstraint P(a.lo, a.hi, a.il, a.iu, 1e-6), Q(b.lo, b.hi, b.il, b.iu, 1e-3);
  unique_ptr<ConstraintInterface> r(P & Q);
  CHECK(dynamic_cast<IntervalConstraint*>(r.get())->getPrecision() == 1e-3, "precision of an intersection is the larger one");
}

// ------------------------------------------------------------------ L4 description
namespace {
string genNum(vf::Ctx& c, double& val) {
  // strict decimal grammar: -? D+ ( . D+ )? ( e -? D+ )?
  string s; if (c.flag()) s += "-";
  int nd = c.irange(1, 4); for (int k = 0; k < nd; ++k) s += static_cast<char>('0' + c.below(10));
  if (c.flag()) { s += "."; int nf = c.irange(1, 4); for (int k = 0; k < nf; ++k) s += static_cast<char>('0' + c.below(10)); }
  if (c.oneIn(4)) { s += "e"; if (c.flag()) s += "-"; s += static_cast<char>('0' + c.below(10)); }
  val = strtod(s.c_str(), nullptr);
  return s;
}
}
LAW(L4_description, RC, 15000, 500000, 40, "an infinite bound or a number with fraction/exponent") {
  Iv i; string ls, us; bool linf = c.oneIn(5), uinf = c.oneIn(5);
  i.il = c.flag(); i.iu = c.flag();
  if (linf) { ls = "-inf"; i.lo = -INF; } else ls = genNum(c, i.lo);
  if (uinf) { us = c.flag() ? "+inf" : "inf"; i.hi = INF; } else us = genNum(c, i.hi);
  string d = string(i.il ? "[" : "]") + ls + ";" + us + (i.iu ? "]" : "[");
  c.desc << "description \"" << d << "\"";
  c.nt(linf || uinf || d.find('.') != string::npos || d.find('e') != string::npos);
  string d1 = d;
  IntervalConstraint ic(d1);
  CHECK(ic.getLowerBound() == i.lo && ic.getUpperBound() == i.hi && ic.strictLowerBound() == !i.il && ic.strictUpperBound() == !i.iu,
        "constructor from \"" << d << "\" gave " << ic.getDescription() << " lo=" << vf::dec(ic.getLowerBound()) << " hi=" << vf::dec(ic.getUpperBound()));
  IntervalConstraint ic2(5, 6, true, true);
  string d2 = d; ic2.readDescription(d2);
  CHECK(ic2 == ic, "readDescription differs from the string constructor for \"" << d << "\"");
  for (double v : grid({i.lo, i.hi})) CHECK(ic.isCorrect(v) == acc(i, v), "parsed interval accepts other values than the denoted one at " << vf::dec(v));
}

// ------------------------------------------------------------------ L5 history invariant
namespace {
struct Owner : public AbstractParametrizable {
  Owner() : AbstractParametrizable("") {}
  Owner* clone() const override { return new Owner(*this); }
  void add(Parameter* p) { addParameter_(p); }
  Parameter& par(const string& n) { return getParameter_(n); }
};
struct MP { bool has; Iv iv; double v; double prec; };  // model of one parameter
const Iv POOL[] = {{0, 10, true, true}, {0, 5, false, false}, {2, 8, true, false}, {-INF, 3, false, true}, {0, INF, false, false}, {0, INF, true, false}, {1, 1, true, true}, {-5, -1, false, true}};
}
LAW(L5_history, RC, 20000, 1000000, 200, "history with >=1 raising call and >=1 constraint change after a value change") {
  // objects: up to 6 parameters p0..; 0..2 in a ParameterList (by copy: lists own copies), 0..2 owned by an Owner.
  vector<unique_ptr<Parameter>> P; vector<MP> M;
  ParameterList pl; vector<MP> ML; vector<string> plNames;
  Owner own; vector<MP> MO; vector<string> ownNames;
  int raises = 0, consAfterVal = 0; bool valChanged = false;
  auto genVal = [&](const MP* m) -> double {
    switch (c.weighted({4, 3, 2, 2})) {
      case 0: return static_cast<double>(c.zig(12));
      case 1: if (m && m->has) { double b = c.flag() ? m->iv.lo : m->iv.hi; if (std::isfinite(b)) return vf::ulpStep(b, static_cast<int>(c.zig(1))); } return 0.0;
      case 2: return c.real(-12, 12);
      default: if (m) return m->v + (c.flag() ? 1 : -1) * c.pick({0.0, 1e-13, 4e-4, 6e-4, 1e-3}); return 1.0;
    }
  };
  // model of Parameter::setValue
  auto modelSet = [&](MP& m, double x) -> int {  // 0 accepted, 1 ignored, 2 raises
    if (!(std::abs(x - m.v) > m.prec / 2)) return 1;
    if (m.has && !acc(m.iv, x)) return 2;
    m.v = x; return 0;
  };
  auto audit = [&](const char* where) {
    for (size_t k = 0; k < P.size(); ++k) {
      CHECK(vf::sameBits(P[k]->getValue(), M[k].v), where << ": p" << k << " holds " << vf::dec(P[k]->getValue()) << ", model " << vf::dec(M[k].v));
      CHECK(P[k]->hasConstraint() == M[k].has, where << ": p" << k << " hasConstraint=" << P[k]->hasConstraint() << " model " << M[k].has);
      if (M[k].has) CHECK(acc(M[k].iv, P[k]->getValue()), where << ": p" << k << " holds " << vf::dec(P[k]->getValue()) << " rejected by its constraint " << show(M[k].iv));
      if (M[k].has) CHECK(P[k]->getConstraint()->isCorrect(P[k]->getValue()), where << ": constraint object rejects the stored value");
    }
    for (size_t k = 0; k < ML.size(); ++k) {
      const Parameter& q = pl.parameter(plNames[k]);
      CHECK(vf::sameBits(q.getValue(), ML[k].v), where << ": list entry " << plNames[k] << " holds " << vf::dec(q.getValue()) << ", model " << vf::dec(ML[k].v));
      CHECK(q.hasConstraint() == ML[k].has, where << ": list entry constraint presence");
      if (ML[k].has) CHECK(acc(ML[k].iv, q.getValue()), where << ": list entry " << plNames[k] << " holds " << vf::dec(q.getValue()) << " rejected by " << show(ML[k].iv));
    }
    for (size_t k = 0; k < MO.size(); ++k) {
      const Parameter& q = own.parameter(ownNames[k]);
      CHECK(vf::sameBits(q.getValue(), MO[k].v), where << ": owned " << ownNames[k] << " holds " << vf::dec(q.getValue()) << ", model " << vf::dec(MO[k].v));
      if (MO[k].has) CHECK(acc(MO[k].iv, q.getValue()), where << ": owned parameter holds a rejected value");
    }
  };
  int nops = c.irange(1, 25);
  for (int op = 0; op < nops; ++op) {
    int kind = static_cast<int>(c.below(12));
    c.desc << (op ? "; " : "");
    if (P.empty() || kind == 0) {
      // construct
      MP m; m.has = !c.oneIn(4); m.iv = POOL[c.below(8)]; m.prec = c.pick({0.0, 0.0, 1e-3}); m.v = 0;
      double x = genVal(&m);
      if (c.oneIn(5)) x = 0;
      c.desc << "new p" << P.size() << "(v=" << vf::dec(x) << "," << (m.has ? show(m.iv) : string("none")) << ",prec=" << m.prec << ")";
      bool shouldRaise = m.has && !acc(m.iv, x);
      if (shouldRaise && x == 0) c.excludeIfKnown("C01-ctor-zero");
      try {
        unique_ptr<Parameter> p(new Parameter("p" + to_string(P.size()), x, m.has ? mk(m.iv) : nullptr, m.prec));
        CHECK(!shouldRaise, "constructor accepted value " << vf::dec(x) << " rejected by " << show(m.iv));
        m.v = x; P.push_back(std::move(p)); M.push_back(m);
      } catch (ConstraintException&) { CHECK(shouldRaise, "constructor raised for an acceptable value " << vf::dec(x) << " in " << show(m.iv)); ++raises; c.desc << "!"; }
      if (P.size() > 6) { P.erase(P.begin()); M.erase(M.begin()); for (size_t k = 0; k < P.size(); ++k) {} }
    } else {
      size_t a = c.below(P.size()), b = c.below(P.size());
      switch (kind) {
        case 1: case 2: case 3: {  // setValue
          double x = genVal(&M[a]); MP before = M[a]; int pr = modelSet(M[a], x);
          c.desc << "p" << a << ".setValue(" << vf::dec(x) << ")";
          try { P[a]->setValue(x); CHECK(pr != 2, "setValue(" << vf::dec(x) << ") accepted a value rejected by " << show(before.iv)); if (pr == 0) valChanged = true; }
          catch (ConstraintException& e) { CHECK(pr == 2, "setValue(" << vf::dec(x) << ") raised but the value is acceptable / within precision"); M[a] = before; ++raises; c.desc << "!"; CHECK(e.getBadValue() == x, "exception reports bad value " << e.getBadValue()); }
          break; }
        case 4: case 5: {  // setConstraint
          Iv iv = POOL[c.below(8)]; bool null = c.oneIn(6);
          c.desc << "p" << a << ".setConstraint(" << (null ? string("null") : show(iv)) << ")";
          bool bad = !null && !acc(iv, M[a].v);
          auto oldC = P[a]->getConstraint();
          try { P[a]->setConstraint(null ? nullptr : mk(iv)); CHECK(!bad, "setConstraint accepted " << show(iv) << " although it rejects the current value " << vf::dec(M[a].v)); M[a].has = !null; M[a].iv = iv; if (valChanged) ++consAfterVal; }
          catch (ConstraintException&) { CHECK(bad, "setConstraint raised although the constraint accepts the value"); ++raises; c.desc << "!"; CHECK(P[a]->getConstraint() == oldC, "constraint identity changed by a refused setConstraint"); }
          break; }
        case 6: {  // removeConstraint
          c.desc << "p" << a << ".removeConstraint()";
          auto old = P[a]->getConstraint(); auto r = P[a]->removeConstraint();
          CHECK(r == old, "removeConstraint did not return the constraint"); M[a].has = false; if (valChanged) ++consAfterVal;
          break; }
        case 7: {  // copy-construct into new slot / assign
          if (c.flag()) { c.desc << "p" << P.size() << "=copy(p" << a << ")"; P.push_back(unique_ptr<Parameter>(new Parameter(*P[a]))); M.push_back(M[a]); if (P.size() > 6) { P.erase(P.begin()); M.erase(M.begin()); } }
          else { c.desc << "p" << a << "=p" << b; *P[a] = *P[b]; M[a] = M[b]; }
          break; }
        case 8: {  // put a copy into the list / owner
          string nm = P[a]->getName();
          if (c.flag()) { if (!pl.hasParameter(nm)) { c.desc << "list.add(p" << a << ")"; pl.addParameter(*P[a]); ML.push_back(M[a]); plNames.push_back(nm); } else c.desc << "nop"; }
          else { if (!own.hasParameter(nm)) { c.desc << "owner.add(p" << a << ")"; own.add(new Parameter(*P[a])); MO.push_back(M[a]); ownNames.push_back(nm); } else c.desc << "nop"; }
          break; }
        case 9: {  // list-level single update
          if (ML.empty()) { c.desc << "nop"; break; }
          size_t k = c.below(ML.size()); double x = genVal(&ML[k]); MP before = ML[k]; int pr = modelSet(ML[k], x);
          c.desc << "list.setParameterValue(" << plNames[k] << "," << vf::dec(x) << ")";
          try { pl.setParameterValue(plNames[k], x); CHECK(pr != 2, "list.setParameterValue accepted a rejected value " << vf::dec(x) << " for " << show(before.iv)); }
          catch (ConstraintException&) { CHECK(pr == 2, "list.setParameterValue raised for an acceptable value"); ML[k] = before; ++raises; c.desc << "!"; }
          break; }
        case 10: {  // list-level bulk update from a source list (zero precision targets only: quantifier of C02)
          if (ML.empty()) { c.desc << "nop"; break; }
          ParameterList src; vector<double> xs; vector<size_t> idx; bool anyBad = false;
          for (size_t k = 0; k < ML.size(); ++k) if (c.flag()) { double x = genVal(&ML[k]); src.addParameter(Parameter(plNames[k], x)); xs.push_back(x); idx.push_back(k); }
          int route = static_cast<int>(c.below(2));
          c.desc << (route ? "list.matchParametersValues{" : "list.setParametersValues{");
          for (size_t j = 0; j < idx.size(); ++j) { c.desc << plNames[idx[j]] << "=" << vf::dec(xs[j]) << " "; if (ML[idx[j]].has && !acc(ML[idx[j]].iv, xs[j])) anyBad = true; }
          c.desc << "}";
          bool precisionInvolved = false; for (size_t j = 0; j < idx.size(); ++j) if (ML[idx[j]].prec != 0) precisionInvolved = true;
          vector<MP> before = ML;
          try {
            if (route) pl.matchParametersValues(src); else pl.setParametersValues(src);
            if (!precisionInvolved) CHECK(!anyBad, "bulk update returned although a value is rejected by its target");
            for (size_t j = 0; j < idx.size(); ++j) modelSet(ML[idx[j]], xs[j]);
            if (precisionInvolved) for (size_t k = 0; k < ML.size(); ++k) ML[k].v = pl.parameter(plNames[k]).getValue();  // weakest reading with non-zero precision: only the invariant is asserted
          } catch (ConstraintException&) {
            CHECK(anyBad, "bulk update raised although every value is acceptable"); ML = before; ++raises; c.desc << "!";
            if (precisionInvolved) for (size_t k = 0; k < ML.size(); ++k) ML[k].v = pl.parameter(plNames[k]).getValue();
          }
          break; }
        default: {  // owner-level update
          if (MO.empty()) { c.desc << "nop"; break; }
          size_t k = c.below(MO.size()); double x = genVal(&MO[k]); MP before = MO[k]; int pr = modelSet(MO[k], x);
          c.desc << "owner.setParameterValue(" << ownNames[k] << "," << vf::dec(x) << ")";
          try { own.setParameterValue(ownNames[k], x); CHECK(pr != 2, "owner.setParameterValue accepted a rejected value"); }
          catch (ConstraintException&) { CHECK(pr == 2, "owner.setParameterValue raised for an acceptable value"); MO[k] = before; ++raises; c.desc << "!"; }
          break; }
      }
    }
    audit("after op");
  }
  c.nt(raises >= 1 && consAfterVal >= 1);
  if (raises) c.label("has_raise");
  CHECK(vf::auditOffences() == 0, "run-time monitor: " << vf::auditFirst());
}

// ------------------------------------------------------------------ L6 auto-correcting parameter
LAW(L6_autoparameter, RC, 20000, 1000000, 40, "request outside an open end") {
  Iv i;
  i.lo = c.flag() ? static_cast<double>(c.zig(20)) : c.real(-1e3, 1e3);
  double w = c.pick({1e-9, 1e-6, 1.0, 7.5, 100.0}) * (1 + c.unit());
  i.hi = c.oneIn(6) ? INF : i.lo + w; if (c.oneIn(6)) i.lo = -INF;
  if (std::isfinite(i.hi) && std::abs(i.hi) > 1e3) i.hi = 1e3;
  if (std::isinf(i.lo) && std::isinf(i.hi)) i.lo = 0;
  if (std::isfinite(i.lo) && std::isfinite(i.hi) && i.hi - i.lo < 1e-9) throw vf::Skip();
  i.il = c.flag(); i.iu = c.flag();
  // start value strictly inside
  double start = std::isinf(i.lo) ? i.hi - 1 : std::isinf(i.hi) ? i.lo + 1 : i.lo / 2 + i.hi / 2;
  // the constraint's own precision is the step taken inside an open bound (default 1e-12; also non-default values)
  double cprec = c.pick({1e-12, 1e-12, 1e-6, 1e-3, 1e-10});
  if (std::isfinite(i.lo) && std::isfinite(i.hi) && i.hi - i.lo < 4 * cprec) cprec = 1e-12;
  AutoParameter ap("a", start, make_shared<IntervalConstraint>(i.lo, i.hi, i.il, i.iu, cprec)); ap.setMessageHandler(nullptr);
  c.desc << "auto " << show(i) << " constraint precision " << cprec << " start " << vf::dec(start) << " requests";
  int n = c.irange(1, 4); bool outsideOpen = false;
  for (int k = 0; k < n; ++k) {
    double x;
    switch (c.weighted({2, 3, 3, 2})) {
      case 0: x = c.real(-1e3, 1e3); break;
      case 1: { double b = (c.flag() && std::isfinite(i.lo)) || !std::isfinite(i.hi) ? i.lo : i.hi; x = b + (c.flag() ? 1 : -1) * c.pick({0.0, 1e-15, 1e-12, 1e-10, 1e-3, 1.0, 500.0}); break; }
      case 2: { double b = (c.flag() && std::isfinite(i.lo)) || !std::isfinite(i.hi) ? i.lo : i.hi; x = vf::ulpStep(b, static_cast<int>(c.zig(2))); break; }
      default: x = static_cast<double>(c.zig(30));
    }
    if (std::abs(x) > 1e3) x = x > 0 ? 1e3 : -1e3;
    c.desc << " " << vf::dec(x);
    double expect;
    if (acc(i, x)) expect = x;
    else if (x <= i.lo) { expect = i.il ? i.lo : i.lo + cprec; if (!i.il) outsideOpen = true; }
    else { expect = i.iu ? i.hi : i.hi - cprec; if (!i.iu) outsideOpen = true; }
    try { ap.setValue(x); }
    catch (std::exception& e) { CHECK(false, "AutoParameter::setValue(" << vf::dec(x) << ") raised " << e.what() << " for " << show(i)); }
    CHECK(acc(i, ap.getValue()), "AutoParameter ended on " << vf::dec(ap.getValue()) << " which " << show(i) << " rejects (request " << vf::dec(x) << ")");
    CHECK(vf::sameBits(ap.getValue(), expect), "AutoParameter ended on " << vf::dec(ap.getValue()) << " expected " << vf::dec(expect) << " for request " << vf::dec(x) << " in " << show(i));
  }
  c.nt(outsideOpen);
  // through copy and through a list
  AutoParameter ap2(ap); ap2.setValue(i.il && std::isfinite(i.lo) ? i.lo - 1 : (std::isfinite(i.hi) ? i.hi + 1 : 0));
  CHECK(acc(i, ap2.getValue()), "copied AutoParameter ended outside its constraint");
  CHECK(vf::auditOffences() == 0, "run-time monitor: " << vf::auditFirst());
}

static struct Init { Init() { vf::G().resetHook = [] { vf::quietBpp(); vf::installAudit(); }; } } init_;
VF_MAIN("C01")
