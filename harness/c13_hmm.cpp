// C13 — all HMM likelihood algorithms compute the same, correct probability of the data.
// Laws of DESIGN.md section 5/C13:
//   L1_loglik_paths     (1) Rescaled / LowMemory(every chunk size) / Logsum agree with each other and with R1 (sum over all
//                       hidden paths) and R2 (scaled forward recursion), both in long double
//   L1_lowmem_chunk1    (1) the low-memory variant with chunk size 1 on >= 2 sites
//   L1_long             (1) the same on sequences of up to 5000 sites (R2 only)
//   L2_posteriors       (2)+(3) posteriors (all sites / one site / append) and per-site likelihoods against R1 / R2
//   L4_derivatives      (4) first and second derivatives against R2 on second-order dual numbers and against
//                       Richardson finite differences of the object's own getValue()
//   L4_d2_alone         (4)+(5) a second derivative asked without any earlier first-derivative query
//   L5_history          (5) after every op of a history every answer equals the one of a FRESH object (bitwise) and the reference
//   L5_alphabet_history (5) the same histories when the hidden alphabet has a parameter of its own on which the emission table and / or
//                       the transition matrix depend; updates name any subset of {alphabet, transition, emission} parameters
//   L5_alphabet_enum    (5) exhaustively: algorithm x dependency on the alphabet x route x (not named / same value / new value) per parameter
//   L6_builtin_matrix   (6) FullHmmTransitionMatrix / AutoCorrelationTransitionMatrix: row-stochastic, Pij==getPij, stationary
//                       vector, whatever the order of the queries after a parameter change
//   L6_builtin_enum     the same, exhaustively over class x size x preset x update route x order of the three queries
//   L7_builtin_loglik   (1)(2)(4) with the built-in transition classes on well-mixing rows (every entry >= 0.2/n)
//
// Harness classes: Alpha (n states), Emis (e[t][s] = exp(lb + sum_k th_k*w_k + th_k^2*v_k), analytic first and second
// derivatives through the computeD(2)EmissionProbabilities hooks, computed only when the hook is called, as a real
// emission class does), TabTrans (P = (1-lam)*A + lam*B on a fixed irreducible zero pattern, stationary vector solved in
// long double).  The references see exactly the doubles these classes expose.
//
// Tolerances (frozen, DESIGN section 5/C13):
//   algorithms among themselves 1e-11*(1+|logL|); against R1/R2 1e-9*(1+|logL|); posteriors >= -1e-12, rows 1 +- 1e-9,
//   against the reference 1e-8; derivatives 1e-6 relative + 1e-9 against the dual-number reference;
//   finite differences (Richardson, h1 = 2^-7, h2 = 2^-5): 1e-4*(1+|d|+L) (a coarse sign / missing-term check; worst seen 2e-6).
//   The worst observed value of each, as a fraction of its tolerance, is recorded with c.observe.
//
// Known findings (known_findings.d/C13.json; each is excluded at the narrowest point, mostly by not executing / not
// checking the one query that falls into the class, so that the rest of the case is still checked):
//   C13-lowmem-chunk1                    low-memory variant, chunk size 1, >= 2 sites (heap overflow)          L1_lowmem_chunk1
//   C13-scaled-underflow                 scaled recursions flush state weights below 1e-308 (sparse rows + extreme emissions);
//                                        only the Rescaled/LowMemory answers are skipped, predicate from the log-space reference
//   C13-rescaled-deriv-underflow         Rescaled derivative quotients formed from underflowing products
//   C13-rescaled-d2-accumulators         Rescaled computeD2Forward_ resets the first-order accumulators
//   C13-rescaled-d2-needs-d1             Rescaled second derivative reads first-order arrays it did not compute
//   C13-derivative-cache-stale           derivative cache keyed by the variable name survives parameter / break point changes
//   C13-lowmem-derivative-cached         second identical derivative query on the low-memory variant returns -0 instead of raising
//   C13-logsum-max-aliasing              `num -= num[whichMax(num)]` subtracts a reference into the vector being modified
//   C13-logsum-d2-emission-term          Logsum second derivative drops d2 log e inside a segment
//   C13-logsum-deriv-underflow           Logsum derivative weights leave log space (0/0 for states behind negligible predecessors)
//   C13-autocorr-equilibrium             AutoCorrelationTransitionMatrix equilibrium = 0.95 in every cell
//   C13-full-uptodate-flag               FullHmmTransitionMatrix::getPij() sets the flag getEquilibriumFrequencies() tests
//   C13-full-settransitionprobabilities  setTransitionProbabilities doubles the row prefix: own parameters never updated
//   C13-full-equilibrium-p256            equilibrium = row 0 of P^256, not stationary for slowly mixing chains
// The generator shapes `special` (log-linear emissions, last state dominant) exist to keep Logsum derivative checks
// alive outside the classes of C13-logsum-d2-emission-term and C13-logsum-max-aliasing.
// With the fixes proposed in known_findings.d/C13.json applied to a scratch copy, every law passes with only
// C13-scaled-underflow left as known.
#include "common/pbt.hpp"
#include "common/bppcommon.hpp"

#include <Bpp/Exceptions.h>
#include <Bpp/Numeric/AbstractParametrizable.h>
#include <Bpp/Numeric/Hmm/AutoCorrelationTransitionMatrix.h>
#include <Bpp/Numeric/Hmm/FullHmmTransitionMatrix.h>
#include <Bpp/Numeric/Hmm/HmmEmissionProbabilities.h>
#include <Bpp/Numeric/Hmm/HmmLikelihood.h>
#include <Bpp/Numeric/Hmm/HmmStateAlphabet.h>
#include <Bpp/Numeric/Hmm/HmmTransitionMatrix.h>
#include <Bpp/Numeric/Hmm/LogsumHmmLikelihood.h>
#include <Bpp/Numeric/Hmm/LowMemoryRescaledHmmLikelihood.h>
#include <Bpp/Numeric/Hmm/RescaledHmmLikelihood.h>
#include <Bpp/Numeric/Matrix/Matrix.h>

#include <memory>

using namespace bpp;
using namespace std;

namespace {

typedef long double LD;
const double LN10 = 2.302585092994045684;
const double NaN = std::numeric_limits<double>::quiet_NaN();

const double TOL_ALG = 1e-11, TOL_REF = 1e-9, POST_NEG = 1e-12, POST_SUM = 1e-9, POST_REF = 1e-8, DER_REL = 1e-6, DER_ABS = 1e-9, FD_TOL = 1e-4;
const double STAT_TOL = 1e-9, ROW_TOL = 1e-12;

// =================================================================================== numeric description of a model
struct EmTab {  // immutable tables: e[t][s](th) = exp(lb[t][s] + sum_k th_k*w[k][t][s] + th_k^2*v[k][t][s])
  int L = 0, n = 0, np = 1;
  vector<vector<double>> lb;
  vector<vector<double>> w[2], v[2];
  vector<vector<double>> au;   // coupling to the hidden alphabet's own parameter: log e[t][s] += lev * au[t][s] (empty: no coupling)
};
inline double emisValue(const EmTab& T, size_t t, size_t s, const double* th, double lev = 0) {
  double x = T.lb[t][s];
  for (int k = 0; k < T.np; ++k) x += th[k] * T.w[k][t][s] + th[k] * th[k] * T.v[k][t][s];
  if (!T.au.empty()) x += lev * T.au[t][s];
  return std::exp(x);
}
inline double emisG(const EmTab& T, int k, size_t t, size_t s, const double* th) { return T.w[k][t][s] + 2 * th[k] * T.v[k][t][s]; }
inline double mixP(const vector<vector<double>>& A, const vector<vector<double>>& B, double lam, size_t i, size_t j) { return (1 - lam) * A[i][j] + lam * B[i][j]; }
// mixing weight of a transition matrix that also depends on the alphabet's parameter lev: lam for lev = 0, 1 - lam for lev = 1 (in [0,1])
inline double mixW(double lam, double lev) { return lam + lev - 2 * lam * lev; }

struct Spec {
  int n = 1, L = 1;
  vector<vector<double>> A, B; double lam = 0;   // table-driven transitions
  shared_ptr<EmTab> tab; double th[2] = {0, 0};
  vector<size_t> bp;                              // sorted, distinct, in 1..L-1: site b starts a new segment
  string tabDesc;                                 // textual description of the emission table (explicit cells or seed)
  // hidden alphabet with a parameter of its own ("lev"), on which the emissions (tab->au non-empty) and / or the
  // transitions (depT) depend: the situation fireParameterChanged of the likelihood classes refreshes the two components for
  bool ap = false, depT = false; double lev = 0;
  double weight() const { return depT ? mixW(lam, lev) : lam; }
};

// stationary vector of an irreducible chain by the Grassmann-Taksar-Heyman elimination (no subtraction: every component
// is accurate to a few ulps of long double, however small it is and however weakly the states are coupled)
vector<LD> stationaryLD(vector<vector<LD>> P) {
  size_t n = P.size();
  for (size_t k = n - 1; k > 0; --k) {
    LD s = 0; for (size_t j = 0; j < k; ++j) s += P[k][j];
    for (size_t i = 0; i < k; ++i) P[i][k] /= s;
    for (size_t i = 0; i < k; ++i) for (size_t j = 0; j < k; ++j) P[i][j] += P[i][k] * P[k][j];
  }
  vector<LD> pi(n, 0); pi[0] = 1; LD tot = 1;
  for (size_t k = 1; k < n; ++k) { for (size_t i = 0; i < k; ++i) pi[k] += pi[i] * P[i][k]; tot += pi[k]; }
  for (auto& x : pi) x /= tot;
  return pi;
}
template <class Mat> vector<vector<LD>> toLD(const Mat& P, size_t n) { vector<vector<LD>> r(n, vector<LD>(n)); for (size_t i = 0; i < n; ++i) for (size_t j = 0; j < n; ++j) r[i][j] = P(i, j); return r; }
LD statResidual(const vector<vector<LD>>& P, const vector<LD>& pi) {
  LD worst = 0; size_t n = P.size();
  for (size_t j = 0; j < n; ++j) { LD x = 0; for (size_t i = 0; i < n; ++i) x += pi[i] * P[i][j]; worst = max(worst, fabsl(x - pi[j])); }
  return worst;
}

// =================================================================================== harness model classes
struct Alpha : public virtual HmmStateAlphabet, public AbstractParametrizable {
  size_t n_;
  explicit Alpha(size_t n, bool ap = false, double lev = 0) : AbstractParametrizable(""), n_(n) { if (ap) addParameter_(new Parameter("lev", lev, Parameter::PROP_CONSTRAINT_IN)); }
  double lev() const { return hasParameter("lev") ? getParameterValue("lev") : 0; }
  Alpha* clone() const override { return new Alpha(*this); }
  const Clonable& getState(size_t) const override { return *this; }
  size_t getNumberOfStates() const override { return n_; }
  bool worksWith(const HmmStateAlphabet& a) const override { return a.getNumberOfStates() == n_; }
};

struct Emis : public virtual HmmEmissionProbabilities, public AbstractParametrizable {
  shared_ptr<const HmmStateAlphabet> alph_;
  shared_ptr<const EmTab> T_;
  vector<vector<double>> e_;
  mutable vector<vector<double>> de_, d2e_;   // filled by the hooks only (NaN before)
  mutable long dCalls_ = 0, d2Calls_ = 0;
  Emis(shared_ptr<const HmmStateAlphabet> a, shared_ptr<const EmTab> T, const double* th) : AbstractParametrizable(""), alph_(a), T_(T) {
    for (int k = 0; k < T_->np; ++k) addParameter_(new Parameter(k == 0 ? "th1" : "th2", th[k]));
    e_.assign(T_->L, vector<double>(T_->n, 0)); de_.assign(T_->L, vector<double>(T_->n, NaN)); d2e_ = de_;
    update();
  }
  Emis* clone() const override { return new Emis(*this); }
  void theta(double* th) const { th[0] = getParameterValue("th1"); th[1] = T_->np > 1 ? getParameterValue("th2") : 0; }
  // the table is rebuilt when the object is notified of a parameter change: its own or, through the likelihood object, the alphabet's
  void update() { double th[2]; theta(th); double lev = T_->au.empty() ? 0 : dynamic_cast<const Alpha&>(*alph_).lev(); for (size_t t = 0; t < e_.size(); ++t) for (size_t s = 0; s < e_[t].size(); ++s) e_[t][s] = emisValue(*T_, t, s, th, lev); }
  void fireParameterChanged(const ParameterList&) override { update(); }
  const HmmStateAlphabet& hmmStateAlphabet() const override { return *alph_; }
  shared_ptr<const HmmStateAlphabet> getHmmStateAlphabet() const override { return alph_; }
  void setHmmStateAlphabet(shared_ptr<const HmmStateAlphabet> a) override { if (!a) throw HmmUnvalidAlphabetException("null alphabet"); alph_ = a; }
  double operator()(size_t pos, size_t state) const override { return e_[pos][state]; }
  const vector<double>& operator()(size_t pos) const override { return e_[pos]; }
  size_t getNumberOfPositions() const override { return e_.size(); }
  int varIndex(const string& v) const { if (v == "th1") return 0; if (v == "th2" && T_->np > 1) return 1; throw Exception("Emis: no emission parameter called '" + v + "'"); }
  void computeDEmissionProbabilities(string& variable) const override {
    int k = varIndex(variable); double th[2]; theta(th); ++dCalls_;
    for (size_t t = 0; t < e_.size(); ++t) for (size_t s = 0; s < e_[t].size(); ++s) de_[t][s] = e_[t][s] * emisG(*T_, k, t, s, th);
  }
  void computeD2EmissionProbabilities(string& variable) const override {
    int k = varIndex(variable); double th[2]; theta(th); ++d2Calls_;
    for (size_t t = 0; t < e_.size(); ++t) for (size_t s = 0; s < e_[t].size(); ++s) { double g = emisG(*T_, k, t, s, th); d2e_[t][s] = e_[t][s] * (g * g + 2 * T_->v[k][t][s]); }
  }
  const vector<double>& getDEmissionProbabilities(size_t pos) const override { return de_[pos]; }
  const vector<double>& getD2EmissionProbabilities(size_t pos) const override { return d2e_[pos]; }
};

struct TabTrans : public virtual HmmTransitionMatrix, public AbstractParametrizable {
  shared_ptr<const HmmStateAlphabet> alph_;
  vector<vector<double>> A_, B_;
  RowMatrix<double> P_; vector<double> pi_; bool depT_;
  TabTrans(shared_ptr<const HmmStateAlphabet> a, const vector<vector<double>>& A, const vector<vector<double>>& B, double lam, bool depT = false) : AbstractParametrizable(""), alph_(a), A_(A), B_(B), P_(A.size(), A.size()), pi_(A.size()), depT_(depT) {
    addParameter_(new Parameter("lam", lam, Parameter::PROP_CONSTRAINT_IN));
    update();
  }
  TabTrans* clone() const override { return new TabTrans(*this); }
  void update() {
    double lam = getParameterValue("lam"); size_t n = A_.size();
    if (depT_) lam = mixW(lam, dynamic_cast<const Alpha&>(*alph_).lev());
    for (size_t i = 0; i < n; ++i) for (size_t j = 0; j < n; ++j) P_(i, j) = mixP(A_, B_, lam, i, j);
    vector<LD> pi = stationaryLD(toLD(P_, n));
    for (size_t i = 0; i < n; ++i) pi_[i] = static_cast<double>(pi[i]);
  }
  void fireParameterChanged(const ParameterList&) override { update(); }
  const HmmStateAlphabet& hmmStateAlphabet() const override { return *alph_; }
  shared_ptr<const HmmStateAlphabet> getHmmStateAlphabet() const override { return alph_; }
  void setHmmStateAlphabet(shared_ptr<const HmmStateAlphabet> a) override { if (!a) throw HmmUnvalidAlphabetException("null alphabet"); alph_ = a; }
  size_t getNumberOfStates() const override { return A_.size(); }
  double Pij(size_t i, size_t j) const override { return P_(i, j); }
  const Matrix<double>& getPij() const override { return P_; }
  const vector<double>& getEquilibriumFrequencies() const override { return pi_; }
};

// =================================================================================== references (long double)
struct Ref { int n = 0, L = 0; vector<vector<LD>> P; vector<LD> pi; vector<vector<LD>> e; vector<char> brk; };

void setBreaks(Ref& r, const vector<size_t>& bp) { r.brk.assign(static_cast<size_t>(r.L), 0); for (size_t b : bp) if (b < static_cast<size_t>(r.L)) r.brk[b] = 1; }
Ref makeRef(const Spec& s) {
  Ref r; r.n = s.n; r.L = s.L; size_t n = static_cast<size_t>(s.n);
  r.P.assign(n, vector<LD>(n));
  for (size_t i = 0; i < n; ++i) for (size_t j = 0; j < n; ++j) r.P[i][j] = mixP(s.A, s.B, s.weight(), i, j);
  vector<LD> pi = stationaryLD(r.P); r.pi.resize(n);
  for (size_t i = 0; i < n; ++i) r.pi[i] = static_cast<double>(pi[i]);   // the doubles the transition class exposes
  r.e.assign(static_cast<size_t>(s.L), vector<LD>(n));
  for (size_t t = 0; t < r.e.size(); ++t) for (size_t k = 0; k < n; ++k) r.e[t][k] = emisValue(*s.tab, t, k, s.th, s.lev);
  setBreaks(r, s.bp);
  return r;
}

// R1: sum over all hidden paths; marg[t][s] = total weight of the paths with h_t = s
struct PathEnum {
  const Ref& r; vector<vector<LD>> marg;
  explicit PathEnum(const Ref& rr) : r(rr), marg(static_cast<size_t>(rr.L), vector<LD>(static_cast<size_t>(rr.n), 0)) {}
  LD dfs(int t, int prev, LD prefix) {
    LD total = 0;
    for (int s = 0; s < r.n; ++s) {
      LD w = prefix * ((t == 0 || r.brk[static_cast<size_t>(t)]) ? r.pi[static_cast<size_t>(s)] : r.P[static_cast<size_t>(prev)][static_cast<size_t>(s)]) * r.e[static_cast<size_t>(t)][static_cast<size_t>(s)];
      LD sub = (w == 0 || t == r.L - 1) ? w : dfs(t + 1, s, w);
      marg[static_cast<size_t>(t)][static_cast<size_t>(s)] += sub; total += sub;
    }
    return total;
  }
};

// second-order dual numbers
struct D2 { LD v, d, dd; D2(LD v_ = 0, LD d_ = 0, LD dd_ = 0) : v(v_), d(d_), dd(dd_) {} };
inline D2 operator+(const D2& a, const D2& b) { return D2(a.v + b.v, a.d + b.d, a.dd + b.dd); }
inline D2 operator*(const D2& a, const D2& b) { return D2(a.v * b.v, a.d * b.v + a.v * b.d, a.dd * b.v + 2 * a.d * b.d + a.v * b.dd); }
inline D2 operator*(const D2& a, LD b) { return D2(a.v * b, a.d * b, a.dd * b); }
inline D2 operator/(const D2& a, const D2& b) { LD i = 1 / b.v; D2 inv(i, -b.d * i * i, -b.dd * i * i + 2 * b.d * b.d * i * i * i); return a * inv; }
inline D2 log(const D2& a) { LD q = a.d / a.v; return D2(logl(a.v), q, a.dd / a.v - q * q); }

// R2: scaled forward recursion
template <class T> T refForward(const Ref& r, const vector<vector<T>>& e) {
  using std::log;
  size_t n = static_cast<size_t>(r.n); T logL = T(0); vector<T> f(n), g(n);
  for (size_t t = 0; t < static_cast<size_t>(r.L); ++t) {
    T c = T(0);
    for (size_t s = 0; s < n; ++s) {
      T x = T(0);
      if (t == 0 || r.brk[t]) x = T(r.pi[s]); else for (size_t k = 0; k < n; ++k) x = x + f[k] * r.P[k][s];
      g[s] = x * e[t][s]; c = c + g[s];
    }
    logL = logL + log(c);
    for (size_t s = 0; s < n; ++s) f[s] = g[s] / c;
  }
  return logL;
}
// R2: scaled forward/backward posteriors
void refPosteriors(const Ref& r, LD& logL, vector<vector<LD>>& post) {
  size_t n = static_cast<size_t>(r.n), L = static_cast<size_t>(r.L);
  vector<vector<LD>> f(L, vector<LD>(n)), b(L, vector<LD>(n)); vector<LD> sc(L); logL = 0;
  for (size_t t = 0; t < L; ++t) {
    LD c = 0;
    for (size_t s = 0; s < n; ++s) { LD x = 0; if (t == 0 || r.brk[t]) x = r.pi[s]; else for (size_t k = 0; k < n; ++k) x += f[t - 1][k] * r.P[k][s]; f[t][s] = x * r.e[t][s]; c += f[t][s]; }
    for (size_t s = 0; s < n; ++s) f[t][s] /= c;
    sc[t] = c; logL += logl(c);
  }
  for (size_t s = 0; s < n; ++s) b[L - 1][s] = 1;
  for (size_t t = L - 1; t > 0; --t)
    for (size_t s = 0; s < n; ++s) {
      if (r.brk[t]) { b[t - 1][s] = 1; continue; }
      LD x = 0; for (size_t k = 0; k < n; ++k) x += r.P[s][k] * r.e[t][k] * b[t][k];
      b[t - 1][s] = x / sc[t];
    }
  post.assign(L, vector<LD>(n));
  for (size_t t = 0; t < L; ++t) for (size_t s = 0; s < n; ++s) post[t][s] = f[t][s] * b[t][s];
}
// R2 in log space (long double): immune to the dynamic range of the scaled recursions
const LD NEG_INF = -std::numeric_limits<LD>::infinity();
inline LD lse2(LD a, LD b) { if (a == NEG_INF) return b; if (b == NEG_INF) return a; return a > b ? a + log1pl(expl(b - a)) : b + log1pl(expl(a - b)); }
struct LogFB {
  vector<vector<LD>> lf, lb, post; vector<LD> segLog; LD logL = 0;
  LD minLogG = 0;   // smallest finite log of an unnormalised term e_t(s) * sum_k P(k,s) fhat_{t-1}(k) of the scaled recursion
  LD maxLogB = 0;   // largest log of a scaled backward value bhat_t(s)
  LD minLogScale = 0;   // smallest log of a per-site scale factor (probability of site t given the sites before it in its segment)
  LD minLogTmpScale = 0, minLogTmp2Scale = 0;   // smallest finite log(tmp_t(s) * scale_t), log(tmp_t(s) * scale_t^2): products formed by the derivative recursions of RescaledHmmLikelihood
  LD minLogDen = 0;   // smallest finite log of sum_k exp(lf_{t-1}(k) - max lf_{t-1}) P(k,s): the denominators of the Logsum derivative recursion
  LD minLogBterm = 0;   // smallest finite log of a term e_t(k) P(s,k) bhat_t(k) of the scaled backward recursion
};
LogFB refLog(const Ref& r, bool backward) {
  size_t n = static_cast<size_t>(r.n), L = static_cast<size_t>(r.L); LogFB o;
  vector<vector<LD>> lP(n, vector<LD>(n)); for (size_t i = 0; i < n; ++i) for (size_t j = 0; j < n; ++j) lP[i][j] = r.P[i][j] > 0 ? logl(r.P[i][j]) : NEG_INF;
  o.lf.assign(L, vector<LD>(n)); o.segLog.assign(L, 0);
  vector<LD> tot(L);
  for (size_t t = 0; t < L; ++t) {
    LD prevTot = t ? tot[t - 1] : 0;
    for (size_t s = 0; s < n; ++s) {
      LD x;
      if (t == 0 || r.brk[t]) x = logl(r.pi[s]);
      else {
        x = NEG_INF; for (size_t k = 0; k < n; ++k) x = lse2(x, o.lf[t - 1][k] + lP[k][s]);
        LD mx = NEG_INF; for (size_t k = 0; k < n; ++k) mx = max(mx, o.lf[t - 1][k]);
        if (x != NEG_INF) o.minLogDen = min(o.minLogDen, x - mx);
      }
      o.lf[t][s] = x + logl(r.e[t][s]);
      if (t > 0 && !r.brk[t] && o.lf[t][s] != NEG_INF) o.minLogG = min(o.minLogG, o.lf[t][s] - prevTot);
    }
    LD a = NEG_INF; for (size_t s = 0; s < n; ++s) a = lse2(a, o.lf[t][s]); tot[t] = a;
    LD base = (t == 0 || r.brk[t]) ? 0 : prevTot, lsc = a - base;
    o.minLogScale = min(o.minLogScale, lsc);
    for (size_t s = 0; s < n; ++s) if (o.lf[t][s] != NEG_INF) { o.minLogTmpScale = min(o.minLogTmpScale, o.lf[t][s] - base + lsc); o.minLogTmp2Scale = min(o.minLogTmp2Scale, o.lf[t][s] - base + 2 * lsc); }
  }
  // segments: site t belongs to the segment ending at the last site before the next break point
  size_t end = L - 1; o.logL = 0;
  for (size_t t = L; t-- > 0;) {
    if (t + 1 == L || r.brk[t + 1]) { end = t; o.logL += tot[t]; }
    o.segLog[t] = tot[end];
  }
  if (!backward) return o;
  o.lb.assign(L, vector<LD>(n, 0));
  for (size_t t = L - 1; t > 0; --t)
    for (size_t s = 0; s < n; ++s) {
      if (r.brk[t]) { o.lb[t - 1][s] = 0; continue; }
      LD x = NEG_INF; for (size_t k = 0; k < n; ++k) x = lse2(x, lP[s][k] + logl(r.e[t][k]) + o.lb[t][k]);
      o.lb[t - 1][s] = x;
    }
  o.post.assign(L, vector<LD>(n));
  for (size_t t = 0; t < L; ++t) for (size_t s = 0; s < n; ++s) {
    o.post[t][s] = expl(o.lf[t][s] + o.lb[t][s] - o.segLog[t]);
    // scaled backward value of the rescaled algorithm: bhat_t(s) = b_t(s) * prod_{u<=t in segment} scale_u / segment likelihood = b_t(s) * tot[t] / segLik
    if (o.lb[t][s] != NEG_INF) o.maxLogB = max(o.maxLogB, o.lb[t][s] + tot[t] - o.segLog[t]);
    if (t > 0 && !r.brk[t] && o.lb[t][s] != NEG_INF) for (size_t k = 0; k < n; ++k) if (lP[k][s] != NEG_INF) o.minLogBterm = min(o.minLogBterm, logl(r.e[t][s]) + lP[k][s] + o.lb[t][s] + tot[t] - o.segLog[t]);
  }
  return o;
}

// exact derivatives of log L with respect to emission parameter k
void refDerivs(const Ref& r, const EmTab& T, const double* th, int k, LD& d1, LD& d2) {
  size_t n = static_cast<size_t>(r.n), L = static_cast<size_t>(r.L);
  vector<vector<D2>> e(L, vector<D2>(n));
  for (size_t t = 0; t < L; ++t) for (size_t s = 0; s < n; ++s) {
    LD ev = r.e[t][s], g = static_cast<LD>(T.w[k][t][s]) + 2 * static_cast<LD>(th[k]) * T.v[k][t][s];
    e[t][s] = D2(ev, ev * g, ev * (g * g + 2 * static_cast<LD>(T.v[k][t][s])));
  }
  D2 l = refForward<D2>(r, e); d1 = l.d; d2 = l.dd;
}

// =================================================================================== generators
struct Draw {  // either the choice stream itself (small tables) or a stream expanded from one 64-bit choice (long tables)
  vf::Ctx* c; bool seeded; uint64_t st;
  uint64_t raw() { if (!seeded) return c->raw(); st = vf::mix64(st); return st; }
  uint64_t below(uint64_t n) { if (!seeded) return c->below(n); return n <= 1 ? 0 : raw() % n; }
  double unit() { return static_cast<double>(raw() >> 11) * (1.0 / 9007199254740992.0); }
  int64_t zig(int k) { uint64_t r = below(2 * static_cast<uint64_t>(k) + 1); return (r & 1) ? static_cast<int64_t>((r + 1) / 2) : -static_cast<int64_t>(r / 2); }
};

double genTheta(vf::Ctx& c) { return static_cast<double>(c.zig(8)) / 4; }   // dyadic, |th| <= 2

// emission table; profile 0 moderate (1e-3..1), 1 wide (1e-194..1), 2 mostly moderate with some cells below 1e-100
shared_ptr<EmTab> genTab(vf::Ctx& c, int L, int n, bool seeded, string& desc, bool& hasExtreme) {
  auto T = make_shared<EmTab>(); T->L = L; T->n = n; T->np = 1 + static_cast<int>(c.below(2));
  int prof = static_cast<int>(c.weighted({3, 2, 2}));
  // special shapes (they keep the search going behind known findings of the derivative code): 1 log-linear in the
  // parameters (every v = 0), 2 the last state carries almost all the weight at every site, 3 both
  int special = static_cast<int>(c.weighted({5, 1, 1, 1})); bool loglinear = special & 1, lastDominant = (special & 2) && n > 1;
  Draw d{&c, seeded, 0}; if (seeded) d.st = c.raw();
  ostringstream os; os << "np=" << T->np << " profile=" << prof << " special=" << special;
  if (seeded) os << " tableSeed=" << std::hex << d.st << std::dec << " (cells expanded by mix64: mag, w1, v1[, w2, v2])";
  T->lb.assign(static_cast<size_t>(L), vector<double>(static_cast<size_t>(n)));
  for (int k = 0; k < 2; ++k) { T->w[k].assign(static_cast<size_t>(L), vector<double>(static_cast<size_t>(n), 0)); T->v[k] = T->w[k]; }
  hasExtreme = false;
  for (size_t t = 0; t < static_cast<size_t>(L); ++t) {
    if (!seeded) os << " |";
    for (size_t s = 0; s < static_cast<size_t>(n); ++s) {
      double mag;  // -log10 of the largest value the cell can take for |th| <= 2
      if (prof == 0) mag = 3 * d.unit(); else if (prof == 1) mag = 194 * d.unit(); else mag = d.below(6) == 5 ? 100 + 94 * d.unit() : 3 * d.unit();
      if (lastDominant) mag = s + 1 == static_cast<size_t>(n) ? mag / 400 : 8 + mag;
      if (mag > 100) hasExtreme = true;
      double cshift = 0;
      for (int k = 0; k < T->np; ++k) {
        T->w[k][t][s] = static_cast<double>(d.zig(4)) / 4; T->v[k][t][s] = static_cast<double>(d.zig(2)) / 8;
        if (loglinear) T->v[k][t][s] = 0;
        cshift += 2 * std::fabs(T->w[k][t][s]) + 4 * std::fabs(T->v[k][t][s]);
      }
      T->lb[t][s] = -LN10 * mag - cshift;   // e <= 10^-mag for every |th_k| <= 2, e >= 10^-mag * exp(-12)
      if (!seeded) { os << " " << vf::dec(T->lb[t][s]); for (int k = 0; k < T->np; ++k) os << "/" << T->w[k][t][s] << "/" << T->v[k][t][s]; }
    }
  }
  desc = os.str();
  return T;
}

vector<size_t> genBreaks(vf::Ctx& c, int L, bool seededLong) {
  vector<size_t> bp; if (L < 2) return bp;
  if (seededLong) {  // a few positions, some adjacent, some at the ends
    int k = static_cast<int>(c.below(6)); set<size_t> S;
    for (int i = 0; i < k; ++i) { size_t p; switch (c.below(4)) { case 0: p = 1; break; case 1: p = static_cast<size_t>(L - 1); break; default: p = 1 + c.below(static_cast<uint64_t>(L - 1)); } S.insert(p); if (c.oneIn(3) && p + 1 < static_cast<size_t>(L)) S.insert(p + 1); }
    bp.assign(S.begin(), S.end()); return bp;
  }
  int mode = static_cast<int>(c.weighted({2, 2, 1}));
  for (int t = 1; t < L; ++t) { bool in = mode == 0 ? false : mode == 1 ? c.below(4) == 3 : c.flag(); if (in) bp.push_back(static_cast<size_t>(t)); }
  return bp;
}

struct GenOpt { int maxL = 12; long maxPaths = 0; bool seededTable = false; int minL = 1; };

void genTransitions(vf::Ctx& c, Spec& s, bool& hasZero) {
  size_t n = static_cast<size_t>(s.n);
  vector<vector<char>> M(n, vector<char>(n, 0));
  int kind = static_cast<int>(c.weighted({3, 3, 1}));   // dense / cycle + random extra edges / bare cycle (periodic)
  vector<size_t> ord(n); for (size_t i = 0; i < n; ++i) ord[i] = i;
  if (n > 2 && c.flag()) for (size_t i = n - 1; i > 0; --i) swap(ord[i], ord[c.below(i + 1)]);
  if (kind == 0) for (auto& row : M) for (auto& x : row) x = 1;
  else { for (size_t i = 0; i < n; ++i) M[ord[i]][ord[(i + 1) % n]] = 1; if (kind == 1) for (size_t i = 0; i < n; ++i) for (size_t j = 0; j < n; ++j) if (c.below(3) == 0) M[i][j] = 1; }
  hasZero = false; for (auto& row : M) for (auto x : row) if (!x) hasZero = true;
  auto fill = [&](vector<vector<double>>& R) {
    R.assign(n, vector<double>(n, 0));
    for (size_t i = 0; i < n; ++i) {
      double sum = 0;
      for (size_t j = 0; j < n; ++j) if (M[i][j]) { double w; switch (c.weighted({6, 3, 1})) { case 0: w = 1; break; case 1: w = static_cast<double>(1 + c.below(8)); break; default: w = c.pick({1e-2, 1e-4, 1e-6}); } R[i][j] = w; sum += w; }
      for (size_t j = 0; j < n; ++j) R[i][j] /= sum;
    }
  };
  fill(s.A); fill(s.B);
  s.lam = c.pick({0.0, 0.25, 0.5, 0.75, 1.0});
}

Spec genSpec(vf::Ctx& c, const GenOpt& o, bool& hasZero, bool& hasExtreme) {
  Spec s; s.n = 1 + static_cast<int>(c.below(5));
  int maxL = o.maxL;
  if (o.maxPaths > 0 && s.n > 1) { int l = 0; long p = 1; while (l < o.maxL && p * s.n <= o.maxPaths) { p *= s.n; ++l; } maxL = max(1, l); }
  s.L = o.minL >= maxL ? maxL : o.minL + static_cast<int>(c.below(static_cast<uint64_t>(maxL - o.minL + 1)));
  genTransitions(c, s, hasZero);
  s.tab = genTab(c, s.L, s.n, o.seededTable, s.tabDesc, hasExtreme);
  s.th[0] = genTheta(c); s.th[1] = s.tab->np > 1 ? genTheta(c) : 0;
  s.bp = genBreaks(c, s.L, o.seededTable);
  return s;
}

string showRows(const vector<vector<double>>& R) { ostringstream os; os << "["; for (size_t i = 0; i < R.size(); ++i) { os << (i ? ";" : ""); for (size_t j = 0; j < R.size(); ++j) os << (j ? " " : "") << vf::dec(R[i][j]); } os << "]"; return os.str(); }
string showBp(const vector<size_t>& bp) { ostringstream os; os << "{"; for (size_t i = 0; i < bp.size(); ++i) os << (i ? "," : "") << bp[i]; os << "}"; return os.str(); }
void describe(vf::Ctx& c, const Spec& s) {
  c.desc << "n=" << s.n << " L=" << s.L << " A=" << showRows(s.A) << " B=" << showRows(s.B) << " lam=" << s.lam << " th=(" << s.th[0] << "," << s.th[1] << ") breaks=" << showBp(s.bp) << " emissions{" << s.tabDesc << "}";
  if (s.ap) {
    c.desc << " alphabet parameter lev=" << s.lev << (s.depT ? " transitions: weight lam+lev-2*lam*lev;" : " transitions independent of lev;");
    if (s.tab->au.empty()) c.desc << " emissions independent of lev";
    else { c.desc << " log e[t][s] += lev*au, au="; for (auto& row : s.tab->au) { c.desc << "|"; for (double x : row) c.desc << " " << x; } }
  }
}

// =================================================================================== objects under test
enum Alg { RESC = 0, LOGS = 1, LOWM = 2 };
const char* algName(int a) { return a == RESC ? "Rescaled" : a == LOGS ? "Logsum" : "LowMemory"; }

struct Obj { shared_ptr<Alpha> alpha; shared_ptr<HmmTransitionMatrix> trans; shared_ptr<Emis> emis; shared_ptr<HmmLikelihood> lik; };

shared_ptr<HmmLikelihood> makeLik(int alg, shared_ptr<Alpha> a, shared_ptr<HmmTransitionMatrix> t, shared_ptr<Emis> e, size_t chunk) {
  switch (alg) {
    case RESC: return make_shared<RescaledHmmLikelihood>(a, t, e, "");
    case LOGS: return make_shared<LogsumHmmLikelihood>(a, t, e, "");
    default: return make_shared<LowMemoryRescaledHmmLikelihood>(a, t, e, "", chunk);
  }
}
Obj build(const Spec& s, int alg, size_t chunk = 1000000) {
  Obj o; o.alpha = make_shared<Alpha>(static_cast<size_t>(s.n), s.ap, s.lev);
  o.trans = make_shared<TabTrans>(o.alpha, s.A, s.B, s.lam, s.depT);
  o.emis = make_shared<Emis>(o.alpha, s.tab, s.th);
  o.lik = makeLik(alg, o.alpha, o.trans, o.emis, chunk);
  if (!s.bp.empty()) o.lik->setBreakPoints(s.bp);
  return o;
}

inline double rel1(LD a, LD b) { return static_cast<double>(fabsl(a - b) / (1 + fabsl(b))); }
inline bool finite(double x) { return std::isfinite(x); }

// log-likelihood of one object against the reference value
void checkLogLik(vf::Ctx& c, const HmmLikelihood& lik, LD ref, const string& who) {
  double ll = lik.getLogLikelihood(), v = lik.getValue();
  CHECK(finite(ll), who << ": getLogLikelihood() = " << ll << ", reference " << static_cast<double>(ref));
  CHECK(v == -ll, who << ": getValue() = " << vf::dec(v) << " is not -getLogLikelihood() = " << vf::dec(-ll));
  double r = rel1(ll, ref); c.observe(string("loglik_vs_ref/1e-9 ") + who.substr(0, 3), r / TOL_REF);
  CHECK(r <= TOL_REF, who << ": log-likelihood " << vf::dec(ll) << " but the reference (long double forward recursion from the stationary law) gives " << vf::dec(static_cast<double>(ref)) << " (relative difference " << r << ")");
}

// posterior matrix against the reference
void checkPosteriorRow(vf::Ctx& c, const vector<double>& row, const vector<LD>& ref, const string& who, size_t t) {
  CHECK(row.size() == ref.size(), who << ": posterior row of site " << t << " has " << row.size() << " entries for " << ref.size() << " states");
  LD sum = 0;
  for (size_t s = 0; s < row.size(); ++s) {
    CHECK(row[s] >= -POST_NEG, who << ": posterior(" << t << "," << s << ") = " << vf::dec(row[s]) << " is negative");
    double d = static_cast<double>(fabsl(row[s] - ref[s])); c.observe("posterior_vs_ref/1e-8", d / POST_REF);
    CHECK(d <= POST_REF, who << ": posterior(" << t << "," << s << ") = " << vf::dec(row[s]) << " but the reference gives " << vf::dec(static_cast<double>(ref[s])));
    sum += row[s];
  }
  c.observe("posterior_rowsum/1e-9", static_cast<double>(fabsl(sum - 1)) / POST_SUM);
  CHECK(fabsl(sum - 1) <= POST_SUM, who << ": posteriors of site " << t << " sum to " << vf::dec(static_cast<double>(sum)));
}

bool derivClose(double got, LD ref) { return finite(got) && fabsl(got - ref) <= DER_REL * fabsl(ref) + DER_ABS; }
double derivRatio(double got, LD ref) { return static_cast<double>(fabsl(got - ref) / (DER_REL * fabsl(ref) + DER_ABS)); }

inline bool sameVec(const vector<double>& a, const vector<double>& b) { if (a.size() != b.size()) return false; for (size_t i = 0; i < a.size(); ++i) if (!(vf::sameBits(a[i], b[i]) || (a[i] != a[i] && b[i] != b[i]))) return false; return true; }
template <class F> bool throwsNotImplemented(F f) { try { f(); } catch (NotImplementedException&) { return true; } return false; }

}  // namespace

// =================================================================================== L1: log-likelihood, all paths
namespace {
// The scaled recursions (Rescaled, LowMemory) keep normalised state weights in double: an unnormalised term
// e_t(s) * sum_k P(k,s) fhat_{t-1}(k) below ~1e-308 is flushed (LOG_UNDER = ln(1e-304) leaves a margin); the scaled backward
// values overflow / their terms are flushed in the same way.
const LD LOG_UNDER = -700, LOG_OVER = 700;
bool scaledSkipped(vf::Ctx& c, const LogFB& lg) {
  if (lg.minLogG >= LOG_UNDER) return false;
  c.label("scaled-recursion-underflow-class");
  return c.isKnown("C13-scaled-underflow");
}
void agree(vf::Ctx& c, const vector<pair<string, double>>& vals) {
  for (size_t i = 0; i < vals.size(); ++i) for (size_t j = i + 1; j < vals.size(); ++j) {
    double d = rel1(vals[i].second, vals[j].second); c.observe("alg_agree/1e-11", d / TOL_ALG);
    CHECK(d <= TOL_ALG, vals[i].first << " gives " << vf::dec(vals[i].second) << " but " << vals[j].first << " gives " << vf::dec(vals[j].second));
  }
}
}  // namespace

LAW(L1_loglik_paths, RC, 4000, 150000, 480, ">=1 break point, or a zero transition, or an emission below 1e-100, or a chunk size below the length") {
  bool hasZero, hasExtreme;
  GenOpt o; o.maxL = 12; o.maxPaths = c.oneIn(24) ? 2000000 : 40000;
  Spec s = genSpec(c, o, hasZero, hasExtreme);
  describe(c, s);
  c.nt(!s.bp.empty() || hasZero || hasExtreme || s.L >= 3);
  Ref r = makeRef(s);
  CHECK(statResidual(r.P, r.pi) <= 1e-15L, "internal: harness stationary vector is not stationary, residual " << static_cast<double>(statResidual(r.P, r.pi)));
  PathEnum pe(r); LD tot = pe.dfs(0, 0, 1); LD R1 = logl(tot);
  LogFB lg = refLog(r, false); LD R2 = lg.logL;
  CHECK(rel1(R1, R2) <= 1e-14, "internal: path enumeration " << static_cast<double>(R1) << " and long double forward recursion " << static_cast<double>(R2) << " disagree");
  bool skipScaled = scaledSkipped(c, lg);
  vector<pair<string, double>> vals;
  for (int alg : {LOGS, RESC}) { if (alg == RESC && skipScaled) continue; Obj ob = build(s, alg); checkLogLik(c, *ob.lik, R1, algName(alg)); vals.push_back({algName(alg), ob.lik->getLogLikelihood()}); }
  for (int chunk = 1; chunk <= s.L + 1 && !skipScaled; ++chunk) {
    if (chunk == 1 && s.L >= 2) continue;   // law L1_lowmem_chunk1
    Obj ob = build(s, LOWM, static_cast<size_t>(chunk)); string who = string("LowMemory(chunk ") + to_string(chunk) + ")";
    checkLogLik(c, *ob.lik, R1, who); vals.push_back({who, ob.lik->getLogLikelihood()});
  }
  agree(c, vals);
}

LAW(L1_lowmem_chunk1, RC, 200, 10000, 480, "always (chunk size 1 below the length)") {
  bool hasZero, hasExtreme;
  GenOpt o; o.maxL = 12; o.minL = 2;
  Spec s = genSpec(c, o, hasZero, hasExtreme);
  describe(c, s); c.desc << " LowMemory chunk size 1";
  c.nt();
  c.excludeIfKnown("C13-lowmem-chunk1");
  Ref r = makeRef(s); LogFB lg = refLog(r, false);
  if (scaledSkipped(c, lg)) throw vf::Skip();
  Obj ob = build(s, LOWM, 1);
  checkLogLik(c, *ob.lik, lg.logL, "LowMemory(chunk 1)");
}

LAW(L1_long, RC, 200, 8000, 220, "always (13..5000 sites: chunk sizes below the length, seeded emission table)") {
  bool hasZero, hasExtreme;
  Spec s; s.n = 1 + static_cast<int>(c.below(5));
  s.L = static_cast<int>(std::floor(c.logu(13, 5001))); if (s.L > 5000) s.L = 5000;
  genTransitions(c, s, hasZero);
  s.tab = genTab(c, s.L, s.n, true, s.tabDesc, hasExtreme);
  s.th[0] = genTheta(c); s.th[1] = s.tab->np > 1 ? genTheta(c) : 0;
  s.bp = genBreaks(c, s.L, true);
  describe(c, s); c.nt();
  Ref r = makeRef(s); LogFB lg = refLog(r, false); LD R2 = lg.logL;
  bool skipScaled = scaledSkipped(c, lg);
  vector<pair<string, double>> vals;
  for (int alg : {LOGS, RESC}) { if (alg == RESC && skipScaled) continue; Obj ob = build(s, alg); checkLogLik(c, *ob.lik, R2, algName(alg)); vals.push_back({algName(alg), ob.lik->getLogLikelihood()}); }
  set<int> chunks = {2, 3, s.L - 1, s.L, s.L + 1, 1000, 2 + static_cast<int>(c.below(static_cast<uint64_t>(s.L))), 2 + static_cast<int>(c.below(40))};
  c.desc << " chunks";
  for (int chunk : chunks) {
    c.desc << " " << chunk;
    if (skipScaled) continue;
    Obj ob = build(s, LOWM, static_cast<size_t>(chunk)); string who = string("LowMemory(chunk ") + to_string(chunk) + ")";
    checkLogLik(c, *ob.lik, R2, who); vals.push_back({who, ob.lik->getLogLikelihood()});
  }
  agree(c, vals);
}

// =================================================================================== L2/L3: posteriors and per-site likelihoods
namespace {
bool scaledBackwardSkipped(vf::Ctx& c, const LogFB& lg) {
  if (lg.minLogG >= LOG_UNDER && lg.maxLogB <= LOG_OVER && lg.minLogBterm >= LOG_UNDER) return false;
  c.label("scaled-recursion-underflow-class");
  return c.isKnown("C13-scaled-underflow");
}
Spec genSmallOrMedium(vf::Ctx& c, bool& hasZero, bool& hasExtreme, bool& medium, int mediumMaxL) {
  medium = c.oneIn(8);
  if (!medium) { GenOpt o; o.maxL = 12; o.maxPaths = 40000; return genSpec(c, o, hasZero, hasExtreme); }
  GenOpt o; o.minL = 13; o.maxL = mediumMaxL; o.seededTable = true; return genSpec(c, o, hasZero, hasExtreme);
}
}  // namespace

LAW(L2_posteriors, RC, 4000, 150000, 480, ">=1 break point, or a zero transition, or an emission below 1e-100") {
  bool hasZero, hasExtreme, medium;
  Spec s = genSmallOrMedium(c, hasZero, hasExtreme, medium, 150);
  describe(c, s);
  c.nt(!s.bp.empty() || hasZero || hasExtreme);
  Ref r = makeRef(s); LogFB lg = refLog(r, true);
  size_t L = static_cast<size_t>(s.L), n = static_cast<size_t>(s.n);
  if (!medium) {  // R1 marginals against the log-space forward/backward reference
    PathEnum pe(r); LD tot = pe.dfs(0, 0, 1);
    for (size_t t = 0; t < L; ++t) for (size_t k = 0; k < n; ++k) CHECK(fabsl(pe.marg[t][k] / tot - lg.post[t][k]) <= 1e-13L, "internal: path-enumeration marginal and forward/backward posterior disagree at (" << t << "," << k << ")");
  }
  bool skipScaled = scaledBackwardSkipped(c, lg);
  size_t junk = c.below(3);
  for (int alg : {LOGS, RESC}) {
    if (alg == RESC && skipScaled) continue;
    Obj ob = build(s, alg); string who = algName(alg);
    checkLogLik(c, *ob.lik, lg.logL, who);
    vector<vector<double>> all(junk + 1, vector<double>(1, 7.0));
    ob.lik->getHiddenStatesPosteriorProbabilities(all, false);
    CHECK(all.size() == L, who << ": getHiddenStatesPosteriorProbabilities(append=false) left " << all.size() << " rows for " << L << " sites");
    for (size_t t = 0; t < L; ++t) checkPosteriorRow(c, all[t], lg.post[t], who, t);
    vector<vector<double>> app(junk, vector<double>(2, -3.0));
    ob.lik->getHiddenStatesPosteriorProbabilities(app, true);
    CHECK(app.size() == junk + L, who << ": append=true gave " << app.size() << " rows, expected " << junk << " old + " << L);
    for (size_t q = 0; q < junk; ++q) CHECK(app[q].size() == 2 && app[q][0] == -3.0 && app[q][1] == -3.0, who << ": append=true modified an existing row");
    for (size_t t = 0; t < L; ++t) CHECK(sameVec(app[junk + t], all[t]), who << ": appended row of site " << t << " differs from the append=false answer");
    Vdouble each = ob.lik->getLikelihoodForEachSite();
    CHECK(each.size() == L, who << ": getLikelihoodForEachSite returned " << each.size() << " values for " << L << " sites");
    size_t step = L <= 12 ? 1 : 1 + L / 12;
    for (size_t t = c.below(step); t < L; t += step) {
      Vdouble one = ob.lik->getHiddenStatesPosteriorProbabilitiesForASite(t);
      CHECK(sameVec(one, all[t]), who << ": getHiddenStatesPosteriorProbabilitiesForASite(" << t << ") differs from row " << t << " of the all-sites answer");
      LD want = 0, emax = 0; for (size_t k = 0; k < n; ++k) { want += lg.post[t][k] * r.e[t][k]; emax = max(emax, r.e[t][k]); }
      double got = ob.lik->getLikelihoodForASite(t);
      c.observe("site_lik/1e-8", static_cast<double>(fabsl(got - want) / (POST_REF * emax)));
      CHECK(fabsl(got - want) <= POST_REF * emax, who << ": getLikelihoodForASite(" << t << ") = " << vf::dec(got) << " but sum_s posterior(t,s) e(t,s) = " << vf::dec(static_cast<double>(want)));
      CHECK(vf::sameBits(each[t], got), who << ": getLikelihoodForEachSite()[" << t << "] = " << vf::dec(each[t]) << " differs from getLikelihoodForASite = " << vf::dec(got));
    }
  }
  {  // the low-memory variant documents that it cannot answer these queries
    Obj ob = build(s, LOWM, static_cast<size_t>(2 + c.below(static_cast<uint64_t>(s.L))));
    vector<vector<double>> pp;
    CHECK(throwsNotImplemented([&] { ob.lik->getHiddenStatesPosteriorProbabilities(pp, false); }), "LowMemory: posteriors did not raise NotImplementedException");
    CHECK(throwsNotImplemented([&] { ob.lik->getHiddenStatesPosteriorProbabilitiesForASite(0); }), "LowMemory: site posteriors did not raise NotImplementedException");
    CHECK(throwsNotImplemented([&] { ob.lik->getLikelihoodForASite(0); }), "LowMemory: getLikelihoodForASite did not raise NotImplementedException");
    CHECK(throwsNotImplemented([&] { ob.lik->getLikelihoodForEachSite(); }), "LowMemory: getLikelihoodForEachSite did not raise NotImplementedException");
  }
}

// =================================================================================== L4: derivatives
namespace {
const char* varName(int k) { return k == 0 ? "th1" : "th2"; }
// Richardson central differences of f = getValue() (= -log L) in emission parameter k, on the object itself
void finiteDiffs(HmmLikelihood& lik, int k, double th0, double& fd1, double& fd2) {
  const double h1 = 1.0 / 128, h2 = 1.0 / 32;
  auto f = [&](double x) { lik.setParameterValue(varName(k), x); return static_cast<LD>(lik.getValue()); };
  LD a1 = f(th0 + h1), a2 = f(th0 + 2 * h1), b1 = f(th0 - h1), b2 = f(th0 - 2 * h1);
  fd1 = static_cast<double>((8 * (a1 - b1) - (a2 - b2)) / (12 * h1));
  LD p1 = f(th0 + h2), p2 = f(th0 + 2 * h2), m1 = f(th0 - h2), m2 = f(th0 - 2 * h2), z = f(th0);
  fd2 = static_cast<double>((-p2 + 16 * p1 - 30 * z + 16 * m1 - m2) / (12 * static_cast<LD>(h2) * h2));
}
}  // namespace

// classes of inputs on which a known finding of the derivative code applies (computed from the reference, in words in known_findings.d)
namespace {
// LogsumHmmLikelihood: `num -= num[whichMax(num)]` binds the subtrahend by reference to an element of num
bool logsumAliasClass(const LogFB& lg, int n) {
  for (auto& row : lg.lf) {
    LD mx = NEG_INF; for (LD x : row) mx = max(mx, x);
    if (mx == NEG_INF) continue;
    // the library takes the FIRST maximal element of its own double values: every index within rounding of the maximum is a candidate
    size_t pos = 0; while (!(row[pos] >= mx - 1e-9L * (1 + fabsl(mx)))) ++pos;
    if (pos + 1 < static_cast<size_t>(n)) for (size_t k = pos + 1; k < row.size(); ++k) if (row[k] != NEG_INF) return true;
  }
  return false;
}
// LogsumHmmLikelihood::computeD2Forward_ drops d2(log e)/dth2 of the sites inside a segment
bool logsumD2Class(const Spec& s, const Ref& r, int k) {
  for (size_t t = 1; t < static_cast<size_t>(s.L); ++t) if (!r.brk[t]) for (size_t q = 0; q < static_cast<size_t>(s.n); ++q) if (s.tab->v[k][t][q] != 0) return true;
  return false;
}
struct DerivGuards { bool d1ok = true, d2ok = true; };
DerivGuards derivGuards(vf::Ctx& c, int alg, const Spec& s, const Ref& r, const LogFB& lg, int k) {
  DerivGuards g;
  if (alg == RESC) {
    // RescaledHmmLikelihood forms (dTmp*scale - tmp*dScale)/scale^2 for the first and terms in tmp*dScale^2/scale^3 for the second
    // derivative: the products underflow although the quotients are ordinary numbers
    if (lg.minLogTmpScale < -690) { c.label("rescaled-derivative-products-underflow(d1)"); if (c.isKnown("C13-rescaled-deriv-underflow")) g.d1ok = g.d2ok = false; }
    else if (3 * lg.minLogScale < -690 || lg.minLogTmp2Scale < -690) { c.label("rescaled-derivative-products-underflow(d2)"); if (c.isKnown("C13-rescaled-deriv-underflow")) g.d2ok = false; }
    if (c.isKnown("C13-rescaled-d2-accumulators")) g.d2ok = false;
  } else if (alg == LOGS) {
    // the derivative recursions of LogsumHmmLikelihood leave log space: weights exp(lf - max lf) below 1e-323 vanish and a state
    // that is only reachable from such states gets 0/0
    if (lg.minLogDen < -700) { c.label("logsum-derivative-weights-underflow"); if (c.isKnown("C13-logsum-deriv-underflow")) g.d1ok = g.d2ok = false; }
    if (logsumAliasClass(lg, s.n)) { c.label("logsum-alias-class"); if (c.isKnown("C13-logsum-max-aliasing")) g.d1ok = g.d2ok = false; }
    if (logsumD2Class(s, r, k)) { c.label("logsum-d2-emission-class"); if (c.isKnown("C13-logsum-d2-emission-term")) g.d2ok = false; }
  }
  return g;
}
}  // namespace

LAW(L4_derivatives, RC, 4000, 150000, 480, ">=1 break point, or a zero transition, or an emission below 1e-100, or two emission parameters") {
  bool hasZero, hasExtreme;
  GenOpt o; o.maxL = 12;
  Spec s = genSpec(c, o, hasZero, hasExtreme);
  describe(c, s);
  int np = s.tab->np, first = np > 1 ? static_cast<int>(c.below(2)) : 0;
  c.desc << " first variable " << varName(first);
  c.nt(!s.bp.empty() || hasZero || hasExtreme || np > 1);
  Ref r = makeRef(s); LogFB lg = refLog(r, false);
  bool skipScaled = scaledSkipped(c, lg);
  for (int alg : {LOGS, RESC}) {
    if (alg == RESC && skipScaled) continue;
    Obj ob = build(s, alg); string who = algName(alg);
    for (int q = 0; q < np; ++q) {
      int k = (first + q) % np; LD rd1, rd2; refDerivs(r, *s.tab, s.th, k, rd1, rd2);
      DerivGuards g = derivGuards(c, alg, s, r, lg, k);
      if (!g.d1ok) continue;
      double d1 = ob.lik->getFirstOrderDerivative(varName(k));
      c.observe("d1_vs_dual/tol", derivRatio(d1, -rd1));
      CHECK(derivClose(d1, -rd1), who << ": getFirstOrderDerivative(" << varName(k) << ") = " << vf::dec(d1) << " but d(-log L)/d" << varName(k) << " = " << vf::dec(static_cast<double>(-rd1)) << " (dual-number forward recursion in long double)");
      c.label(alg == LOGS ? "checked:logsum-d1" : "checked:rescaled-d1");
      if (!g.d2ok) continue;
      c.label(alg == LOGS ? "checked:logsum-d2" : "checked:rescaled-d2");
      double d2 = ob.lik->getSecondOrderDerivative(varName(k));
      c.observe("d2_vs_dual/tol", derivRatio(d2, -rd2));
      CHECK(derivClose(d2, -rd2), who << ": getSecondOrderDerivative(" << varName(k) << ") = " << vf::dec(d2) << " but d2(-log L)/d" << varName(k) << "^2 = " << vf::dec(static_cast<double>(-rd2)));
      double again = ob.lik->getFirstOrderDerivative(varName(k));
      CHECK(vf::sameBits(again, d1), who << ": getFirstOrderDerivative(" << varName(k) << ") = " << vf::dec(again) << " after the second-derivative query, " << vf::dec(d1) << " before it");
    }
    // finite differences of the object's own value (afterwards the parameter is back at its value)
    int k = first; LD rd1, rd2; refDerivs(r, *s.tab, s.th, k, rd1, rd2);
    double fd1, fd2; finiteDiffs(*ob.lik, k, s.th[k], fd1, fd2);
    double t1 = FD_TOL * (1 + static_cast<double>(fabsl(rd1)) + s.L), t2 = FD_TOL * (1 + static_cast<double>(fabsl(rd2)) + s.L);
    c.observe("fd1/tol", std::fabs(fd1 + static_cast<double>(rd1)) / t1); c.observe("fd2/tol", std::fabs(fd2 + static_cast<double>(rd2)) / t2);
    CHECK(std::fabs(fd1 + static_cast<double>(rd1)) <= t1, who << ": internal: finite difference of getValue " << fd1 << " against the dual-number derivative " << static_cast<double>(-rd1));
    CHECK(std::fabs(fd2 + static_cast<double>(rd2)) <= t2, who << ": internal: second finite difference of getValue " << fd2 << " against the dual-number derivative " << static_cast<double>(-rd2));
    DerivGuards g = derivGuards(c, alg, s, r, lg, k);
    if (!g.d1ok) continue;
    double d1 = ob.lik->getFirstOrderDerivative(varName(k));
    CHECK(std::fabs(d1 - fd1) <= 2 * t1, who << ": getFirstOrderDerivative(" << varName(k) << ") = " << vf::dec(d1) << " but finite differences of getValue() give " << fd1);
    if (!g.d2ok) continue;
    double d2 = ob.lik->getSecondOrderDerivative(varName(k));
    CHECK(std::fabs(d2 - fd2) <= 2 * t2, who << ": getSecondOrderDerivative(" << varName(k) << ") = " << vf::dec(d2) << " but finite differences of getValue() give " << fd2);
  }
}

LAW(L4_d2_alone, RC, 1000, 30000, 480, "always: a second derivative asked before any first derivative of that variable") {
  bool hasZero, hasExtreme;
  GenOpt o; o.maxL = 6;
  Spec s = genSpec(c, o, hasZero, hasExtreme);
  describe(c, s);
  int alg = c.flag() ? LOGS : RESC, np = s.tab->np, k = np > 1 ? static_cast<int>(c.below(2)) : 0;
  bool otherFirst = np > 1 && c.flag();   // a first-derivative query for the OTHER variable precedes
  c.desc << " " << algName(alg) << (otherFirst ? string(": getFirstOrderDerivative(") + varName(1 - k) + ") then" : string(":")) << " getSecondOrderDerivative(" << varName(k) << ")";
  c.nt();
  Ref r = makeRef(s); LogFB lg = refLog(r, false);
  if (alg == RESC && scaledSkipped(c, lg)) throw vf::Skip();
  DerivGuards g = derivGuards(c, alg, s, r, lg, k), g2 = derivGuards(c, alg, s, r, lg, otherFirst ? 1 - k : k);
  if (!g.d1ok || !g2.d1ok) throw vf::Skip();
  if (alg == RESC) {
    if (s.L >= 2) c.excludeIfKnown("C13-rescaled-d2-accumulators");   // with one site the first evaluation is not affected
    c.excludeIfKnown("C13-rescaled-d2-needs-d1");
  } else if (!g.d2ok) throw vf::Skip();
  Obj ob = build(s, alg); string who = algName(alg);
  LD rd1, rd2; refDerivs(r, *s.tab, s.th, k, rd1, rd2);
  if (otherFirst) { LD od1, od2; refDerivs(r, *s.tab, s.th, 1 - k, od1, od2); double d = ob.lik->getFirstOrderDerivative(varName(1 - k)); CHECK(derivClose(d, -od1), who << ": getFirstOrderDerivative(" << varName(1 - k) << ") = " << vf::dec(d) << ", reference " << vf::dec(static_cast<double>(-od1))); }
  double d2 = ob.lik->getSecondOrderDerivative(varName(k));
  CHECK(derivClose(d2, -rd2), who << ": getSecondOrderDerivative(" << varName(k) << ") = " << vf::dec(d2) << " but d2(-log L)/d" << varName(k) << "^2 = " << vf::dec(static_cast<double>(-rd2)));
  double d1 = ob.lik->getFirstOrderDerivative(varName(k));
  CHECK(derivClose(d1, -rd1), who << ": afterwards getFirstOrderDerivative(" << varName(k) << ") = " << vf::dec(d1) << " but d(-log L)/d" << varName(k) << " = " << vf::dec(static_cast<double>(-rd1)));
}

// =================================================================================== L5: history independence
namespace {
// what the object under test has been asked so far, as far as the predicates of the known findings need it
struct Hist {
  string d1Key, d2Key;                 // variable of the last EXECUTED first / second derivative computation
  bool changedSinceD1 = false, changedSinceD2 = false;   // parameters or break points changed since then
};
vector<size_t> genBreakSubset(vf::Ctx& c, int L) { vector<size_t> bp; int mode = static_cast<int>(c.below(3)); for (int t = 1; t < L; ++t) if (mode == 0 ? false : mode == 1 ? c.below(3) == 2 : c.flag()) bp.push_back(static_cast<size_t>(t)); return bp; }
}  // namespace

namespace {
const vector<double> LEVS = {0.0, 0.25, 0.5, 0.75, 1.0};   // values of lam and lev: the weight lam+lev-2*lam*lev is exact
// configuration "the hidden alphabet has a parameter of its own": which components depend on it (emissions first: simplest)
void genAlphabetConfig(vf::Ctx& c, Spec& s) {
  s.ap = true;
  int dep = (1 + static_cast<int>(c.below(4))) % 4;   // 1 emissions, 2 transitions, 3 both, 0 neither
  s.depT = (dep & 2) != 0;
  s.lev = c.pick(LEVS);
  if (dep & 1) {
    auto T = make_shared<EmTab>(*s.tab);   // au in [-1,0]: the emissions stay inside the range of the table without the coupling times exp(-1)
    T->au.assign(static_cast<size_t>(s.L), vector<double>(static_cast<size_t>(s.n)));
    for (auto& row : T->au) for (auto& x : row) x = -static_cast<double>(c.below(5)) / 4;
    s.tab = T;
  }
}

// One history on one likelihood object.  alphaCfg: the configuration draw "alphabet with / without a parameter" is made and the
// updates name any subset of {alphabet, transition, emission} parameters (without it the choice stream decodes as it always did).
void historyCase(vf::Ctx& c, bool alphaCfg) {
  bool hasZero, hasExtreme;
  GenOpt o; o.maxL = 8;
  Spec cur = genSpec(c, o, hasZero, hasExtreme);
  if (alphaCfg && c.weighted({1, 3}) != 0) genAlphabetConfig(c, cur);
  describe(c, cur);
  int alg = static_cast<int>(c.below(3)), np = cur.tab->np; size_t L = static_cast<size_t>(cur.L), n = static_cast<size_t>(cur.n);
  size_t chunk = alg != LOWM ? 1000000 : cur.L == 1 ? 1 + c.below(2) : 2 + c.below(L);
  c.desc << " " << algName(alg); if (alg == LOWM) c.desc << "(chunk " << chunk << ")"; c.desc << " history:";
  Obj ob = build(cur, alg, chunk); string who = algName(alg);
  Hist h; int derivQueries = 0; bool changeBetweenDerivs = false, changedSinceLastDeriv = false, jointAlphabetUpdate = false;
  auto value = [&](int which) -> double& { return which == 0 ? cur.lam : which == 3 ? cur.lev : cur.th[which - 1]; };   // 0 lam, 1 th1, 2 th2, 3 lev

  // reference and fresh object for the current state
  auto verify = [&](const char* after) {
    double th[2] = {ob.lik->getParameterValue("th1"), np > 1 ? ob.lik->getParameterValue("th2") : 0};
    CHECK(ob.lik->getParameterValue("lam") == cur.lam && th[0] == cur.th[0] && th[1] == cur.th[1], who << " after " << after << ": parameter values (lam,th1,th2) = (" << ob.lik->getParameterValue("lam") << "," << th[0] << "," << th[1] << "), requested (" << cur.lam << "," << cur.th[0] << "," << cur.th[1] << ")");
    if (cur.ap) CHECK(ob.lik->getParameterValue("lev") == cur.lev && ob.alpha->lev() == cur.lev, who << " after " << after << ": alphabet parameter lev = " << ob.lik->getParameterValue("lev") << " (in the alphabet object " << ob.alpha->lev() << "), requested " << cur.lev);
    CHECK(ob.lik->getBreakPoints() == cur.bp, who << " after " << after << ": getBreakPoints() differs from the last setBreakPoints()");
    Obj fresh = build(cur, alg, chunk);
    double a = ob.lik->getLogLikelihood(), b = fresh.lik->getLogLikelihood();
    CHECK(vf::sameBits(a, b), who << " after " << after << ": getLogLikelihood() = " << vf::dec(a) << " but a fresh object built from the current parameter values and break points gives " << vf::dec(b));
    CHECK(ob.lik->getValue() == -a, who << " after " << after << ": getValue() != -getLogLikelihood()");
    Ref r = makeRef(cur); LogFB lg = refLog(r, false);
    if (alg == LOGS || !scaledSkipped(c, lg)) checkLogLik(c, *ob.lik, lg.logL, who + " after " + after);
  };
  auto posteriorChecks = [&](bool all, bool append, size_t site) {
    if (alg == LOWM) {
      vector<vector<double>> pp;
      if (all) CHECK(throwsNotImplemented([&] { ob.lik->getHiddenStatesPosteriorProbabilities(pp, append); }), "LowMemory: posteriors did not raise NotImplementedException");
      else { CHECK(throwsNotImplemented([&] { ob.lik->getHiddenStatesPosteriorProbabilitiesForASite(site); }), "LowMemory: site posteriors did not raise NotImplementedException");
             CHECK(throwsNotImplemented([&] { ob.lik->getLikelihoodForASite(site); }), "LowMemory: getLikelihoodForASite did not raise NotImplementedException"); }
      return;
    }
    Obj fresh = build(cur, alg, chunk); Ref r = makeRef(cur); LogFB lg = refLog(r, true);
    bool refOk = alg == LOGS || !scaledBackwardSkipped(c, lg);
    if (all) {
      vector<vector<double>> p1(append ? 2 : 0, vector<double>(1, 5.0)), p2;
      ob.lik->getHiddenStatesPosteriorProbabilities(p1, append); fresh.lik->getHiddenStatesPosteriorProbabilities(p2, false);
      size_t off = append ? 2 : 0;
      CHECK(p1.size() == off + L, who << ": posteriors: " << p1.size() << " rows, expected " << off + L);
      for (size_t t = 0; t < L; ++t) {
        CHECK(sameVec(p1[off + t], p2[t]), who << ": posteriors of site " << t << " differ from those of a fresh object (first entry " << vf::dec(p1[off + t][0]) << " against " << vf::dec(p2[t][0]) << ")");
        if (refOk) checkPosteriorRow(c, p1[off + t], lg.post[t], who, t);
      }
      Vdouble e1 = ob.lik->getLikelihoodForEachSite(), e2 = fresh.lik->getLikelihoodForEachSite();
      CHECK(sameVec(e1, e2), who << ": getLikelihoodForEachSite() differs from the answer of a fresh object");
    } else {
      Vdouble p1 = ob.lik->getHiddenStatesPosteriorProbabilitiesForASite(site), p2 = fresh.lik->getHiddenStatesPosteriorProbabilitiesForASite(site);
      CHECK(sameVec(p1, p2), who << ": posteriors of site " << site << " differ from those of a fresh object (first entry " << vf::dec(p1[0]) << " against " << vf::dec(p2[0]) << ")");
      if (refOk) checkPosteriorRow(c, p1, lg.post[site], who, site);
      double l1 = ob.lik->getLikelihoodForASite(site), l2 = fresh.lik->getLikelihoodForASite(site);
      CHECK(vf::sameBits(l1, l2) || (l1 != l1 && l2 != l2), who << ": getLikelihoodForASite(" << site << ") = " << vf::dec(l1) << ", fresh object " << vf::dec(l2));
    }
  };
  // returns false when the query falls into the input class of a known finding (then it is not executed)
  auto derivative = [&](int order, int k) -> bool {
    string var = varName(k);
    if (alg == LOWM) {  // documented: "Use RescaledHmmLikelihood instead" — every time, not only the first
      if (order == 1 ? h.d1Key == var : h.d2Key == var) { c.label("lowmem-repeated-derivative-query"); if (c.isKnown("C13-lowmem-derivative-cached")) return false; }
      bool thrown = throwsNotImplemented([&] { if (order == 1) ob.lik->getFirstOrderDerivative(var); else ob.lik->getSecondOrderDerivative(var); });
      (order == 1 ? h.d1Key : h.d2Key) = var;
      CHECK(thrown, "LowMemory: get" << (order == 1 ? "First" : "Second") << "OrderDerivative(" << var << ") returned a value instead of raising NotImplementedException");
      return true;
    }
    Ref r = makeRef(cur); LogFB lg = refLog(r, false);
    if (alg == RESC && scaledSkipped(c, lg)) return false;
    DerivGuards g = derivGuards(c, alg, cur, r, lg, k);
    if (!g.d1ok || (order == 2 && !g.d2ok)) return false;
    // h mirrors the cache keys of AbstractHmmLikelihood (a query whose variable equals the key is answered from the cache):
    // Rescaled never invalidates them, Logsum only on a parameter notification
    bool hit1 = h.d1Key == var, hit2 = h.d2Key == var;
    bool stale = order == 1 ? (hit1 && h.changedSinceD1) : (hit2 ? h.changedSinceD2 : (alg == LOGS && hit1 && h.changedSinceD1));   // Logsum's second derivative asks for the first one
    if (stale) { c.label("derivative-cache-stale-class"); if (c.isKnown("C13-derivative-cache-stale")) return false; }
    if (order == 2 && alg == RESC && !hit2 && !(hit1 && !h.changedSinceD1)) { c.label("rescaled-d2-without-d1-class"); if (c.isKnown("C13-rescaled-d2-needs-d1")) return false; }
    Obj fresh = build(cur, alg, chunk); LD rd1, rd2; refDerivs(r, *cur.tab, cur.th, k, rd1, rd2);
    c.label(alg == LOGS ? (order == 1 ? "checked:logsum-d1" : "checked:logsum-d2") : (order == 1 ? "checked:rescaled-d1" : "checked:rescaled-d2"));
    double f1 = fresh.lik->getFirstOrderDerivative(var);
    if (order == 1) {
      double d1 = ob.lik->getFirstOrderDerivative(var);
      if (!hit1) { h.d1Key = var; h.changedSinceD1 = false; }
      CHECK(vf::sameBits(d1, f1), who << ": getFirstOrderDerivative(" << var << ") = " << vf::dec(d1) << " but a fresh object built from the current parameter values and break points gives " << vf::dec(f1) << " (reference " << vf::dec(static_cast<double>(-rd1)) << ")");
      CHECK(derivClose(d1, -rd1), who << ": getFirstOrderDerivative(" << var << ") = " << vf::dec(d1) << " but d(-log L)/d" << var << " = " << vf::dec(static_cast<double>(-rd1)));
    } else {
      double f2 = fresh.lik->getSecondOrderDerivative(var);
      double d2 = ob.lik->getSecondOrderDerivative(var);
      if (!hit2) { h.d2Key = var; h.changedSinceD2 = false; if (alg == LOGS && !hit1) { h.d1Key = var; h.changedSinceD1 = false; } }   // Logsum evaluates the first derivative on the way
      CHECK(vf::sameBits(d2, f2), who << ": getSecondOrderDerivative(" << var << ") = " << vf::dec(d2) << " but a fresh object (first, then second derivative) gives " << vf::dec(f2) << " (reference " << vf::dec(static_cast<double>(-rd2)) << ")");
      CHECK(derivClose(d2, -rd2), who << ": getSecondOrderDerivative(" << var << ") = " << vf::dec(d2) << " but d2(-log L)/d" << var << "^2 = " << vf::dec(static_cast<double>(-rd2)));
    }
    return true;
  };
  auto stateChanged = [&](bool paramChange) {
    if (alg == LOGS && paramChange) { h.d1Key.clear(); h.d2Key.clear(); h.changedSinceD1 = h.changedSinceD2 = false; }   // Logsum forgets its keys on a parameter notification
    else { h.changedSinceD1 = h.changedSinceD2 = true; }
    changedSinceLastDeriv = true;
  };

  verify("construction");
  int nops = 1 + static_cast<int>(c.below(15));
  for (int op = 0; op < nops; ++op) {
    c.desc << (op ? "; " : " ");
    switch (c.weighted({3, 2, 1, 2, 2, 4, 3, 2})) {
      case 0: {  // one parameter
        int which = static_cast<int>(c.below(static_cast<uint64_t>(1 + np + (cur.ap ? 1 : 0)))); double v; string name;
        if (which > np) which = 3;   // the alphabet's parameter
        if (which == 0) { name = "lam"; v = c.pick({0.0, 0.25, 0.5, 0.75, 1.0}); } else if (which == 3) { name = "lev"; v = c.pick(LEVS); } else { name = varName(which - 1); v = genTheta(c); }
        if (c.oneIn(4)) v = value(which);   // unchanged value
        c.desc << "setParameterValue(" << name << "," << v << ")";
        ob.lik->setParameterValue(name, v);
        value(which) = v;
        stateChanged(true);   // setParameterValue notifies even when the value is the same
        break; }
      case 1: {  // several parameters at once, listed in the order of the object's own list
        ParameterList pl; bool any = false, chg[4] = {false, false, false, false}; int route = static_cast<int>(c.below(4));
        c.desc << (route == 0 ? "setParametersValues{" : route == 1 ? "matchParametersValues{" : route == 2 ? "setAllParametersValues{" : "setParameters{");
        Spec nxt = cur; const ParameterList& own = ob.lik->getParameters();
        for (size_t q = 0; q < own.size(); ++q) {
          string nm = own[q].getName(); int which = nm == "lam" ? 0 : nm == "th1" ? 1 : nm == "th2" ? 2 : 3;
          bool in = c.flag() || route == 2;   // setAllParametersValues documents "exactly the same parameters"
          double old = value(which), v = which == 0 ? c.pick({0.0, 0.25, 0.5, 0.75, 1.0}) : which == 3 ? c.pick(LEVS) : genTheta(c);
          if (c.oneIn(4)) v = old;
          if (!in) continue;
          any |= v != old; chg[which] = v != old; (which == 0 ? nxt.lam : which == 3 ? nxt.lev : nxt.th[which - 1]) = v;
          pl.addParameter(Parameter(nm, v)); c.desc << nm << "=" << v << " ";
        }
        c.desc << "}";
        bool fired = true;
        if (route == 0) ob.lik->setParametersValues(pl); else if (route == 1) fired = ob.lik->matchParametersValues(pl); else if (route == 2) ob.lik->setAllParametersValues(pl); else ob.lik->setParameters(pl);
        if (route == 1) CHECK(fired == any, who << ": matchParametersValues returned " << fired << " although " << (any ? "a value changed" : "no value changed"));
        cur.lam = nxt.lam; cur.th[0] = nxt.th[0]; cur.th[1] = nxt.th[1]; cur.lev = nxt.lev;
        if (chg[3] && (chg[0] != (chg[1] || chg[2]))) jointAlphabetUpdate = true;
        if (fired) stateChanged(true);
        break; }
      case 2: c.desc << "getValue"; break;
      case 3: { bool append = c.flag(); c.desc << "posteriors(append=" << append << ")"; posteriorChecks(true, append, 0); break; }
      case 4: { size_t site = c.below(L); c.desc << "sitePosterior(" << site << ")"; posteriorChecks(false, false, site); break; }
      case 5: { int k = static_cast<int>(c.below(static_cast<uint64_t>(np))); c.desc << "d1(" << varName(k) << ")"; if (derivQueries++ && changedSinceLastDeriv) changeBetweenDerivs = true; changedSinceLastDeriv = false; if (!derivative(1, k)) c.desc << "[not executed: known finding]"; break; }
      case 6: { int k = static_cast<int>(c.below(static_cast<uint64_t>(np))); c.desc << "d2(" << varName(k) << ")"; if (derivQueries++ && changedSinceLastDeriv) changeBetweenDerivs = true; changedSinceLastDeriv = false; if (!derivative(2, k)) c.desc << "[not executed: known finding]"; break; }
      default: { cur.bp = genBreakSubset(c, cur.L); c.desc << "setBreakPoints(" << showBp(cur.bp) << ")"; ob.lik->setBreakPoints(cur.bp); stateChanged(false); break; }
    }
    verify("the last op");
  }
  (void)n;
  c.nt(changeBetweenDerivs || !cur.bp.empty() || hasZero || hasExtreme || jointAlphabetUpdate);
  if (changeBetweenDerivs) c.label("change-between-derivative-queries");
  if (jointAlphabetUpdate) c.label("alphabet-parameter-changed-with-one-other-component");
}
}  // namespace

LAW(L5_history, RC, 8000, 300000, 520, "a changed parameter value or new break points between two derivative queries, or >=1 break point, or a zero transition, or an emission below 1e-100") {
  historyCase(c, false);
}

// the same histories with the configuration "hidden alphabet with a parameter on which emissions and / or transitions depend"
LAW(L5_alphabet_history, RC, 4000, 150000, 600, "as L5_history, or one update changing the alphabet's parameter together with parameters of exactly one of the two other components") {
  historyCase(c, true);
}

// Exhaustive over algorithm x which components depend on the alphabet's parameter x update route x, for each of the three
// parameters (alphabet lev, transition lam, emission th1), "not named / named with its current value / named with a new value"
// in a first update and "unchanged / changed" in a second one, on a fixed 2-state, 3-site model: after each update the
// log-likelihood (and the posteriors) are those of a fresh object built from the current values, and the sum over all paths.
LAW(L5_alphabet_enum, ENUM, 1, 1, 0, "one update changes >= 2 of the three parameters, or the alphabet's parameter") {
  int alg = static_cast<int>(c.below(3)); int dep = static_cast<int>(c.below(4));   // 0 alphabet without parameter, 1 emissions, 2 transitions, 3 both depend on lev
  Spec cur; cur.n = 2; cur.L = 3; cur.A = {{0.5, 0.5}, {0.25, 0.75}}; cur.B = {{0.875, 0.125}, {0.5, 0.5}}; cur.lam = 0.25;
  auto T = make_shared<EmTab>(); T->L = 3; T->n = 2; T->np = 1;
  T->lb = {{-0.5, -1.25}, {-2, -0.25}, {-0.75, -1.5}};
  T->w[0] = {{0.5, -0.25}, {-0.75, 1}, {0.25, 0.5}}; T->v[0] = {{0.125, 0}, {-0.125, 0.25}, {0, -0.125}};
  T->w[1].assign(3, vector<double>(2, 0)); T->v[1] = T->w[1];
  cur.ap = dep != 0; cur.depT = (dep & 2) != 0; cur.lev = 0.5;
  if (dep & 1) T->au = {{-0.25, -1}, {-0.75, 0}, {-0.5, -0.25}};
  cur.tab = T; cur.tabDesc = "fixed table"; cur.th[0] = 0.5; cur.bp = c.flag() ? vector<size_t>{2} : vector<size_t>{};
  describe(c, cur);
  size_t chunk = 2;
  c.desc << " " << algName(alg) << (alg == LOWM ? "(chunk 2)" : "");
  Obj ob = build(cur, alg, chunk); string who = algName(alg);
  static const double NEWV[2][3] = {{0.75, -0.25, 1.0}, {0.5, 1.0, 0.25}};   // new values of lam, th1, lev in the first / second update
  const char* NAMES[3] = {"lam", "th1", "lev"};
  int npar = cur.ap ? 3 : 2; bool nt = false;
  auto verify = [&](const string& after) {
    Obj fresh = build(cur, alg, chunk);
    double a = ob.lik->getLogLikelihood(), b = fresh.lik->getLogLikelihood();
    CHECK(vf::sameBits(a, b), who << " after " << after << ": getLogLikelihood() = " << vf::dec(a) << " but a fresh object built from the current parameter values gives " << vf::dec(b));
    Ref r = makeRef(cur); PathEnum pe(r); LD R1 = logl(pe.dfs(0, 0, 1));
    checkLogLik(c, *ob.lik, R1, who + " after " + after);
    if (alg == LOWM) return;
    vector<vector<double>> p1, p2; ob.lik->getHiddenStatesPosteriorProbabilities(p1, false); fresh.lik->getHiddenStatesPosteriorProbabilities(p2, false);
    CHECK(p1.size() == 3 && p2.size() == 3, who << ": " << p1.size() << " posterior rows");
    for (size_t t = 0; t < 3; ++t) CHECK(sameVec(p1[t], p2[t]), who << " after " << after << ": posteriors of site " << t << " differ from those of a fresh object (" << vf::dec(p1[t][0]) << " against " << vf::dec(p2[t][0]) << ")");
  };
  verify("construction");
  for (int step = 0; step < 2; ++step) {
    int route = step == 0 ? static_cast<int>(c.below(4)) : static_cast<int>(c.below(2));
    ParameterList pl; bool any = false; int changed = 0; bool levChanged = false;
    c.desc << (route == 0 ? " | setParametersValues{" : route == 1 ? " | matchParametersValues{" : route == 2 ? " | setAllParametersValues{" : " | setParameters{");
    // in the order of the object's own list (alphabet, transitions, emissions)
    static const int ORDER[3] = {2, 0, 1};
    Spec nxt = cur;
    for (int q = 0; q < 3; ++q) {
      int k = ORDER[q]; if (k >= npar) continue;
      int mode = step == 0 ? static_cast<int>(c.below(3)) : 1 + static_cast<int>(c.below(2));   // 0 not named, 1 named with the current value, 2 named with a new value
      if (mode == 0 && route == 2) mode = 1;   // setAllParametersValues documents "exactly the same parameters"
      if (mode == 0) continue;
      double& slot = k == 0 ? nxt.lam : k == 1 ? nxt.th[0] : nxt.lev;
      if (mode == 2) { slot = NEWV[step][k]; any = true; ++changed; if (k == 2) levChanged = true; }
      pl.addParameter(Parameter(NAMES[k], slot)); c.desc << NAMES[k] << "=" << slot << (mode == 2 ? "(new) " : " ");
    }
    c.desc << "}";
    if (changed >= 2 || levChanged) nt = true;
    bool fired = true;
    if (route == 0) ob.lik->setParametersValues(pl); else if (route == 1) fired = ob.lik->matchParametersValues(pl); else if (route == 2) ob.lik->setAllParametersValues(pl); else ob.lik->setParameters(pl);
    if (route == 1) CHECK(fired == any, who << ": matchParametersValues returned " << fired << " although " << (any ? "a value changed" : "no value changed"));
    cur.lam = nxt.lam; cur.th[0] = nxt.th[0]; cur.lev = nxt.lev;
    CHECK(ob.lik->getParameterValue("lam") == cur.lam && ob.lik->getParameterValue("th1") == cur.th[0] && (!cur.ap || ob.lik->getParameterValue("lev") == cur.lev), who << ": parameter values after the update differ from the requested ones");
    verify(step == 0 ? "the first update" : "the second update");
  }
  c.nt(nt);
}

// =================================================================================== L6: built-in transition models
namespace {
struct BT {   // a built-in transition object and the model of its parameter values
  bool full = true; size_t n = 1; shared_ptr<Alpha> a; shared_ptr<HmmTransitionMatrix> T; FullHmmTransitionMatrix* F = nullptr;
  vector<string> names; vector<double> vals;
  // getPij() was called before the first getEquilibriumFrequencies() since the last parameter notification (or construction)
  bool eqPoisoned = false, eqComputed = false;
  void notified() { eqPoisoned = eqComputed = false; }
  double& val(const string& nm) { for (size_t q = 0; q < names.size(); ++q) if (names[q] == nm) return vals[q]; throw Exception("internal: no parameter " + nm); }
};
BT makeBT(bool full, size_t n) {
  BT b; b.full = full; b.n = n; b.a = make_shared<Alpha>(n);
  if (full) { auto f = make_shared<FullHmmTransitionMatrix>(b.a, ""); b.F = f.get(); b.T = f; } else b.T = make_shared<AutoCorrelationTransitionMatrix>(b.a, "");
  const ParameterList& pl = b.T->getParameters();
  for (size_t q = 0; q < pl.size(); ++q) { b.names.push_back(pl[q].getName()); b.vals.push_back(pl[q].getValue()); }
  return b;
}
string fullName(size_t row, size_t k) { return to_string(row + 1) + ".theta" + to_string(k + 1); }
string acName(size_t i) { return "lambda" + to_string(i + 1); }
// the matrix the documentation assigns to the current parameter values (Simplex global ratio / auto-correlation)
vector<vector<LD>> documentedMatrix(BT& b) {
  vector<vector<LD>> P(b.n, vector<LD>(b.n));
  for (size_t i = 0; i < b.n; ++i) {
    if (b.full) { LD rest = 1; for (size_t k = 0; k + 1 < b.n; ++k) { LD th = b.val(fullName(i, k)); P[i][k] = rest * th; rest *= 1 - th; } P[i][b.n - 1] = rest; }
    else { LD lam = b.val(acName(i)); for (size_t j = 0; j < b.n; ++j) P[i][j] = i == j ? lam : (1 - lam) / static_cast<LD>(b.n - 1); }
  }
  return P;
}
// row 0 of P^256 (the formula FullHmmTransitionMatrix uses for the "equilibrium"), residual of stationarity, in long double
LD p256Residual(const vector<vector<LD>>& P) {
  size_t n = P.size(); vector<vector<LD>> Q = P, R(n, vector<LD>(n));
  for (int it = 0; it < 8; ++it) { for (size_t i = 0; i < n; ++i) for (size_t j = 0; j < n; ++j) { LD x = 0; for (size_t k = 0; k < n; ++k) x += Q[i][k] * Q[k][j]; R[i][j] = x; } Q = R; }
  return statResidual(P, Q[0]);
}
vector<double> rowToThetas(const vector<double>& row) {  // global ratio, kept strictly inside ]0,1[
  vector<double> th; double rest = 1;
  for (size_t k = 0; k + 1 < row.size(); ++k) { double t = rest > 0 ? row[k] / rest : 0.5; t = min(max(t, 1e-9), 1 - 1e-9); th.push_back(t); rest -= row[k]; }
  return th;
}
// target rows: preset 0 uniform, 1 skewed, 2 sticky (slowly mixing), 3 random weights (RC only)
vector<vector<double>> genRows(vf::Ctx& c, size_t n, int preset) {
  vector<vector<double>> R(n, vector<double>(n));
  double stick = preset == 2 ? c.pick({20.0, 200.0, 5000.0}) : 0;
  for (size_t i = 0; i < n; ++i) {
    double sum = 0;
    for (size_t j = 0; j < n; ++j) {
      double w = 1;
      if (preset == 1) w = static_cast<double>(1 + ((i + 2 * j) % 4));
      else if (preset == 2) w = i == j ? stick : 1;
      else if (preset == 3) w = c.flag() ? static_cast<double>(1 + c.below(8)) : c.logu(1e-4, 1);
      R[i][j] = w; sum += w;
    }
    for (auto& x : R[i]) x /= sum;
  }
  return R;
}
void checkMatrixQuery(vf::Ctx& c, BT& b, int query, const vector<vector<LD>>& doc) {
  const char* cls = b.full ? "FullHmmTransitionMatrix" : "AutoCorrelationTransitionMatrix";
  size_t n = b.n;
  if (query == 0 || query == 1) {
    RowMatrix<double> M(n, n);
    if (query == 0) { const Matrix<double>& G = b.T->getPij(); CHECK(G.getNumberOfRows() == n && G.getNumberOfColumns() == n, cls << ": getPij() is " << G.getNumberOfRows() << "x" << G.getNumberOfColumns()); for (size_t i = 0; i < n; ++i) for (size_t j = 0; j < n; ++j) M(i, j) = G(i, j); if (!b.eqComputed) b.eqPoisoned = true; }
    else for (size_t i = 0; i < n; ++i) for (size_t j = 0; j < n; ++j) M(i, j) = b.T->Pij(i, j);
    const char* q = query == 0 ? "getPij()" : "Pij";
    for (size_t i = 0; i < n; ++i) {
      LD sum = 0;
      for (size_t j = 0; j < n; ++j) {
        CHECK(M(i, j) >= 0, cls << ": " << q << "(" << i << "," << j << ") = " << vf::dec(M(i, j)) << " is negative");
        CHECK(fabsl(M(i, j) - doc[i][j]) <= ROW_TOL, cls << ": " << q << "(" << i << "," << j << ") = " << vf::dec(M(i, j)) << " but the current parameter values give " << vf::dec(static_cast<double>(doc[i][j])));
        sum += M(i, j);
      }
      c.observe("row_sum/1e-12", static_cast<double>(fabsl(sum - 1)) / ROW_TOL);
      CHECK(fabsl(sum - 1) <= ROW_TOL, cls << ": row " << i << " of " << q << " sums to " << vf::dec(static_cast<double>(sum)));
    }
    return;
  }
  // equilibrium frequencies: a probability vector, stationary for the exposed matrix
  if (!b.full) { c.label("autocorr-equilibrium-class"); if (c.isKnown("C13-autocorr-equilibrium")) return; }
  if (b.full && b.eqPoisoned) { c.label("full-getPij-before-equilibrium-class"); if (c.isKnown("C13-full-uptodate-flag")) return; }
  if (b.full && p256Residual(doc) > 1e-10L) { c.label("full-slow-mixing-class"); if (c.isKnown("C13-full-equilibrium-p256")) return; }
  const vector<double>& eq = b.T->getEquilibriumFrequencies(); if (!b.eqPoisoned) b.eqComputed = true;
  CHECK(eq.size() == n, cls << ": getEquilibriumFrequencies() has " << eq.size() << " entries for " << n << " states");
  LD sum = 0; vector<LD> pi(n);
  for (size_t i = 0; i < n; ++i) { CHECK(eq[i] >= 0 && eq[i] <= 1 + 1e-12, cls << ": equilibrium frequency " << i << " is " << vf::dec(eq[i])); sum += eq[i]; pi[i] = eq[i]; }
  CHECK(fabsl(sum - 1) <= STAT_TOL, cls << ": equilibrium frequencies sum to " << vf::dec(static_cast<double>(sum)) << " (first " << vf::dec(eq[0]) << ")");
  LD res = statResidual(doc, pi); c.observe("stationarity/1e-9", static_cast<double>(res) / STAT_TOL);
  CHECK(res <= STAT_TOL, cls << ": getEquilibriumFrequencies() is not stationary for the exposed matrix: max |pi P - pi| = " << static_cast<double>(res) << " (pi[0] = " << vf::dec(eq[0]) << ")");
}
// one round: a parameter change by `route`, then the queries, each checked
void builtinRound(vf::Ctx& c, BT& b, int route, int preset, const vector<int>& queries, int fixedOnly = -1) {
  size_t n = b.n;
  c.desc << " | ";
  if (route == 0) c.desc << "no change";
  else if (b.full) {
    vector<vector<double>> rows = genRows(c, n, preset);
    if (route == 4) {
      c.desc << "setTransitionProbabilities" << showRows(rows);
      RowMatrix<double> M(n, n); for (size_t i = 0; i < n; ++i) for (size_t j = 0; j < n; ++j) M(i, j) = rows[i][j];
      c.label("full-setTransitionProbabilities-class");
      if (c.isKnown("C13-full-settransitionprobabilities")) { c.desc << "[not executed: known finding]"; }
      else {
        b.F->setTransitionProbabilities(M);
        for (size_t i = 0; i < n; ++i) { vector<double> th = rowToThetas(rows[i]); for (size_t k = 0; k + 1 < n; ++k) b.val(fullName(i, k)) = th[k]; }
        b.notified();
        // the object's own parameter list must describe the matrix that was set
        for (size_t q = 0; q < b.names.size(); ++q) { double v = b.T->getParameterValue(b.names[q]); CHECK(std::fabs(v - b.vals[q]) <= 1e-9, "FullHmmTransitionMatrix: after setTransitionProbabilities parameter " << b.names[q] << " = " << vf::dec(v) << " but the rows that were set correspond to " << vf::dec(b.vals[q])); b.vals[q] = v; }
      }
    } else {
      ParameterList pl; size_t only = fixedOnly >= 0 ? static_cast<size_t>(fixedOnly) : c.below(n * (n > 1 ? n - 1 : 1)); bool changed = false;
      c.desc << (route == 1 ? "setParametersValues" : route == 2 ? "matchParametersValues" : "setParameterValue") << "{";
      size_t idx = 0;
      for (size_t i = 0; i < n; ++i) { vector<double> th = rowToThetas(rows[i]); for (size_t k = 0; k + 1 < n; ++k, ++idx) {
        if (route == 3 && idx != only) continue;
        c.desc << fullName(i, k) << "=" << vf::dec(th[k]) << " "; pl.addParameter(Parameter(fullName(i, k), th[k])); changed |= b.val(fullName(i, k)) != th[k]; b.val(fullName(i, k)) = th[k];
        if (route == 3) b.T->setParameterValue(fullName(i, k), th[k]);
      } }
      c.desc << "}";
      if (route == 1) b.T->setParametersValues(pl); else if (route == 2) b.T->matchParametersValues(pl);
      if (route != 2 || changed) b.notified();   // matchParametersValues notifies only when a value changed
    }
  } else {
    ParameterList pl; size_t only = fixedOnly >= 0 ? static_cast<size_t>(fixedOnly) : c.below(n); bool changed = false;
    c.desc << (route == 1 ? "setParametersValues" : route == 2 ? "matchParametersValues" : "setParameterValue") << "{";
    for (size_t i = 0; i < n; ++i) {
      double lam = preset == 0 ? 0.5 : preset == 1 ? static_cast<double>(1 + (i % 7)) / 8 : preset == 2 ? c.pick({0.99, 0.999, 0.9999}) : c.real(0.001, 0.999);
      if (route >= 3 && i != only) continue;
      c.desc << acName(i) << "=" << vf::dec(lam) << " "; pl.addParameter(Parameter(acName(i), lam)); changed |= b.val(acName(i)) != lam; b.val(acName(i)) = lam;
      if (route >= 3) b.T->setParameterValue(acName(i), lam);
    }
    c.desc << "}";
    if (route == 1) b.T->setParametersValues(pl); else if (route == 2) b.T->matchParametersValues(pl);
    if (route != 2 || changed) b.notified();
  }
  vector<vector<LD>> doc = documentedMatrix(b);
  for (int q : queries) { c.desc << (q == 0 ? " getPij" : q == 1 ? " Pij" : " getEquilibriumFrequencies"); checkMatrixQuery(c, b, q, doc); }
  for (size_t q = 0; q < b.names.size(); ++q) CHECK(b.T->getParameterValue(b.names[q]) == b.vals[q], "parameter " << b.names[q] << " = " << vf::dec(b.T->getParameterValue(b.names[q])) << ", requested " << vf::dec(b.vals[q]));
}
}  // namespace

LAW(L6_builtin_matrix, RC, 5000, 150000, 160, "the equilibrium vector is asked after getPij(), or a slowly mixing chain, or >=2 parameter changes") {
  bool full = !c.flag(); size_t n = full ? 1 + c.below(5) : 2 + c.below(4);   // auto-correlation needs "other states": n >= 2
  c.desc << (full ? "FullHmmTransitionMatrix" : "AutoCorrelationTransitionMatrix") << " n=" << n;
  BT b = makeBT(full, n);
  int rounds = 1 + static_cast<int>(c.below(3)); bool eqAfterPij = false, slow = false;
  for (int rd = 0; rd < rounds; ++rd) {
    int route = rd == 0 ? static_cast<int>(c.below(full ? 5 : 4)) : 1 + static_cast<int>(c.below(full ? 4 : 3));
    if (full && n == 1 && route != 4) route = 0;   // one state: no parameter
    int preset = static_cast<int>(c.weighted({2, 2, 3, 3}));
    vector<int> queries; int nq = 1 + static_cast<int>(c.below(5)); bool pij = false;
    for (int q = 0; q < nq; ++q) { int k = static_cast<int>(c.below(3)); queries.push_back(k); if (k == 0) pij = true; if (k == 2 && pij) eqAfterPij = true; }
    if (preset == 2) slow = true;
    builtinRound(c, b, route, preset, queries);
  }
  // the alphabet setter, documented to refuse a null pointer and otherwise to install the alphabet: with a fresh alphabet of the
  // same size the exposed matrix is still the one the current parameter values dictate (no draw: older replays decode unchanged)
  {
    bool thrown = false;
    try { b.T->setHmmStateAlphabet(nullptr); } catch (HmmUnvalidAlphabetException&) { thrown = true; }
    CHECK(thrown, "setHmmStateAlphabet(null) did not raise HmmUnvalidAlphabetException");
    auto a2 = make_shared<Alpha>(n);
    b.T->setHmmStateAlphabet(a2);
    c.desc << " | setHmmStateAlphabet(fresh alphabet, same size) Pij";
    CHECK(b.T->getHmmStateAlphabet() == a2, "getHmmStateAlphabet() does not return the alphabet that was just set");
    CHECK(b.T->getNumberOfStates() == n, "getNumberOfStates() = " << b.T->getNumberOfStates() << " after setting an alphabet of " << n << " states");
    checkMatrixQuery(c, b, 1, documentedMatrix(b));
    b.a = a2;
  }
  c.nt(eqAfterPij || slow || rounds >= 2);
}

LAW(L6_builtin_enum, ENUM, 1, 1, 0, "the equilibrium vector is asked after getPij(), or a second parameter change") {
  bool full = c.below(2) == 0; size_t n = 2 + c.below(2);
  c.desc << (full ? "FullHmmTransitionMatrix" : "AutoCorrelationTransitionMatrix") << " n=" << n;
  static const int PERM[6][3] = {{0, 1, 2}, {0, 2, 1}, {1, 0, 2}, {1, 2, 0}, {2, 0, 1}, {2, 1, 0}};
  int route1 = static_cast<int>(c.below(full ? 5 : 4)), preset1 = static_cast<int>(c.below(2)), perm1 = static_cast<int>(c.below(6));
  bool second = c.flag(); int route2 = 0, perm2 = 0;
  if (second) { route2 = 1 + static_cast<int>(c.below(3)); perm2 = static_cast<int>(c.below(6)); }
  BT b = makeBT(full, n);
  builtinRound(c, b, route1, preset1, {PERM[perm1][0], PERM[perm1][1], PERM[perm1][2]}, 0);
  if (second) builtinRound(c, b, route2, 1 - preset1, {PERM[perm2][0], PERM[perm2][1], PERM[perm2][2]}, 1);
  c.nt(second || PERM[perm1][0] == 0 || (PERM[perm1][1] == 0 && PERM[perm1][0] == 1));
}

// =================================================================================== L7: likelihoods over the built-in transition models
LAW(L7_builtin_loglik, RC, 3000, 100000, 480, "always (built-in transition model, every entry >= 0.2/n)") {
  bool full = c.weighted({3, 1}) == 0; size_t n = full ? 1 + c.below(5) : 2 + c.below(4);
  c.desc << (full ? "FullHmmTransitionMatrix" : "AutoCorrelationTransitionMatrix") << " n=" << n;
  if (!full) c.excludeIfKnown("C13-autocorr-equilibrium");   // every likelihood starts from that vector
  Spec s; s.n = static_cast<int>(n); s.L = 1 + static_cast<int>(c.below(10));
  bool hasExtreme; s.tab = genTab(c, s.L, s.n, false, s.tabDesc, hasExtreme);
  s.th[0] = genTheta(c); s.th[1] = s.tab->np > 1 ? genTheta(c) : 0;
  s.bp = genBreaks(c, s.L, false);
  // well-mixing rows: every entry >= 0.2/n (Dobrushin coefficient <= 0.8: any sensible computation of the stationary law has converged)
  BT b = makeBT(full, n); ParameterList pl; double floor = 0.2 / static_cast<double>(n);
  if (full) for (size_t i = 0; i < n; ++i) {
    vector<double> q(n); double sum = 0; for (auto& x : q) { x = static_cast<double>(1 + c.below(8)); sum += x; }
    vector<double> row(n); for (size_t j = 0; j < n; ++j) row[j] = floor + 0.8 * q[j] / sum;
    vector<double> th = rowToThetas(row); for (size_t k = 0; k + 1 < n; ++k) { pl.addParameter(Parameter(fullName(i, k), th[k])); b.val(fullName(i, k)) = th[k]; }
  } else for (size_t i = 0; i < n; ++i) { double lam = floor + (1 - floor * static_cast<double>(n)) * c.unit(); pl.addParameter(Parameter(acName(i), lam)); b.val(acName(i)) = lam; }
  bool viaLikelihood = c.flag(); int alg = static_cast<int>(c.below(3)); size_t chunk = s.L == 1 ? 1 + c.below(2) : 2 + c.below(static_cast<uint64_t>(s.L));
  c.desc << " L=" << s.L << " parameters{"; for (size_t q = 0; q < pl.size(); ++q) c.desc << pl[q].getName() << "=" << vf::dec(pl[q].getValue()) << " "; c.desc << "} set " << (viaLikelihood ? "through the likelihood object" : "on the transition object before construction")
         << " th=(" << s.th[0] << "," << s.th[1] << ") breaks=" << showBp(s.bp) << " emissions{" << s.tabDesc << "} " << algName(alg);
  c.nt();
  if (!viaLikelihood && pl.size()) b.T->setParametersValues(pl);
  auto emis = make_shared<Emis>(b.a, s.tab, s.th);
  shared_ptr<HmmLikelihood> lik = makeLik(alg, b.a, b.T, emis, chunk);
  if (viaLikelihood && pl.size()) lik->setParametersValues(pl);
  if (!s.bp.empty()) lik->setBreakPoints(s.bp);
  // reference: the matrix the object exposes, its exact stationary law
  Ref r; r.n = s.n; r.L = s.L; r.P.assign(n, vector<LD>(n));
  vector<vector<LD>> doc = documentedMatrix(b);
  for (size_t i = 0; i < n; ++i) for (size_t j = 0; j < n; ++j) { r.P[i][j] = b.T->Pij(i, j); CHECK(fabsl(r.P[i][j] - doc[i][j]) <= ROW_TOL && r.P[i][j] >= floor - 1e-12, "Pij(" << i << "," << j << ") = " << static_cast<double>(r.P[i][j]) << " but the parameters give " << static_cast<double>(doc[i][j])); }
  r.pi = stationaryLD(r.P);
  r.e.assign(static_cast<size_t>(s.L), vector<LD>(n)); for (size_t t = 0; t < r.e.size(); ++t) for (size_t k = 0; k < n; ++k) r.e[t][k] = emisValue(*s.tab, t, k, s.th);
  setBreaks(r, s.bp);
  LogFB lg = refLog(r, true); string who = string(algName(alg)) + " over " + (full ? "FullHmmTransitionMatrix" : "AutoCorrelationTransitionMatrix");
  if (alg != LOGS && scaledBackwardSkipped(c, lg)) throw vf::Skip();
  checkLogLik(c, *lik, lg.logL, who);
  if (alg == LOWM) return;
  vector<vector<double>> post; lik->getHiddenStatesPosteriorProbabilities(post, false);
  CHECK(post.size() == static_cast<size_t>(s.L), who << ": " << post.size() << " posterior rows");
  for (size_t t = 0; t < post.size(); ++t) checkPosteriorRow(c, post[t], lg.post[t], who, t);
  int k = static_cast<int>(c.below(static_cast<uint64_t>(s.tab->np)));
  DerivGuards g = derivGuards(c, alg, s, r, lg, k);
  if (!g.d1ok) return;
  LD rd1, rd2; refDerivs(r, *s.tab, s.th, k, rd1, rd2);
  double d1 = lik->getFirstOrderDerivative(varName(k));
  CHECK(derivClose(d1, -rd1), who << ": getFirstOrderDerivative(" << varName(k) << ") = " << vf::dec(d1) << " but d(-log L)/d" << varName(k) << " = " << vf::dec(static_cast<double>(-rd1)));
  if (!g.d2ok) return;
  double d2 = lik->getSecondOrderDerivative(varName(k));
  CHECK(derivClose(d2, -rd2), who << ": getSecondOrderDerivative(" << varName(k) << ") = " << vf::dec(d2) << " but d2(-log L)/d" << varName(k) << "^2 = " << vf::dec(static_cast<double>(-rd2)));
}

static struct Init { Init() { vf::G().resetHook = [] { vf::quietBpp(); vf::installAudit(); }; } } init_;
VF_MAIN("C13")
