// C05 — LU solve, inverse and determinant meet their equations or report singularity.
// Laws of DESIGN.md section 5/C05.
//
// Tolerances (frozen; eps = DBL_EPSILON = 2u, all residuals are evaluated in long double):
//   T_FACTOR  |P.A - L.U|_ij        <= 4 n eps (|L||U|)_ij            (Higham Thm 9.3: gamma_n = n u -> 8x the rigorous constant)
//   T_SOLVE   |A.X - B|_(piv i),j   <= 8 n eps (|L||U||X|)_ij         (Higham Thm 9.4: gamma_3n = 3 n u -> 5x the rigorous constant)
//   T_DETPROD |det - sign.prod U_ii|<= 4 n eps |prod U_ii|            (gamma_n = n u -> 8x the rigorous constant)
//   det of an integer matrix M with exact determinant D and exact cofactors C:
//     E = 4 n eps |L||U|, s = sum E, h = max(1, max row 2-norm of M),
//     pert = 2 sum_ij |C_(piv i),j| E_ij + 2 s^2 h^(n-2)   (first order term exactly; all higher order terms by Hadamard)
//     |det - D| <= pert + 4 n eps (|D| + pert)
//   det of Q1.diag(sigma).Q2:  | |det| - prod sigma | <= 8 n^2 eps kappa prod sigma, sign = (-1)^(number of reflections)
#include "common/pbt.hpp"
#include "common/bppcommon.hpp"

#include <Bpp/Exceptions.h>
#include <Bpp/Numeric/Matrix/LUDecomposition.h>
#include <Bpp/Numeric/Matrix/Matrix.h>
#include <Bpp/Numeric/Matrix/MatrixTools.h>
#include <Bpp/Numeric/VectorExceptions.h>

#include <memory>

using namespace bpp;
using namespace std;

namespace {

typedef long double LD;
typedef __int128 I128;
typedef vector<vector<double>> DM;
typedef vector<vector<LD>> LM;
typedef vector<vector<I128>> IM;

const double EPS = DBL_EPSILON;
const double THRESHOLD = 1e-6;  // the documented pivot threshold (NumConstants::SMALL())
const double T_FACTOR = 4, T_SOLVE = 8, T_DETPROD = 4, T_DETSVD = 8;

// ------------------------------------------------------------------ printing
string num(double x) {
  if (x == std::floor(x) && std::fabs(x) < 1e15) { char b[32]; snprintf(b, sizeof b, "%.0f", x); return b; }
  return vf::dec(x);
}
string show(const DM& a) {
  string s = "[";
  for (size_t i = 0; i < a.size(); ++i) { s += i ? ";" : ""; for (size_t j = 0; j < a[i].size(); ++j) { s += j ? "," : ""; s += num(a[i][j]); } }
  return s + "]";
}
string showI(I128 v) {
  if (v == 0) return "0";
  bool neg = v < 0; string s; unsigned __int128 u = neg ? -static_cast<unsigned __int128>(v) : static_cast<unsigned __int128>(v);
  while (u) { s += static_cast<char>('0' + static_cast<int>(u % 10)); u /= 10; }
  if (neg) s += '-';
  reverse(s.begin(), s.end()); return s;
}
const char* KIND[] = {"RowMatrix", "ColMatrix", "LinearMatrix"};

// ------------------------------------------------------------------ storage classes
unique_ptr<Matrix<double>> mkMat(int kind, size_t r, size_t cc) {
  switch (kind) {
    case 0: return unique_ptr<Matrix<double>>(new RowMatrix<double>(r, cc));
    case 1: return unique_ptr<Matrix<double>>(new ColMatrix<double>(r, cc));
    default: return unique_ptr<Matrix<double>>(new LinearMatrix<double>(r, cc));
  }
}
unique_ptr<Matrix<double>> mkFrom(int kind, const DM& a) {
  size_t r = a.size(), cc = a.empty() ? 0 : a[0].size();
  auto m = mkMat(kind, r, cc);
  for (size_t i = 0; i < r; ++i) for (size_t j = 0; j < cc; ++j) (*m)(i, j) = a[i][j];
  return m;
}
// output operand: pre 0 = unsized (default constructed), 1 = larger with garbage, 2 = 1x1 with garbage
unique_ptr<Matrix<double>> mkOut(int kind, int pre, size_t n, size_t nb) {
  unique_ptr<Matrix<double>> m;
  if (pre == 0) {
    switch (kind) {
      case 0: m.reset(new RowMatrix<double>()); break;
      case 1: m.reset(new ColMatrix<double>()); break;
      default: m.reset(new LinearMatrix<double>());
    }
    return m;
  }
  size_t r = pre == 1 ? n + 2 : 1, cc = pre == 1 ? nb + 1 : 1;
  m = mkMat(kind, r, cc);
  for (size_t i = 0; i < r; ++i) for (size_t j = 0; j < cc; ++j) (*m)(i, j) = 7.25e10;
  return m;
}

// ------------------------------------------------------------------ exact integer reference
// fraction-free (Bareiss) elimination: every intermediate value is a minor of the input
I128 bareiss(IM m) {
  size_t n = m.size();
  if (n == 0) return 1;
  I128 prev = 1; int sign = 1;
  for (size_t k = 0; k + 1 < n; ++k) {
    if (m[k][k] == 0) {
      size_t r = k + 1; while (r < n && m[r][k] == 0) ++r;
      if (r == n) return 0;
      swap(m[r], m[k]); sign = -sign;
    }
    for (size_t i = k + 1; i < n; ++i) for (size_t j = k + 1; j < n; ++j) m[i][j] = (m[i][j] * m[k][k] - m[i][k] * m[k][j]) / prev;
    prev = m[k][k];
  }
  return sign * m[n - 1][n - 1];
}
// cofactor matrix C_ij = (-1)^(i+j) det(A without row i and column j)
IM cofactors(const IM& a) {
  size_t n = a.size(); IM C(n, vector<I128>(n, 0));
  for (size_t i = 0; i < n; ++i) for (size_t j = 0; j < n; ++j) {
    IM mi; mi.reserve(n - 1);
    for (size_t r = 0; r < n; ++r) { if (r == i) continue; vector<I128> row; row.reserve(n - 1); for (size_t s = 0; s < n; ++s) if (s != j) row.push_back(a[r][s]); mi.push_back(row); }
    I128 d = bareiss(mi);
    C[i][j] = ((i + j) & 1) ? -d : d;
  }
  return C;
}
DM toD(const IM& a) { DM d(a.size()); for (size_t i = 0; i < a.size(); ++i) for (I128 v : a[i]) d[i].push_back(static_cast<double>(v)); return d; }
IM transposeI(const IM& a) { size_t n = a.size(); IM t(n, vector<I128>(n)); for (size_t i = 0; i < n; ++i) for (size_t j = 0; j < n; ++j) t[j][i] = a[i][j]; return t; }
IM mulI(const IM& a, const IM& b) {
  size_t n = a.size(); IM p(n, vector<I128>(n, 0));
  for (size_t i = 0; i < n; ++i) for (size_t j = 0; j < n; ++j) for (size_t k = 0; k < n; ++k) p[i][j] += a[i][k] * b[k][j];
  return p;
}
LM absLD(const IM& a) { LM r(a.size()); for (size_t i = 0; i < a.size(); ++i) for (I128 v : a[i]) r[i].push_back(fabsl(static_cast<LD>(v))); return r; }

// ------------------------------------------------------------------ generators
// permutation p (row i of the result is row p[i] of the source); draw 0 = identity
vector<size_t> genPerm(vf::Ctx& c, size_t n, int& sign) {
  vector<size_t> p(n); for (size_t i = 0; i < n; ++i) p[i] = i;
  sign = 1;
  for (size_t i = n; i-- > 1;) { size_t j = i - static_cast<size_t>(c.below(i + 1)); if (j != i) { swap(p[i], p[j]); sign = -sign; } }
  return p;
}
const char* INTSUB[] = {"dense", "entries-101", "sparse", "perm-upper", "perm-lower", "rank-deficient"};
IM genInt(vf::Ctx& c, size_t n, int sub) {
  IM m(n, vector<I128>(n, 0));
  switch (sub) {
    case 0: for (auto& r : m) for (auto& v : r) v = c.zig(9); break;
    case 1: for (auto& r : m) for (auto& v : r) v = c.zig(1); break;
    case 2: for (auto& r : m) for (auto& v : r) v = c.below(3) == 0 ? c.zig(9) : 0; break;
    case 3: case 4: {
      IM t(n, vector<I128>(n, 0));
      for (size_t i = 0; i < n; ++i) for (size_t j = 0; j < n; ++j) {
        if (i == j) { int64_t d = 1 + static_cast<int64_t>(c.below(9)); t[i][j] = c.flag() ? -d : d; }
        else if ((sub == 3) == (i < j)) t[i][j] = c.zig(9);
      }
      int sg; vector<size_t> p = genPerm(c, n, sg);
      for (size_t i = 0; i < n; ++i) m[i] = t[p[i]];
      break; }
    default: {
      for (auto& r : m) for (auto& v : r) v = c.zig(4);
      if (n >= 2) {
        size_t r = c.below(n), j = (r + 1 + c.below(n - 1)) % n, k = (r + 1 + c.below(n - 1)) % n;
        switch (c.below(4)) {
          case 0: { int s = c.flag() ? -1 : 1; for (size_t q = 0; q < n; ++q) m[r][q] = s * m[j][q]; break; }
          case 1: { int s = c.flag() ? -1 : 1; for (size_t q = 0; q < n; ++q) m[r][q] = m[j][q] + s * m[k][q]; break; }
          case 2: for (size_t q = 0; q < n; ++q) m[r][q] = 0; break;
          default: for (size_t q = 0; q < n; ++q) m[q][r] = m[q][j];
        }
      } else m[0][0] = 0;
    }
  }
  return m;
}

struct Case {
  size_t n = 0; DM a; string what;
  bool isInt = false; IM ai;
  bool isSvd = false; vector<double> sigma; int nrefl = 0; double kappa = 1;
};

// A = Q1.diag(sigma).Q2, Q = product of Householder reflections, formed in long double and rounded once
void genSvd(vf::Ctx& c, Case& k) {
  size_t n = k.n; k.isSvd = true;
  double smax = c.pick({1.0, 2.0, 0.5, 10.0, 0.1});
  if (c.oneIn(4)) smax = c.logu(0.1, 10);
  switch (c.weighted({2, 6, 1})) { case 0: k.kappa = 1; break; case 1: k.kappa = c.logu(1, 1e6); break; default: k.kappa = 1e6; }
  if (n == 1) k.kappa = 1;
  k.sigma.assign(n, smax);
  for (size_t i = 1; i < n; ++i) k.sigma[i] = i + 1 == n ? smax / k.kappa : c.logu(smax / k.kappa, smax);
  LM m(n, vector<LD>(n, 0)); for (size_t i = 0; i < n; ++i) m[i][i] = k.sigma[i];
  int m1 = c.irange(0, static_cast<int>(n)), m2 = c.irange(0, static_cast<int>(n));
  k.nrefl = m1 + m2;
  for (int t = 0; t < m1 + m2; ++t) {
    vector<LD> v(n); LD vv = 0;
    for (auto& x : v) { x = c.real(-1, 1); vv += x * x; }
    if (vv < 1e-6L) { v.assign(n, 0); v[0] = 1; vv = 1; }
    if (t < m1) {  // from the left
      for (size_t j = 0; j < n; ++j) { LD s = 0; for (size_t i = 0; i < n; ++i) s += v[i] * m[i][j]; s = 2 * s / vv; for (size_t i = 0; i < n; ++i) m[i][j] -= s * v[i]; }
    } else {
      for (size_t i = 0; i < n; ++i) { LD s = 0; for (size_t j = 0; j < n; ++j) s += m[i][j] * v[j]; s = 2 * s / vv; for (size_t j = 0; j < n; ++j) m[i][j] -= s * v[j]; }
    }
  }
  k.a.assign(n, vector<double>(n));
  for (size_t i = 0; i < n; ++i) for (size_t j = 0; j < n; ++j) k.a[i][j] = static_cast<double>(m[i][j]);
  ostringstream os; os << "svd(kappa=" << vf::dec(k.kappa) << ",reflections=" << m1 << "+" << m2 << ",sigma=";
  for (size_t i = 0; i < n; ++i) os << (i ? "," : "") << vf::dec(k.sigma[i]);
  os << ")"; k.what = os.str();
}

// a row = small integer combination of the others + delta (delta straddling the documented threshold)
void genNearDeficient(vf::Ctx& c, Case& k) {
  size_t n = k.n; bool reals = c.flag();
  k.a.assign(n, vector<double>(n));
  for (auto& r : k.a) for (auto& v : r) v = reals ? c.real(-1, 1) : static_cast<double>(c.zig(9));
  double delta;
  if (c.oneIn(3)) delta = c.logu(1e-8, 1e-4);
  else delta = c.pick({0.0, 1e-12, 1e-9, 1e-8, 1e-7, 5e-7, 1e-6, 2e-6, 1e-5, 1e-4, 1e-3});
  ostringstream os; os << "near-deficient(" << (reals ? "real" : "int") << ",delta=" << vf::dec(delta);
  if (n == 1) { k.a[0][0] = delta * static_cast<double>(1 + c.below(3)); }
  else {
    size_t r = c.below(n); os << ",row=" << r << ",coef=";
    vector<double> row(n, 0.0);
    for (size_t q = 0; q < n; ++q) { if (q == r) continue; double cf = static_cast<double>(c.zig(2)); os << cf << " "; for (size_t j = 0; j < n; ++j) row[j] += cf * k.a[q][j]; }
    if (c.flag()) { size_t j = c.below(n); row[j] += delta; os << ",bump col " << j; }
    else { for (size_t j = 0; j < n; ++j) row[j] += delta * c.real(-1, 1); os << ",bump row"; }
    k.a[r] = row;
  }
  os << ")"; k.what = os.str();
}

// family: 0 integer (a)+(c) and integer rank-deficient, 1 svd (b), 2 nearly rank-deficient (d)
Case genCase(vf::Ctx& c, int family = -1) {
  Case k; k.n = static_cast<size_t>(c.irange(1, 10));
  if (family < 0) family = static_cast<int>(c.weighted({5, 3, 3}));
  if (family == 0) {
    int sub = static_cast<int>(c.weighted({4, 2, 1, 2, 2, 2}));
    k.ai = genInt(c, k.n, sub); k.a = toD(k.ai); k.isInt = true; k.what = string("int-") + INTSUB[sub];
  } else if (family == 1) genSvd(c, k);
  else genNearDeficient(c, k);
  return k;
}

DM genRhs(vf::Ctx& c, size_t rows, size_t nb) {
  bool reals = c.flag(); DM b(rows, vector<double>(nb));
  for (auto& r : b) for (auto& v : r) v = reals ? c.real(-10, 10) : static_cast<double>(c.zig(9));
  return b;
}

// ------------------------------------------------------------------ oracle: the factorisation
struct Fac { size_t n = 0; DM L, U; vector<size_t> piv; int parity = 1; double det = 0, minPiv = 0; LM W; bool exchanged = false; };

Fac factorChecks(vf::Ctx& c, LUDecomposition<double>& lu, const DM& a) {
  size_t n = a.size(); Fac f; f.n = n;
  {
    const RowMatrix<double>& L = lu.getL();
    CHECK(L.getNumberOfRows() == n && L.getNumberOfColumns() == n, "getL() is " << L.getNumberOfRows() << "x" << L.getNumberOfColumns() << " for a " << n << "x" << n << " matrix");
    f.L.assign(n, vector<double>(n)); for (size_t i = 0; i < n; ++i) for (size_t j = 0; j < n; ++j) f.L[i][j] = L(i, j);
    const RowMatrix<double>& U = lu.getU();
    CHECK(U.getNumberOfRows() == n && U.getNumberOfColumns() == n, "getU() is " << U.getNumberOfRows() << "x" << U.getNumberOfColumns() << " for a " << n << "x" << n << " matrix");
    f.U.assign(n, vector<double>(n)); for (size_t i = 0; i < n; ++i) for (size_t j = 0; j < n; ++j) f.U[i][j] = U(i, j);
  }
  f.piv = lu.getPivot();
  CHECK(f.piv.size() == n, "getPivot() has " << f.piv.size() << " entries for n=" << n);
  vector<int> seen(n, 0);
  for (size_t i = 0; i < n; ++i) { CHECK(f.piv[i] < n && !seen[f.piv[i]], "getPivot() is not a permutation: entry " << i << " = " << f.piv[i]); seen[f.piv[i]] = 1; }
  {  // parity from the cycle structure
    vector<int> vis(n, 0); size_t cycles = 0;
    for (size_t i = 0; i < n; ++i) if (!vis[i]) { ++cycles; for (size_t j = i; !vis[j]; j = f.piv[j]) vis[j] = 1; }
    f.parity = ((n - cycles) & 1) ? -1 : 1;
    for (size_t i = 0; i < n; ++i) if (f.piv[i] != i) f.exchanged = true;
  }
  for (size_t i = 0; i < n; ++i) for (size_t j = 0; j < n; ++j) {
    CHECK(std::isfinite(f.L[i][j]) && std::isfinite(f.U[i][j]), "non-finite factor entry at (" << i << "," << j << "): L=" << f.L[i][j] << " U=" << f.U[i][j]);
    if (i == j) CHECK(f.L[i][j] == 1.0, "L is not unit lower triangular: L(" << i << "," << j << ")=" << vf::dec(f.L[i][j]));
    if (i < j) CHECK(f.L[i][j] == 0.0, "L is not lower triangular: L(" << i << "," << j << ")=" << vf::dec(f.L[i][j]));
    if (i > j) CHECK(f.U[i][j] == 0.0, "U is not upper triangular: U(" << i << "," << j << ")=" << vf::dec(f.U[i][j]));
  }
  f.W.assign(n, vector<LD>(n, 0));
  for (size_t i = 0; i < n; ++i) for (size_t j = 0; j < n; ++j) {
    LD s = 0, w = 0;
    for (size_t k = 0; k < n; ++k) { LD t = static_cast<LD>(f.L[i][k]) * static_cast<LD>(f.U[k][j]); s += t; w += fabsl(t); }
    f.W[i][j] = w;
    LD r = fabsl(s - static_cast<LD>(a[f.piv[i]][j])), bound = T_FACTOR * static_cast<LD>(n) * EPS * w;
    if (w > 0) c.observe("factor |PA-LU|/(n eps |L||U|)  [limit 4]", static_cast<double>(r / (static_cast<LD>(n) * EPS * w)));
    CHECK(r <= bound, "P.A != L.U at (" << i << "," << j << "): (L.U)=" << vf::dec(static_cast<double>(s)) << " A(piv[" << i << "]=" << f.piv[i] << "," << j << ")=" << vf::dec(a[f.piv[i]][j])
                                        << " |difference|=" << vf::dec(static_cast<double>(r)) << " bound " << vf::dec(static_cast<double>(bound)));
  }
  f.minPiv = std::fabs(f.U[0][0]);
  LD prod = 1;
  for (size_t i = 0; i < n; ++i) { prod *= f.U[i][i]; f.minPiv = std::min(f.minPiv, std::fabs(f.U[i][i])); }
  f.det = lu.det();
  LD want = f.parity * prod, err = fabsl(static_cast<LD>(f.det) - want);
  if (prod != 0) c.observe("|det - sign(piv).prod(U_ii)|/(n eps |prod|)  [limit 4]", static_cast<double>(err / (static_cast<LD>(n) * EPS * fabsl(prod))));
  CHECK(err <= T_DETPROD * static_cast<LD>(n) * EPS * fabsl(prod), "det()=" << vf::dec(f.det) << " but parity(piv)=" << f.parity << " times prod U_ii = " << vf::dec(static_cast<double>(want)));
  return f;
}

void ntRule(vf::Ctx& c, const Fac& f) {
  c.nt(f.exchanged || (f.minPiv >= 1e-9 && f.minPiv <= 1e-3) || f.n >= 3);
  if (f.exchanged) c.label("row_exchange");
  if (f.minPiv < THRESHOLD) c.label("below_threshold"); else c.label("solvable");
  if (f.minPiv >= 1e-9 && f.minPiv <= 1e-3) c.label("pivot_near_threshold");
}

// residual of A.X = B in the row order of the factorisation, against T_SOLVE n eps |L||U||X|
void residualCheck(vf::Ctx& c, const Fac& f, const DM& a, const Matrix<double>& X, const DM& b, const char* who, const char* obs) {
  size_t n = f.n, nb = b.empty() ? 0 : b[0].size();
  CHECK(X.getNumberOfRows() == n && X.getNumberOfColumns() == nb, who << ": result is " << X.getNumberOfRows() << "x" << X.getNumberOfColumns() << ", expected " << n << "x" << nb);
  for (size_t i = 0; i < n; ++i) for (size_t j = 0; j < nb; ++j) {
    size_t r = f.piv[i]; LD s = 0, w = 0;
    for (size_t k = 0; k < n; ++k) { s += static_cast<LD>(a[r][k]) * static_cast<LD>(X(k, j)); w += f.W[i][k] * fabsl(static_cast<LD>(X(k, j))); }
    LD res = fabsl(s - static_cast<LD>(b[r][j])), bound = T_SOLVE * static_cast<LD>(n) * EPS * w;
    if (w > 0 && res == res) c.observe(obs, static_cast<double>(res / (static_cast<LD>(n) * EPS * w)));
    CHECK(res <= bound, who << ": (A.X)(" << r << "," << j << ")=" << vf::dec(static_cast<double>(s)) << " but B(" << r << "," << j << ")=" << vf::dec(b[r][j]) << "; |residual|=" << vf::dec(static_cast<double>(res))
                            << " bound " << vf::dec(static_cast<double>(bound)) << " (min pivot " << vf::dec(f.minPiv) << ")");
  }
}

// solve through the library and check: singularity signal iff min pivot < threshold, indicator, residual
void solveCheck(vf::Ctx& c, const LUDecomposition<double>& lu, const Fac& f, const DM& a, const DM& b, int bk, int xk, int pre) {
  size_t n = f.n, nb = b[0].size();
  auto B = mkFrom(bk, b); auto X = mkOut(xk, pre, n, nb);
  bool expectThrow = f.minPiv < THRESHOLD, threw = false; double ind = 0;
  try { ind = lu.solve(*B, *X); }
  catch (ZeroDivisionException&) { threw = true; }
  CHECK(!(expectThrow && !threw), "solve returned although the smallest pivot " << vf::dec(f.minPiv) << " is below the documented threshold 1e-6");
  CHECK(!(threw && !expectThrow), "solve raised ZeroDivisionException although the smallest pivot is " << vf::dec(f.minPiv) << " >= 1e-6");
  if (threw) return;
  CHECK(ind == f.minPiv, "solve returned indicator " << vf::dec(ind) << " but min |U_ii| = " << vf::dec(f.minPiv));
  residualCheck(c, f, a, *X, b, "solve", "solve |AX-B|/(n eps |L||U||X|)  [limit 8]");
}

// wrong-height right-hand side must be refused
void wrongHeightCheck(vf::Ctx& c, const LUDecomposition<double>& lu, const Fac& f, size_t rows, size_t nb, int bk, int xk) {
  DM b(rows, vector<double>(nb, 1.0));
  auto B = mkFrom(bk, b); auto X = mkOut(xk, 0, f.n, nb);
  bool refused = false;
  try { lu.solve(*B, *X); }
  catch (BadIntegerException&) { refused = true; }
  catch (ZeroDivisionException&) { CHECK(f.minPiv < THRESHOLD, "ZeroDivisionException for a wrong-height right-hand side although min pivot is " << vf::dec(f.minPiv)); refused = true; }
  CHECK(refused, "solve accepted a right-hand side with " << rows << " rows for a " << f.n << "x" << f.n << " matrix");
  (void)c;
}

// |det - exact| bound for an integer matrix (see header)
LD detBound(const DM& m, const LM& absCof, LD exact, const Fac& f) {
  size_t n = f.n; LD tol = 4 * static_cast<LD>(n) * EPS, first = 0, s = 0, h = 1;
  for (size_t i = 0; i < n; ++i) for (size_t j = 0; j < n; ++j) { LD e = tol * f.W[i][j]; first += absCof[f.piv[i]][j] * e; s += e; }
  for (size_t i = 0; i < n; ++i) { LD q = 0; for (double v : m[i]) q += static_cast<LD>(v) * v; h = std::max(h, sqrtl(q)); }
  LD second = n >= 2 ? s * s * powl(h, static_cast<LD>(n) - 2) : 0;
  LD pert = 2 * first + 2 * second;
  return pert + tol * (fabsl(exact) + pert);
}

// library determinant of the integer matrix m (both entry points) against the exact value
void detCheck(vf::Ctx& c, const IM& mi, I128 exact, const IM& cof, int kind, const char* who, bool& exchanged) {
  DM m = toD(mi);
  auto M = mkFrom(kind, m);
  LUDecomposition<double> lu(*M);
  Fac f = factorChecks(c, lu, m);
  exchanged |= f.exchanged;
  LD ex = static_cast<LD>(exact), bound = detBound(m, absLD(cof), ex, f);
  double viaTools = MatrixTools::det(*M);
  for (double d : {f.det, viaTools}) {
    LD err = fabsl(static_cast<LD>(d) - ex);
    if (bound > 0) c.observe("det(integer) |det-exact|/bound  [limit 1]", static_cast<double>(err / bound));
    CHECK(err <= bound, who << ": det = " << vf::dec(d) << " but the exact determinant is " << showI(exact) << " (|error| " << vf::dec(static_cast<double>(err)) << " > bound " << vf::dec(static_cast<double>(bound)) << ")");
  }
}

}  // namespace

// ------------------------------------------------------------------ L0 small matrices, exhaustively
LAW(L0_small_enum, ENUM, 4, 4, 0, "a row exchange happened, or n = 3") {
  size_t n = 1 + c.below(3);
  IM ai(n, vector<I128>(n));
  for (size_t i = 0; i < n; ++i) for (size_t j = 0; j < n; ++j) {
    ai[i][j] = n == 3 ? c.zig(1) : c.zig(2);
    if (i == 0 && j + 1 == n) { DM pre(1); for (I128 v : ai[0]) pre[0].push_back(static_cast<double>(v)); c.desc << "n=" << n << " row0=" << show(pre); c.shardPoint(); c.desc.str(""); }
  }
  DM a = toD(ai);
  c.desc << "A=" << show(a) << " B=columns (1,2,3),(1,0,-1) cut to n";
  RowMatrix<double> A(n, n); for (size_t i = 0; i < n; ++i) for (size_t j = 0; j < n; ++j) A(i, j) = a[i][j];
  LUDecomposition<double> lu(A);
  Fac f = factorChecks(c, lu, a);
  c.nt(f.exchanged || n >= 3);
  if (f.exchanged) c.label("row_exchange");
  I128 exact = bareiss(ai); IM cof = cofactors(ai);
  LD bound = detBound(a, absLD(cof), static_cast<LD>(exact), f);
  CHECK(fabsl(static_cast<LD>(f.det) - static_cast<LD>(exact)) <= bound, "det = " << vf::dec(f.det) << " but the exact determinant is " << showI(exact));
  CHECK(MatrixTools::det(A) == f.det || fabsl(static_cast<LD>(MatrixTools::det(A)) - static_cast<LD>(exact)) <= bound, "MatrixTools::det = " << vf::dec(MatrixTools::det(A)) << ", exact " << showI(exact));
  // exact singularity: these matrices factor without rounding that matters (|entries| <= 2): exact det 0 <=> a zero pivot
  if (exact == 0) CHECK(f.minPiv < THRESHOLD, "exactly singular matrix but smallest pivot " << vf::dec(f.minPiv));
  DM b(n, vector<double>(2)); for (size_t i = 0; i < n; ++i) { b[i][0] = static_cast<double>(i + 1); b[i][1] = 1.0 - static_cast<double>(i); }
  solveCheck(c, lu, f, a, b, 0, 0, 0);
  // inverse
  RowMatrix<double> O; bool threw = false; double ind = 0;
  try { ind = MatrixTools::inv(A, O); } catch (ZeroDivisionException&) { threw = true; }
  CHECK(threw == (f.minPiv < THRESHOLD), "inv: ZeroDivisionException " << (threw ? "raised" : "not raised") << " with smallest pivot " << vf::dec(f.minPiv));
  if (!threw) {
    CHECK(ind == f.minPiv, "inv returned indicator " << vf::dec(ind) << " but min |U_ii| = " << vf::dec(f.minPiv));
    DM id(n, vector<double>(n, 0.0)); for (size_t i = 0; i < n; ++i) id[i][i] = 1;
    residualCheck(c, f, a, O, id, "inv", "inv |A.inv-I|/(n eps |L||U||inv|)  [limit 8]");
  }
}

// ------------------------------------------------------------------ L1 factorisation + solve, all generators, all storage classes
LAW(L1_factor_solve, RC, 40000, 1000000, 420, "a row exchange happened, or min pivot within [1e-9,1e-3], or n >= 3") {
  Case k = genCase(c);
  size_t n = k.n;
  int ak = static_cast<int>(c.below(3)), bk = static_cast<int>(c.below(3)), xk = static_cast<int>(c.below(3)), pre = static_cast<int>(c.below(3));
  size_t nb = static_cast<size_t>(c.irange(1, 4));
  DM b = genRhs(c, n, nb);
  size_t wrongRows = c.pick({n + 1, n + 2, 2 * n, n > 1 ? n - 1 : n + 3});
  c.desc << k.what << " n=" << n << " A(" << KIND[ak] << ")=" << show(k.a) << " B(" << KIND[bk] << ")=" << show(b) << " X(" << KIND[xk] << ",pre=" << pre << ") wrongRows=" << wrongRows;
  auto A = mkFrom(ak, k.a);
  LUDecomposition<double> lu(*A);
  Fac f = factorChecks(c, lu, k.a);
  ntRule(c, f);
  solveCheck(c, lu, f, k.a, b, bk, xk, pre);
  wrongHeightCheck(c, lu, f, wrongRows, nb, bk, xk);
  // the decomposition object is not disturbed by solving: a second solve gives the same answer
  if (f.minPiv >= THRESHOLD) {
    RowMatrix<double> X1, X2; auto B = mkFrom(0, b);
    lu.solve(*B, X1); lu.solve(*B, X2);
    for (size_t i = 0; i < n; ++i) for (size_t j = 0; j < nb; ++j) CHECK(vf::sameBits(X1(i, j), X2(i, j)), "two solves of the same system differ at (" << i << "," << j << ")");
  }
}

// ------------------------------------------------------------------ L2 inverse
LAW(L2_inverse, RC, 20000, 500000, 400, "a row exchange happened, or min pivot within [1e-9,1e-3], or n >= 3") {
  Case k = genCase(c);
  size_t n = k.n;
  int ak = static_cast<int>(c.below(3)), ok = static_cast<int>(c.below(3)), pre = static_cast<int>(c.below(3));
  c.desc << k.what << " n=" << n << " A(" << KIND[ak] << ")=" << show(k.a) << " inverse into " << KIND[ok] << ",pre=" << pre;
  auto A = mkFrom(ak, k.a);
  LUDecomposition<double> lu(*A);
  Fac f = factorChecks(c, lu, k.a);
  ntRule(c, f);
  auto O = mkOut(ok, pre, n, n);
  bool expectThrow = f.minPiv < THRESHOLD, threw = false; double ind = 0;
  try { ind = MatrixTools::inv(*A, *O); }
  catch (ZeroDivisionException&) { threw = true; }
  CHECK(!(expectThrow && !threw), "inv returned although the smallest pivot " << vf::dec(f.minPiv) << " is below the documented threshold 1e-6");
  CHECK(!(threw && !expectThrow), "inv raised ZeroDivisionException although the smallest pivot is " << vf::dec(f.minPiv) << " >= 1e-6");
  if (threw) return;
  CHECK(ind == f.minPiv, "inv returned indicator " << vf::dec(ind) << " but min |U_ii| = " << vf::dec(f.minPiv));
  DM id(n, vector<double>(n, 0.0)); for (size_t i = 0; i < n; ++i) id[i][i] = 1;
  residualCheck(c, f, k.a, *O, id, "inv", "inv |A.inv-I|/(n eps |L||U||inv|)  [limit 8]");
  // the operand is untouched
  for (size_t i = 0; i < n; ++i) for (size_t j = 0; j < n; ++j) CHECK(vf::sameBits((*A)(i, j), k.a[i][j]), "inv modified its input at (" << i << "," << j << ")");
}

// ------------------------------------------------------------------ L3 determinant of integer matrices: exact value, transpose, product
LAW(L3_det_exact, RC, 12000, 300000, 440, "a row exchange happened, or n >= 3") {
  size_t n = static_cast<size_t>(c.irange(1, 10));
  int subA = static_cast<int>(c.weighted({4, 2, 1, 2, 2, 2})), subB = static_cast<int>(c.weighted({4, 2, 1, 2, 2, 1}));
  IM A = genInt(c, n, subA), B = genInt(c, n, subB);
  int kind = static_cast<int>(c.below(3));
  c.desc << "n=" << n << " " << KIND[kind] << " A(int-" << INTSUB[subA] << ")=" << show(toD(A)) << " B(int-" << INTSUB[subB] << ")=" << show(toD(B));
  I128 dA = bareiss(A), dB = bareiss(B);
  IM cA = cofactors(A), cB = cofactors(B);
  {  // the reference checks itself: Laplace expansion along row 0, and against a foreign row
    I128 s = 0, z = 0; for (size_t j = 0; j < n; ++j) { s += A[0][j] * cA[0][j]; if (n > 1) z += A[1][j] * cA[0][j]; }
    CHECK(s == dA && z == 0, "internal: Bareiss determinant " << showI(dA) << " disagrees with the cofactor expansion " << showI(s));
  }
  bool exch = false;
  detCheck(c, A, dA, cA, kind, "det(A)", exch);
  detCheck(c, transposeI(A), dA, transposeI(cA), kind, "det(transpose A)", exch);
  detCheck(c, B, dB, cB, kind, "det(B)", exch);
  detCheck(c, mulI(A, B), dA * dB, mulI(cA, cB), kind, "det(A.B) vs det(A).det(B)", exch);
  c.nt(exch || n >= 3);
  if (dA == 0) c.label("singular_A");
}

// ------------------------------------------------------------------ L4 determinant of matrices with prescribed singular values
LAW(L4_det_svd, RC, 15000, 400000, 260, "a row exchange happened, or min pivot within [1e-9,1e-3], or n >= 3") {
  Case k = genCase(c, 1);
  size_t n = k.n; int kind = static_cast<int>(c.below(3));
  c.desc << k.what << " n=" << n << " A(" << KIND[kind] << ")=" << show(k.a);
  auto A = mkFrom(kind, k.a);
  LUDecomposition<double> lu(*A);
  Fac f = factorChecks(c, lu, k.a);
  ntRule(c, f);
  LD ps = 1; for (double s : k.sigma) ps *= s;
  LD want = (k.nrefl & 1) ? -ps : ps;
  LD tol = T_DETSVD * static_cast<LD>(n) * static_cast<LD>(n) * EPS * k.kappa * ps;
  for (double d : {f.det, MatrixTools::det(*A)}) {
    LD err = fabsl(static_cast<LD>(d) - want);
    c.observe("det(svd) |det -+ prod sigma|/(n^2 eps kappa prod sigma)  [limit 8]", static_cast<double>(err / (static_cast<LD>(n) * static_cast<LD>(n) * EPS * k.kappa * ps)));
    CHECK(err <= tol, "det = " << vf::dec(d) << " but (-1)^reflections . prod sigma = " << vf::dec(static_cast<double>(want)) << " (|error| " << vf::dec(static_cast<double>(err)) << " > " << vf::dec(static_cast<double>(tol)) << ")");
  }
  // transpose
  DM at(n, vector<double>(n)); for (size_t i = 0; i < n; ++i) for (size_t j = 0; j < n; ++j) at[j][i] = k.a[i][j];
  auto AT = mkFrom(kind, at);
  double dt = MatrixTools::det(*AT);
  CHECK(fabsl(static_cast<LD>(dt) - want) <= tol, "det(transpose A) = " << vf::dec(dt) << " but det(A) should be " << vf::dec(static_cast<double>(want)));
}

// ------------------------------------------------------------------ L5 the singularity threshold on matrices that factor exactly
// A = row permutation of an upper triangular T with non-zero diagonal: every elimination multiplier is 0, so U = T
// exactly and the pivots are the t_ii; the expectation is derived from T, not from what the library reports.
LAW(L5_threshold_exact, RC, 15000, 400000, 200, "a diagonal entry within 2 ulp of 1e-6, or a row exchange") {
  size_t n = static_cast<size_t>(c.irange(1, 10));
  DM T(n, vector<double>(n, 0.0)); bool atEdge = false;
  bool ints = !c.flag();
  size_t special = c.below(n);  // one diagonal entry is placed at / around the threshold, the others mostly well above it
  for (size_t i = 0; i < n; ++i) for (size_t j = i; j < n; ++j) {
    if (i != j) { T[i][j] = ints ? static_cast<double>(c.zig(9)) : c.real(-2, 2); continue; }
    double d;
    if (i == special) {
      switch (c.weighted({4, 2, 2, 1})) {
        case 0: d = vf::ulpStep(1e-6, static_cast<int>(c.zig(2))); atEdge = true; break;
        case 1: d = c.pick({9.9999999e-7, 5e-7, 1e-7, 1e-9, 1e-12}); break;
        case 2: d = c.pick({1.0000001e-6, 2e-6, 1e-5, 1e-3, 1.0}); break;
        default: d = c.logu(1e-8, 1e-4);
      }
    } else if (c.oneIn(12)) d = c.logu(1e-8, 1e-4);
    else d = c.pick({1.0, 2.0, 0.5, 3.0, 1e-3, 1e-5, 2e-6, 1.0000001e-6});
    T[i][j] = c.flag() ? -d : d;
  }
  int sg; vector<size_t> p = genPerm(c, n, sg);
  DM a(n); for (size_t i = 0; i < n; ++i) a[i] = T[p[i]];
  int ak = static_cast<int>(c.below(3)), bk = static_cast<int>(c.below(3)), xk = static_cast<int>(c.below(3));
  size_t nb = static_cast<size_t>(c.irange(1, 4));
  DM b = genRhs(c, n, nb);
  c.desc << "perm-upper n=" << n << " T=" << show(T) << " rows";
  for (size_t i = 0; i < n; ++i) c.desc << " " << p[i];
  c.desc << " A(" << KIND[ak] << ") B(" << KIND[bk] << ")=" << show(b) << " X(" << KIND[xk] << ")";
  auto A = mkFrom(ak, a);
  LUDecomposition<double> lu(*A);
  Fac f = factorChecks(c, lu, a);
  c.nt(atEdge || f.exchanged);
  if (atEdge) c.label("diag_within_2ulp_of_threshold");
  double minT = std::fabs(T[0][0]); LD prod = 1;
  for (size_t i = 0; i < n; ++i) { minT = std::min(minT, std::fabs(T[i][i])); prod *= T[i][i]; }
  for (size_t i = 0; i < n; ++i) for (size_t j = 0; j < n; ++j) CHECK(f.U[i][j] == T[i][j] && f.L[i][j] == (i == j ? 1.0 : 0.0), "a permuted triangular matrix must factor exactly: U(" << i << "," << j << ")=" << vf::dec(f.U[i][j]) << " T=" << vf::dec(T[i][j]) << " L=" << vf::dec(f.L[i][j]));
  CHECK(f.parity == sg, "parity of the pivot vector " << f.parity << " differs from the sign of the row permutation " << sg);
  LD want = sg * prod;
  CHECK(fabsl(static_cast<LD>(f.det) - want) <= T_DETPROD * static_cast<LD>(n) * EPS * fabsl(want) && (f.det > 0) == (want > 0), "det = " << vf::dec(f.det) << " but sign(perm).prod t_ii = " << vf::dec(static_cast<double>(want)));
  if (minT < THRESHOLD) c.label("below_threshold"); else c.label("solvable");
  // solve and inverse: singularity signal iff min |t_ii| < 1e-6
  {
    auto B = mkFrom(bk, b); auto X = mkOut(xk, 0, n, nb); bool threw = false; double ind = 0;
    try { ind = lu.solve(*B, *X); } catch (ZeroDivisionException&) { threw = true; }
    CHECK(threw == (minT < THRESHOLD), "solve " << (threw ? "raised ZeroDivisionException" : "returned") << " but the smallest pivot is exactly " << vf::hexd(minT) << " = " << vf::dec(minT) << " (threshold 1e-6 = " << vf::hexd(1e-6) << ")");
    if (!threw) { CHECK(ind == minT, "indicator " << vf::dec(ind) << " != smallest pivot " << vf::dec(minT)); residualCheck(c, f, a, *X, b, "solve", "solve |AX-B|/(n eps |L||U||X|)  [limit 8]"); }
  }
  {
    auto O = mkOut(xk, 0, n, n); bool threw = false; double ind = 0;
    try { ind = MatrixTools::inv(*A, *O); } catch (ZeroDivisionException&) { threw = true; }
    CHECK(threw == (minT < THRESHOLD), "inv " << (threw ? "raised ZeroDivisionException" : "returned") << " but the smallest pivot is exactly " << vf::dec(minT));
    if (!threw) {
      CHECK(ind == minT, "inv indicator " << vf::dec(ind) << " != smallest pivot " << vf::dec(minT));
      DM id(n, vector<double>(n, 0.0)); for (size_t i = 0; i < n; ++i) id[i][i] = 1;
      residualCheck(c, f, a, *O, id, "inv", "inv |A.inv-I|/(n eps |L||U||inv|)  [limit 8]");
    }
  }
}

static struct Init { Init() { vf::G().resetHook = [] { vf::quietBpp(); vf::installAudit(); }; } } init_;
VF_MAIN("C05")
