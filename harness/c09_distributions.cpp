// C09 — a discretised distribution is always a valid partition of its continuous parent (DESIGN.md section 5/C09).
//
// Laws
//   L1_fresh_enum        exhaustive: family x K=1..32 x scheme x median x 4 parameter presets, all invariants after construction
//   L2_history           continuous families: construction + history of <= 12 ops, all invariants after every op
//   L3_parent_functions  pProb / qProb / Expectation of the parent: external reference, monotone, inverse, derivative relation
//   L4_lookup            one value lookup (getValueCategory / getCategoryIndex) per case  (carries the known lookup finding)
//   L5_simple_constant   user-specified and constant distributions: construction + history, classes from values and weights
//   L6_invariant_mixed   invariant class + nested continuous distribution: normalisation, merged classes, history
//   L7_mixture           mixture of 2-3 continuous distributions: normalisation, merged classes, cdf, history
//   L8_exponential_tail  an exponential whose restricted domain is left with 1e-3 .. 1e-43 of the mass: the update returns
//                        and leaves K finite class values (carries the known NaN / hang finding)
// Several live objects (L2, L5, L6, L7): what a clone / an assignment leaves behind (the original or the copy) and the component
// objects handed to the Mixture constructor are kept alive; after every step they must be bit-identical to what they were
// (classes, bounds, domain, parameters): the state of a distribution is a function of its own history. L2 also goes on with
// the object left behind ("continue with #n") and checks all invariants on it.
// The first draw of L1, L2, L5, L6, L7 switches the value lookups after every step on (0 = off), so that a failure that is
// not about lookups shrinks to a case without them.
//
// Reference: Boost.Math 1.83 in long double (common/c09_ref.hpp), written from the definitions; it never calls the library.
// Readings chosen where the statement leaves a choice (weakest documented reading, DESIGN section 3 rule 2):
//   * a point exactly on a class bound may be looked up as either adjacent class;
//   * getCategoryIndex is 0-based, i.e. getCategory(getCategoryIndex(x)) is the value of the class containing x
//     (the header documents both as "index of the category" / "Class index");
//   * lookups off the domain raise bpp::Exception (the header names an exception class that does not exist any more);
//   * class values may differ from the class mean by 2(K+1)*precision(): the class documents that values closer than its
//     precision are separated and that values at an open end of the domain are moved inward by the precision (its comparator
//     may still take two values exactly one precision apart for identical: the free slots are then two precisions apart);
//     a class whose mean cannot be told from a bound takes the documented midpoint;
//   * with median-valued classes the values are "proportional to the median value of the class, the proportionality factor
//     being such that the sum of the values equals the expectation" (DiscreteDistribution.h): the law checks exactly that
//     (v_k = c*median_k, sum p_k v_k = parent mean) and containment of v_k/c, not of v_k, in the class interval;
//   * the masses are only compared where every quantile argument lies in [1e-5, 1-1e-5] (working range of the quantile
//     functions, C08) and the domain carries at least 1e-3 of the parent's mass; other states are only exercised
//     (label "irregular"); the laws do not lead there: a history ends before an operation that would (label "stopped_...");
//   * scheme "equal probabilities when possible" (the dispatch with its fall-back is part of the property's mechanism): the
//     object either keeps equal probabilities and then no class is an empty interval (consecutive bounds, the ends of the
//     domain included, are distinguishable), or has fallen back to equal intervals and then two of the equal-probability
//     bounds (quantiles of lower + i*mass/K computed as the class computes them) do coincide. The plain equal-probability
//     scheme has no alternative: there a class squeezed against an end of the domain is judged in bracket form only;
//   * the Uniform constructor orders its two arguments itself (min_/max_): either order is an accepted construction of the
//     distribution on [min(a,b), max(a,b)];
//   * a compound's own interval structure (InvariantMixed) is only checked while the nested classes are mean-valued: scaled
//     medians may leave their intervals and the compound's bounds are built from those values;
//   * the cdf of a mixture is compared where every component's cdf is defined (intersection of the components' domains).
// Not generated: restrictions of compounds that contain a TruncatedExponential (its truncation point parameter is copied
// into the compound with the unrestricted constraint), coinciding values in a Simple distribution (separated artificially),
// class-count changes of Simple / Constant (their count is their number of values).
#include "common/c09_ref.hpp"
#include "common/pbt.hpp"
#include "common/bppcommon.hpp"

#include <Bpp/Exceptions.h>
#include <Bpp/Numeric/Prob/ConstantDistribution.h>
#include <Bpp/Numeric/Prob/InvariantMixedDiscreteDistribution.h>
#include <Bpp/Numeric/Prob/MixtureOfDiscreteDistributions.h>
#include <Bpp/Numeric/Prob/SimpleDiscreteDistribution.h>

using namespace bpp;
using namespace std;
using namespace c09;

namespace {

const short SCH_EQPROB = 1, SCH_EQINT = 2, SCH_WHENPOSSIBLE = 3;
const double MASS_MIN = 1e-3, U_MARGIN = 1e-5;
// Beta shapes cover the whole quantifier (>= 0.1). The design probe had seen class-mass errors up to 4e-4 for shapes below
// 0.3 and suspected the beta quantile (claimed by C08 for shapes >= 0.3 only); they were an artefact of comparing
// F(bound) with its target where the bound lies within an ulp of 1: with the bracket form of the comparison (see
// bracketed()) 24000 Beta histories with half of the shapes in [0.1, 0.3) stay below 1.3e-3 of the class-mass tolerance.
const double BETA_SHAPE_MIN = 0.1;

// ------------------------------------------------------------------ small utilities
bool refAccepts(const IntervalConstraint& ic, double v) {
  double lo = ic.getLowerBound(), hi = ic.getUpperBound();
  return (ic.strictLowerBound() ? v > lo : v >= lo) && (ic.strictUpperBound() ? v < hi : v <= hi);
}
bool constraintAccepts(const Parameter& p, double v) {
  if (!p.hasConstraint()) return true;
  auto ic = dynamic_pointer_cast<const IntervalConstraint>(p.getConstraint());
  return ic ? refAccepts(*ic, v) : p.getConstraint()->isCorrect(v);
}
double precisionOf(const DDI& d) { return dynamic_cast<const AbstractDiscreteDistribution&>(d).precision(); }

struct Obs {
  size_t K = 0; Vdouble v, p, b; double lo = 0, hi = 0; bool slo = false, shi = false; vector<pair<string, double>> par;
};
Obs observeD(const DDI& d) {
  Obs o; o.K = d.getNumberOfCategories(); o.v = d.getCategories(); o.p = d.getProbabilities(); o.b = d.getBounds();
  o.lo = d.getLowerBound(); o.hi = d.getUpperBound(); o.slo = d.strictLowerBound(); o.shi = d.strictUpperBound();
  const ParameterList& pl = d.getParameters();
  for (size_t i = 0; i < pl.size(); ++i) o.par.push_back({pl[i].getName(), pl[i].getValue()});
  return o;
}
bool sameVec(const Vdouble& a, const Vdouble& b) {
  if (a.size() != b.size()) return false;
  for (size_t i = 0; i < a.size(); ++i) if (!vf::sameBits(a[i], b[i])) return false;
  return true;
}
string diffObs(const Obs& a, const Obs& b) {  // "" when identical
  if (a.K != b.K) return "number of classes";
  if (!sameVec(a.v, b.v)) return "class values";
  if (!sameVec(a.p, b.p)) return "class probabilities";
  if (!sameVec(a.b, b.b)) return "bounds";
  if (!vf::sameBits(a.lo, b.lo) || !vf::sameBits(a.hi, b.hi) || a.slo != b.slo || a.shi != b.shi) return "domain";
  if (a.par.size() != b.par.size()) return "number of parameters";
  for (size_t i = 0; i < a.par.size(); ++i) if (a.par[i].first != b.par[i].first || !vf::sameBits(a.par[i].second, b.par[i].second)) return "parameter " + a.par[i].first;
  return "";
}
string showVec(const Vdouble& v) { string s = "("; for (size_t i = 0; i < v.size(); ++i) { if (i) s += " "; s += vf::dec(v[i]); } return s + ")"; }

// every parameter of the object satisfies its own constraint (reference predicate) + the run-time monitor
void auditParams(const DDI& d, const string& where) {
  const ParameterList& pl = d.getParameters();
  for (size_t i = 0; i < pl.size(); ++i) {
    const Parameter& p = pl[i];
    CHECK(constraintAccepts(p, p.getValue()), where << ": parameter " << p.getName() << " holds " << vf::dec(p.getValue()) << " which its constraint " << (p.hasConstraint() ? p.getConstraint()->getDescription() : string("-")) << " rejects");
  }
  CHECK(vf::auditOffences() == 0, where << ": run-time monitor: " << vf::auditFirst());
}

// ------------------------------------------------------------------ generators
double genPos(vf::Ctx& c) {  // log-uniform over the 3 decades [0.1, 100]; simple values first
  static const double nice[] = {1, 2, 0.5, 4, 0.25, 10, 0.1, 100, 3, 0.3};
  if (c.weighted({2, 3}) == 0) return nice[c.below(10)];
  return c.logu(0.1, 100);
}
double genLoc(vf::Ctx& c) {  // location: 0, +-nice, +-log-uniform
  switch (c.weighted({2, 2, 3})) {
    case 0: return 0.0;
    case 1: return static_cast<double>(c.zig(10));
    default: { double x = c.logu(0.1, 100); return c.flag() ? -x : x; }
  }
}
// Beta shapes: besides the body of the range, its two edges (the corners of the shape box pile the mass against an end of
// [0,1]: with many classes the outer quantiles cannot be told from that end and the outer classes degenerate)
double genShapeBeta(vf::Ctx& c) {
  switch (c.weighted({5, 1, 1})) {
    case 1: return c.flag() ? c.logu(BETA_SHAPE_MIN, 1.1 * BETA_SHAPE_MIN) : BETA_SHAPE_MIN;
    case 2: return c.flag() ? c.logu(10, 100) : c.pick({100.0, 30.0, 50.0});
    default: { double x = genPos(c); return x < BETA_SHAPE_MIN ? BETA_SHAPE_MIN : x; }
  }
}

CP genCP(vf::Ctx& c, Fam f) {
  CP q; q.f = f;
  switch (f) {
    case F_EXPO: q.a = genPos(c); break;
    case F_UNIF: {  // (one draw: bit 0 = real-valued lower end, bit 1 = the ends are handed over in decreasing order)
      unsigned u = static_cast<unsigned>(c.below(4));
      q.a = (u & 1) ? c.real(-10, 10) : static_cast<double>(c.zig(10)); q.b = q.a + genPos(c); q.rev = (u & 2) != 0; break; }
    case F_GAUSS: q.a = genLoc(c); q.b = genPos(c); break;
    case F_GAMMA:
      q.a = genPos(c); q.b = genPos(c);
      switch (c.weighted({4, 2, 2, 1})) {
        case 0: q.hasOff = false; q.off = 0; break;
        case 1: q.hasOff = true; q.off = 0; break;
        case 2: q.hasOff = true; q.off = c.flag() ? static_cast<double>(c.zig(5)) : c.real(-10, 10); break;
        default: q.hasOff = false; q.off = static_cast<double>(c.zig(5)); break;
      }
      break;
    case F_TEXP: q.a = genPos(c); q.b = genPos(c); break;
    case F_BETA: q.a = genShapeBeta(c); q.b = genShapeBeta(c); break;
    default: break;
  }
  return q;
}
Fam genFam(vf::Ctx& c) { return static_cast<Fam>(c.below(NFAM)); }
size_t genK(vf::Ctx& c) {  // small counts, the whole range, the upper edge of the range
  switch (c.weighted({3, 2, 1})) { case 0: return static_cast<size_t>(c.irange(1, 8)); case 1: return static_cast<size_t>(c.irange(1, 32)); default: return static_cast<size_t>(c.irange(25, 32)); }
}
short genScheme(vf::Ctx& c, Fam f) { return f == F_BETA ? static_cast<short>(1 + c.below(3)) : SCH_EQPROB; }

// a new value for parameter `which` of q; *bad: the value is meant to be rejected by the natural constraint
double genParamValue(vf::Ctx& c, const CP& q, int which, bool wantBad, bool* bad) {
  *bad = false;
  bool location = (q.f == F_GAUSS && which == 0) || (q.f == F_GAMMA && which == 2);
  if (location) {
    switch (c.weighted({3, 2, 1})) {
      case 0: return field(q, which) + static_cast<double>(c.zig(4));
      case 1: return genLoc(c);
      default: return field(q, which) + c.real(-1, 1);
    }
  }
  if (wantBad) {
    *bad = true;
    switch (q.f) {
      case F_GAMMA: return c.pick({0.01, -1.0, 0.0, 0.049});       // [0.05, inf[
      case F_BETA: return c.pick({0.00005, -2.0, 0.0});            // [0.0001, inf[
      case F_GAUSS: return c.pick({0.0, -1.0});                    // sigma in ]0, inf[
      default: return c.pick({-1.0, -1e-9});                        // lambda, tp in [0, inf[
    }
  }
  double cur = field(q, which), x;
  if (c.weighted({3, 2}) == 0) { x = cur * c.pick({2.0, 0.5, 1.25, 0.8, 1.0 + 1e-9}); }
  else x = q.f == F_BETA ? genShapeBeta(c) : genPos(c);
  double lo = q.f == F_BETA ? BETA_SHAPE_MIN : 0.1;
  if (x < lo) x = lo;
  if (x > 100) x = 100;
  return x;
}

// ------------------------------------------------------------------ the invariants of one continuous-family object
struct Model { CP q; size_t K = 1; bool median = false; short scheme = SCH_EQPROB; };
string showModel(const Model& m) {
  ostringstream os; os << show(m.q) << " K=" << m.K << (m.scheme == SCH_EQPROB ? "" : m.scheme == SCH_EQINT ? " equal-intervals" : " equal-prob-when-possible") << (m.median ? " median" : "");
  return os.str();
}

struct CheckOpt { bool lookups = true; double lookT = 0.5; bool domainEndsRaise = true; };

// value lookups on an arbitrary distribution whose observables are o (shared with the compound laws)
// `full` = false while the known lookup finding is active: only the lookups that finding does not affect are made.
void checkLookups(vf::Ctx& c, const DDI& d, const Obs& o, double slack, const CheckOpt& opt, const string& where) {
  const bool known = c.isKnown("C09-lookup-off-by-one");
  size_t K = o.v.size();
  auto classesContaining = [&](double x, size_t& first, size_t& last) {  // closed intervals
    first = K; last = 0;
    for (size_t k = 0; k < K; ++k) if (o.b[k] <= x && x <= o.b[k + 1]) { if (first == K) first = k; last = k; }
  };
  auto look = [&](double x, const char* what) {
    size_t f, l; classesContaining(x, f, l);
    if (f == K) return;
    if ((x == o.lo && o.slo) || (x == o.hi && o.shi)) return;   // an interior bound that equals an open end of the domain is off the domain
    // value lookup: the defect returns class j-1 for a point of class j >= 1
    if (!known || l == 0) {
      double got = d.getValueCategory(x);
      bool ok = false; for (size_t k = f; k <= l; ++k) if (vf::sameBits(got, o.v[k])) ok = true;
      CHECK(ok, where << ": getValueCategory(" << vf::dec(x) << ") [" << what << "] = " << vf::dec(got) << " but the point lies in class " << f << " = [" << vf::dec(o.b[f]) << ";" << vf::dec(o.b[f + 1]) << "] whose value is " << vf::dec(o.v[f]) << "; values " << showVec(o.v) << " bounds " << showVec(o.b));
    }
    // index lookup: the defect is right for points of class 1 only
    if (!known || (f == 1 && l == 1 && K >= 3)) {
      size_t gi = d.getCategoryIndex(x);
      CHECK(gi >= f && gi <= l, where << ": getCategoryIndex(" << vf::dec(x) << ") [" << what << "] = " << gi << " but the point lies in class " << f << " (0-based, as getCategory(i)); bounds " << showVec(o.b));
    }
  };
  for (size_t k = 0; k < K; ++k) {
    double w = o.b[k + 1] - o.b[k];
    if (!(w > 8 * slack)) continue;  // lookup points stay away from the bounds by more than the documented separation
    double x = o.b[k] + w * 0.5; if (x > o.b[k] + 2 * slack && x < o.b[k + 1] - 2 * slack) look(x, "middle of a class");
    x = o.b[k] + w * opt.lookT; if (x > o.b[k] + 2 * slack && x < o.b[k + 1] - 2 * slack) look(x, "inside a class");
  }
  for (size_t k = 1; k < K; ++k) look(o.b[k], "on an interior bound");
  if (opt.domainEndsRaise) {
    auto mustRaise = [&](double x, const char* what) {
      bool r1 = false, r2 = false;
      try { d.getValueCategory(x); } catch (Exception&) { r1 = true; }
      try { d.getCategoryIndex(x); } catch (Exception&) { r2 = true; }
      CHECK(r1 && r2, where << ": lookup of " << vf::dec(x) << " (" << what << ") must raise: getValueCategory " << (r1 ? "raised" : "returned") << ", getCategoryIndex " << (r2 ? "raised" : "returned") << "; domain " << (o.slo ? "]" : "[") << vf::dec(o.lo) << ";" << vf::dec(o.hi) << (o.shi ? "[" : "]"));
    };
    mustRaise(o.lo - std::max(1.0, std::abs(o.lo)) * 1e-3, "below the domain");
    mustRaise(o.hi + std::max(1.0, std::abs(o.hi)) * 1e-3, "above the domain");
    if (o.slo) mustRaise(o.lo, "open lower end of the domain"); else if (o.lo < o.hi) look(o.lo, "closed lower end of the domain");
    if (o.shi) mustRaise(o.hi, "open upper end of the domain"); else if (o.lo < o.hi) look(o.hi, "closed upper end of the domain");
  }
}

// structural invariants shared by every kind of distribution; returns the observables
Obs checkStructure(const DDI& d, size_t wantK, double slack, double sumTol, bool valuesInsideIntervals, const string& where, bool boundsOrdered = true) {
  CHECK(d.getNumberOfCategories() == wantK, where << ": getNumberOfCategories() = " << d.getNumberOfCategories() << ", expected " << wantK);
  Obs o = observeD(d);
  size_t K = wantK;
  CHECK(o.v.size() == K && o.p.size() == K, where << ": " << K << " classes expected, getCategories() has " << o.v.size() << " and getProbabilities() " << o.p.size() << " entries; values " << showVec(o.v));
  LD s = 0;
  for (size_t k = 0; k < K; ++k) { CHECK(o.p[k] >= 0 && o.p[k] <= 1 + 1e-12, where << ": probability of class " << k << " is " << vf::dec(o.p[k])); s += o.p[k]; }
  CHECK(std::abs(static_cast<double>(s - 1)) <= sumTol, where << ": probabilities sum to " << vf::dec(static_cast<double>(s)) << " (1 expected within " << sumTol << "): " << showVec(o.p));
  for (size_t k = 0; k < K; ++k) CHECK(std::isfinite(o.v[k]), where << ": class value " << k << " is " << o.v[k]);
  for (size_t k = 0; k + 1 < K; ++k) CHECK(o.v[k] < o.v[k + 1], where << ": class values are not strictly increasing at " << k << ": " << showVec(o.v));
  for (size_t k = 0; k < K; ++k) CHECK(vf::sameBits(d.getCategory(k), o.v[k]) && vf::sameBits(d.getProbability(k), o.p[k]) && vf::sameBits(d.getProbability(o.v[k]), o.p[k]), where << ": getCategory/getProbability(" << k << ") disagree with getCategories/getProbabilities");
  CHECK(o.b.size() == K + 1, where << ": getBounds() has " << o.b.size() << " entries for " << K << " classes");
  CHECK(vf::sameBits(o.b[0], o.lo) && vf::sameBits(o.b[K], o.hi), where << ": first/last bound " << vf::dec(o.b[0]) << "/" << vf::dec(o.b[K]) << " differ from getLowerBound/getUpperBound " << vf::dec(o.lo) << "/" << vf::dec(o.hi));
  for (size_t k = 0; k <= K; ++k) CHECK(!std::isnan(o.b[k]), where << ": bound " << k << " is NaN");
  if (boundsOrdered) for (size_t k = 0; k < K; ++k) CHECK(o.b[k] <= o.b[k + 1] + slack, where << ": bounds decrease at " << k << ": " << showVec(o.b));
  for (size_t i = 0; i + 1 < K; ++i) CHECK(vf::sameBits(d.getBound(i), o.b[i + 1]), where << ": getBound(" << i << ") differs from getBounds()[" << i + 1 << "]");
  bool raised = false;
  try { d.getBound(K - 1); } catch (IndexOutOfBoundsException&) { raised = true; }
  CHECK(raised, where << ": getBound(" << K - 1 << ") past the last interior bound did not raise IndexOutOfBoundsException");
  if (valuesInsideIntervals)
    // (the separation of coinciding values ends at the next representable numbers when the precision is below an ulp: Beta)
    for (size_t k = 0; k < K; ++k) CHECK(o.v[k] >= o.b[k] - slack - (K + 1) * 4 * EPS * std::abs(o.v[k]) && o.v[k] <= o.b[k + 1] + slack + (K + 1) * 4 * EPS * std::abs(o.v[k]), where << ": value " << vf::dec(o.v[k]) << " of class " << k << " lies outside its interval [" << vf::dec(o.b[k]) << ";" << vf::dec(o.b[k + 1]) << "]; values " << showVec(o.v) << " bounds " << showVec(o.b));
  // cumulative class queries against the partial sums of the class probabilities
  LD below = 0;
  for (size_t k = 0; k < K; ++k) {
    LD upto = below + o.p[k], above = s - upto, from = s - below;
    double t = 4 * K * EPS + std::abs(static_cast<double>(s - 1));
    double gi = d.getInfCumulativeProbability(o.v[k]), gii = d.getIInfCumulativeProbability(o.v[k]), gs = d.getSupCumulativeProbability(o.v[k]), gss = d.getSSupCumulativeProbability(o.v[k]);
    CHECK(std::abs(gi - static_cast<double>(below)) <= t, where << ": getInfCumulativeProbability(v_" << k << ") = " << vf::dec(gi) << ", sum of the classes below is " << vf::dec(static_cast<double>(below)));
    CHECK(std::abs(gii - static_cast<double>(upto)) <= t, where << ": getIInfCumulativeProbability(v_" << k << ") = " << vf::dec(gii) << ", sum of the classes up to it is " << vf::dec(static_cast<double>(upto)));
    CHECK(std::abs(gs - static_cast<double>(above)) <= t, where << ": getSupCumulativeProbability(v_" << k << ") = " << vf::dec(gs) << ", sum of the classes above is " << vf::dec(static_cast<double>(above)));
    CHECK(std::abs(gss - static_cast<double>(from)) <= t, where << ": getSSupCumulativeProbability(v_" << k << ") = " << vf::dec(gss) << ", sum of the classes from it on is " << vf::dec(static_cast<double>(from)));
    below = upto;
  }
  return o;
}

// bracket of a function value against the representability of its argument (Beta: the top bounds lie within 1e-15 of 1
// where one ulp moves the cdf by 1e-5; Gamma with an offset: the lowest bounds are offset + 1e-50 = offset)
template <class F> void bracketed(bool bracket, F f, double x, double lo, double hi, LD& dn, LD& up) {
  if (!bracket) { dn = up = f(x); return; }
  dn = f(std::max(lo, vf::ulpStep(x, -4))); up = f(std::min(hi, vf::ulpStep(x, 4)));
}

// Is the state one where the quantile arguments are in their working range and the domain has enough mass?
bool regularState(const Model& m, LD Flo, LD Fhi) {
  LD mass = Fhi - Flo;
  if (!(mass >= MASS_MIN)) return false;
  if (m.scheme == SCH_EQINT || !tolOf(m.q.f).approxQuantile) return true;
  LD step = mass / m.K * (m.median ? 0.5L : 1.0L);
  if (m.K == 1 && !m.median) return true;
  return Flo + step >= U_MARGIN && Fhi - step <= 1 - U_MARGIN;
}

// Known defects that make an operation hang or leave garbage are characterised BEFORE the operation is made:
// `next` is the state the operation leads to, [lo,hi] the domain it will have.
// The generator stays inside the quantifier: an operation that would leave less than MASS_MIN of the parent's mass on the
// domain, or take a quantile argument out of its working range, is not made (the history ends there).
struct StopHistory {};
// The multiplicative normalisation of median-valued classes needs a positive factor mean / (mean of the class medians):
// there is none when the parent's mean over the domain is 0 (or cannot be told from 0), when the medians sum to 0, or when
// the two have different signs. The medians of the state to come are taken from a scratch object of the same family
// (routing of the known finding only, never an oracle).
bool medianFactorUnusable(const Model& next, double lo, double hi) {
  LD surf = refE(next.q, hi) - refE(next.q, lo), Flo = refP(next.q, lo), mass = refP(next.q, hi) - Flo;
  double tolE = tolOf(next.q.f).e * scaleOf(next.q);
  if (std::abs(static_cast<double>(surf)) < 100 * tolE) return true;
  unique_ptr<DDI> scratch = make(next.q, 1, SCH_EQPROB);
  LD sum = 0;
  for (size_t k = 0; k < next.K; ++k) sum += scratch->qProb(static_cast<double>(Flo + (static_cast<LD>(k) + 0.5L) * mass / next.K));
  if (!(std::abs(static_cast<double>(sum)) > 1e-6 * static_cast<double>(next.K) * scaleOf(next.q))) return true;
  return (surf > 0) != (sum > 0);
}
void guardKnown(vf::Ctx& c, const Model& next, double lo, double hi) {
  if (next.q.f == F_GAMMA && next.q.off < 0) c.excludeIfKnown("C09-gamma-negative-offset-expectation");
  // median-valued classes are the class medians times (parent mean / mean of the medians): 0/0 when the mean is 0
  if (!(lo < hi) || !regularState(next, refP(next.q, lo), refP(next.q, hi))) throw StopHistory();
  if (next.median && next.scheme != SCH_EQINT && medianFactorUnusable(next, lo, hi)) c.excludeIfKnown("C09-median-zero-mean");
}

void checkCont(vf::Ctx& c, const DDI& d, const Model& m, const CheckOpt& opt, const string& where) {
  const CP& q = m.q; const size_t K = m.K; const Tol tol = tolOf(q.f);
  if (q.f == F_GAMMA && q.off < 0) c.excludeIfKnown("C09-gamma-negative-offset-expectation");
  // separation of coinciding values: the class's comparator takes a < b - precision for "different", so a value exactly one
  // precision above another one may still count as identical (rounding of b - precision) and the next free slot is two
  // precisions away: K values piled on one point spread over up to 2K precisions (plus one for an open end of the domain)
  const double prec = precisionOf(d), slack = 2 * (K + 1) * prec;
  const double lo = d.getLowerBound(), hi = d.getUpperBound();
  CHECK(lo < hi, where << ": domain [" << vf::dec(lo) << ";" << vf::dec(hi) << "] is empty");
  LD Flo = refP(q, lo), Fhi = refP(q, hi), mass = Fhi - Flo;
  if (!regularState(m, Flo, Fhi)) { c.label("irregular"); auditParams(d, where); return; }
  const double massD = static_cast<double>(mass);
  const double scale = scaleOf(q);

  const bool medianValued = m.median && m.scheme != SCH_EQINT;
  // in median mode the values are c*median_k: containment is checked on v_k/c below
  Obs o = checkStructure(d, K, slack, K * 1e-12, !medianValued, where);
  for (size_t k = 0; k <= K; ++k) CHECK(o.b[k] >= lo && o.b[k] <= hi, where << ": bound " << k << " = " << vf::dec(o.b[k]) << " lies outside the domain [" << vf::dec(lo) << ";" << vf::dec(hi) << "]");

  // ---- scheme
  bool equalProb = m.scheme != SCH_EQINT;   // "when possible" may fall back to equal intervals (documented)
  for (size_t k = 0; k < K; ++k) if (std::abs(o.p[k] - 1.0 / static_cast<double>(K)) > 4 * EPS) equalProb = false;
  if (m.scheme == SCH_EQPROB) CHECK(equalProb, where << ": equal-probability scheme but the class probabilities are " << showVec(o.p));
  if (m.scheme == SCH_WHENPOSSIBLE && K >= 2) {
    // "equal probabilities when possible": the dispatch keeps the equal-probability partition unless two consecutive
    // bounds of it (the ends of the domain included) cannot be told apart, and then falls back to equal intervals.
    // Either way no class with a positive probability sits on an empty interval: a point carries no mass of the parent.
    if (equalProb) {
      for (size_t k = 0; k < K; ++k) CHECK(o.b[k] < o.b[k + 1], where << ": equal-probabilities-when-possible kept the equal-probability partition although class " << k << " (probability " << vf::dec(o.p[k]) << ") is the empty interval [" << vf::dec(o.b[k]) << ";" << vf::dec(o.b[k + 1]) << "]: it is not possible there, equal intervals are the documented fall-back; bounds " << showVec(o.b));
    } else {
      // the fall-back is only taken where it is needed: the equal-probability bounds (the quantiles of lower + i * mass / K,
      // computed as the class computes them) contain two that coincide
      c.label("fell_back_to_equal_intervals");
      double minX = d.pProb(lo), maxX = d.pProb(hi), ec = (maxX - minX) / static_cast<double>(K), prev = lo; bool coincide = false;
      for (size_t i = 1; i < K; ++i) { double b = d.qProb(minX + static_cast<double>(i) * ec); if (b == prev) coincide = true; prev = b; }
      if (prev == hi) coincide = true;
      CHECK(coincide, where << ": equal-probabilities-when-possible fell back to equal intervals (probabilities " << showVec(o.p) << ") although the " << K - 1 << " equal-probability bounds are all distinguishable from each other and from the ends of the domain");
    }
  }
  if (!equalProb) {  // equal intervals (requested, or the documented fall-back of "when possible")
    double w = (hi - lo) / static_cast<double>(K), t = 8 * EPS * std::max(std::abs(lo), std::abs(hi));
    for (size_t k = 0; k < K; ++k) {
      CHECK(std::abs(o.b[k + 1] - (k + 1 == K ? hi : lo + (static_cast<double>(k) + 1) * w)) <= t, where << ": equal-interval scheme: bound " << k + 1 << " = " << vf::dec(o.b[k + 1]) << " is not lower + " << k + 1 << " * (upper-lower)/K");
      CHECK(std::abs(o.v[k] - (lo + (static_cast<double>(k) + 0.5) * w)) <= t + slack, where << ": equal-interval scheme: value " << k << " = " << vf::dec(o.v[k]) << " is not the middle of its interval");
    }
  }

  // ---- class probability = parent mass of its interval (library cdf and external cdf)
  const bool br = true;
  vector<LD> Fdn(K + 1), Fup(K + 1), Pdn(K + 1), Pup(K + 1);
  auto libP = [&](double x) -> LD { return d.pProb(x); };
  auto extP = [&](double x) -> LD { return refP(q, x); };
  for (size_t k = 0; k <= K; ++k) { bracketed(br, extP, o.b[k], lo, hi, Fdn[k], Fup[k]); bracketed(br, libP, o.b[k], lo, hi, Pdn[k], Pup[k]); }
  LD massLib = libP(hi) - libP(lo);
  CHECK(std::abs(static_cast<double>(massLib - mass)) <= 2 * tol.p, where << ": pProb(upper)-pProb(lower) = " << vf::dec(static_cast<double>(massLib)) << " but the parent has mass " << vf::dec(massD) << " on the domain");
  for (size_t k = 0; k < K; ++k) {
    LD want = o.p[k] * mass, mn = Fdn[k + 1] - Fup[k], mx = Fup[k + 1] - Fdn[k];
    double over = static_cast<double>(std::max<LD>(std::max<LD>(mn - want, want - mx), 0));
    c.observe("classmass_vs_reference/tol[" + string(famName(q.f)) + "]", over / tol.mass);
    CHECK(over <= tol.mass, where << ": class " << k << " has probability " << vf::dec(o.p[k]) << " but the parent (external cdf) puts " << vf::dec(static_cast<double>((Fup[k + 1] + Fdn[k + 1] - Fup[k] - Fdn[k]) / 2 / mass)) << " of the domain's mass on [" << vf::dec(o.b[k]) << ";" << vf::dec(o.b[k + 1]) << "] (difference in mass " << over << ", tolerance " << tol.mass << ", mass of the domain " << massD << "); bounds " << showVec(o.b));
    LD wantL = o.p[k] * massLib, mnL = Pdn[k + 1] - Pup[k], mxL = Pup[k + 1] - Pdn[k];
    double overL = static_cast<double>(std::max<LD>(std::max<LD>(mnL - wantL, wantL - mxL), 0));
    c.observe("classmass_vs_pProb/tol[" + string(famName(q.f)) + "]", overL / tol.mass);
    CHECK(overL <= tol.mass, where << ": class " << k << " has probability " << vf::dec(o.p[k]) << " but pProb puts " << vf::dec(static_cast<double>((Pup[k + 1] + Pdn[k + 1] - Pup[k] - Pdn[k]) / 2 / massLib)) << " of the domain's mass on its interval (difference in mass " << overL << ", tolerance " << tol.mass << ")");
  }

  // ---- class values and the discrete mean (equal-probability classes)
  if (equalProb) {
    LD meanRef = (refE(q, hi) - refE(q, lo)) / mass;   // parent mean over the domain
    const double tolE = tol.e * scale;
    LD dmean = 0; for (size_t k = 0; k < K; ++k) dmean += static_cast<LD>(o.p[k]) * o.v[k];
    if (!medianValued) {
      bool fallback = false; LD budget = 0;
      vector<LD> E(K + 1); for (size_t k = 0; k <= K; ++k) E[k] = refE(q, o.b[k]);
      for (size_t k = 0; k < K; ++k) {
        LD cm = (E[k + 1] - E[k]) / (mass / K);   // "v * length of the interval = the surface of the category"
        double errV = (2 * tolE + std::abs(static_cast<double>(cm)) * 2 * tol.mass) * static_cast<double>(K) / massD + 16 * EPS * std::abs(static_cast<double>(cm)) + slack;
        double dv = std::abs(static_cast<double>(o.v[k] - cm));
        double dist = static_cast<double>(std::min<LD>(cm - o.b[k], o.b[k + 1] - cm));
        double mid = (o.b[k] + o.b[k + 1]) / 2;
        bool isMid = std::abs(o.v[k] - mid) <= 4 * EPS * std::max(std::abs(o.b[k]), std::abs(o.b[k + 1])) + slack;
        if (dv <= errV) { if (!isMid && errV > 2 * slack) c.observe("classvalue_vs_reference/tol[" + string(famName(q.f)) + "]", std::max(0.0, dv - slack) / (errV - slack)); budget += o.p[k] * errV; }
        else if (dist <= 4 * errV && isMid) { fallback = true; }  // documented: "may happen if the two bounds are undistinguishable"
        else CHECK(false, where << ": value of class " << k << " is " << vf::dec(o.v[k]) << " but the parent's mean over [" << vf::dec(o.b[k]) << ";" << vf::dec(o.b[k + 1]) << "] (surface / class mass) is " << vf::dec(static_cast<double>(cm)) << " (difference " << dv << ", tolerance " << errV << "); values " << showVec(o.v));
      }
      if (fallback) c.label("mean_skipped_midpoint_fallback");
      else {
        double e = std::abs(static_cast<double>(dmean - meanRef));
        c.observe("discretemean/tol[" + string(famName(q.f)) + "]", e / static_cast<double>(budget));
        CHECK(e <= static_cast<double>(budget), where << ": discrete mean sum p_k v_k = " << vf::dec(static_cast<double>(dmean)) << " but the parent's mean over the domain is " << vf::dec(static_cast<double>(meanRef)) << " (tolerance " << static_cast<double>(budget) << ")");
      }
    } else {
      // v_k = c * median_k with sum p_k v_k = parent mean
      double surf = std::abs(static_cast<double>(meanRef * mass));
      if (medianFactorUnusable(m, lo, hi)) c.excludeIfKnown("C09-median-zero-mean");
      double uLo = d.pProb(lo), ec = (d.pProb(hi) - uLo) / static_cast<double>(K);
      vector<double> med(K); LD sum = 0;
      for (size_t k = 0; k < K; ++k) {
        med[k] = d.qProb(uLo + (static_cast<double>(k) + 0.5) * ec); sum += med[k];
        // the candidate median is validated by the external cdf (bracket form) and must lie inside its class
        LD dn, up; bracketed(br, extP, med[k], lo, hi, dn, up);
        LD u = Flo + (static_cast<LD>(k) + 0.5L) * mass / K;
        double over = static_cast<double>(std::max<LD>(std::max<LD>(dn - u, u - up), 0));
        CHECK(over <= tol.q + 2 * tol.p, where << ": qProb at the middle probability of class " << k << " gives " << vf::dec(med[k]) << " whose external cdf is " << vf::dec(static_cast<double>((dn + up) / 2)) << ", expected " << vf::dec(static_cast<double>(u)));
        CHECK(med[k] >= o.b[k] && med[k] <= o.b[k + 1], where << ": the median " << vf::dec(med[k]) << " of class " << k << " lies outside its interval [" << vf::dec(o.b[k]) << ";" << vf::dec(o.b[k + 1]) << "]");
      }
      if (surf < 100 * tolE) {
        // no usable estimate of the proportionality factor from the mean: the mean itself is compared, and some positive
        // factor must exist that takes every value back into its own class
        c.label("median_mean_near_zero");
        double t = (102 * tolE + static_cast<double>(K) * tol.q * scale) / massD + slack;
        CHECK(std::abs(static_cast<double>(dmean - meanRef)) <= t, where << ": discrete mean of the median-valued classes = " << vf::dec(static_cast<double>(dmean)) << " but the parent's mean over the domain is " << vf::dec(static_cast<double>(meanRef)) << " (tolerance " << t << "); values " << showVec(o.v));
        size_t piv = 0; for (size_t k = 0; k < K; ++k) if (std::abs(med[k]) > std::abs(med[piv])) piv = k;
        double f = med[piv] != 0 ? o.v[piv] / med[piv] : 1;
        CHECK(f > 0 && std::isfinite(f), where << ": median-valued classes " << showVec(o.v) << " are not a positive multiple of the class medians " << showVec(med));
        for (size_t k = 0; k < K; ++k) CHECK(o.v[k] / f >= o.b[k] - slack / f - 1e-9 * scale && o.v[k] / f <= o.b[k + 1] + slack / f + 1e-9 * scale, where << ": median-valued class " << k << " has value " << vf::dec(o.v[k]) << "; divided by the common factor " << vf::dec(f) << " it lies outside its interval [" << vf::dec(o.b[k]) << ";" << vf::dec(o.b[k + 1]) << "]; values " << showVec(o.v) << " medians " << showVec(med));
      } else {
        LD cfac = meanRef * K / sum;
        double rel = 2 * tolE / surf + 2 * tol.p / massD + 64 * EPS;
        bool adjusted = false;
        for (size_t k = 0; k < K; ++k) {
          double want = static_cast<double>(cfac * med[k]), errV = std::abs(want) * rel + slack;
          // documented adjustment: a value beyond an end of the domain is moved to that end +- precision (then separated)
          if (want < lo + prec + errV && std::abs(o.v[k] - lo) <= slack * (1 + 4 * EPS) + 4 * EPS * std::abs(lo)) { adjusted = true; continue; }
          if (want > hi - prec - errV && std::abs(o.v[k] - hi) <= slack * (1 + 4 * EPS) + 4 * EPS * std::abs(hi)) { adjusted = true; continue; }
          double dv = std::abs(o.v[k] - want);
          c.observe("medianvalue/tol[" + string(famName(q.f)) + "]", dv / errV);
          CHECK(dv <= errV, where << ": median-valued class " << k << " has value " << vf::dec(o.v[k]) << ", expected factor*median = " << vf::dec(want) << " (factor " << vf::dec(static_cast<double>(cfac)) << " makes the discrete mean equal the parent's mean; tolerance " << errV << "); values " << showVec(o.v));
        }
        double e = std::abs(static_cast<double>(dmean - meanRef)), t = std::abs(static_cast<double>(meanRef)) * rel + slack;
        if (adjusted) { c.label("mean_skipped_boundary_adjustment"); e = 0; }
        c.observe("discretemean_median/tol[" + string(famName(q.f)) + "]", e / t);
        CHECK(e <= t, where << ": discrete mean of the median-valued classes = " << vf::dec(static_cast<double>(dmean)) << " but the parent's mean over the domain is " << vf::dec(static_cast<double>(meanRef)) << " (tolerance " << t << ")");
      }
    }
  }

  if (opt.lookups) checkLookups(c, d, o, slack, opt, where);
  auditParams(d, where);
}

// ------------------------------------------------------------------ parent functions at the current parameters
void checkParent(vf::Ctx& c, const DDI& d, const CP& q, const string& where, int npts) {
  if (q.f == F_GAMMA && q.off < 0) c.excludeIfKnown("C09-gamma-negative-offset-expectation");
  const Tol tol = tolOf(q.f); const double scale = scaleOf(q), tolE = tol.e * scale;
  const bool br = true;
  auto extP = [&](double x) -> LD { return refP(q, x); };
  // natural support (the functions of the parent do not depend on the restricted domain)
  double sLo = -INFINITY, sHi = INFINITY;
  switch (q.f) { case F_EXPO: sLo = 0; break; case F_UNIF: sLo = q.a; sHi = q.b; break; case F_GAMMA: sLo = q.off; break; case F_TEXP: sLo = 0; sHi = q.b; break; case F_BETA: sLo = 0; sHi = 1; break; default: break; }
  vector<double> us = {0.5, 0.02, 0.98, 0.1, 0.9, 0.3, 0.7};
  for (int i = 0; i < npts; ++i) us.push_back(U_MARGIN + (1 - 2 * U_MARGIN) * c.unit());
  sort(us.begin(), us.end());
  double prevX = -INFINITY, prevP = 0, prevE = 0; bool have = false;
  for (double u : us) {
    double x = d.qProb(u);
    CHECK(std::isfinite(x) && x >= sLo && x <= sHi, where << ": qProb(" << vf::dec(u) << ") = " << vf::dec(x) << " is outside the support");
    // inverse: F(qProb(u)) = u (external cdf, bracket form where representability matters) and pProb(qProb(u)) = u
    LD dn, up; bracketed(br, extP, x, sLo, sHi, dn, up);
    double over = static_cast<double>(std::max<LD>(std::max<LD>(dn - u, u - up), 0));
    c.observe("qProb_inverse_vs_reference/tol[" + string(famName(q.f)) + "]", over / tol.q);
    CHECK(over <= tol.q, where << ": external cdf at qProb(" << vf::dec(u) << ") = " << vf::dec(x) << " is " << vf::dec(static_cast<double>((dn + up) / 2)) << " (tolerance " << tol.q << ")");
    double P = d.pProb(x), E = d.Expectation(x);
    LD Pr = refP(q, x), Er = refE(q, x);
    if (br) { LD pdn = d.pProb(std::max(sLo, vf::ulpStep(x, -4))), pup = d.pProb(std::min(sHi, vf::ulpStep(x, 4))); double o2 = static_cast<double>(std::max<LD>(std::max<LD>(pdn - u, u - pup), 0)); CHECK(o2 <= tol.q + tol.p, where << ": pProb(qProb(" << vf::dec(u) << ")) = " << vf::dec(P)); }
    else CHECK(std::abs(P - u) <= tol.q + tol.p, where << ": pProb(qProb(" << vf::dec(u) << ")) = " << vf::dec(P) << " (tolerance " << tol.q + tol.p << ")");
    c.observe("pProb_vs_reference/tol[" + string(famName(q.f)) + "]", std::abs(static_cast<double>(P - Pr)) / tol.p);
    CHECK(std::abs(static_cast<double>(P - Pr)) <= tol.p, where << ": pProb(" << vf::dec(x) << ") = " << vf::dec(P) << " but the external cdf of " << show(q) << " is " << vf::dec(static_cast<double>(Pr)));
    c.observe("Expectation_vs_reference/tol[" + string(famName(q.f)) + "]", std::abs(static_cast<double>(E - Er)) / tolE);
    CHECK(std::abs(static_cast<double>(E - Er)) <= tolE, where << ": Expectation(" << vf::dec(x) << ") = " << vf::dec(E) << " but the partial expectation int t dF(t) of " << show(q) << " up to there is " << vf::dec(static_cast<double>(Er)) << " (tolerance " << tolE << ")");
    if (have) {
      // monotone up to the accuracy of the quantile: two quantiles each within tol.q (in probability) of their target may
      // come out in the wrong order when the targets are closer than that, never further apart (external cdf as the judge)
      if (!(x >= prevX)) {
        double back = static_cast<double>(refP(q, prevX) - refP(q, x));
        c.label("quantiles_of_close_probabilities_swapped");
        CHECK(back <= 2 * tol.q, where << ": qProb decreases: qProb(" << vf::dec(u) << ") = " << vf::dec(x) << " < " << vf::dec(prevX) << " = qProb of a smaller probability; the step back is " << back << " in probability, more than twice the accuracy " << tol.q << " of the quantile");
      }
      CHECK(P >= prevP - 2 * tol.p, where << ": pProb decreases between " << vf::dec(prevX) << " and " << vf::dec(x));
      // derivative relation E' = x P' in its integrated form: (E(b)-E(a)) / (P(b)-P(a)) lies in [a,b]
      double dP = P - prevP, dE = E - prevE;
      if (dP >= 1e-3) {
        double r = dE / dP, t = (2 * tolE + 2 * tol.p * std::max(std::abs(prevX), std::abs(x))) / dP;
        CHECK(r >= prevX - t && r <= x + t, where << ": (E(b)-E(a))/(P(b)-P(a)) = " << vf::dec(r) << " is not in [a,b] = [" << vf::dec(prevX) << ";" << vf::dec(x) << "] (tolerance " << t << "): Expectation is not int t dF(t)");
      }
    }
    prevX = x; prevP = P; prevE = E; have = true;
  }
}

// ------------------------------------------------------------------ a sub-interval of the current domain with non-zero mass
struct Restr { double x1, x2; bool in1, in2; bool keepLo, keepHi; };
// massOf(x1, x2) = the smallest share (of each parent involved) on [x1,x2] by the external cdf
template <class MassF>
bool genRestriction(vf::Ctx& c, const DDI& d, bool useQuantiles, MassF massOf, Restr& r, bool upperMustStay) {
  double lo = d.getLowerBound(), hi = d.getUpperBound();
  int mode = static_cast<int>(c.weighted({3, 2, 2}));   // both ends, lower only, upper only
  if (upperMustStay && mode != 1) mode = 1;
  r.keepLo = mode == 2; r.keepHi = mode == 1;
  double t1 = 0.05 + 0.55 * c.unit(), t2 = t1 + 0.3 + (0.95 - t1 - 0.3) * c.unit();
  r.in1 = c.flag(); r.in2 = c.flag();
  if (useQuantiles) {
    double uLo = d.pProb(lo), uHi = d.pProb(hi);
    r.x1 = d.qProb(uLo + t1 * (uHi - uLo)); r.x2 = d.qProb(uLo + t2 * (uHi - uLo));   // input generation only
  } else {
    Vdouble v = d.getCategories(); double a = std::max(lo, v.front() - 1 - std::abs(v.front())), b = std::min(hi, v.back() + 1 + std::abs(v.back()));
    r.x1 = a + t1 * (b - a); r.x2 = a + t2 * (b - a);
  }
  if (r.keepLo) r.x1 = lo > -1e22 ? lo - 1 - std::abs(lo) / 2 : -INFINITY;
  if (r.keepHi) r.x2 = hi < 1e22 ? hi + 1 + std::abs(hi) / 2 : INFINITY;
  if (std::isnan(r.x1) || std::isnan(r.x2) || !(r.x1 < r.x2)) return false;
  double e1 = std::max(r.x1, lo), e2 = std::min(r.x2, hi);
  if (!(e1 < e2)) return false;
  return massOf(e1, e2) >= 0.02;
}
string showRestr(const Restr& r) { return string(r.in1 ? "[" : "]") + vf::dec(r.x1) + ";" + vf::dec(r.x2) + (r.in2 ? "]" : "["); }

// ------------------------------------------------------------------ other live objects of a history
// Copies (clone, assignment, the copies a compound takes of the objects handed to its constructor) are objects of their
// own: the state of a distribution is a function of its own history. The objects a history leaves behind are kept alive
// and must stay bit-identical (classes, bounds, domain, parameters) whatever is done to the object the history goes on with.
struct Bystander { unique_ptr<DDI> d; Obs snap; string role; };
void keepBystander(vector<Bystander>& bs, unique_ptr<DDI> d, const string& role) {
  Obs o = observeD(*d);
  if (bs.size() >= 4) bs.erase(bs.begin());
  bs.push_back(Bystander{std::move(d), o, role});
}
void checkBystanders(const vector<Bystander>& bs, const string& where) {
  for (const Bystander& b : bs) {
    string df = diffObs(b.snap, observeD(*b.d));
    CHECK(df.empty(), where << ": the operation changed the " << df << " of " << b.role << ", an object of its own that was not operated on: domain " << (b.snap.slo ? "]" : "[") << vf::dec(b.snap.lo) << ";" << vf::dec(b.snap.hi) << (b.snap.shi ? "[" : "]") << " before, " << (b.d->strictLowerBound() ? "]" : "[") << vf::dec(b.d->getLowerBound()) << ";" << vf::dec(b.d->getUpperBound()) << (b.d->strictUpperBound() ? "[" : "]") << " now");
  }
}

}  // namespace

// =================================================================== L1: fresh objects, exhaustive over K
LAW(L1_fresh_enum, ENUM, 4, 4, 0, "K >= 2 and (shape < 1 or median-valued classes or a non-default scheme)", 10, true) {
  bool lookups = c.flag();   // value lookups after every step (first draw of every history law: 0 = without)
  Fam f = static_cast<Fam>(c.below(NFAM));
  size_t K = static_cast<size_t>(c.irange(1, 32));
  bool median = c.flag();
  int preset = static_cast<int>(c.below(6));   // 4, 5: the two far corners of the parameter range (0.1 and 100)
  short scheme = f == F_BETA ? static_cast<short>(1 + c.below(3)) : SCH_EQPROB;
  static const double A[6] = {1, 0.1, 0.5, 20, 100, 0.1}, B[6] = {1, 0.1, 5, 2, 0.1, 100}, BB[6] = {2, 5, 0.1, 1, 0.1, 100};
  Model m; m.q.f = f; m.K = K; m.median = false; m.scheme = scheme;
  switch (f) {
    case F_EXPO: m.q.a = B[preset]; break;
    case F_UNIF: m.q.a = preset == 0 ? 0 : -A[preset]; m.q.b = m.q.a + B[preset]; m.q.rev = preset % 2 == 1; break;   // odd presets: built as (max, min)
    case F_GAUSS: m.q.a = preset == 0 ? 0 : preset == 1 ? -3 : A[preset]; m.q.b = B[preset]; break;
    case F_GAMMA: m.q.a = A[preset]; m.q.b = preset == 1 ? 0.1 : B[preset]; m.q.hasOff = preset >= 2; m.q.off = preset == 2 ? 1.5 : preset == 3 ? -2 : 0; break;
    case F_TEXP: m.q.a = B[preset]; m.q.b = A[preset]; break;
    case F_BETA: m.q.a = std::max(BETA_SHAPE_MIN, A[preset]); m.q.b = std::max(BETA_SHAPE_MIN, BB[preset]); break;
    default: break;
  }
  c.desc << (lookups ? "[lookups] " : "") << showModel(m) << (median ? " then setMedian(1)" : "");
  c.shardPoint();
  bool shapeLt1 = (f == F_GAMMA || f == F_BETA) && (m.q.a < 1 || (f == F_BETA && m.q.b < 1));
  c.nt(K >= 2 && (shapeLt1 || median || scheme != SCH_EQPROB));
  unique_ptr<DDI> d = make(m.q, K, scheme);
  CheckOpt opt; opt.lookups = lookups;
  checkCont(c, *d, m, opt, "after construction");
  if (median) { m.median = true; try { guardKnown(c, m, d->getLowerBound(), d->getUpperBound()); } catch (StopHistory&) { throw vf::Skip(); } d->setMedian(true); checkCont(c, *d, m, opt, "after setMedian(true)"); }
  checkParent(c, *d, m.q, "parent functions", 0);
}

// =================================================================== L2: histories on the continuous families
LAW(L2_history, RC, 9000, 400000, 190, "K >= 2 and (a restriction, a class-count change or a rejected update occurred), or a shape < 1", 3, true) {
  CheckOpt opt; opt.lookups = c.flag();
  Model m; m.q = genCP(c, genFam(c)); m.K = genK(c); m.scheme = genScheme(c, m.q.f);
  bool startMedian = c.oneIn(3);
  opt.lookT = 0.05 + 0.9 * c.unit();
  c.desc << (opt.lookups ? "[lookups] " : "") << showModel(m);
  unique_ptr<DDI> d = make(m.q, m.K, m.scheme);
  checkCont(c, *d, m, opt, "after construction");
  checkParent(c, *d, m.q, "parent functions after construction", 1);
  if (startMedian) { c.desc << "; setMedian(1)"; m.median = true; try { guardKnown(c, m, d->getLowerBound(), d->getUpperBound()); } catch (StopHistory&) { throw vf::Skip(); } d->setMedian(true); checkCont(c, *d, m, opt, "after setMedian(true)"); }
  bool restricted = false, kChanged = false, rejected = false;
  bool texpBound = false;   // an accepted restriction made the domain object the constraint of the truncation point
  // the second live object: what a clone / an assignment leaves behind (the original or the copy). Every operation is made
  // on one object, the other one must stay bit-identical, and the history may go on with it ("continue with")
  struct Other { unique_ptr<DDI> d; Model m; bool texpBound = false; Obs snap; int id = 0; } other;
  int cur = 1, nextId = 2;
  auto leaveBehind = [&](unique_ptr<DDI> x, const Model& xm, bool xb, int id) { other.snap = observeD(*x); other.d = std::move(x); other.m = xm; other.texpBound = xb; other.id = id; };
  // Known finding: TruncatedExponential::restrictToConstraint makes the domain object the constraint of the parameter tp;
  // a copy (clone / assignment) gets a domain object of its own but its tp keeps pointing to the ORIGINAL's one: when the
  // original's domain moves afterwards (restriction, tp update) the constraint of the copy's tp moves with it.
  auto tpConstraintOfTheOtherFollowsThisDomain = [&]() {
    if (m.q.f != F_TEXP || !other.d || !texpBound) return false;
    const Parameter& p1 = d->parameter("tp"); const Parameter& p2 = other.d->parameter("tp");
    return p1.hasConstraint() && p2.hasConstraint() && p1.getConstraint().get() == p2.getConstraint().get();
  };
  const string ns = nsOf(m.q.f);
  int nops = c.irange(0, 12);
  for (int op = 0; op < nops; ++op) {
    int kind = static_cast<int>(c.weighted({4, 2, 3, 2, 3, 1, 1, 1, 2}));
    vector<PRef> prs = paramsOf(m.q);
    if ((kind == 0 || kind == 1) && prs.empty()) kind = 5;
    ostringstream w; w << "after op " << op + 1 << " ";
    bool paramsChanged = false;
    try {
    switch (kind) {
      case 0: case 1: {  // setParameterValue / matchParametersValues, accepted or rejected values
        size_t n = kind == 0 ? 1 : 1 + c.below(prs.size());
        vector<size_t> idx; for (size_t i = 0; i < prs.size(); ++i) idx.push_back(i);
        for (size_t i = 0; i < n; ++i) swap(idx[i], idx[i + c.below(prs.size() - i)]);
        bool wantBad = c.oneIn(4); size_t badAt = c.below(n);
        CP nq = m.q; bool anyRejectedByConstraint = false; ParameterList pl;
        c.desc << "; " << (kind == 0 ? "setParameterValue(" : "matchParametersValues(");
        for (size_t i = 0; i < n; ++i) {
          const PRef& pr = prs[idx[i]]; bool bad;
          double x = genParamValue(c, m.q, pr.which, wantBad && i == badAt, &bad);
          c.desc << (i ? "," : "") << pr.name << "=" << vf::dec(x);
          if (!constraintAccepts(d->parameter(pr.name), x)) anyRejectedByConstraint = true;
          field(nq, pr.which) = x; pl.addParameter(Parameter(ns + pr.name, x));
        }
        c.desc << ")"; w << (kind == 0 ? "setParameterValue" : "matchParametersValues");
        if (!anyRejectedByConstraint) {
          // where the update leads: known defects of the accepted path are characterised before the call
          double dlo = d->getLowerBound(), dhi = m.q.f == F_TEXP ? nq.b : d->getUpperBound();
          if (m.q.f == F_GAMMA && nq.off > dlo) c.excludeIfKnown("C09-gamma-offset-domain");
          Model nm = m; nm.q = nq; guardKnown(c, nm, dlo, dhi);
          if (nq.b != m.q.b && tpConstraintOfTheOtherFollowsThisDomain()) c.excludeIfKnown("C09-texp-copy-tp-constraint-shared");
        }
        Obs before = observeD(*d);
        try {
          if (kind == 0) d->setParameterValue(prs[idx[0]].name, field(nq, prs[idx[0]].which)); else d->matchParametersValues(pl);
          CHECK(!anyRejectedByConstraint, w.str() << ": the update was accepted although a value is rejected by the constraint of its parameter");
          m.q = nq; paramsChanged = true;
        } catch (ConstraintException&) {
          CHECK(anyRejectedByConstraint, w.str() << ": ConstraintException although every value is accepted by the constraint of its parameter");
          c.desc << "!"; rejected = true;
          string df = diffObs(before, observeD(*d));
          CHECK(df.empty(), w.str() << ": a rejected update changed the " << df);
        }
        break; }
      case 2: {  // class count
        size_t nk = genK(c); c.desc << "; setNumberOfCategories(" << nk << ")"; w << "setNumberOfCategories(" << nk << ")";
        if (nk != m.K) kChanged = true;
        m.K = nk; guardKnown(c, m, d->getLowerBound(), d->getUpperBound());
        d->setNumberOfCategories(nk);
        break; }
      case 3: {  // median toggle
        bool md = c.flag(); c.desc << "; setMedian(" << md << ")"; w << "setMedian(" << md << ")";
        m.median = md; guardKnown(c, m, d->getLowerBound(), d->getUpperBound());
        d->setMedian(md);
        break; }
      case 4: {  // restriction to a sub-interval with non-zero mass
        Restr r; double lo = d->getLowerBound(), hi = d->getUpperBound();
        auto massOf = [&](double a, double b) { return static_cast<double>(refP(m.q, b) - refP(m.q, a)); };
        bool texpMayThrow = m.q.f == F_TEXP && c.oneIn(6);
        if (!genRestriction(c, *d, true, massOf, r, m.q.f == F_TEXP && !texpMayThrow)) { c.desc << "; nop"; break; }
        c.desc << "; restrictToConstraint(" << showRestr(r) << ")"; w << "restrictToConstraint" << showRestr(r);
        IntervalConstraint ic(r.x1, r.x2, r.in1, r.in2);
        double nlo = std::max(lo, r.x1), nhi = std::min(hi, r.x2);
        bool expectThrow = false;
        if (m.q.f == F_TEXP) {  // the truncation point becomes bound to the domain: it must lie inside
          bool hiIncl = r.x2 < hi ? r.in2 : r.x2 > hi ? !d->strictUpperBound() : (r.in2 && !d->strictUpperBound());
          expectThrow = !(m.q.b < nhi || (m.q.b == nhi && hiIncl)) || !(m.q.b > nlo);
        }
        guardKnown(c, m, nlo, nhi);
        // the domain object shared with the parameter is narrowed before the truncation point is validated
        if (expectThrow && texpBound) c.excludeIfKnown("C09-texp-refused-restriction");
        if (!expectThrow && tpConstraintOfTheOtherFollowsThisDomain()) c.excludeIfKnown("C09-texp-copy-tp-constraint-shared");
        try {
          d->restrictToConstraint(ic);
          if (m.q.f == F_TEXP) texpBound = true;
          CHECK(!expectThrow, w.str() << ": restriction accepted although the truncation point is outside the new domain");
          restricted = true;
          CHECK(vf::sameBits(d->getLowerBound(), nlo) && vf::sameBits(d->getUpperBound(), nhi), w.str() << ": the domain is [" << vf::dec(d->getLowerBound()) << ";" << vf::dec(d->getUpperBound()) << "], expected the intersection [" << vf::dec(nlo) << ";" << vf::dec(nhi) << "]");
        } catch (ConstraintException&) {
          CHECK(expectThrow, w.str() << ": ConstraintException from a restriction to a sub-interval of the domain");
          c.desc << "!(end)"; checkCont(c, *d, m, opt, w.str()); op = nops;  // the state after the refusal is checked once; the history ends
        }
        break; }
      case 5: c.desc << "; discretize()"; w << "discretize()"; d->discretize(); break;
      case 6: {  // copy
        c.desc << "; clone"; w << "clone";
        unique_ptr<DDI> e(d->clone());
        string df = diffObs(observeD(*d), observeD(*e));
        CHECK(df.empty(), w.str() << ": the clone differs from the original in the " << df);
        int id = nextId++;
        if (c.flag()) { c.desc << " #" << id << ", continue with the clone"; swap(d, e); leaveBehind(std::move(e), m, texpBound, cur); cur = id; texpBound = false; }  // the copy's parameter still points to the domain object of the original
        else { c.desc << " #" << id; leaveBehind(std::move(e), m, false, id); }
        break; }
      case 8: {  // go on with the object left behind
        if (!other.d) { c.desc << "; nop"; w << "nop"; break; }
        c.desc << "; continue with #" << other.id; w << "continue with the other object";
        unique_ptr<DDI> x = std::move(other.d); Model xm = other.m; bool xb = other.texpBound; int xid = other.id;
        swap(d, x); leaveBehind(std::move(x), m, texpBound, cur); m = xm; texpBound = xb; cur = xid;
        break; }
      default: {  // assign over an object of the same class built with other parameters
        Model o2; o2.q = genCP(c, m.q.f); o2.K = genK(c); o2.scheme = genScheme(c, m.q.f);
        c.desc << "; assign over " << showModel(o2); w << "assignment";
        unique_ptr<DDI> e = make(o2.q, o2.K, o2.scheme);
        assignSame(m.q.f, *e, *d);
        string df = diffObs(observeD(*d), observeD(*e));
        CHECK(df.empty(), w.str() << ": the assigned object differs from the source in the " << df);
        swap(d, e); leaveBehind(std::move(e), m, texpBound, cur); cur = nextId++; texpBound = false;
        break; }
    }
    } catch (StopHistory&) { c.desc << " [the history ends here: the operation would leave the regular range]"; c.label("stopped_before_leaving_the_regular_range"); break; }
    if (other.d) {
      string df = diffObs(other.snap, observeD(*other.d));
      CHECK(df.empty(), w.str() << " on #" << cur << ": the operation changed the " << df << " of #" << other.id << ", an object of its own that was not operated on: its domain is now " << (other.d->strictLowerBound() ? "]" : "[") << vf::dec(other.d->getLowerBound()) << ";" << vf::dec(other.d->getUpperBound()) << (other.d->strictUpperBound() ? "[" : "]") << ", it was " << (other.snap.slo ? "]" : "[") << vf::dec(other.snap.lo) << ";" << vf::dec(other.snap.hi) << (other.snap.shi ? "[" : "]"));
    }
    if (op >= nops) break;
    checkCont(c, *d, m, opt, w.str());
    if (paramsChanged) checkParent(c, *d, m.q, w.str() + " (parent functions)", 0);
  }
  bool shapeLt1 = (m.q.f == F_GAMMA || m.q.f == F_BETA) && (m.q.a < 1 || (m.q.f == F_BETA && m.q.b < 1));
  c.nt((m.K >= 2 && (restricted || kChanged || rejected)) || shapeLt1);
  if (restricted) c.label("restricted");
  if (rejected) c.label("rejected_update");
}

// =================================================================== L3: the parent's functions
LAW(L3_parent_functions, RC, 4000, 200000, 48, "a shape < 1, or parameters changed after construction") {
  CP q = genCP(c, genFam(c));
  bool update = c.flag();
  c.desc << show(q);
  unique_ptr<DDI> d;
  if (update) {  // reach the parameters through an update: the cached constants must follow
    CP q0 = genCP(c, q.f); q0.hasOff = q.hasOff; if (!q.hasOff) q0.off = q.off;
    if (q.f == F_UNIF) q0 = q;
    if (q.f == F_GAMMA && q.off > q0.off) c.excludeIfKnown("C09-gamma-offset-domain");
    c.desc << " reached from " << show(q0);
    d = make(q0, static_cast<size_t>(c.irange(1, 4)), SCH_EQPROB);
    ParameterList pl; for (const PRef& pr : paramsOf(q)) pl.addParameter(Parameter(nsOf(q.f) + pr.name, field(q, pr.which)));
    d->matchParametersValues(pl);
    if (c.flag()) { c.desc << " (clone)"; d.reset(d->clone()); }
  } else d = make(q, static_cast<size_t>(c.irange(1, 4)), SCH_EQPROB);
  bool shapeLt1 = (q.f == F_GAMMA || q.f == F_BETA) && (q.a < 1 || (q.f == F_BETA && q.b < 1));
  c.nt(shapeLt1 || update);
  checkParent(c, *d, q, "parent functions", 12);
}

// =================================================================== L4: one lookup per case
LAW(L4_lookup, RC, 6000, 300000, 40, "K >= 2 and the point is not in the first class", 10, true) {
  Model m; m.q = genCP(c, genFam(c)); m.K = genK(c); m.scheme = genScheme(c, m.q.f); m.median = c.oneIn(4);
  if (m.q.f == F_GAMMA && m.q.off < 0) m.q.off = -m.q.off;   // keep clear of the negative-offset finding: this law is about lookups
  unique_ptr<DDI> d = make(m.q, m.K, m.scheme);
  c.desc << showModel(m);
  try {
  if (m.median) { guardKnown(c, m, d->getLowerBound(), d->getUpperBound()); d->setMedian(true); }
  if (c.oneIn(3)) {
    Restr r; auto massOf = [&](double a, double b) { return static_cast<double>(refP(m.q, b) - refP(m.q, a)); };
    if (genRestriction(c, *d, true, massOf, r, m.q.f == F_TEXP)) {
      c.desc << " restricted to " << showRestr(r);
      guardKnown(c, m, std::max(r.x1, d->getLowerBound()), std::min(r.x2, d->getUpperBound()));
      d->restrictToConstraint(IntervalConstraint(r.x1, r.x2, r.in1, r.in2));
    }
  }
  } catch (StopHistory&) { throw vf::Skip(); }
  LD Flo = refP(m.q, d->getLowerBound()), Fhi = refP(m.q, d->getUpperBound());
  if (!regularState(m, Flo, Fhi)) throw vf::Skip();
  const size_t K = m.K; const double slack = (K + 1) * precisionOf(*d);
  Vdouble b = d->getBounds(), v = d->getCategories();
  CHECK(b.size() == K + 1 && v.size() == K, "bounds/values have " << b.size() << "/" << v.size() << " entries for K=" << K);
  size_t k = c.below(K); int pos = static_cast<int>(c.weighted({4, 1, 1})); bool byIndex = c.flag();
  double w = b[k + 1] - b[k], x;
  if (pos == 0) { x = b[k] + w * (0.05 + 0.9 * c.unit()); if (!(w > 8 * slack) || !(x > b[k] + 2 * slack && x < b[k + 1] - 2 * slack)) throw vf::Skip(); }
  else if (pos == 1) { if (k == 0) throw vf::Skip(); x = b[k]; }
  else { if (k + 1 == K) throw vf::Skip(); x = b[k + 1]; }
  // an interior bound that cannot be told from an open end of the domain is off the domain (same reading as checkLookups)
  if ((x == d->getLowerBound() && d->strictLowerBound()) || (x == d->getUpperBound() && d->strictUpperBound())) throw vf::Skip();
  size_t f = K, l = 0; for (size_t j = 0; j < K; ++j) if (b[j] <= x && x <= b[j + 1]) { if (f == K) f = j; l = j; }
  c.desc << (byIndex ? " getCategoryIndex(" : " getValueCategory(") << vf::dec(x) << ") point of class " << f << (l != f ? "+" : "");
  c.nt(K >= 2 && f >= 1);
  // the known defect: both loops start at the second interior bound
  if (byIndex ? !(f == 1 && l == 1 && K >= 3) : l >= 1) c.excludeIfKnown("C09-lookup-off-by-one");
  if (byIndex) {
    size_t gi = d->getCategoryIndex(x);
    CHECK(gi >= f && gi <= l, "getCategoryIndex(" << vf::dec(x) << ") = " << gi << " but the point lies in class " << f << " (0-based, as getCategory(i)); bounds " << showVec(b));
    CHECK(vf::sameBits(d->getCategory(gi), v[gi]), "getCategory(getCategoryIndex(x)) is not a class value");
  } else {
    double got = d->getValueCategory(x); bool ok = false;
    for (size_t j = f; j <= l; ++j) if (vf::sameBits(got, v[j])) ok = true;
    CHECK(ok, "getValueCategory(" << vf::dec(x) << ") = " << vf::dec(got) << " but the point lies in class " << f << " = [" << vf::dec(b[f]) << ";" << vf::dec(b[f + 1]) << "] whose value is " << vf::dec(v[f]) << "; values " << showVec(v) << " bounds " << showVec(b));
  }
}

// =================================================================== compound distributions
namespace {

// the class documents "category values that differ less than [the precision] will be considered identical"
struct RefOrder { double prec; bool operator()(double a, double b) const { return a < b - prec; } };
typedef map<double, LD, RefOrder> RefMap;
void addClass(RefMap& mp, double v, LD p) { auto it = mp.find(v); if (it == mp.end()) mp[v] = p; else it->second += p; }
void compareClasses(const Obs& o, const RefMap& want, double tolP, const string& where) {
  CHECK(o.v.size() == want.size(), where << ": " << o.v.size() << " classes " << showVec(o.v) << " but the definition gives " << want.size());
  size_t k = 0;
  for (auto& kv : want) {
    CHECK(vf::sameBits(o.v[k], kv.first), where << ": class " << k << " has value " << vf::dec(o.v[k]) << ", expected " << vf::dec(kv.first) << "; values " << showVec(o.v));
    CHECK(std::abs(o.p[k] - static_cast<double>(kv.second)) <= tolP, where << ": class " << k << " (value " << vf::dec(o.v[k]) << ") has probability " << vf::dec(o.p[k]) << ", the definition gives " << vf::dec(static_cast<double>(kv.second)) << "; probabilities " << showVec(o.p));
    ++k;
  }
}

// a parameter of a compound: a parameter of component `comp` (which = field) or a weight in [0,1] (comp = -1, which = index)
struct Slot { string shortName; int comp; int which; };
double genWeightValue(vf::Ctx& c, bool wantBad, bool* bad) {
  *bad = wantBad;
  if (wantBad) return c.pick({-0.1, 1.5, -1e-9});
  switch (c.weighted({3, 1, 1, 3})) { case 0: return c.pick({0.5, 0.25, 0.75, 0.1}); case 1: return 0.0; case 2: return 1.0; default: return c.unit(); }
}

// One update (setParameterValue or matchParametersValues) through the compound object. comps are the models of the nested
// continuous distributions, nested(i) the nested library objects (to know their domains), weights the model of the weights.
// Returns 1 accepted, 0 rejected.
template <class NestedF>
int compoundUpdate(vf::Ctx& c, DDI& outer, const vector<Slot>& slots, vector<Model>& comps, vector<double>& weights, NestedF nested, bool& rejectedFlag, ostringstream& w) {
  bool single = c.flag();
  size_t n = single ? 1 : 1 + c.below(std::min<size_t>(slots.size(), 4));
  vector<size_t> idx; for (size_t i = 0; i < slots.size(); ++i) idx.push_back(i);
  for (size_t i = 0; i < n; ++i) swap(idx[i], idx[i + c.below(slots.size() - i)]);
  bool wantBad = c.oneIn(4); size_t badAt = c.below(n);
  vector<Model> nc = comps; vector<double> nw = weights; bool anyRejected = false; ParameterList pl;
  c.desc << "; " << (single ? "setParameterValue(" : "matchParametersValues(");
  for (size_t i = 0; i < n; ++i) {
    const Slot& s = slots[idx[i]]; bool bad; double x;
    if (s.comp < 0) { x = genWeightValue(c, wantBad && i == badAt, &bad); nw[static_cast<size_t>(s.which)] = x; }
    else { x = genParamValue(c, comps[static_cast<size_t>(s.comp)].q, s.which, wantBad && i == badAt, &bad); field(nc[static_cast<size_t>(s.comp)].q, s.which) = x; }
    c.desc << (i ? "," : "") << s.shortName << "=" << vf::dec(x);
    if (!constraintAccepts(outer.parameter(s.shortName), x)) anyRejected = true;
    pl.addParameter(Parameter(outer.getNamespace() + s.shortName, x));
  }
  c.desc << ")"; w << (single ? "setParameterValue" : "matchParametersValues");
  if (!anyRejected)
    for (size_t i = 0; i < comps.size(); ++i) {
      const DDI& nd = nested(i); double dlo = nd.getLowerBound(), dhi = nc[i].q.f == F_TEXP ? nc[i].q.b : nd.getUpperBound();
      if (nc[i].q.f == F_GAMMA && nc[i].q.off > dlo) c.excludeIfKnown("C09-gamma-offset-domain");
      guardKnown(c, nc[i], dlo, dhi);
    }
  Obs before = observeD(outer);
  try {
    if (single) { const Slot& s = slots[idx[0]]; outer.setParameterValue(s.shortName, s.comp < 0 ? nw[static_cast<size_t>(s.which)] : field(nc[static_cast<size_t>(s.comp)].q, s.which)); }
    else outer.matchParametersValues(pl);
    CHECK(!anyRejected, w.str() << ": the update was accepted although a value is rejected by the constraint of its parameter");
    comps = nc; weights = nw; return 1;
  } catch (ConstraintException&) {
    CHECK(anyRejected, w.str() << ": ConstraintException although every value is accepted by the constraint of its parameter");
    c.desc << "!"; rejectedFlag = true;
    string df = diffObs(before, observeD(outer));
    CHECK(df.empty(), w.str() << ": a rejected update changed the " << df);
    return 0;
  }
}

Model genNestedModel(vf::Ctx& c, bool allowTexp) {
  Model m; Fam f = genFam(c); if (!allowTexp && f == F_TEXP) f = F_EXPO;
  m.q = genCP(c, f); m.K = c.weighted({3, 1}) == 0 ? static_cast<size_t>(c.irange(1, 6)) : static_cast<size_t>(c.irange(1, 32)); m.scheme = genScheme(c, f);
  return m;
}
bool nestedRegular(const Model& m, const DDI& nd) { return regularState(m, refP(m.q, nd.getLowerBound()), refP(m.q, nd.getUpperBound())); }

}  // namespace

// =================================================================== L5: user-specified and constant distributions
LAW(L5_simple_constant, RC, 5000, 200000, 170, "at least two classes and (an update of a value or a weight, a restriction, or a rejected update)", 5, true) {
  CheckOpt opt; opt.lookups = c.flag(); if (opt.lookups) c.desc << "[lookups] ";
  bool constant = c.oneIn(5);
  opt.domainEndsRaise = false; opt.lookT = 0.05 + 0.9 * c.unit();
  unique_ptr<DDI> d; vector<double> V, theta; bool fixed = false; map<size_t, vector<double>> ranges;
  auto probs = [&]() { vector<LD> p(V.size()); LD rest = 1; for (size_t i = 0; i + 1 < V.size(); ++i) { p[i] = static_cast<LD>(theta[i]) * rest; rest *= 1 - static_cast<LD>(theta[i]); } p[V.size() - 1] = rest; return p; };
  auto genValue = [&]() { return c.flag() ? static_cast<double>(c.zig(8)) : c.real(-10, 10); };
  auto buildSimple = [&](unique_ptr<DDI>& out, vector<double>& vals, vector<double>& th, bool& fx, map<size_t, vector<double>>& rg) {
    size_t n = static_cast<size_t>(c.irange(1, 6)); vals.clear(); th.clear(); rg.clear();
    double x = genValue(); vector<double> sorted;
    for (size_t i = 0; i < n; ++i) { sorted.push_back(x); x += c.flag() ? c.pick({1.0, 0.5, 2.0, 0.001}) : c.real(0.01, 3); }
    vector<unsigned> wts; unsigned W = 0; for (size_t i = 0; i < n; ++i) { wts.push_back(1 + static_cast<unsigned>(c.below(5))); W += wts.back(); }
    int ctor = static_cast<int>(c.below(3)); fx = c.oneIn(5);
    vector<size_t> order; for (size_t i = 0; i < n; ++i) order.push_back(i);
    if (ctor != 0) for (size_t i = 0; i + 1 < n; ++i) swap(order[i], order[i + c.below(n - i)]);   // the vector constructors take any order
    vector<double> pr;
    for (size_t i = 0; i < n; ++i) { vals.push_back(sorted[order[i]]); pr.push_back(static_cast<double>(wts[order[i]]) / W); }
    LD rest = 1; for (size_t i = 0; i + 1 < n; ++i) { th.push_back(static_cast<double>(pr[i] / rest)); rest -= pr[i]; }
    c.desc << "Simple(" << (ctor == 0 ? "map" : ctor == 1 ? "vectors" : "vectors+ranges") << (fx ? ",fixed" : "") << " values " << showVec(vals) << " probs " << showVec(pr);
    if (ctor == 0) { map<double, double> mp; for (size_t i = 0; i < n; ++i) mp[vals[i]] = pr[i]; out.reset(new SimpleDiscreteDistribution(mp, NumConstants::TINY(), fx)); }
    else if (ctor == 1) out.reset(new SimpleDiscreteDistribution(vals, pr, NumConstants::TINY(), fx));
    else {
      for (size_t i = 0; i < n; ++i) if (c.oneIn(3)) { double a = vals[i] - c.pick({0.5, 1.0, 3.0, 0.0}), b = vals[i] + c.pick({0.5, 1.0, 3.0, 0.0}); rg[i + 1] = {a, b}; c.desc << " range" << i + 1 << "=[" << vf::dec(a) << ";" << vf::dec(b) << "]"; }
      out.reset(new SimpleDiscreteDistribution(vals, rg, pr, NumConstants::TINY(), fx));
    }
    c.desc << ")";
    // the weights the class documents: theta_i = p_i / (1 - p_1 - ... - p_{i-1})
    if (!fx) for (size_t i = 0; i + 1 < n; ++i) {
      double got = out->getParameterValue("theta" + to_string(i + 1));
      CHECK(std::abs(got - th[i]) <= 1e-13, "after construction: theta" << i + 1 << " = " << vf::dec(got) << ", the documented parametrisation gives " << vf::dec(th[i]));
      th[i] = got;
    }
  };
  double cval = 0; vector<Bystander> left;
  if (constant) { cval = genValue(); c.desc << "Constant(" << vf::dec(cval) << ")"; d.reset(new ConstantDistribution(cval)); }
  else buildSimple(d, V, theta, fixed, ranges);
  auto check = [&](const string& where) {
    if (constant) {
      Obs o = checkStructure(*d, 1, 2 * precisionOf(*d), 1e-15, true, where);
      CHECK(vf::sameBits(o.v[0], cval) && o.p[0] == 1, where << ": the constant distribution has class (" << vf::dec(o.v[0]) << "," << vf::dec(o.p[0]) << "), expected (" << vf::dec(cval) << ",1)");
      CHECK(vf::sameBits(o.lo, cval) && vf::sameBits(o.hi, cval), where << ": domain of the constant distribution");
      if (opt.lookups) CHECK(vf::sameBits(d->getValueCategory(cval), cval), where << ": getValueCategory(value)");
      if (opt.lookups && !c.isKnown("C09-lookup-off-by-one")) CHECK(d->getCategoryIndex(cval) == 0, where << ": getCategoryIndex(value)");
      auditParams(*d, where); checkBystanders(left, where); return;
    }
    size_t n = V.size(); double prec = precisionOf(*d);
    Obs o = checkStructure(*d, n, (n + 1) * prec, 1e-12, true, where);
    // classes = the values in increasing order, each with the probability theta_i * prod_{j<i} (1 - theta_j) (last: the rest)
    RefMap want(RefOrder{prec}); vector<LD> p = probs();
    for (size_t i = 0; i < n; ++i) addClass(want, V[i], p[i]);
    compareClasses(o, want, 1e-13, where);
    for (size_t k = 0; k + 1 < n; ++k) CHECK(std::abs(o.b[k + 1] - (o.v[k] + o.v[k + 1]) / 2) <= 4 * EPS * std::max(std::abs(o.v[k]), std::abs(o.v[k + 1])), where << ": interior bound " << k << " = " << vf::dec(o.b[k + 1]) << " is not between the values " << vf::dec(o.v[k]) << " and " << vf::dec(o.v[k + 1]));
    if (opt.lookups) checkLookups(c, *d, o, (n + 1) * prec, opt, where);
    auditParams(*d, where);
    checkBystanders(left, where);
  };
  check("after construction");
  bool touched = false, rejected = false;
  int nops = c.irange(0, 10);
  for (int op = 0; op < nops; ++op) {
    ostringstream w; w << "after op " << op + 1 << " ";
    int kind = static_cast<int>(c.weighted({5, 3, 1, 1, 1, 1}));
    bool hasParams = d->getNumberOfParameters() > 0;
    if (kind == 0 && !hasParams) kind = 3;
    switch (kind) {
      case 0: {  // update of values / weights
        vector<string> names; const ParameterList& pl0 = d->getParameters(); for (size_t i = 0; i < pl0.size(); ++i) names.push_back(d->getParameterNameWithoutNamespace(pl0[i].getName()));
        bool single = c.flag(); size_t n = single ? 1 : 1 + c.below(std::min<size_t>(names.size(), 3));
        for (size_t i = 0; i < n; ++i) swap(names[i], names[i + c.below(names.size() - i)]);
        bool wantBad = c.oneIn(4); size_t badAt = c.below(n); bool anyRejected = false, collide = false; ParameterList pl;
        vector<double> nV = V, nT = theta; double ncv = cval;
        c.desc << "; " << (single ? "setParameterValue(" : "matchParametersValues(");
        for (size_t i = 0; i < n; ++i) {
          const string& nm = names[i]; double x; bool bad;
          if (nm[0] == 't') { x = genWeightValue(c, wantBad && i == badAt, &bad); nT[static_cast<size_t>(stoi(nm.substr(5))) - 1] = x; }
          else if (nm == "value") { x = genValue(); ncv = x; }
          else {
            size_t vi = static_cast<size_t>(stoi(nm.substr(1))) - 1;
            switch (c.weighted({3, 2, 2})) { case 0: x = V[vi] + c.pick({0.25, -0.25, 1.0, -1.0, 5.0, -5.0}); break; case 1: x = genValue(); break; default: x = V[vi] + c.real(-2, 2); }
            nV[vi] = x;
            // a value constructed with a range [min;max] (documented constructor argument) never leaves it, whatever happened since
            auto rg = ranges.find(vi + 1);
            if (rg != ranges.end() && (x < rg->second[0] || x > rg->second[1])) { anyRejected = true; c.label("value_outside_its_given_range"); }
          }
          c.desc << (i ? "," : "") << nm << "=" << vf::dec(x);
          if (!constraintAccepts(d->parameter(nm), x)) anyRejected = true;
          pl.addParameter(Parameter(d->getNamespace() + nm, x));
        }
        c.desc << ")"; w << (single ? "setParameterValue" : "matchParametersValues");
        for (size_t i = 0; i < nV.size(); ++i) for (size_t j = i + 1; j < nV.size(); ++j) if (std::abs(nV[i] - nV[j]) < 1e-3) collide = true;
        if (collide && !anyRejected) { c.desc << "(skipped: two values would coincide)"; break; }   // coinciding values are separated artificially: not generated
        Obs before = observeD(*d);
        try {
          if (single) d->setParameterValue(names[0], pl[0].getValue()); else d->matchParametersValues(pl);
          CHECK(!anyRejected, w.str() << ": the update was accepted although a value is rejected by the constraint of its parameter (or lies outside the range given for it at construction)");
          V = nV; theta = nT; cval = ncv; touched = true;
        } catch (ConstraintException&) {
          CHECK(anyRejected, w.str() << ": ConstraintException although every value is accepted by the constraint of its parameter");
          c.desc << "!"; rejected = true;
          string df = diffObs(before, observeD(*d)); CHECK(df.empty(), w.str() << ": a rejected update changed the " << df);
        }
        break; }
      case 1: {  // restriction
        double lo = constant ? cval : *min_element(V.begin(), V.end()), hi = constant ? cval : *max_element(V.begin(), V.end());
        double a, b; bool in1 = c.flag(), in2 = c.flag();
        switch (c.weighted({4, 1, 1})) {
          case 0: a = lo - c.pick({1.0, 0.0, 0.5, 10.0}); b = hi + c.pick({1.0, 0.0, 0.5, 10.0}); break;
          case 1: a = lo + c.pick({0.0005, 0.5}); b = hi + 1; break;
          default: a = lo - 1; b = hi - c.pick({0.0005, 0.5}); break;
        }
        if (!(a < b)) { a = lo - 1; b = hi + 1; }
        IntervalConstraint ic(a, b, in1, in2);
        c.desc << "; restrictToConstraint(" << (in1 ? "[" : "]") << vf::dec(a) << ";" << vf::dec(b) << (in2 ? "]" : "[") << ")"; w << "restrictToConstraint";
        bool allIn = constant ? refAccepts(ic, cval) : true; if (!constant) for (double x : V) if (!refAccepts(ic, x)) allIn = false;
        Obs before = observeD(*d);
        try {
          d->restrictToConstraint(ic);
          CHECK(allIn || !hasParams, w.str() << ": the restriction was accepted although a class value lies outside " << ic.getDescription());
          if (hasParams) touched = true;
        } catch (Exception&) {   // Simple raises Exception, Constant ConstraintException (derived)
          CHECK(!allIn && hasParams, w.str() << ": the restriction raised although every class value lies inside " << ic.getDescription());
          c.desc << "!"; rejected = true;
          string df = diffObs(before, observeD(*d)); CHECK(df.empty(), w.str() << ": a refused restriction changed the " << df);
        }
        break; }
      case 2: { bool md = c.flag(); c.desc << "; setMedian(" << md << ")"; w << "setMedian"; d->setMedian(md); break; }
      case 3: c.desc << "; discretize()"; w << "discretize()"; d->discretize(); break;
      case 4: {
        c.desc << "; clone"; w << "clone"; unique_ptr<DDI> e(d->clone());
        string df = diffObs(observeD(*d), observeD(*e)); CHECK(df.empty(), w.str() << ": the clone differs from the original in the " << df);
        if (c.flag()) { c.desc << ", continue with it"; swap(d, e); keepBystander(left, std::move(e), "the original it was cloned from"); } else keepBystander(left, std::move(e), "its clone");
        break; }
      default: {  // assignment over another object of the same class
        c.desc << "; assign over "; w << "assignment";
        unique_ptr<DDI> e;
        if (constant) { double y = genValue(); c.desc << "Constant(" << vf::dec(y) << ")"; e.reset(new ConstantDistribution(y)); dynamic_cast<ConstantDistribution&>(*e) = dynamic_cast<const ConstantDistribution&>(*d); }
        else { vector<double> v2, t2; bool f2; map<size_t, vector<double>> r2; buildSimple(e, v2, t2, f2, r2); dynamic_cast<SimpleDiscreteDistribution&>(*e) = dynamic_cast<const SimpleDiscreteDistribution&>(*d); }
        string df = diffObs(observeD(*d), observeD(*e)); CHECK(df.empty(), w.str() << ": the assigned object differs from the source in the " << df);
        swap(d, e); keepBystander(left, std::move(e), "the source of the assignment");
        break; }
    }
    check(w.str());
  }
  c.nt((constant || V.size() >= 2) && (touched || rejected));
}

// =================================================================== L6: invariant + nested continuous distribution
LAW(L6_invariant_mixed, RC, 4000, 200000, 170, "the invariant lies inside the support of the nested distribution, or coincides with a class, or an update / restriction / class-count change occurred", 5, true) {
  CheckOpt opt; opt.lookups = c.flag(); if (opt.lookups) c.desc << "[lookups] ";
  vector<Model> comps(1); comps[0] = genNestedModel(c, true); Model& nm = comps[0];
  vector<double> wts(1); wts[0] = c.weighted({3, 1, 1, 3}) == 0 ? c.pick({0.25, 0.5, 0.1}) : c.flag() ? c.unit() : (c.flag() ? 0.0 : 1.0);
  unique_ptr<DDI> nd = make(nm.q, nm.K, nm.scheme);
  try {
    if (c.oneIn(4)) { nm.median = true; guardKnown(c, nm, nd->getLowerBound(), nd->getUpperBound()); nd->setMedian(true); }
    guardKnown(c, nm, nd->getLowerBound(), nd->getUpperBound());
  } catch (StopHistory&) { throw vf::Skip(); }
  Vdouble cats = nd->getCategories(); double nlo = nd->getLowerBound(), nhi = nd->getUpperBound(), inv = 0; int place = static_cast<int>(c.weighted({4, 1, 2, 2, 1}));
  switch (place) {
    case 0: inv = 0; break;
    case 1: inv = nlo > -1e22 ? nlo - c.pick({1.0, 0.5, 1e-13}) : cats.front() - 1; break;   // below
    case 2: inv = cats[c.below(cats.size())]; break;                                            // coincides with a class value
    case 3: { size_t k = c.below(cats.size()); inv = k + 1 < cats.size() ? cats[k] + (cats[k + 1] - cats[k]) * (0.1 + 0.8 * c.unit()) : cats[k] + c.pick({1.0, 1e-13, 0.5}); break; }   // inside
    default: inv = nhi < 1e22 ? nhi + c.pick({1.0, 0.5}) : cats.back() + 100; break;           // above
  }
  if (std::isnan(inv)) inv = 0;
  c.desc << "InvariantMixed(" << showModel(nm) << ", p=" << vf::dec(wts[0]) << ", invariant=" << vf::dec(inv) << ")";
  unique_ptr<DDI> d(new InvariantMixedDiscreteDistribution(std::move(nd), wts[0], inv));
  auto nestedOf = [&](size_t) -> const DDI& { return dynamic_cast<const InvariantMixedDiscreteDistribution&>(*d).variableSubDistribution(); };
  opt.lookT = 0.05 + 0.9 * c.unit();
  bool outerMedian = false; vector<Bystander> left;
  auto check = [&](const string& where) {
    const DDI& nst = nestedOf(0);
    checkBystanders(left, where);
    checkCont(c, nst, nm, opt, where + " (nested distribution)");
    if (!nestedRegular(nm, nst)) { auditParams(*d, where); return; }
    double prec = precisionOf(*d), p = wts[0];
    Vdouble nv = nst.getCategories(), np = nst.getProbabilities();
    RefMap want(RefOrder{prec}); want[inv] = p;
    for (size_t j = 0; j < nv.size(); ++j) {
      // a nested class within the precision of the invariant is the same class: it is overwritten instead of added unless exactly equal
      // (the same assignment loses a class when two nested values - Beta keeps its classes apart by 1e-20 only - share a key)
      auto hit = want.find(nv[j]);
      if (hit != want.end() && !(nv[j] == inv && hit->first == inv)) c.excludeIfKnown("C09-invariant-near-class-overwritten");
      addClass(want, nv[j], (1 - static_cast<LD>(p)) * np[j]);
    }
    size_t K = want.size();
    // the invariant merged with a class of the nested distribution: the bounds get one entry too many and the intervals of
    // the classes above the invariant are shifted (known finding): then only the classes themselves are compared
    const bool merged = K <= nv.size(), boundsOff = merged && c.isKnown("C09-invariant-coincide-bounds");   // one or several classes share a key (map precision)
    if (merged) c.label("invariant_merged_with_a_class");
    // median-valued nested classes are scaled medians that may leave their intervals (documented scaling): the compound's
    // bounds are built from those values and nested bounds, so its interval structure is only checked for mean-valued classes
    const bool intervalsOk = !nm.median && !boundsOff;
    Obs o = checkStructure(*d, K, (K + 1) * prec, K * 1e-12, intervalsOk, where, intervalsOk);
    compareClasses(o, want, 4 * EPS, where);
    // cdf of the compound: (1-p) F + p [x >= invariant]
    for (size_t k = 0; k < o.v.size(); ++k) {
      double x = o.v[k]; if (std::abs(x - inv) <= 8 * EPS * std::abs(inv)) continue;
      LD ref = (1 - static_cast<LD>(p)) * refP(nm.q, x) + (x < inv ? 0 : p);
      CHECK(std::abs(d->pProb(x) - static_cast<double>(ref)) <= tolOf(nm.q.f).p + 4 * EPS, where << ": pProb(" << vf::dec(x) << ") = " << vf::dec(d->pProb(x)) << " but (1-p) F(x) + p [x >= invariant] = " << vf::dec(static_cast<double>(ref)));
    }
    if (intervalsOk && opt.lookups) checkLookups(c, *d, o, (K + 1) * prec, opt, where);
    auditParams(*d, where);
  };
  check("after construction");
  vector<Slot> slots; for (const PRef& pr : paramsOf(nm.q)) slots.push_back({nsOf(nm.q.f) + pr.name, 0, pr.which}); slots.push_back({"p", -1, 0});
  bool touched = false, rejected = false;
  int nops = c.irange(0, 10);
  for (int op = 0; op < nops; ++op) {
    ostringstream w; w << "after op " << op + 1 << " ";
    const DDI& nst = nestedOf(0);
    try {
    switch (c.weighted({5, 3, 2, 3, 1, 1, 1})) {
      case 0: if (compoundUpdate(c, *d, slots, comps, wts, nestedOf, rejected, w)) touched = true; break;
      case 1: { size_t nk = genK(c); c.desc << "; setNumberOfCategories(" << nk << ")"; w << "setNumberOfCategories(" << nk << ")"; nm.K = nk; guardKnown(c, nm, nst.getLowerBound(), nst.getUpperBound()); d->setNumberOfCategories(nk); touched = true; break; }
      case 2: {
        bool md = c.flag(); c.desc << "; setMedian(" << md << ")"; w << "setMedian(" << md << ")";
        // the compound forwards the request only when its own flag changes (documented "if the median value is modified")
        if (md != outerMedian) { Model nx = nm; nx.median = md; guardKnown(c, nx, nst.getLowerBound(), nst.getUpperBound()); nm.median = md; outerMedian = md; }
        d->setMedian(md); break; }
      case 3: {  // restriction
        if (nm.q.f == F_TEXP) { c.desc << "; nop"; break; }
        Restr r; auto massOf = [&](double a, double b) { return static_cast<double>(refP(nm.q, b) - refP(nm.q, a)); };
        if (!nestedRegular(nm, nst) || !genRestriction(c, nst, true, massOf, r, false)) { c.desc << "; nop"; break; }
        if (c.flag()) { if (inv < r.x1) r.x1 = inv - c.pick({0.0, 1.0}); if (inv > r.x2) r.x2 = inv + c.pick({0.0, 1.0}); }   // often widened to keep the invariant
        IntervalConstraint ic(r.x1, r.x2, r.in1, r.in2);
        c.desc << "; restrictToConstraint(" << showRestr(r) << ")"; w << "restrictToConstraint" << showRestr(r);
        bool ok = refAccepts(ic, inv);
        double e1 = std::max(r.x1, nst.getLowerBound()), e2 = std::min(r.x2, nst.getUpperBound());
        if (ok && !(e1 < e2 && massOf(e1, e2) >= 0.02)) { c.desc << "(skipped: no mass)"; break; }
        if (ok) guardKnown(c, nm, e1, e2);
        Obs before = observeD(*d);
        try { d->restrictToConstraint(ic); CHECK(ok, w.str() << ": accepted although the invariant " << vf::dec(inv) << " lies outside"); touched = true; }
        catch (ConstraintException&) { CHECK(!ok, w.str() << ": ConstraintException although the invariant lies inside the interval"); c.desc << "!"; rejected = true; string df = diffObs(before, observeD(*d)); CHECK(df.empty(), w.str() << ": a refused restriction changed the " << df); }
        break; }
      case 4: c.desc << "; discretize()"; w << "discretize()"; d->discretize(); break;
      case 5: {
        c.desc << "; clone"; w << "clone"; unique_ptr<DDI> e(d->clone());
        string df = diffObs(observeD(*d), observeD(*e)); CHECK(df.empty(), w.str() << ": the clone differs from the original in the " << df);
        if (c.flag()) { c.desc << ", continue with it"; swap(d, e); keepBystander(left, std::move(e), "the original it was cloned from"); } else keepBystander(left, std::move(e), "its clone");
        break; }
      default: {
        Model o2 = genNestedModel(c, true); double p2 = c.unit(), i2 = static_cast<double>(c.zig(3));
        c.desc << "; assign over InvariantMixed(" << showModel(o2) << ",p=" << vf::dec(p2) << ",invariant=" << vf::dec(i2) << ")"; w << "assignment";
        if (o2.q.f == F_GAMMA && o2.q.off < 0) o2.q.off = 0;
        unique_ptr<DDI> e(new InvariantMixedDiscreteDistribution(make(o2.q, o2.K, o2.scheme), p2, i2));
        dynamic_cast<InvariantMixedDiscreteDistribution&>(*e) = dynamic_cast<const InvariantMixedDiscreteDistribution&>(*d);
        string df = diffObs(observeD(*d), observeD(*e)); CHECK(df.empty(), w.str() << ": the assigned object differs from the source in the " << df);
        swap(d, e); keepBystander(left, std::move(e), "the source of the assignment");
        break; }
    }
    } catch (StopHistory&) { c.desc << " [the history ends here: the operation would leave the regular range]"; c.label("stopped_before_leaving_the_regular_range"); break; }
    check(w.str());
  }
  c.nt(place == 2 || place == 3 || touched || rejected);
  if (place == 2) c.label("invariant_coincides_with_a_class");
}

// =================================================================== L7: mixture of continuous distributions
LAW(L7_mixture, RC, 3000, 150000, 220, "always (compound family): 2-3 components merged into one set of classes", 5, true) {
  CheckOpt opt; opt.lookups = c.flag(); if (opt.lookups) c.desc << "[lookups] ";
  size_t nc = static_cast<size_t>(c.irange(2, 3));
  vector<Model> comps; vector<unique_ptr<DDI>> objs; vector<unsigned> iw; unsigned W = 0;
  bool sameTwice = c.oneIn(5);
  for (size_t i = 0; i < nc; ++i) {
    Model m = (sameTwice && i == 1) ? comps[0] : genNestedModel(c, true);
    if (m.K > 12) m.K = 1 + m.K % 12;
    comps.push_back(m); iw.push_back(1 + static_cast<unsigned>(c.below(4))); W += iw.back();
  }
  vector<double> probas; for (unsigned x : iw) probas.push_back(static_cast<double>(x) / W);
  vector<double> theta; { LD rest = 1; for (size_t i = 0; i + 1 < nc; ++i) { theta.push_back(static_cast<double>(probas[i] / rest)); rest -= probas[i]; } }
  c.desc << "Mixture(";
  for (size_t i = 0; i < nc; ++i) { c.desc << (i ? " + " : "") << vf::dec(probas[i]) << "*" << showModel(comps[i]); objs.push_back(make(comps[i].q, comps[i].K, comps[i].scheme)); try { guardKnown(c, comps[i], objs[i]->getLowerBound(), objs[i]->getUpperBound()); } catch (StopHistory&) { throw vf::Skip(); } }
  c.desc << ")";
  unique_ptr<DDI> d(new MixtureOfDiscreteDistributions(objs, probas));
  // the mixture works on its own copies: the objects handed to the constructor stay alive and must never change
  vector<Bystander> left, handed;
  for (size_t i = 0; i < nc; ++i) keepBystander(handed, std::move(objs[i]), "the component object " + to_string(i + 1) + " handed to the constructor (the mixture holds a copy of it)");
  objs.clear();
  auto mix = [&]() -> const MixtureOfDiscreteDistributions& { return dynamic_cast<const MixtureOfDiscreteDistributions&>(*d); };
  auto nestedOf = [&](size_t i) -> const DDI& { return mix().nDistribution(i); };
  for (size_t i = 0; i + 1 < nc; ++i) { double got = d->getParameterValue("theta" + to_string(i + 1)); CHECK(std::abs(got - theta[i]) <= 1e-13, "after construction: theta" << i + 1 << " = " << vf::dec(got) << ", the documented parametrisation gives " << vf::dec(theta[i])); theta[i] = got; }
  bool exactW = true;
  opt.lookT = 0.05 + 0.9 * c.unit();
  bool outerMedian = false;
  auto check = [&](const string& where) {
    bool regular = true;
    checkBystanders(handed, where); checkBystanders(left, where);
    for (size_t i = 0; i < nc; ++i) { checkCont(c, nestedOf(i), comps[i], opt, where + " (component " + to_string(i + 1) + ")"); if (!nestedRegular(comps[i], nestedOf(i))) regular = false; }
    CHECK(mix().getNumberOfDistributions() == nc, where << ": number of components");
    // weights: p_i = theta_i * prod_{j<i} (1-theta_j)
    vector<LD> wgt(nc); { LD rest = 1; for (size_t i = 0; i + 1 < nc; ++i) { wgt[i] = static_cast<LD>(theta[i]) * rest; rest *= 1 - static_cast<LD>(theta[i]); } wgt[nc - 1] = rest; }
    if (exactW) for (size_t i = 0; i < nc; ++i) wgt[i] = probas[i];
    for (size_t i = 0; i < nc; ++i) CHECK(std::abs(mix().getNProbability(i) - static_cast<double>(wgt[i])) <= 1e-13, where << ": weight of component " << i + 1 << " is " << vf::dec(mix().getNProbability(i)) << ", the documented parametrisation gives " << vf::dec(static_cast<double>(wgt[i])));
    if (!regular) { auditParams(*d, where); return; }
    double prec = precisionOf(*d);
    RefMap want(RefOrder{prec});
    for (size_t i = 0; i < nc; ++i) { Vdouble v = nestedOf(i).getCategories(); for (double x : v) want[x] = 0; }
    for (size_t i = 0; i < nc; ++i) { Vdouble v = nestedOf(i).getCategories(), p = nestedOf(i).getProbabilities(); for (size_t j = 0; j < v.size(); ++j) want[v[j]] += static_cast<LD>(p[j]) * static_cast<LD>(mix().getNProbability(i)); }
    size_t K = want.size(); bool anyMedian = false; for (auto& m : comps) if (m.median) anyMedian = true;
    Obs o = checkStructure(*d, K, (K + 1) * prec, K * 1e-12, false, where);
    compareClasses(o, want, 8 * EPS, where);
    // each class value lies between the midpoints to its neighbours; the domain is the hull of the components' domains
    for (size_t k = 0; k + 1 < K; ++k) CHECK(std::abs(o.b[k + 1] - (o.v[k] + o.v[k + 1]) / 2) <= 4 * EPS * std::max(std::abs(o.v[k]), std::abs(o.v[k + 1])), where << ": interior bound " << k << " is not between the neighbouring values");
    double hlo = INFINITY, hhi = -INFINITY; for (size_t i = 0; i < nc; ++i) { hlo = std::min(hlo, nestedOf(i).getLowerBound()); hhi = std::max(hhi, nestedOf(i).getUpperBound()); }
    CHECK(vf::sameBits(o.lo, hlo) && vf::sameBits(o.hi, hhi), where << ": domain [" << vf::dec(o.lo) << ";" << vf::dec(o.hi) << "] is not the hull [" << vf::dec(hlo) << ";" << vf::dec(hhi) << "] of the components' domains");
    (void)anyMedian;
    double ilo = -INFINITY, ihi = INFINITY; for (size_t i = 0; i < nc; ++i) { ilo = std::max(ilo, nestedOf(i).getLowerBound()); ihi = std::min(ihi, nestedOf(i).getUpperBound()); }
    for (size_t k = 0; k < K; k += 1 + K / 6) {   // cdf = mixture of the component cdfs (where every component cdf is defined)
      double x = o.v[k]; LD ref = 0; if (!(x > ilo && x < ihi)) continue; double t = 4 * EPS; for (size_t i = 0; i < nc; ++i) { ref += wgt[i] * refP(comps[i].q, x); t += static_cast<double>(wgt[i]) * tolOf(comps[i].q.f).p; }
      CHECK(std::abs(d->pProb(x) - static_cast<double>(ref)) <= t + 1e-13, where << ": pProb(" << vf::dec(x) << ") = " << vf::dec(d->pProb(x)) << " but the mixture of the component cdfs is " << vf::dec(static_cast<double>(ref)));
    }
    for (size_t k = 0; k < K; k += 1 + K / 6) {   // partial expectation = mixture of the component partial expectations (same points)
      double x = o.v[k]; LD ref = 0; if (!(x > ilo && x < ihi)) continue; double t = 0;
      for (size_t i = 0; i < nc; ++i) { ref += wgt[i] * refE(comps[i].q, x); t += static_cast<double>(wgt[i]) * tolOf(comps[i].q.f).e * scaleOf(comps[i].q); }
      double E = d->Expectation(x);
      CHECK(std::abs(E - static_cast<double>(ref)) <= t + 8 * EPS * std::abs(static_cast<double>(ref)) + 1e-13, where << ": Expectation(" << vf::dec(x) << ") = " << vf::dec(E) << " but the mixture of the component partial expectations is " << vf::dec(static_cast<double>(ref)));
    }
    // values inside their own interval holds by construction of midpoint bounds when the extreme values lie in the domain
    bool inside = true; for (size_t i = 0; i < nc; ++i) if (comps[i].median) inside = false;
    if (inside) for (size_t k = 0; k < K; ++k) CHECK(o.v[k] >= o.b[k] - (K + 1) * prec && o.v[k] <= o.b[k + 1] + (K + 1) * prec, where << ": value " << vf::dec(o.v[k]) << " of class " << k << " lies outside its interval [" << vf::dec(o.b[k]) << ";" << vf::dec(o.b[k + 1]) << "]");
    if (opt.lookups) checkLookups(c, *d, o, (K + 1) * prec, opt, where);
    auditParams(*d, where);
  };
  check("after construction");
  vector<Slot> slots;
  for (size_t i = 0; i < nc; ++i) for (const PRef& pr : paramsOf(comps[i].q)) slots.push_back({to_string(i + 1) + "_" + nsOf(comps[i].q.f) + pr.name, static_cast<int>(i), pr.which});
  for (size_t i = 0; i + 1 < nc; ++i) slots.push_back({"theta" + to_string(i + 1), -1, static_cast<int>(i)});
  bool anyTexp = false; for (auto& m : comps) if (m.q.f == F_TEXP) anyTexp = true;
  bool rejected = false;
  int nops = c.irange(0, 8);
  for (int op = 0; op < nops; ++op) {
    ostringstream w; w << "after op " << op + 1 << " ";
    try {
    switch (c.weighted({5, 2, 2, 3, 1, 1, 1})) {
      case 0: if (compoundUpdate(c, *d, slots, comps, theta, nestedOf, rejected, w)) exactW = false; break;
      case 1: {
        size_t nk = static_cast<size_t>(c.irange(1, 12)); c.desc << "; setNumberOfCategories(" << nk << ")"; w << "setNumberOfCategories(" << nk << ")";
        for (size_t i = 0; i < nc; ++i) { comps[i].K = nk; guardKnown(c, comps[i], nestedOf(i).getLowerBound(), nestedOf(i).getUpperBound()); }
        d->setNumberOfCategories(nk); break; }
      case 2: {
        bool md = c.flag(); c.desc << "; setMedian(" << md << ")"; w << "setMedian(" << md << ")";
        if (md != outerMedian) { for (size_t i = 0; i < nc; ++i) { comps[i].median = md; guardKnown(c, comps[i], nestedOf(i).getLowerBound(), nestedOf(i).getUpperBound()); } outerMedian = md; }
        d->setMedian(md); break; }
      case 3: {  // restriction: every component keeps mass
        bool reg = true; for (size_t i = 0; i < nc; ++i) if (!nestedRegular(comps[i], nestedOf(i))) reg = false;
        if (anyTexp || !reg) { c.desc << "; nop"; break; }
        size_t from = c.below(nc); Restr r;
        auto massOf = [&](double a, double b) { double mn = 1; for (size_t i = 0; i < nc; ++i) { double e1 = std::max(a, nestedOf(i).getLowerBound()), e2 = std::min(b, nestedOf(i).getUpperBound()); mn = std::min(mn, e1 < e2 ? static_cast<double>(refP(comps[i].q, e2) - refP(comps[i].q, e1)) : 0.0); } return mn; };
        if (!genRestriction(c, nestedOf(from), true, [&](double, double) { return 1.0; }, r, false)) { c.desc << "; nop"; break; }
        if (!(massOf(r.x1, r.x2) >= 0.02)) { c.desc << "; nop"; break; }
        c.desc << "; restrictToConstraint(" << showRestr(r) << ")"; w << "restrictToConstraint" << showRestr(r);
        for (size_t i = 0; i < nc; ++i) guardKnown(c, comps[i], std::max(r.x1, nestedOf(i).getLowerBound()), std::min(r.x2, nestedOf(i).getUpperBound()));
        // a restriction of the mixture restricts EVERY component: each domain becomes its intersection with the interval
        // (the hull check of check() takes the components' domains as they are, so it cannot see a component left out)
        vector<pair<double, double>> wantDom;
        for (size_t i = 0; i < nc; ++i) wantDom.push_back({std::max(r.x1, nestedOf(i).getLowerBound()), std::min(r.x2, nestedOf(i).getUpperBound())});
        d->restrictToConstraint(IntervalConstraint(r.x1, r.x2, r.in1, r.in2));
        for (size_t i = 0; i < nc; ++i)
          CHECK(vf::sameBits(nestedOf(i).getLowerBound(), wantDom[i].first) && vf::sameBits(nestedOf(i).getUpperBound(), wantDom[i].second), w.str() << ": the domain of component " << i + 1 << " is [" << vf::dec(nestedOf(i).getLowerBound()) << ";" << vf::dec(nestedOf(i).getUpperBound()) << "], expected its intersection with the interval, [" << vf::dec(wantDom[i].first) << ";" << vf::dec(wantDom[i].second) << "]");
        break; }
      case 4: c.desc << "; discretize()"; w << "discretize()"; d->discretize(); break;
      case 5: {
        c.desc << "; clone"; w << "clone"; unique_ptr<DDI> e(d->clone());
        string df = diffObs(observeD(*d), observeD(*e)); CHECK(df.empty(), w.str() << ": the clone differs from the original in the " << df);
        if (c.flag()) { c.desc << ", continue with it"; swap(d, e); keepBystander(left, std::move(e), "the original it was cloned from"); } else keepBystander(left, std::move(e), "its clone");
        break; }
      default: {
        c.desc << "; assign over Mixture(Exponential(1) K=2 + Uniform(0,1) K=1)"; w << "assignment";
        vector<unique_ptr<DDI>> o2; o2.push_back(make_unique<ExponentialDiscreteDistribution>(2, 1.0)); o2.push_back(make_unique<UniformDiscreteDistribution>(1, 0.0, 1.0));
        unique_ptr<DDI> e(new MixtureOfDiscreteDistributions(o2, {0.5, 0.5}));
        dynamic_cast<MixtureOfDiscreteDistributions&>(*e) = mix();
        string df = diffObs(observeD(*d), observeD(*e)); CHECK(df.empty(), w.str() << ": the assigned object differs from the source in the " << df);
        swap(d, e); keepBystander(left, std::move(e), "the source of the assignment");
        break; }
    }
    } catch (StopHistory&) { c.desc << " [the history ends here: the operation would leave the regular range]"; c.label("stopped_before_leaving_the_regular_range"); break; }
    check(w.str());
  }
  c.nt(true);
  if (rejected) c.label("rejected_update");
}

// =================================================================== L8: far tail of the exponential (outside the regular range)
// The other laws end a history before the domain loses (almost) all its mass. This law goes there on purpose for the one
// family whose cdf is written as 1-exp(-lambda x): whatever is left of the accuracy, the update must return and leave
// K finite class values.
LAW(L8_exponential_tail, RC, 1500, 50000, 12, "the domain keeps less than 1e-6 of the parent's mass", 3, true) {
  Model m; m.q.f = F_EXPO; m.q.a = genPos(c); m.K = genK(c);
  double x1 = -std::log(c.pick({0.5, 0.9, 0.1, 0.7})) / m.q.a;               // lower end of the restricted domain
  double logMass = -(3 + 40 * c.unit());                                    // mass left after the update: 1e-3 .. 1e-43 (natural log scale / 2.3)
  double lam2 = -logMass * 2.302585092994046 / x1;
  c.desc << show(m.q) << " K=" << m.K << " restricted to ]" << vf::dec(x1) << ";inf] then lambda=" << vf::dec(lam2) << " (mass left 1e" << logMass << ")";
  c.nt(logMass < -6);
  unique_ptr<DDI> d = make(m.q, m.K, SCH_EQPROB);
  d->restrictToConstraint(IntervalConstraint(x1, INFINITY, false, true));
  if (logMass < -12) c.excludeIfKnown("C09-nan-class-value-hang");
  d->setParameterValue("lambda", lam2);
  Vdouble v = d->getCategories(), p = d->getProbabilities();
  CHECK(v.size() == p.size(), "values and probabilities have different lengths");
  for (double x : v) CHECK(std::isfinite(x), "a class value is " << x << " after the update; values " << showVec(v));
  CHECK(v.size() == m.K, "the update left " << v.size() << " classes instead of " << m.K << "; values " << showVec(v));
}

static struct Init { Init() { vf::G().resetHook = [] { vf::quietBpp(); vf::installAudit(); }; } } init_;
VF_MAIN("C09")
