// C07 — vector reductions match their definitions and are overflow-safe in log space.
// DESIGN.md section 5/C07.  Every LAW draws a sub-law (one library function) first, so that an
// exclusion for a known finding only removes the cases of that one function.
#include "common/pbt.hpp"
#include "common/bppcommon.hpp"
#include "common/c07_util.hpp"

#include <Bpp/Exceptions.h>
#include <Bpp/Numeric/NumTools.h>
#include <Bpp/Numeric/Stat/StatTools.h>
#include <Bpp/Numeric/VectorExceptions.h>
#include <Bpp/Numeric/VectorTools.h>

using namespace bpp;
using namespace std;
using namespace c07;

typedef VectorTools VT;

// =================================================================== L01 element-wise operators
// Binary vector∘vector operators throw DimensionException on unequal lengths (the throw in the code is their only
// documentation).  Compound vector assignments document nothing: for unequal lengths only "no out-of-range access"
// is demanded (a DimensionException is tolerated, the result is not inspected).
namespace {
template <class T> T ar(T x, T y, int k) { switch (k) { case 0: return x + y; case 1: return x - y; case 2: return x * y; default: return x / y; } }
const char* const OPN[] = {"v+v", "v-v", "v*v", "v/v", "v+s", "s+v", "v-s", "s-v", "v*s", "s*v", "v/s", "s/v",
                           "v+=v", "v-=v", "v*=v", "v/=v", "v&=s", "v+=s", "v-=s", "v*=s", "v/=s"};

template <class T> void elementwise(vf::Ctx& c, vector<T> a, vector<T> b, T s, int op, bool isInt) {
  if (isInt) {  // integer division by zero is outside every definition
    if (op == 3 || op == 15) for (auto& x : b) if (x == 0) x = 1;
    if (op == 11) for (auto& x : a) if (x == 0) x = 1;
    if ((op == 10 || op == 20) && s == 0) s = 1;
  }
  c.desc << (isInt ? "int " : "double ") << OPN[op] << " a=" << shv(a) << " b=" << shv(b) << " s=" << sh(s);
  size_t n = a.size(), m = b.size();
  bool usesB = op <= 3 || (op >= 12 && op <= 15);
  c.nt(n <= 1 || (usesB && n != m));
  vector<T> r, e(n);
  if (op <= 3) {
    bool t = threw<DimensionException>([&] {
      switch (op) { case 0: r = bpp::operator+(a, b); break; case 1: r = bpp::operator-(a, b); break; case 2: r = bpp::operator*(a, b); break; default: r = bpp::operator/(a, b); }
    });
    CHECK(t == (n != m), OPN[op] << ": DimensionException " << (t ? "raised" : "not raised") << " for lengths " << n << " and " << m);
    if (t) return;
    for (size_t i = 0; i < n; ++i) e[i] = ar<T>(a[i], b[i], op);
  } else if (op <= 11) {
    switch (op) {
      case 4: r = bpp::operator+(a, s); break; case 5: r = bpp::operator+(s, a); break;
      case 6: r = bpp::operator-(a, s); break; case 7: r = bpp::operator-(s, a); break;
      case 8: r = bpp::operator*(a, s); break; case 9: r = bpp::operator*(s, a); break;
      case 10: r = bpp::operator/(a, s); break; default: r = bpp::operator/(s, a);
    }
    for (size_t i = 0; i < n; ++i) e[i] = (op % 2 == 0) ? ar<T>(a[i], s, (op - 4) / 2) : ar<T>(s, a[i], (op - 4) / 2);
  } else if (op <= 15) {
    r = tight(a);
    if (n > m) c.excludeIfKnown("C07-compound-assign-size");  // reads b[i] for i >= b.size()
    bool t = threw<DimensionException>([&] {
      switch (op) { case 12: bpp::operator+=(r, b); break; case 13: bpp::operator-=(r, b); break; case 14: bpp::operator*=(r, b); break; default: bpp::operator/=(r, b); }
    });
    CHECK(!(t && n == m), OPN[op] << ": DimensionException for equal lengths " << n);
    if (n != m) return;  // undocumented input: not inspected
    for (size_t i = 0; i < n; ++i) e[i] = ar<T>(a[i], b[i], op - 12);
  } else {
    r = tight(a);
    switch (op) { case 16: bpp::operator&=(r, s); break; case 17: bpp::operator+=(r, s); break; case 18: bpp::operator-=(r, s); break; case 19: bpp::operator*=(r, s); break; default: bpp::operator/=(r, s); }
    for (size_t i = 0; i < n; ++i) e[i] = op == 16 ? s : ar<T>(a[i], s, op - 17);
  }
  CHECK(sameVec(r, e), OPN[op] << " gave " << shv(r) << ", element-wise definition gives " << shv(e));
}
}  // namespace

LAW(L01_elementwise, RC, 48000, 1440000, 140, "operand of length <= 1 or unequal lengths") {
  int op = c.irange(0, 20); bool isInt = !c.flag();
  size_t n = genLen(c), m = genLen2(c, n);
  if (isInt) { auto a = genInts(c, n, 9), b = genInts(c, m, 9); elementwise<int>(c, a, b, static_cast<int>(c.zig(9)), op, true); }
  else {
    bool dy = !c.flag();
    auto a = dy ? genDyadic(c, n, 64) : genReals(c, n, -100, 100), b = dy ? genDyadic(c, m, 64) : genReals(c, m, -100, 100);
    elementwise<double>(c, a, b, dy ? c.ival(16) / 4 : c.real(-10, 10), op, false);
  }
}

// =================================================================== L02 reductions
// int and dyadic inputs: exact references (equality); reals: long double reference, tolerance 2*(n+2)*eps*sum|terms|.
namespace {
const char* const RED[] = {"sum", "prod", "cumSum", "cumProd", "sumProd", "scalar", "scalar_w", "norm", "norm_w", "cos", "cos_w", "kronecker"};

// factors whose running product stays exact (int: |p| <= 2^30; double: at most 30 factors 3, powers of two otherwise)
vector<int> genIntFactors(vf::Ctx& c, size_t n) {
  static const int F[] = {1, -1, 2, -2, 3, 0};
  vector<int> v(n); __int128 p = 1;
  for (auto& x : v) { x = F[c.weighted({4, 3, 3, 2, 2, 1})]; if ((p * x > (1 << 30)) || (p * x < -(1 << 30))) x = 1; p *= x; if (p == 0) p = 1; }
  return tight(v);
}
vector<double> genDblFactors(vf::Ctx& c, size_t n) {
  static const double F[] = {1, -1, 2, 0.5, -2, 3, -0.5, 0};
  vector<double> v(n); int threes = 0;
  for (auto& x : v) { x = F[c.weighted({3, 3, 3, 3, 2, 2, 2, 1})]; if (x == 3 && ++threes > 30) x = 1; }
  return tight(v);
}
bool closeTo(double got, LD ref, LD tol, vf::Ctx& c, const char* what) {
  LD err = fabsl(static_cast<LD>(got) - ref);
  if (tol > 0) c.observe(string(what) + " err/tol", static_cast<double>(err / tol));
  return err <= tol;
}
}  // namespace

LAW(L02_reductions_exact, RC, 48000, 1440000, 210, "an operand of length <= 1, or unequal lengths") {
  int f = c.irange(0, 11); bool isInt = !c.flag();
  size_t n = genLen(c), m = (f == 0 || f == 1 || f == 2 || f == 3 || f == 7) ? n : genLen2(c, n);
  if (f == 11) { n = genLen(c, 12); m = genLen(c, 12); }
  // integer images (dyadic value = k/8)
  vector<int> ka = (f == 1 || f == 3) ? genIntFactors(c, n) : genInts(c, n, 40), kb = genInts(c, m, 40);
  size_t wl = (f == 6 || f == 8 || f == 10) ? genLen2(c, n) : 0;
  vector<int> kw(wl); for (auto& x : kw) x = c.irange(0, 16);
  vector<double> da, db, dw;
  if (f == 1 || f == 3) { da = isInt ? vector<double>() : genDblFactors(c, n); }
  else for (int k : ka) da.push_back(k / 8.0);
  for (int k : kb) db.push_back(k / 8.0);
  for (int k : kw) dw.push_back(k / 8.0);
  da = tight(da); db = tight(db); dw = tight(dw); kw = tight(kw);
  c.desc << (isInt ? "int " : "dyadic ") << RED[f] << " a=" << (isInt ? shv(ka) : shv(da));
  if (m != n || f >= 4) c.desc << " b=" << (isInt ? shv(kb) : shv(db));
  if (wl || f == 6 || f == 8 || f == 10) c.desc << " w=" << (isInt ? shv(kw) : shv(dw));
  c.nt(n <= 1 || n != m || ((f == 6 || f == 8 || f == 10) && wl != n));
  const double sc = isInt ? 1.0 : 8.0;  // value = image / sc
  auto I = [](const vector<int>& v, size_t i) { return static_cast<__int128>(v[i]); };
  switch (f) {
    case 0: {  // sum
      __int128 s = 0; for (size_t i = 0; i < n; ++i) s += I(ka, i);
      if (isInt) { int g = VT::sum(ka); CHECK(g == static_cast<int>(s), "sum=" << g << " expected " << static_cast<long>(s)); }
      else { double g = VT::sum(da); CHECK(g == static_cast<double>(s) / sc, "sum=" << sh(g) << " expected " << sh(static_cast<double>(s) / sc)); }
      break; }
    case 1: case 3: {  // prod, cumProd  (empty product = 1)
      if (isInt) {
        __int128 p = 1; vector<int> cp; for (size_t i = 0; i < n; ++i) { p *= ka[i]; cp.push_back(static_cast<int>(p)); }
        if (f == 1) { int g = VT::prod(ka); CHECK(g == static_cast<int>(p), "prod=" << g << " expected " << static_cast<long>(p)); }
        else { auto g = VT::cumProd(ka); CHECK(g == cp, "cumProd=" << shv(g) << " expected " << shv(cp)); }
      } else {
        LD p = 1; vector<double> cp; for (size_t i = 0; i < n; ++i) { p *= da[i]; cp.push_back(static_cast<double>(p)); }  // exact by construction
        if (f == 1) { double g = VT::prod(da); CHECK(g == static_cast<double>(p), "prod=" << sh(g) << " expected " << sh(static_cast<double>(p))); }
        else { auto g = VT::cumProd(da); CHECK(sameVec(g, cp), "cumProd=" << shv(g) << " expected " << shv(cp)); }
      }
      break; }
    case 2: {  // cumSum
      __int128 s = 0; vector<int> ci; vector<double> cd;
      for (size_t i = 0; i < n; ++i) { s += I(ka, i); ci.push_back(static_cast<int>(s)); cd.push_back(static_cast<double>(s) / sc); }
      if (isInt) { auto g = VT::cumSum(ka); CHECK(g == ci, "cumSum=" << shv(g) << " expected " << shv(ci)); }
      else { auto g = VT::cumSum(da); CHECK(sameVec(g, cd), "cumSum=" << shv(g) << " expected " << shv(cd)); }
      break; }
    case 4: case 5: {  // sumProd (no documented exception), scalar (documented DimensionException)
      __int128 s = 0; for (size_t i = 0; i < min(n, m); ++i) s += I(ka, i) * I(kb, i);
      if (f == 4 && n == 0 && m == 0) c.excludeIfKnown("C07-sumprod-empty");  // reads [0] of the empty vectors
      double g = 0; bool t = threw<DimensionException>([&] {
        if (f == 4) g = isInt ? VT::sumProd(ka, kb) : VT::sumProd(da, db);
        else g = isInt ? VT::scalar<int, int>(ka, kb) : VT::scalar<double, double>(da, db);
      });
      if (f == 5) CHECK(t == (n != m), "scalar: DimensionException " << (t ? "raised" : "not raised") << " for lengths " << n << "," << m);
      else CHECK(!(t && n == m), "sumProd: DimensionException for equal lengths");
      if (n == m) CHECK(g == static_cast<double>(s) / (sc * sc), RED[f] << "=" << sh(g) << " expected " << sh(static_cast<double>(s) / (sc * sc)));
      break; }
    case 6: {  // weighted scalar: documented DimensionException if lengths differ from the weights'
      bool bad = n != wl || m != wl;
      __int128 s = 0; if (!bad) for (size_t i = 0; i < n; ++i) s += I(ka, i) * I(kb, i) * I(kw, i);
      double g = 0; bool t = threw<DimensionException>([&] { g = isInt ? VT::scalar<int, int>(ka, kb, kw) : VT::scalar<double, double>(da, db, dw); });
      CHECK(t == bad, "weighted scalar: DimensionException " << (t ? "raised" : "not raised") << " for lengths " << n << "," << m << "," << wl);
      if (!bad) CHECK(g == static_cast<double>(s) / (sc * sc * sc), "weighted scalar=" << sh(g) << " expected " << sh(static_cast<double>(s) / (sc * sc * sc)));
      break; }
    case 7: case 8: {  // norm, weighted norm (sqrt of an exactly representable sum: correctly rounded)
      bool bad = f == 8 && n != wl;
      __int128 s = 0; if (!bad) for (size_t i = 0; i < n; ++i) s += I(ka, i) * I(ka, i) * (f == 8 ? I(kw, i) : 1);
      double e = std::sqrt(static_cast<double>(s) / (f == 8 ? sc * sc * sc : sc * sc));
      double g = 0; bool t = threw<DimensionException>([&] {
        if (f == 7) g = isInt ? VT::norm<int, double>(ka) : VT::norm<double, double>(da);
        else g = isInt ? VT::norm<int, double>(ka, kw) : VT::norm<double, double>(da, dw);
      });
      CHECK(t == bad, RED[f] << ": DimensionException " << (t ? "raised" : "not raised") << " for lengths " << n << "," << wl);
      if (!bad) CHECK(g == e, RED[f] << "=" << sh(g) << " expected " << sh(e));
      break; }
    case 9: case 10: {  // cosine of the angle: documented DimensionException; value within 16 eps when both norms > 0
      bool bad = n != m || (f == 10 && (n != wl || m != wl));
      double g = 0; bool t = threw<DimensionException>([&] {
        if (f == 9) g = isInt ? VT::cos<int, double>(ka, kb) : VT::cos<double, double>(da, db);
        else g = isInt ? VT::cos<int, double>(ka, kb, kw) : VT::cos<double, double>(da, db, dw);
      });
      CHECK(t == bad, RED[f] << ": DimensionException " << (t ? "raised" : "not raised") << " for lengths " << n << "," << m << "," << wl);
      if (bad) break;
      __int128 sab = 0, saa = 0, sbb = 0;
      for (size_t i = 0; i < n; ++i) { __int128 w = f == 10 ? I(kw, i) : 1; sab += I(ka, i) * I(kb, i) * w; saa += I(ka, i) * I(ka, i) * w; sbb += I(kb, i) * I(kb, i) * w; }
      if (saa == 0 || sbb == 0) break;  // 0/0: not inspected
      LD e = static_cast<LD>(sab) / (sqrtl(static_cast<LD>(saa)) * sqrtl(static_cast<LD>(sbb)));
      CHECK(closeTo(g, e, 16 * EPS, c, "cos"), RED[f] << "=" << sh(g) << " expected " << sh(static_cast<double>(e)));
      CHECK(std::fabs(g) <= 1 + 16 * EPS, "|cos| > 1: " << sh(g));
      break; }
    default: {  // Kronecker product: defined for any two lengths; the doc comment (copied from scalar) announces a
      // DimensionException for unequal lengths, so both outcomes are accepted there (weakest documented reading).
      vector<int> ei; vector<double> ed;
      for (size_t i = 0; i < n; ++i) for (size_t j = 0; j < m; ++j) { ei.push_back(ka[i] * kb[j]); ed.push_back(da[i] * db[j]); }
      bool t = threw<DimensionException>([&] {
        if (isInt) { auto g = VT::kroneckerMult(ka, kb); CHECK(g == ei, "kroneckerMult=" << shv(g) << " expected " << shv(ei)); }
        else { auto g = VT::kroneckerMult(da, db); CHECK(sameVec(g, ed), "kroneckerMult=" << shv(g) << " expected " << shv(ed)); }
      });
      CHECK(!(t && n == m), "kroneckerMult: DimensionException for equal lengths");
    }
  }
}

LAW(L02_reductions_real, RC, 32000, 960000, 210, "length <= 2, or a sum with cancellation (|sum| < sum|terms|/4)") {
  int f = c.irange(0, 8); size_t n = genLen(c);
  double span = c.pick({1.0, 100.0, 1e6});
  auto a = genReals(c, n, -span, span), b = genReals(c, n, -span, span); auto w = genWeights(c, n);
  static const char* const NM[] = {"sum", "prod", "cumSum", "cumProd", "sumProd", "scalar", "scalar_w", "norm", "cos"};
  c.desc << "real " << NM[f] << " a=" << shv(a);
  if (f >= 4 && f != 7) c.desc << " b=" << shv(b);
  if (f == 6) c.desc << " w=" << shv(w);
  bool cancel = false;
  auto sumCheck = [&](double g, const vector<LD>& t, const char* what) {
    LD s = 0, abs = 0; for (LD x : t) { s += x; abs += fabsl(x); }
    if (fabsl(s) < abs / 4) cancel = true;
    LD tol = 2 * (static_cast<LD>(t.size()) + 2) * EPS * abs;
    CHECK(closeTo(g, s, tol, c, "real sum"), what << "=" << sh(g) << " expected " << sh(static_cast<double>(s)) << " tol " << sh(static_cast<double>(tol)));
  };
  vector<LD> t;
  switch (f) {
    case 0: for (double x : a) t.push_back(x); sumCheck(VT::sum(a), t, "sum"); break;
    case 2: { auto g = VT::cumSum(a); CHECK(g.size() == n, "cumSum size"); for (size_t i = 0; i < n; ++i) { t.push_back(a[i]); sumCheck(g[i], t, "cumSum[i]"); } break; }
    case 1: case 3: {
      if (n > 40) { a.resize(40); n = 40; }  // |product| <= 1e240
      auto g = VT::cumProd(a); double gp = VT::prod(a); LD p = 1;
      CHECK(g.size() == n, "cumProd size");
      for (size_t i = 0; i < n; ++i) { p *= a[i]; CHECK(closeTo(g[i], p, 2 * (static_cast<LD>(i) + 2) * EPS * fabsl(p), c, "real prod"), "cumProd[" << i << "]=" << sh(g[i]) << " expected " << sh(static_cast<double>(p))); }
      CHECK(closeTo(gp, p, 2 * (static_cast<LD>(n) + 2) * EPS * fabsl(p), c, "real prod"), "prod=" << sh(gp) << " expected " << sh(static_cast<double>(p)));
      break; }
    case 4: if (n == 0) c.excludeIfKnown("C07-sumprod-empty"); for (size_t i = 0; i < n; ++i) t.push_back(static_cast<LD>(a[i]) * b[i]); sumCheck(VT::sumProd(a, b), t, "sumProd"); break;
    case 5: for (size_t i = 0; i < n; ++i) t.push_back(static_cast<LD>(a[i]) * b[i]); sumCheck(VT::scalar<double, double>(a, b), t, "scalar"); break;
    case 6: for (size_t i = 0; i < n; ++i) t.push_back(static_cast<LD>(a[i]) * b[i] * w[i]); sumCheck(VT::scalar<double, double>(a, b, w), t, "weighted scalar"); break;
    case 7: { LD s = 0; for (double x : a) s += static_cast<LD>(x) * x; LD e = sqrtl(s); double g = VT::norm<double, double>(a);
      CHECK(closeTo(g, e, 2 * (static_cast<LD>(n) + 3) * EPS * e, c, "real norm"), "norm=" << sh(g) << " expected " << sh(static_cast<double>(e))); break; }
    default: { LD sab = 0, saa = 0, sbb = 0; for (size_t i = 0; i < n; ++i) { sab += static_cast<LD>(a[i]) * b[i]; saa += static_cast<LD>(a[i]) * a[i]; sbb += static_cast<LD>(b[i]) * b[i]; }
      double g = VT::cos<double, double>(a, b); if (saa == 0 || sbb == 0) break;
      CHECK(closeTo(g, sab / (sqrtl(saa) * sqrtl(sbb)), 4 * (static_cast<LD>(n) + 4) * EPS, c, "real cos"), "cos=" << sh(g)); CHECK(std::fabs(g) <= 1 + 4 * (n + 4.0) * EPS, "|cos|>1"); }
  }
  c.nt(n <= 2 || cancel);
}

// =================================================================== L03 extrema, positions, order, abs
// Documented: EmptyVectorException on empty input (min, max, whichMin/Max(All), range, order); whichMin/whichMax
// return the FIRST matching position.  order: any permutation p with v[p] non-decreasing (ties in any order).
namespace {
const char* const EXT[] = {"min", "max", "range", "whichMin", "whichMax", "whichMinAll", "whichMaxAll", "order", "abs"};
template <class T> void extrema(vf::Ctx& c, const vector<T>& v, int f, const char* ty) {
  c.desc << ty << " " << EXT[f] << " v=" << shv(v);
  size_t n = v.size(); c.nt(n <= 1 || hasTies(v));
  if (f == 8) { auto g = VT::abs(v); vector<T> e; for (T x : v) e.push_back(x < 0 ? -x : x); CHECK(sameVec(g, e), "abs=" << shv(g)); return; }
  T mn = 0, mx = 0; size_t pmn = 0, pmx = 0; vector<size_t> amn, amx;
  for (size_t i = 0; i < n; ++i) { if (i == 0 || v[i] < mn) { mn = v[i]; pmn = i; } if (i == 0 || v[i] > mx) { mx = v[i]; pmx = i; } }
  for (size_t i = 0; i < n; ++i) { if (v[i] == mn) amn.push_back(i); if (v[i] == mx) amx.push_back(i); }
  bool t = threw<EmptyVectorException<T>>([&] {
    switch (f) {
      case 0: { T g = VT::min(v); CHECK(g == mn, "min=" << sh(g) << " expected " << sh(mn)); break; }
      case 1: { T g = VT::max(v); CHECK(g == mx, "max=" << sh(g) << " expected " << sh(mx)); break; }
      case 2: { auto g = VT::range(v); CHECK(g.size() == 2 && g[0] == mn && g[1] == mx, "range=" << shv(g) << " expected [" << sh(mn) << "," << sh(mx) << "]"); break; }
      case 3: { size_t g = VT::whichMin(v); CHECK(g == pmn, "whichMin=" << g << " expected first position " << pmn); break; }
      case 4: { size_t g = VT::whichMax(v); CHECK(g == pmx, "whichMax=" << g << " expected first position " << pmx); break; }
      case 5: { auto g = VT::whichMinAll(v); CHECK(g == amn, "whichMinAll=" << shv(g) << " expected " << shv(amn)); break; }
      case 6: { auto g = VT::whichMaxAll(v); CHECK(g == amx, "whichMaxAll=" << shv(g) << " expected " << shv(amx)); break; }
      default: {
        auto g = VT::order(v); CHECK(g.size() == n, "order has size " << g.size());
        vector<char> seen(n, 0); for (size_t p : g) { CHECK(p < n && !seen[p], "order " << shv(g) << " is not a permutation"); seen[p] = 1; }
        for (size_t i = 1; i < n; ++i) CHECK(!(v[g[i]] < v[g[i - 1]]), "v[order] decreases at " << i << ": order=" << shv(g));
      }
    }
  });
  CHECK(t == (n == 0), EXT[f] << ": EmptyVectorException " << (t ? "raised" : "not raised") << " for length " << n);
}
}  // namespace

LAW(L03_extrema_order, RC, 40000, 1200000, 80, "length <= 1 or ties") {
  int f = c.irange(0, 8); size_t n = genLen(c);
  switch (c.weighted({3, 2, 2})) {
    case 0: extrema<int>(c, genInts(c, n, c.pick({1, 3, 9})), f, "int"); break;
    case 1: extrema<double>(c, genDyadic(c, n, c.pick({2, 16, 64})), f, "double"); break;
    default: extrema<double>(c, genReals(c, n, -100, 100), f, "double");
  }
}

// =================================================================== L04 median, mean, center
// median (reals; sorts its argument): middle element / mean of the two middle elements of the sorted sample.
// No exception is documented for these functions: for empty input or a weight vector of another length only
// "no out-of-range access" is demanded (a DimensionException is tolerated).
LAW(L04_median_mean_center, RC, 40000, 1200000, 150, "length <= 2, ties, or a zero weight") {
  int f = c.irange(0, 4); size_t n = genLen(c); bool dy = !c.flag();
  auto v = dy ? genDyadic(c, n, 64) : genReals(c, n, -100, 100);
  bool weighted = f == 2 || f == 4; size_t wl = weighted ? genLen2(c, n) : 0;
  auto w = genWeights(c, wl); bool norm = weighted ? !c.oneIn(3) : true;
  static const char* const NM[] = {"median", "mean", "mean_w", "center", "center_w"};
  c.desc << NM[f] << " v=" << shv(v); if (weighted) c.desc << " w=" << shv(w) << " normalize=" << norm;
  bool zeroW = false; for (double x : w) if (x == 0) zeroW = true;
  c.nt(n <= 2 || hasTies(v) || zeroW);
  LD A = 0; for (double x : v) A = max<LD>(A, fabsl(x));
  if (f == 0) {
    auto cp = tight(v); double g = VT::median(cp);
    if (n == 0) return;  // undocumented: not inspected
    auto s = v; sort(s.begin(), s.end());
    LD e = n % 2 ? static_cast<LD>(s[n / 2]) : (static_cast<LD>(s[n / 2 - 1]) + s[n / 2]) / 2;
    CHECK(closeTo(g, e, 4 * EPS * fabsl(e), c, "median"), "median=" << sh(g) << " expected " << sh(static_cast<double>(e)));
    auto a2 = cp; sort(a2.begin(), a2.end()); CHECK(a2 == s, "median changed the multiset of its argument");
    return;
  }
  LD sw = 0, swv = 0, sv = 0, swabs = 0;
  for (size_t i = 0; i < n; ++i) sv += v[i];
  if (weighted && wl == n) for (size_t i = 0; i < n; ++i) { sw += w[i]; swv += static_cast<LD>(w[i]) * v[i]; swabs += fabsl(static_cast<LD>(w[i]) * v[i]); }
  if (weighted && !norm && wl == n && sw > 0) { for (auto& x : w) x = static_cast<double>(x / sw); }  // weights used as given: pre-normalised
  LD m = weighted ? swv / sw : sv / static_cast<LD>(n);
  LD tolM = 4 * (static_cast<LD>(n) + 4) * EPS * (weighted ? swabs / sw : A);
  double gm = 0; vector<double> gc;
  bool t = threw<DimensionException>([&] {
    switch (f) {
      case 1: gm = VT::mean<double, double>(v); break;
      case 2: gm = VT::mean<double, double>(v, w, norm); break;
      case 3: gc = VT::center<double, double>(v); break;
      default: gc = VT::center<double, double>(v, w, norm);
    }
  });
  CHECK(!(t && (!weighted || wl == n)), NM[f] << ": DimensionException although the lengths agree");
  if (t || n == 0 || (weighted && (wl != n || !(sw > 0)))) return;  // undocumented input: not inspected
  if (f <= 2) CHECK(closeTo(gm, m, tolM, c, "mean"), NM[f] << "=" << sh(gm) << " expected " << sh(static_cast<double>(m)) << " tol " << sh(static_cast<double>(tolM)));
  else {
    CHECK(gc.size() == n, NM[f] << " size " << gc.size());
    for (size_t i = 0; i < n; ++i) CHECK(closeTo(gc[i], static_cast<LD>(v[i]) - m, tolM + 2 * EPS * A, c, "center"), NM[f] << "[" << i << "]=" << sh(gc[i]) << " expected " << sh(static_cast<double>(v[i] - m)));
  }
}

// =================================================================== L05 var, sd, cov, cor
// Definitions (two-pass, long double): cov_b = sum w_i (x_i-mx)(y_i-my), w_i = 1/n or normalised weights;
// unbiased: *n/(n-1) resp. /(1-sum w_i^2).  Tolerance K max|x| max|y| with K = 64(n+2)eps (128 weighted), or, when smaller (data
// with a small spread on a large offset), K(max|x| spread(y) + max|y| spread(x) + spread(x) spread(y)) + K^2 max|x| max|y|: both are
// forward error bounds of the centred (two-pass) definition.  cor is inspected only when both variances exceed 100x their tolerance.
// Documented DimensionException: cov/cor (two vectors), weighted var/sd (vector and weights), weighted cov/cor (two vectors).
LAW(L05_moments, RC, 48000, 1440000, 220, "length <= 2, a constant vector, ties, a zero weight or unequal lengths") {
  int f = c.irange(0, 7); size_t n = genLen(c);
  static const char* const NM[] = {"var", "sd", "cov", "cor", "var_w", "sd_w", "cov_w", "cor_w"};
  bool two = f == 2 || f == 3 || f == 6 || f == 7, weighted = f >= 4;
  size_t m = two ? genLen2(c, n) : n, wl = weighted ? genLen2(c, n) : 0;
  int kind = static_cast<int>(c.weighted({3, 2, 1, 2}));
  // kind 3: a small spread on a large offset (|mean| / sd up to 1e12): where a formula that is not the centred definition cancels
  auto gen = [&](size_t k) {
    if (kind == 3) { double off = c.pick({1e4, 1e6, 1e9, -1e9, 1e12, 1099511627776.0, -3e7}); auto v = c.flag() ? genDyadic(c, k, 64) : genReals(c, k, -10, 10); for (auto& e : v) e += off; return v; }
    return kind == 0 ? genDyadic(c, k, 64) : kind == 1 ? genReals(c, k, -100, 100) : vector<double>(k, c.ival(5)); };
  vector<double> x = tight(gen(n)), y = two ? tight(gen(m)) : x; auto w = genWeights(c, wl);
  bool unbiased = c.flag(), norm = !c.oneIn(3);
  bool viaDefaults = c.flag() && unbiased && norm;   // rely on the documented defaults (unbiased = true, normalizeWeights = true)
  c.desc << NM[f] << " x=" << shv(x); if (two) c.desc << " y=" << shv(y); if (weighted) c.desc << " w=" << shv(w) << " normalize=" << norm;
  if (f != 3 && f != 7) c.desc << " unbiased=" << unbiased;
  if (viaDefaults) c.desc << " (trailing arguments left to their defaults)";
  bool zeroW = false; LD sw = 0; for (double v : w) { if (v == 0) zeroW = true; sw += v; }
  c.nt(n <= 2 || hasTies(x) || zeroW || n != m || (weighted && wl != n));
  if (weighted && !norm && sw > 0) for (auto& v : w) v = static_cast<double>(v / sw);
  bool docBad = two ? n != m : (weighted && wl != n);      // the documented mismatch
  bool anyBad = n != m || (weighted && wl != n);
  double g = 0;
  bool t = threw<DimensionException>([&] {
    if (viaDefaults) switch (f) {
      case 0: g = VT::var<double, double>(x); break;
      case 1: g = VT::sd<double, double>(x); break;
      case 2: g = VT::cov<double, double>(x, y); break;
      case 3: g = VT::cor<double, double>(x, y); break;
      case 4: g = VT::var<double, double>(x, w); break;
      case 5: g = VT::sd<double, double>(x, w); break;
      case 6: g = VT::cov<double, double>(x, y, w); break;
      default: g = VT::cor<double, double>(x, y, w);
    }
    else switch (f) {
      case 0: g = VT::var<double, double>(x, unbiased); break;
      case 1: g = VT::sd<double, double>(x, unbiased); break;
      case 2: g = VT::cov<double, double>(x, y, unbiased); break;
      case 3: g = VT::cor<double, double>(x, y); break;
      case 4: g = VT::var<double, double>(x, w, unbiased, norm); break;
      case 5: g = VT::sd<double, double>(x, w, unbiased, norm); break;
      case 6: g = VT::cov<double, double>(x, y, w, unbiased, norm); break;
      default: g = VT::cor<double, double>(x, y, w, norm);
    }
  });
  if (docBad) CHECK(t, NM[f] << ": no DimensionException for lengths " << n << "," << m << "," << wl);
  CHECK(!(t && !anyBad), NM[f] << ": DimensionException although all lengths agree");
  if (anyBad || n == 0 || (weighted && !(sw > 0))) return;
  // reference
  vector<LD> p(n); LD sp2 = 0;
  if (weighted) { LD s = 0; for (double v : w) s += v; for (size_t i = 0; i < n; ++i) { p[i] = w[i] / s; sp2 += p[i] * p[i]; } }
  else for (size_t i = 0; i < n; ++i) { p[i] = 1 / static_cast<LD>(n); sp2 += p[i] * p[i]; }
  LD mx = 0, my = 0, A = 0, B = 0;
  for (size_t i = 0; i < n; ++i) { mx += p[i] * x[i]; my += p[i] * y[i]; A = max<LD>(A, fabsl(x[i])); B = max<LD>(B, fabsl(y[i])); }
  LD cxy = 0, cxx = 0, cyy = 0;
  for (size_t i = 0; i < n; ++i) { cxy += p[i] * (x[i] - mx) * (y[i] - my); cxx += p[i] * (x[i] - mx) * (x[i] - mx); cyy += p[i] * (y[i] - my) * (y[i] - my); }
  LD K = (weighted ? 128 : 64) * (static_cast<LD>(n) + 2) * EPS;
  // forward error of the centred (two-pass) definition: the centred values carry an absolute error ~ n eps max|x|, so the sum of
  // products errs by ~ n eps (max|x| spread(y) + max|y| spread(x)) + second-order terms; the smaller of this and K max|x| max|y| is used
  LD Sx = 0, Sy = 0; for (size_t i = 0; i < n; ++i) { Sx = max<LD>(Sx, fabsl(x[i] - mx)); Sy = max<LD>(Sy, fabsl(y[i] - my)); }
  auto tolOf = [&](LD a, LD sa, LD b, LD sb) { return min<LD>(K * a * b, K * (a * sb + b * sa + sa * sb) + K * K * a * b); };
  const LD TXY = tolOf(A, Sx, B, Sy), TXX = tolOf(A, Sx, A, Sx), TYY = tolOf(B, Sy, B, Sy);
  if (kind == 3) c.label("offset_data");
  LD den = 1 - sp2;  // unbiased: divide by 1 - sum p_i^2  (= (n-1)/n unweighted)
  bool ub = unbiased && f != 3 && f != 7;
  if (ub && den < 1e-6) return;  // one effective observation: x/0, not inspected
  auto fin = [&](LD v, LD tol, LD& outTol) { if (ub) { outTol = (tol + fabsl(v) * 4 * (static_cast<LD>(n) + 2) * EPS) / den; return v / den; } outTol = tol; return v; };
  LD tol = 0;
  switch (f) {
    case 0: case 4: { LD e = fin(cxx, TXX, tol); CHECK(closeTo(g, e, tol, c, "var"), NM[f] << "=" << sh(g) << " expected " << sh(static_cast<double>(e)) << " tol " << sh(static_cast<double>(tol))); CHECK(g >= 0, "negative variance"); break; }
    case 2: case 6: { LD e = fin(cxy, TXY, tol); CHECK(closeTo(g, e, tol, c, "cov"), NM[f] << "=" << sh(g) << " expected " << sh(static_cast<double>(e)) << " tol " << sh(static_cast<double>(tol))); break; }
    case 1: case 5: { LD e = fin(cxx, TXX, tol); LD sd = sqrtl(e);
      LD tsd = e > 4 * tol ? tol / sd + 2 * EPS * sd : 2 * sqrtl(tol) + 2 * EPS * sd;
      CHECK(closeTo(g, sd, tsd, c, "sd"), NM[f] << "=" << sh(g) << " expected " << sh(static_cast<double>(sd)) << " tol " << sh(static_cast<double>(tsd))); break; }
    default: {
      LD tx = TXX, ty = TYY;
      if (f == 3 && n < 2) return;
      if (!(cxx > 100 * tx && cyy > 100 * ty)) return;  // (nearly) constant sample: 0/0, not inspected
      LD e = cxy / (sqrtl(cxx) * sqrtl(cyy));
      LD tc = TXY / (sqrtl(cxx) * sqrtl(cyy)) + tx / cxx + ty / cyy + 16 * EPS;
      CHECK(closeTo(g, e, tc, c, "cor"), NM[f] << "=" << sh(g) << " expected " << sh(static_cast<double>(e)) << " tol " << sh(static_cast<double>(tc)));
      CHECK(std::fabs(g) <= 1 + static_cast<double>(tc), "Cauchy-Schwarz: |cor|=" << sh(std::fabs(g)) << " > 1");
    }
  }
}

// =================================================================== L06 entropy, mutual information
// shannon(freq, base) = -sum_{x>0} x log_base x; shannonDiscrete / miDiscrete recomputed from counts:
// MI = H(X)+H(Y)-H(X,Y) >= 0, symmetric.  miDiscrete documents DimensionException.  The default base is the
// literal 2.7182818 of the signature.
LAW(L06_entropy, RC, 32000, 960000, 150, "length <= 1, ties (repeated states), or unequal lengths") {
  int f = c.irange(0, 2); size_t n = genLen(c); double base = c.pick({2.7182818, 2.0, 10.0}); bool dflt = base == 2.7182818 && c.flag();
  LD lb = logl(static_cast<LD>(base));
  if (f == 0) {
    vector<double> p(n); bool ints = !c.flag(); LD tot = 0;
    for (auto& v : p) { v = ints ? static_cast<double>(c.irange(0, 6)) : (c.oneIn(6) ? 0.0 : c.real(0, 1)); tot += v; }
    if (tot > 0) for (auto& v : p) v = static_cast<double>(v / tot);
    p = tight(p);
    c.desc << "shannon p=" << shv(p) << " base=" << sh(base) << (dflt ? " (default)" : ""); c.nt(n <= 1 || hasTies(p));
    LD e = 0, ab = 0; for (double v : p) if (v > 0) { e -= v * logl(v) / lb; ab += fabsl(v * logl(v) / lb); }
    double g = dflt ? VT::shannon<double, double>(p) : VT::shannon<double, double>(p, base);
    CHECK(closeTo(g, e, 4 * (static_cast<LD>(n) + 4) * EPS * (ab + 1), c, "shannon"), "shannon=" << sh(g) << " expected " << sh(static_cast<double>(e)));
    return;
  }
  int k = c.pick({1, 2, 4}); size_t m = f == 2 ? genLen2(c, n) : n;
  auto x = genInts(c, n, k), y = genInts(c, m, k);
  c.desc << (f == 1 ? "shannonDiscrete" : "miDiscrete") << " x=" << shv(x); if (f == 2) c.desc << " y=" << shv(y); c.desc << " base=" << sh(base) << (dflt ? " (default)" : "");
  c.nt(n <= 1 || hasTies(x) || n != m);
  auto H = [&](const map<pair<int, int>, size_t>& cnt) { LD h = 0; for (auto& kv : cnt) { LD q = static_cast<LD>(kv.second) / static_cast<LD>(n); h -= q * logl(q) / lb; } return h; };
  LD tol = 16 * (static_cast<LD>(n) + 4) * EPS * (1 + logl(static_cast<LD>(n) + 1)) / lb;
  if (f == 1) {
    map<pair<int, int>, size_t> cx; for (int v : x) cx[{v, 0}]++;
    double g = dflt ? VT::shannonDiscrete<int, double>(x) : VT::shannonDiscrete<int, double>(x, base);
    if (n == 0) return;
    CHECK(closeTo(g, H(cx), tol, c, "shannonDiscrete"), "shannonDiscrete=" << sh(g) << " expected " << sh(static_cast<double>(H(cx))));
    return;
  }
  double g = 0, g2 = 0;
  bool t = threw<DimensionException>([&] { g = dflt ? VT::miDiscrete<int, double>(x, y) : VT::miDiscrete<int, double>(x, y, base); });
  CHECK(t == (n != m), "miDiscrete: DimensionException " << (t ? "raised" : "not raised") << " for lengths " << n << "," << m);
  if (t || n == 0) return;
  g2 = dflt ? VT::miDiscrete<int, double>(y, x) : VT::miDiscrete<int, double>(y, x, base);
  map<pair<int, int>, size_t> cx, cy, cxy; for (size_t i = 0; i < n; ++i) { cx[{x[i], 0}]++; cy[{y[i], 0}]++; cxy[{x[i], y[i]}]++; }
  LD e = H(cx) + H(cy) - H(cxy);
  CHECK(closeTo(g, e, 3 * tol, c, "miDiscrete"), "miDiscrete=" << sh(g) << " expected H(X)+H(Y)-H(X,Y)=" << sh(static_cast<double>(e)));
  CHECK(g >= -static_cast<double>(3 * tol), "negative mutual information " << sh(g));
  CHECK(std::fabs(g - g2) <= static_cast<double>(6 * tol), "miDiscrete not symmetric: " << sh(g) << " vs " << sh(g2));
}

// =================================================================== L07 set-like queries (std::set / std::multiset models)
// Weakest documented readings: haveSameElements(const&,const&) ("same elements") must be true for equal multisets and
// false for different sets, either answer otherwise; the non-const overload ("in the same frequency") is multiset
// equality.  vectorUnion(a,b): same set as a∪b, no duplicates when a has none.  vectorIntersection: a subsequence of
// the first vector ("order of the first vector") with the set a∩b.  extract: valid positions only (no exception documented).
namespace {
const char* const SETF[] = {"countValues", "unique", "isUnique", "which", "whichAll", "extract", "contains", "contains<T,U>", "containsAll",
                            "haveSameElements(const)", "haveSameElements", "vectorUnion(a,b)", "vectorUnion(vv)", "vectorIntersection(a,b)",
                            "vectorIntersection<T,U>", "vectorIntersection(vv)"};
}
LAW(L07_sets, RC, 64000, 1920000, 220, "an empty or one-element operand, or repeated elements") {
  int f = c.irange(0, 15); int k = c.pick({2, 4, 12});
  size_t n = genLen(c, 24), m = genLen(c, 24);
  auto a = genInts(c, n, k), b = genInts(c, m, k); int el = static_cast<int>(c.zig(k + 1));
  if (c.oneIn(4)) { b = a; if (c.flag() && !b.empty()) std::swap(b[0], b[b.size() - 1]); if (c.oneIn(3) && !b.empty()) b.pop_back(); b = tight(b); m = b.size(); }
  c.desc << SETF[f] << " a=" << shv(a);
  set<int> sa(a.begin(), a.end()), sb(b.begin(), b.end()); multiset<int> ma(a.begin(), a.end()), mb(b.begin(), b.end());
  c.nt(n <= 1 || hasTies(a));
  switch (f) {
    case 0: { auto g = VT::countValues(a); map<int, size_t> e; for (int v : sa) e[v] = ma.count(v); CHECK(g == e, "countValues differs from the multiset counts"); break; }
    case 1: { auto g = VT::unique(a); CHECK(g == vector<int>(sa.begin(), sa.end()), "unique=" << shv(g)); break; }
    case 2: { bool g = VT::isUnique(a); CHECK(g == (sa.size() == n), "isUnique=" << g); break; }
    case 3: case 4: {
      c.desc << " el=" << el; vector<size_t> pos; for (size_t i = 0; i < n; ++i) if (a[i] == el) pos.push_back(i);
      bool t = threw<ElementNotFoundException<int>>([&] {
        if (f == 3) { size_t g = VT::which(a, el); CHECK(!pos.empty() && g == pos[0], "which=" << g); }
        else { auto g = VT::whichAll(a, el); CHECK(g == pos && !pos.empty(), "whichAll=" << shv(g) << " expected " << shv(pos)); }
      });
      CHECK(t == pos.empty(), SETF[f] << ": ElementNotFoundException " << (t ? "raised" : "not raised") << ", occurrences: " << pos.size());
      break; }
    case 5: {
      vector<size_t> pos(n == 0 ? 0 : m); for (auto& p : pos) p = c.below(n); pos = tight(pos); c.desc << " positions=" << shv(pos);
      auto g = VT::extract(a, pos); vector<int> e; for (size_t p : pos) e.push_back(a[p]); CHECK(g == e, "extract=" << shv(g) << " expected " << shv(e)); break; }
    case 6: { c.desc << " el=" << el; CHECK(VT::contains(a, el) == (sa.count(el) > 0), "contains(" << el << ") wrong"); break; }
    case 7: { c.desc << " el=" << el << "L"; long le = el; CHECK(VT::contains(a, le) == (sa.count(el) > 0), "contains<int,long>(" << el << ") wrong"); break; }
    case 8: {
      c.desc << " b=" << shv(b); bool e = includes(sa.begin(), sa.end(), sb.begin(), sb.end());
      if (n == 0 && m > 0) c.excludeIfKnown("C07-containsall-empty");  // v1.size()-1 wraps, reads v1[0]
      auto a2 = tight(a), b2 = tight(b); bool g = VT::containsAll(a2, b2);
      CHECK(g == e, "containsAll=" << g << " but set(b) " << (e ? "is" : "is not") << " a subset of set(a)");
      CHECK(multiset<int>(a2.begin(), a2.end()) == ma && multiset<int>(b2.begin(), b2.end()) == mb, "containsAll changed the content of its arguments");
      break; }
    case 9: { c.desc << " b=" << shv(b); const vector<int>& ca = a; const vector<int>& cb = b; bool g = VT::haveSameElements(ca, cb);
      if (ma == mb) CHECK(g, "haveSameElements(const) false for equal multisets"); else if (sa != sb) CHECK(!g, "haveSameElements(const) true for different sets"); break; }
    case 10: { c.desc << " b=" << shv(b); auto a2 = tight(a), b2 = tight(b); bool g = VT::haveSameElements(a2, b2);
      CHECK(g == (ma == mb), "haveSameElements=" << g << " but the multisets are " << (ma == mb ? "equal" : "different"));
      CHECK(multiset<int>(a2.begin(), a2.end()) == ma && multiset<int>(b2.begin(), b2.end()) == mb, "haveSameElements changed the content of its arguments"); break; }
    case 11: { c.desc << " b=" << shv(b); auto g = VT::vectorUnion(a, b); set<int> e = sa; e.insert(sb.begin(), sb.end());
      CHECK(set<int>(g.begin(), g.end()) == e, "vectorUnion=" << shv(g) << " is not the union");
      if (sa.size() == n) CHECK(g.size() == e.size(), "vectorUnion=" << shv(g) << " keeps duplicates"); break; }
    case 13: case 14: { c.desc << " b=" << shv(b); vector<long> lb(b.begin(), b.end());
      auto g = f == 13 ? VT::vectorIntersection(a, b) : VT::vectorIntersection(a, lb); set<int> e; for (int v : sa) if (sb.count(v)) e.insert(v);
      CHECK(set<int>(g.begin(), g.end()) == e, SETF[f] << "=" << shv(g) << " is not the intersection");
      CHECK(isSubsequence(g, a), SETF[f] << "=" << shv(g) << " is not in the order of the first vector"); break; }
    default: {  // 12, 15: vector of vectors
      size_t nv = static_cast<size_t>(c.irange(0, 4)); vector<vector<int>> vv; if (nv) vv.push_back(a);
      for (size_t i = 1; i < nv; ++i) vv.push_back(c.oneIn(4) ? a : genInts(c, genLen(c, 12), k));
      c.desc << " vv=" << shvv(vv);
      set<int> un, in; for (auto& v : vv) un.insert(v.begin(), v.end());
      if (nv) for (int v : vv[0]) { bool all = true; for (auto& u : vv) if (!count(u.begin(), u.end(), v)) all = false; if (all) in.insert(v); }
      if (f == 12) { auto g = VT::vectorUnion(vv); CHECK(set<int>(g.begin(), g.end()) == un && g.size() == un.size(), "vectorUnion(vv)=" << shv(g) << " is not the duplicate-free union"); }
      else { auto g = VT::vectorIntersection(vv); CHECK(set<int>(g.begin(), g.end()) == in, "vectorIntersection(vv)=" << shv(g) << " is not the intersection");
        if (nv) CHECK(isSubsequence(g, vv[0]), "vectorIntersection(vv) not in the order of the first vector"); }
    }
  }
}

// =================================================================== L08 builders: append, prepend, extend, rep, diff, seq, breaks, fill
// seq(from,to,by), by>0: from, from±by, ... up to `to` ("from: the beginning (included)"), i.e. floor(|to-from|/by)+1
// terms; real inputs are dyadic with |to-from|/by = k + {0, .25, .5} so that the by/100 guard of the code is irrelevant.
// diff(v1,v2,v3): appended part = set(v1)\set(v2), sorted (multiplicity free: any).  extend: v1 stays a prefix and the
// appended part covers set(v2)\set(v1) without elements of v1.
namespace {
const char* const BLD[] = {"append", "prepend", "append(vv)", "extend", "rep", "diff", "seq<int>", "seq<double>", "breaks", "fill"};
}
LAW(L08_builders, RC, 48000, 1440000, 200, "an empty operand, repeated elements, from >= to, or a range of width 0") {
  int f = c.irange(0, 9); int k = c.pick({2, 4, 12});
  c.desc << BLD[f];
  if (f == 6 || f == 7) {
    int cnt = c.irange(0, 20), fr = c.irange(0, 2); bool down = c.flag();
    if (f == 6) {
      int from = static_cast<int>(c.zig(20)), by = c.irange(1, 5), to = down ? from - (cnt * by + fr % by) : from + (cnt * by + fr % by);
      c.desc << " from=" << from << " to=" << to << " by=" << by; c.nt(from >= to);
      vector<int> e; for (int i = 0; i <= cnt; ++i) e.push_back(down ? from - i * by : from + i * by);
      if (from > to) c.excludeIfKnown("C07-seq-descending");
      auto g = VT::seq(from, to, by); CHECK(g == e, "seq=" << shv(g) << " expected " << shv(e));
    } else if (c.oneIn(3)) {
      // decimal steps: `to` is from + cnt*by up to rounding and is documented as included ("to: The end (included)"); with a fraction
      // of a step left over (fr = 1, 2: a quarter / half step) the sequence stops at the last term before `to`
      int b10 = c.pick({1, 2, 3, 5, 7, 11}), f10 = static_cast<int>(c.zig(30)), sc = c.pick({10, 100, 1000});
      double from = static_cast<double>(f10) / sc, by = static_cast<double>(b10) / sc;
      int sgn = down ? -1 : 1; bool literal = c.flag();
      double to = fr == 0 ? (literal ? static_cast<double>(f10 + sgn * cnt * b10) / sc : from + sgn * cnt * by) : from + sgn * (cnt + fr * 0.25) * by;
      c.desc << " from=" << sh(from) << " to=" << sh(to) << " by=" << sh(by) << " (decimal, " << cnt << (fr ? "+frac" : "") << " steps)"; c.nt(from >= to); c.label("seq_decimal");
      if (from > to) c.excludeIfKnown("C07-seq-descending");
      auto g = VT::seq(from, to, by);
      CHECK(g.size() == static_cast<size_t>(cnt) + 1, "seq has " << g.size() << " terms, expected " << cnt + 1 << " (from, from+-by, ... up to the included end): " << shv(g));
      for (int i = 0; i <= cnt; ++i) { double e = from + sgn * i * by, tol = 4.0 * (i + 2) * DBL_EPSILON * (std::fabs(from) + i * by);
        CHECK(std::fabs(g[static_cast<size_t>(i)] - e) <= tol, "seq term " << i << " = " << sh(g[static_cast<size_t>(i)]) << " expected " << sh(e)); }
    } else {
      double from = c.ival(40) / 4, by = c.pick({1.0, 0.5, 0.25, 0.125, 2.0}), d = (cnt + fr * 0.25) * by, to = down ? from - d : from + d;
      c.desc << " from=" << sh(from) << " to=" << sh(to) << " by=" << sh(by); c.nt(from >= to);
      vector<double> e; for (int i = 0; i <= cnt; ++i) e.push_back(down ? from - i * by : from + i * by);
      if (from > to) c.excludeIfKnown("C07-seq-descending");
      auto g = VT::seq(from, to, by); CHECK(sameVec(g, e), "seq=" << shv(g) << " expected " << shv(e));
    }
    return;
  }
  if (f == 8) {
    size_t n = genLen(c); bool dy = !c.flag(); auto v = dy ? genDyadic(c, n, 64) : genReals(c, n, -100, 100); unsigned nc = static_cast<unsigned>(c.irange(1, 9));
    c.desc << " v=" << shv(v) << " n=" << nc;
    vector<double> g; bool t = threw<EmptyVectorException<double>>([&] { g = VT::breaks(v, nc); });
    CHECK(!(t && n > 0), "breaks: EmptyVectorException for a non-empty vector"); if (n == 0) { c.nt(); return; }
    double mn = *min_element(v.begin(), v.end()), mx = *max_element(v.begin(), v.end()); c.nt(mn == mx);
    CHECK(g.size() == nc + 1, "breaks returned " << g.size() << " points for " << nc << " classes");
    CHECK(g[0] == mn && g[nc] == mx, "breaks end points " << sh(g[0]) << "," << sh(g[nc]) << " expected " << sh(mn) << "," << sh(mx));
    for (unsigned i = 0; i <= nc; ++i) { LD e = mn + (static_cast<LD>(mx) - mn) * i / nc; CHECK(closeTo(g[i], e, 8 * EPS * (fabsl(mn) + fabsl(mx)), c, "breaks"), "breaks[" << i << "]=" << sh(g[i]) << " expected " << sh(static_cast<double>(e))); }
    return;
  }
  size_t n = genLen(c, 24), m = genLen(c, 24); auto a = genInts(c, n, k), b = genInts(c, m, k);
  c.desc << " a=" << shv(a); set<int> sa(a.begin(), a.end()), sb(b.begin(), b.end());
  c.nt(n == 0 || m == 0 || hasTies(a));
  switch (f) {
    case 0: case 1: { c.desc << " b=" << shv(b); auto g = tight(a); vector<int> e = f == 0 ? a : b; const auto& second = f == 0 ? b : a; e.insert(e.end(), second.begin(), second.end());
      if (f == 0) VT::append(g, b); else VT::prepend(g, b); CHECK(g == e, BLD[f] << "=" << shv(g) << " expected " << shv(e)); break; }
    case 2: { size_t nv = static_cast<size_t>(c.irange(0, 4)); vector<vector<int>> vv; if (nv) vv.push_back(a); for (size_t i = 1; i < nv; ++i) vv.push_back(genInts(c, genLen(c, 12), k));
      c.desc << " vv=" << shvv(vv); vector<int> e, rest; for (size_t i = 0; i < vv.size(); ++i) { e.insert(e.end(), vv[i].begin(), vv[i].end()); if (i) rest.insert(rest.end(), vv[i].begin(), vv[i].end()); }
      if (!rest.empty()) c.excludeIfKnown("C07-append-vv-first-only");
      auto g = VT::append(vv); CHECK(g == e, "append(vv)=" << shv(g) << " expected the concatenation " << shv(e)); break; }
    case 3: { c.desc << " b=" << shv(b); auto g = tight(a); VT::extend(g, b);
      CHECK(g.size() >= n && vector<int>(g.begin(), g.begin() + static_cast<long>(n)) == a, "extend changed the existing elements: " << shv(g));
      set<int> tail(g.begin() + static_cast<long>(n), g.end()), e; for (int v : sb) if (!sa.count(v)) e.insert(v);
      CHECK(tail == e, "extend appended " << shv(vector<int>(g.begin() + static_cast<long>(n), g.end())) << ", expected the elements of b absent from a"); break; }
    case 4: { size_t r = static_cast<size_t>(c.irange(0, 4)); c.desc << " times=" << r; vector<int> e; for (size_t i = 0; i < r; ++i) e.insert(e.end(), a.begin(), a.end());
      auto g = VT::rep(a, r); CHECK(g == e, "rep=" << shv(g) << " expected " << shv(e)); break; }
    case 5: { c.desc << " b=" << shv(b); vector<int> pre = c.flag() ? vector<int>{99, 98} : vector<int>(); c.desc << " v3=" << shv(pre);
      if (m == 0 && n > 0) c.excludeIfKnown("C07-diff-empty-v2");  // appends v1, falls through, v2.size()-1 wraps, reads v2[0]
      auto a2 = tight(a), b2 = tight(b), g = tight(pre); VT::diff(a2, b2, g);
      CHECK(g.size() >= pre.size() && vector<int>(g.begin(), g.begin() + static_cast<long>(pre.size())) == pre, "diff changed the existing content of v3");
      vector<int> tl(g.begin() + static_cast<long>(pre.size()), g.end()); set<int> e; for (int v : sa) if (!sb.count(v)) e.insert(v);
      CHECK(set<int>(tl.begin(), tl.end()) == e, "diff appended " << shv(tl) << ", expected the elements of a not in b: " << shv(vector<int>(e.begin(), e.end())));
      CHECK(nonDecreasing(tl), "diff output not sorted: " << shv(tl)); break; }
    default: { int val = static_cast<int>(c.zig(9)); c.desc << " value=" << val; auto g = tight(a); VT::fill(g, val); CHECK(g == vector<int>(n, val), "fill=" << shv(g)); }
  }
}

// =================================================================== L09 log-domain reductions (unweighted)
// Reference: long double, shifted by the maximum.  Tolerance 8(n+4)eps*max(1,|ref|) (forward error of the shifted sum:
// each exp(v_i-M) carries an absolute error <= ~eps, the sum is >= 1).  No exception is documented: for the empty vector an
// EmptyVectorException (raised by max) is tolerated, an out-of-range access is not.
namespace {
vector<double> genLogVec(vf::Ctx& c, size_t n, bool allowPlusInf, bool* integral) {
  vector<double> v(n); int mode = static_cast<int>(c.weighted({3, 4, 2, 2})); *integral = mode <= 1;
  double B = mode == 1 ? c.pick({700.0, -700.0, 745.0, -745.0, 710.0, 1e4, -1e4, 1e9}) : 0;
  static const double HUGE_[] = {1e300, -1e300, 5e299, 9.999999999999999e299, 0.0, 700.0, -700.0, 1.7e308};
  bool allLogZero = c.oneIn(25);
  for (auto& x : v) {
    switch (mode) {
      case 0: x = static_cast<double>(c.zig(5)); break;
      case 1: x = B + static_cast<double>(c.oneIn(3) ? -c.irange(0, 800) : static_cast<int>(c.zig(5))); break;
      case 2: x = c.real(-1500, 1500); break;
      default: x = HUGE_[c.below(8)];
    }
    if (allLogZero || c.oneIn(8)) x = -INF; else if (allowPlusInf && c.oneIn(40)) x = INF;
  }
  return tight(v);
}
bool logNT(const vector<double>& v) {
  if (v.size() <= 1) return true;
  double M = *max_element(v.begin(), v.end());
  for (double x : v) if (std::isinf(x) || std::fabs(x) > 709 || M - x > 745) return true;
  return false;
}
const char* const LOGF[] = {"logSumExp", "logMeanExp", "sumExp", "logNorm", "shift"};
}  // namespace

LAW(L09_logdomain, RC, 48000, 1440000, 210, "length <= 1, a -inf/+inf entry, an entry whose exp over/underflows (|x|>709) or vanishes against the maximum") {
  int f = c.irange(0, 4); size_t n = genLen(c); bool integral = false;
  auto v = genLogVec(c, n, f != 3, &integral);
  c.desc << LOGF[f] << " v=" << shv(v); c.nt(logNT(v));
  if (n == 0) {
    if (f == 2) c.excludeIfKnown("C07-sumexp-empty");  // tests size()==0 and then reads v1[0]
    (void)threw<EmptyVectorException<double>>([&] { switch (f) { case 0: case 4: VT::logSumExp(v); break; case 1: VT::logMeanExp(v); break; case 2: VT::sumExp(v); break; default: { auto u = v; VT::logNorm(u); } } });
    return;  // result not inspected
  }
  LD ref = lseRef(v); double M = *max_element(v.begin(), v.end());
  LD tol = 8 * (static_cast<LD>(n) + 4) * EPS * max<LD>(1, fabsl(ref));
  auto lseOk = [&](double g, LD r, LD tl, const char* what) {
    if (std::isinf(static_cast<double>(r)) && std::isinf(r)) { CHECK(g == static_cast<double>(r), what << "=" << sh(g) << " expected " << sh(static_cast<double>(r))); return; }
    CHECK(std::isfinite(g), what << "=" << sh(g) << " is not finite, the true value is " << sh(static_cast<double>(r)));
    CHECK(closeTo(g, r, tl, c, "logSumExp"), what << "=" << sh(g) << " expected " << sh(static_cast<double>(r)) << " tol " << sh(static_cast<double>(tl)));
  };
  switch (f) {
    case 0: { double g = VT::logSumExp(v); lseOk(g, ref, tol, "logSumExp");
      if (std::isfinite(M)) { CHECK(g >= M, "logSumExp=" << sh(g) << " below the maximum " << sh(M)); CHECK(g <= M + std::log(static_cast<double>(n)) + static_cast<double>(tol), "logSumExp=" << sh(g) << " above max+log n"); }
      break; }
    case 1: { double g = VT::logMeanExp(v); LD r = ref - logl(static_cast<LD>(n)); lseOk(g, r, tol + 4 * EPS * max<LD>(1, fabsl(r)), "logMeanExp");
      if (std::isfinite(M)) CHECK(g <= M + static_cast<double>(tol), "logMeanExp=" << sh(g) << " above the maximum"); break; }
    case 2: {  // sum_i exp(v_i): +inf iff the true value exceeds the double range
      LD s = 0; for (double x : v) s += expl(static_cast<LD>(x)); double g = VT::sumExp(v);
      CHECK(!std::isnan(g) && g >= 0, "sumExp=" << sh(g));
      if (s > 1.8e308L) CHECK(g == INF, "sumExp=" << sh(g) << " but the true value overflows");
      else if (s > 1.7e308L) break;  // at the edge of the range: either
      else { CHECK(std::isfinite(g), "sumExp=" << sh(g) << " but the true value " << sh(static_cast<double>(s)) << " is finite");
        CHECK(closeTo(g, s, 8 * (static_cast<LD>(n) + 4) * EPS * s + 1e-300L, c, "sumExp"), "sumExp=" << sh(g) << " expected " << sh(static_cast<double>(s))); }
      break; }
    case 3: {  // logNorm: v - logSumExp(v), afterwards sum exp = 1
      auto u = tight(v); VT::logNorm(u); if (!std::isfinite(static_cast<double>(ref))) break;  // all log-zero: -inf - -inf, not inspected
      CHECK(u.size() == n, "logNorm changed the size"); LD s = 0;
      for (size_t i = 0; i < n; ++i) {
        if (std::isinf(v[i])) { CHECK(u[i] == v[i], "logNorm[" << i << "]=" << sh(u[i])); continue; }
        LD e = static_cast<LD>(v[i]) - ref; CHECK(closeTo(u[i], e, tol + 4 * EPS * fabsl(e), c, "logNorm"), "logNorm[" << i << "]=" << sh(u[i]) << " expected " << sh(static_cast<double>(e))); s += expl(static_cast<LD>(u[i]));
      }
      if (fabsl(ref) < 1e6) CHECK(fabsl(s - 1) <= 4 * (static_cast<LD>(n) + 4) * (tol + 4 * EPS * 800), "after logNorm sum exp = " << sh(static_cast<double>(s)));
      break; }
    default: {  // shift equivariance f(v+s) = f(v)+s with an exactly representable shift
      double s = c.pick({1.0, -1.0, 50.0, -50.0, 700.0, -700.0, 1e4, -1e4, 1e9}); c.desc << " shift=" << sh(s);
      vector<double> u(n); bool exact = true;
      for (size_t i = 0; i < n; ++i) { u[i] = v[i] + s; if (std::isfinite(v[i]) && static_cast<LD>(u[i]) != static_cast<LD>(v[i]) + s) exact = false; }
      if (!exact) throw vf::Skip();  // v+s is not the shifted vector
      u = tight(u); double g0 = VT::logSumExp(v), g1 = VT::logSumExp(u);
      if (std::isinf(static_cast<double>(ref))) { CHECK(g1 == g0, "shift of an infinite logSumExp: " << sh(g0) << " -> " << sh(g1)); break; }
      LD t2 = tol + 8 * (static_cast<LD>(n) + 4) * EPS * max<LD>(1, fabsl(ref + s));
      CHECK(fabsl(static_cast<LD>(g1) - (static_cast<LD>(g0) + s)) <= t2, "logSumExp(v+s)=" << sh(g1) << " but logSumExp(v)+s=" << sh(g0 + s));
      double m0 = VT::logMeanExp(v), m1 = VT::logMeanExp(u);
      CHECK(fabsl(static_cast<LD>(m1) - (static_cast<LD>(m0) + s)) <= t2 + 8 * EPS * fabsl(ref + s), "logMeanExp(v+s)=" << sh(m1) << " but logMeanExp(v)+s=" << sh(m0 + s));
    }
  }
}

// =================================================================== L10 weighted log-domain reductions
// logSumExp(v,w) = log sum w_i exp(v_i), sumExp(v,w) = sum w_i exp(v_i), w >= 0, no +inf entry.
// Accepted: DimensionException for unequal lengths, EmptyVectorException for empty input (nothing documented); for an
// all-(-inf) vector the code deliberately raises BadNumberException: accepted as well as the value log 0 / 0.
LAW(L10_logdomain_weighted, RC, 48000, 1440000, 280, "length <= 1, a -inf entry, a zero weight, or an entry whose exp over/underflows") {
  int f = c.irange(0, 1); size_t n = genLen(c), m = genLen2(c, n); bool integral = false;
  auto v = genLogVec(c, n, false, &integral); auto w = genWeights(c, m);
  if (c.oneIn(4) && n == m && n > 1) { size_t p = static_cast<size_t>(max_element(v.begin(), v.end()) - v.begin()); w[p] = 0; }  // the maximum carries no weight
  c.desc << (f ? "sumExp_w" : "logSumExp_w") << " v=" << shv(v) << " w=" << shv(w);
  bool zeroW = false; for (double x : w) if (x == 0) zeroW = true; c.nt(logNT(v) || zeroW);
  double g = 0; int exc = 0;
  auto call = [&] { try { g = f ? VT::sumExp(v, w) : VT::logSumExp(v, w); } catch (DimensionException&) { exc = 1; } catch (EmptyVectorException<double>&) { exc = 2; } catch (BadNumberException&) { exc = 3; } };
  if (n != m) { call(); CHECK(exc == 1 || exc == 0, "unexpected exception kind " << exc << " for unequal lengths"); return; }
  if (n == 0) { call(); CHECK(exc == 2 || exc == 0, "unexpected exception kind " << exc << " for empty input"); return; }
  double Mall = *max_element(v.begin(), v.end()); LD Meff; LD ref = wlseRef(v, w, &Meff);
  double Mz = -INF; for (size_t i = 0; i < n; ++i) if (w[i] == 0 && v[i] > Mz) Mz = v[i];  // largest entry of weight zero
  bool zeroOnTop = std::isfinite(Mz) && static_cast<LD>(Mz) > Meff;
  LD D = zeroOnTop && !std::isinf(Meff) ? static_cast<LD>(Mz) - Meff : 0;  // distance between the shift used and the largest weighted entry
  // entries of weight zero take part in the shift and in the products: the weighted terms underflow (D > 690) or 0*exp(v) = 0*inf
  if (zeroOnTop && (D > 690 || (f == 1 && Mz > 709.78))) c.excludeIfKnown("C07-weighted-zero-weight");
  LD strue = 0; for (size_t i = 0; i < n; ++i) if (w[i] > 0) strue += static_cast<LD>(w[i]) * expl(static_cast<LD>(v[i]));
  // exp(M) overflows although sum w_i exp(v_i) is representable (weights < 1)
  if (f == 1 && !std::isinf(Meff) && Meff > 709.78 && strue < 1.7e308L) c.excludeIfKnown("C07-sumexp-w-premature-overflow");
  call();
  CHECK(exc == 0 || (exc == 3 && std::isinf(Mall) && !(f == 1 && n == 1)), "unexpected exception kind " << exc << " (max=" << sh(Mall) << ")");
  if (exc) return;
  LD tolL = 8 * (static_cast<LD>(n) + 4) * EPS * (1 + D) + 8 * EPS * max<LD>(1, fabsl(ref));
  if (f == 0) {
    if (std::isinf(ref)) { CHECK(g == static_cast<double>(ref), "logSumExp_w=" << sh(g) << " expected " << sh(static_cast<double>(ref))); return; }
    CHECK(std::isfinite(g), "logSumExp_w=" << sh(g) << " is not finite, the true value is " << sh(static_cast<double>(ref)));
    CHECK(closeTo(g, ref, tolL, c, "logSumExp_w"), "logSumExp_w=" << sh(g) << " expected " << sh(static_cast<double>(ref)) << " tol " << sh(static_cast<double>(tolL)));
  } else {
    CHECK(!std::isnan(g) && g >= 0, "sumExp_w=" << sh(g) << ", true value " << sh(static_cast<double>(strue)));
    if (strue > 1.8e308L) CHECK(g == INF, "sumExp_w=" << sh(g) << " but the true value overflows");
    else if (strue > 1.7e308L) return;
    else { CHECK(std::isfinite(g), "sumExp_w=" << sh(g) << " but the true value " << sh(static_cast<double>(strue)) << " is finite");
      CHECK(closeTo(g, strue, (8 * (static_cast<LD>(n) + 4) * EPS * (1 + D) + 8 * EPS) * strue + 1e-290L, c, "sumExp_w"), "sumExp_w=" << sh(g) << " expected " << sh(static_cast<double>(strue))); }
  }
}

// =================================================================== L11 pairwise log-sum
namespace {
void logsumCheck(vf::Ctx& c, double a, double b) {
  c.desc << "logsum(" << sh(a) << "," << sh(b) << ")";
  c.nt(std::isinf(a) || std::isinf(b) || std::fabs(a - b) > 36 || a == b);
  if (a == b && std::isinf(a)) c.excludeIfKnown("C07-logsum-equal-infinities");  // lnx - lny = inf - inf = NaN
  double g = NumTools::logsum(a, b), h = NumTools::logsum(b, a);
  CHECK(vf::sameBits(g, h) || (std::isnan(g) && std::isnan(h)), "logsum not commutative: " << sh(g) << " vs " << sh(h));
  double M = std::max(a, b), mlo = std::min(a, b);
  if (std::isinf(M)) { CHECK(g == M, "logsum=" << sh(g) << " expected " << sh(M)); return; }
  LD ref = static_cast<LD>(M) + log1pl(expl(static_cast<LD>(mlo) - M)); LD tol = 8 * EPS * max<LD>(1, fabsl(ref));
  CHECK(std::isfinite(g), "logsum=" << sh(g) << " is not finite, the true value is " << sh(static_cast<double>(ref)));
  CHECK(closeTo(g, ref, tol, c, "logsum"), "logsum=" << sh(g) << " expected " << sh(static_cast<double>(ref)));
  CHECK(g >= M && g <= M + std::log(2.0) + static_cast<double>(tol), "logsum=" << sh(g) << " outside [max, max+log 2]");
}
const double LAT[] = {0.0, -INF, -1.0, 1.0, -745.0, 709.0, -1e300, 1e300, INF, 36.5, 1e-300};
}  // namespace
LAW(L11_logsum_enum, ENUM, 1, 1, 0, "an infinite argument, equal arguments, or a difference > 36") { double a = LAT[c.below(11)], b = LAT[c.below(11)]; logsumCheck(c, a, b); }
LAW(L11_logsum, RC, 24000, 720000, 8, "an infinite argument, equal arguments, or a difference > 36") {
  auto gen = [&]() -> double {
    switch (c.weighted({3, 3, 2, 2, 1})) {
      case 0: return c.ival(40) / 4;
      case 1: return c.real(-50, 50);
      case 2: return c.pick({700.0, -700.0, 1e4, -1e4, 1e300, -1e300}) + c.ival(40);
      case 3: return c.real(-2000, 2000);
      default: return c.flag() ? INF : -INF;
    }
  };
  double a = gen(), b = c.oneIn(5) ? a : gen(); logsumCheck(c, a, b);
}

// =================================================================== L12 false discovery rate
// fdr_i = p_i * n / rank_i, rank = 1-based position of p_i among the p-values sorted increasingly (Benjamini-Hochberg);
// within a group of tied p-values any rank of the group is accepted.
LAW(L12_fdr, RC, 32000, 960000, 80, "length <= 1, tied p-values, or input not already sorted") {
  size_t n = genLen(c); vector<double> p(n); bool grid = !c.flag(); bool sorted = c.oneIn(4);
  for (auto& x : p) x = grid ? static_cast<double>(c.irange(0, 16)) / 16 : c.real(0, 1);
  if (sorted) sort(p.begin(), p.end());
  p = tight(p); c.desc << "computeFdr p=" << shv(p);
  vector<size_t> lo(n), hi(n); bool indexIsRank = true;
  for (size_t i = 0; i < n; ++i) { lo[i] = 1; hi[i] = 0; for (size_t j = 0; j < n; ++j) { if (p[j] < p[i]) ++lo[i]; if (p[j] <= p[i]) ++hi[i]; }
    if (p[i] != 0 && (i + 1 < lo[i] || i + 1 > hi[i])) indexIsRank = false; }
  c.nt(n <= 1 || hasTies(p) || !indexIsRank);
  if (!indexIsRank) c.excludeIfKnown("C07-fdr-divides-by-index");  // some p-value's input position is not one of its ranks
  auto g = StatTools::computeFdr(p); CHECK(g.size() == n, "computeFdr returned " << g.size() << " values for " << n);
  for (size_t i = 0; i < n; ++i) {
    bool ok = false;
    for (size_t r = lo[i]; r <= hi[i] && !ok; ++r) { LD e = static_cast<LD>(p[i]) * static_cast<LD>(n) / static_cast<LD>(r); if (fabsl(g[i] - e) <= 4 * EPS * e) ok = true; }
    CHECK(ok, "fdr[" << i << "]=" << sh(g[i]) << " for p=" << sh(p[i]) << ", n=" << n << ", admissible ranks " << lo[i] << ".." << hi[i] << " (p*n/rank = " << sh(p[i] * static_cast<double>(n) / static_cast<double>(hi[i])) << ".." << sh(p[i] * static_cast<double>(n) / static_cast<double>(lo[i])) << ")");
  }
}

static struct Init { Init() { vf::G().resetHook = [] { vf::quietBpp(); vf::installAudit(); }; } } init_;
VF_MAIN("C07")
